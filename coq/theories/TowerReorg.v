(* TowerReorg.v — C04: the responder follows the active chain through reorgs.
   Functional specifications of check_conf_loop / reorged_loop / stale_loop / the two listeners,
   the refund accounting of a block, and the height invariant along runs. *)
From TeosModel Require Import Base ListAux TxIndex TxIndexProofs Tower TowerStable TowerInv TowerProofs.
From TeosModel.Gen Require Consts.
From Coq Require Import Lia.
Local Open Scope N_scope.

Definition IRR : N := Z.to_N Consts.IRREVOCABLY_RESOLVED.
Definition RETRY : N := Z.to_N Consts.CONFIRMATIONS_BEFORE_RETRY.
Lemma IRR_100 : IRR = 100. Proof. reflexivity. Qed.
Lemma RETRY_6 : RETRY = 6. Proof. reflexivity. Qed.

(* ------------------------------------------------------------------------------------------ *)
(* vocabulary *)

Definition restamp (k : trk) (h : N) (c : bool) : trk :=
  mk_trk (t_loc k) (t_user k) (t_dispute k) (t_penalty k) h c.

Definition confirmed_by (txids : list N) (k : trk) : bool := memN (t_penalty k) txids.

(* k completes in the block of height h: not confirmed by this very block, not marked as reorged,
   ConfirmedIn x with h.saturating_sub(x) = IRREVOCABLY_RESOLVED (N subtraction truncates at 0) *)
Definition completes (txids : list N) (h : N) (reorg : list (N * N)) (k : trk) : bool :=
  negb (memN (t_penalty k) txids) && negb (mem_uuid (trk_uuid k) reorg) && t_conf k
  && N.eqb (h - t_height k) IRR.

Definition completed_list (txids : list N) (h : N) (t : tower) : list (N * N) :=
  map trk_uuid (filter (completes txids h (reorged t)) (db_trks t)).

Definition conf_uuids (txids : list N) (snap : list trk) : list (N * N) :=
  map trk_uuid (filter (confirmed_by txids) snap).

Definition cc_state (t : tower) (h : N) (C : list (N * N)) : tower :=
  set_reorged (set_db_trks t (map (fun k => if mem_uuid (trk_uuid k) C then restamp k h true else k) (db_trks t)))
              (filter (fun u => negb (mem_uuid u C)) (reorged t)).

(* ------------------------------------------------------------------------------------------ *)
(* small facts *)

Lemma restamp_uuid k h c : trk_uuid (restamp k h c) = trk_uuid k.
Proof. reflexivity. Qed.

Lemma restamp_restamp k h c h' c' : restamp (restamp k h c) h' c' = restamp k h' c'.
Proof. reflexivity. Qed.

Lemma set_trk_status_eq t uuid h c :
  set_trk_status t uuid h c =
  set_db_trks t (map (fun k => if uuid_eqb (trk_uuid k) uuid then restamp k h c else k) (db_trks t)).
Proof. reflexivity. Qed.

Lemma uuid_eqb_sym a b : uuid_eqb a b = uuid_eqb b a.
Proof. unfold uuid_eqb. rewrite (N.eqb_sym (fst a)), (N.eqb_sym (snd a)). reflexivity. Qed.

Lemma uuid_eqb_neq a b : uuid_eqb a b = false <-> a <> b.
Proof.
  split.
  - intros H E. apply uuid_eqb_eq in E. congruence.
  - intros H. destruct (uuid_eqb a b) eqn:E; [|reflexivity]. apply uuid_eqb_eq in E. contradiction.
Qed.

Lemma mem_uuid_false u l : mem_uuid u l = false <-> ~ In u l.
Proof.
  split.
  - intros H Hi. apply mem_uuid_In in Hi. congruence.
  - intros H. destruct (mem_uuid u l) eqn:E; [|reflexivity]. apply mem_uuid_In in E. contradiction.
Qed.

Lemma mem_uuid_cons u x l : mem_uuid u (x :: l) = uuid_eqb u x || mem_uuid u l.
Proof. reflexivity. Qed.

Lemma mem_uuid_filter_neq u v l :
  u <> v -> mem_uuid u (filter (fun x => negb (uuid_eqb x v)) l) = mem_uuid u l.
Proof.
  intros Hn. induction l as [|x l IH]; [reflexivity|]. cbn [filter].
  destruct (uuid_eqb x v) eqn:E; cbn [negb].
  - rewrite mem_uuid_cons, IH. apply uuid_eqb_eq in E. subst x.
    apply uuid_eqb_neq in Hn. rewrite Hn. reflexivity.
  - rewrite !mem_uuid_cons, IH. reflexivity.
Qed.

Lemma find_trk_map (f : trk -> trk) l u :
  (forall k, trk_uuid (f k) = trk_uuid k) -> find_trk (map f l) u = option_map f (find_trk l u).
Proof.
  intros Hf. unfold find_trk. induction l as [|k l IH]; [reflexivity|]. cbn [map find].
  rewrite Hf. destruct (uuid_eqb (trk_uuid k) u); [reflexivity|exact IH].
Qed.

Lemma find_trk_In_NoDup l k :
  NoDup (map trk_uuid l) -> In k l -> find_trk l (trk_uuid k) = Some k.
Proof.
  unfold find_trk. induction l as [|x l IH]; intros Hn Hi; [destruct Hi|]. cbn [map] in Hn.
  apply NoDup_cons_iff in Hn. destruct Hn as [Hx Hn]. cbn [find].
  destruct Hi as [Hi|Hi].
  - subst x. rewrite uuid_eqb_refl. reflexivity.
  - destruct (uuid_eqb (trk_uuid x) (trk_uuid k)) eqn:E; [|apply IH; assumption].
    apply uuid_eqb_eq in E. exfalso. apply Hx. rewrite E. apply in_map. exact Hi.
Qed.

Lemma find_trk_In l k : In k l -> find_trk l (trk_uuid k) <> None.
Proof. intros Hi Hn. apply (find_trk_None _ _ Hn). apply in_map. exact Hi. Qed.

Lemma find_trk_set_status t uuid h c u :
  find_trk (db_trks (set_trk_status t uuid h c)) u =
  option_map (fun k => if uuid_eqb (trk_uuid k) uuid then restamp k h c else k) (find_trk (db_trks t) u).
Proof.
  rewrite set_trk_status_eq. cbn [db_trks set_db_trks]. apply find_trk_map.
  intros k. destruct (uuid_eqb (trk_uuid k) uuid); reflexivity.
Qed.

Lemma filter_ext_in' {A} (f g : A -> bool) l : (forall a, In a l -> f a = g a) -> filter f l = filter g l.
Proof.
  induction l as [|x l IH]; intros H; [reflexivity|]. cbn [filter].
  rewrite (H x (or_introl eq_refl)). rewrite IH; [reflexivity|]. intros a Ha. apply H. right. exact Ha.
Qed.

Lemma existsb_ext_in {A} (f g : A -> bool) l : (forall a, In a l -> f a = g a) -> existsb f l = existsb g l.
Proof.
  induction l as [|x l IH]; intros H; [reflexivity|]. cbn [existsb].
  rewrite (H x (or_introl eq_refl)). rewrite IH; [reflexivity|]. intros a Ha. apply H. right. exact Ha.
Qed.

Lemma filter_true {A} (l : list A) : filter (fun _ => true) l = l.
Proof. induction l as [|x l IH]; [reflexivity|]. cbn [filter]. rewrite IH. reflexivity. Qed.

(* ------------------------------------------------------------------------------------------ *)
(* 1. check_confirmations *)

Lemma cc_state_step t h uuid C :
  cc_state (set_reorged (set_trk_status t uuid h true)
                        (filter (fun u => negb (uuid_eqb u uuid)) (reorged (set_trk_status t uuid h true)))) h C
  = cc_state t h (uuid :: C).
Proof.
  unfold cc_state, set_reorged, set_trk_status, set_db_trks.
  cbn [cfg gk_users gk_height db_users db_apps db_trks w_height w_cache r_index car_height car_memo reorged rpc_log].
  f_equal.
  - rewrite map_map. apply map_ext. intros k. rewrite mem_uuid_cons.
    destruct (uuid_eqb (trk_uuid k) uuid) eqn:E; cbn [orb]; [|reflexivity].
    unfold restamp, trk_uuid. cbn [t_loc t_user t_dispute t_penalty].
    destruct (mem_uuid (t_loc k, t_user k) C); reflexivity.
  - induction (reorged t) as [|x l IH]; [reflexivity|]. cbn [filter]. rewrite mem_uuid_cons.
    destruct (uuid_eqb x uuid); cbn [negb orb filter]; [exact IH|].
    destruct (mem_uuid x C); cbn [negb]; [exact IH|rewrite IH; reflexivity].
Qed.

Lemma cc_state_nil t h : cc_state t h [] = t.
Proof.
  unfold cc_state. cbn [mem_uuid existsb negb]. rewrite filter_true, map_id. destruct t; reflexivity.
Qed.

Section CheckConf.
  Context (le : bool) (txids : list N) (h : N).

  Lemma cc_reorg_ext (f : list (N * N) -> trk -> bool) uuid rg (r : list trk) :
    (forall l l' k, mem_uuid (trk_uuid k) l = mem_uuid (trk_uuid k) l' -> f l k = f l' k) ->
    ~ In uuid (map trk_uuid r) ->
    forall k, In k r -> f (filter (fun u => negb (uuid_eqb u uuid)) rg) k = f rg k.
  Proof.
    intros Hf Hn k Hk. apply Hf. apply mem_uuid_filter_neq. intros E. apply Hn. rewrite <- E. apply in_map. exact Hk.
  Qed.

  Lemma completes_dep l l' k :
    mem_uuid (trk_uuid k) l = mem_uuid (trk_uuid k) l' -> completes txids h l k = completes txids h l' k.
  Proof. unfold completes. intros ->. reflexivity. Qed.

  Lemma check_conf_loop_ok snap : forall t comp0,
    NoDup (map trk_uuid snap) ->
    (forall k, In k snap -> find_trk (db_trks t) (trk_uuid k) <> None) ->
    check_conf_loop le txids h snap t comp0 =
      Ok (comp0 ++ map trk_uuid (filter (completes txids h (reorged t)) snap))
         (cc_state t h (conf_uuids txids snap)).
  Proof.
    induction snap as [|k r IH]; intros t comp0 Hnd Hrow.
    - cbn [check_conf_loop filter map conf_uuids]. rewrite app_nil_r, cc_state_nil. reflexivity.
    - cbn [map] in Hnd. apply NoDup_cons_iff in Hnd. destruct Hnd as [Hk Hnd].
      cbn [check_conf_loop]. unfold conf_uuids. cbn [filter]. unfold confirmed_by at 1.
      unfold completes at 1.
      destruct (memN (t_penalty k) txids) eqn:Em; cbn [negb andb].
      + destruct (find_trk (db_trks t) (trk_uuid k)) eqn:Ef; [|exfalso; exact (Hrow k (or_introl eq_refl) Ef)].
        rewrite IH.
        * cbn [reorged set_reorged]. cbn [map]. fold (conf_uuids txids r). rewrite cc_state_step.
          f_equal. f_equal. f_equal. apply filter_ext_in'. intros k' Hk'.
          apply (cc_reorg_ext (completes txids h) _ _ r); [apply completes_dep|exact Hk|exact Hk'].
        * exact Hnd.
        * intros k' Hk'. cbn [db_trks set_reorged]. rewrite find_trk_set_status.
          destruct (find_trk (db_trks t) (trk_uuid k')) eqn:E'; [discriminate|].
          exfalso. exact (Hrow k' (or_intror Hk') E').
      + fold (conf_uuids txids r).
        assert (Hrow' : forall k', In k' r -> find_trk (db_trks t) (trk_uuid k') <> None)
          by (intros k' Hk'; apply Hrow; right; exact Hk').
        destruct (mem_uuid (trk_uuid k) (reorged t)) eqn:Er; cbn [negb andb].
        { apply IH; assumption. }
        destruct (t_conf k) eqn:Ec; cbn [andb].
        2:{ apply IH; assumption. }
        rewrite IH by assumption. fold IRR.
        destruct (N.eqb (h - t_height k) IRR); [|reflexivity].
        cbn [map]. rewrite <- app_assoc. reflexivity.
  Qed.
End CheckConf.

Lemma mem_conf_uuids txids l k :
  NoDup (map trk_uuid l) -> In k l -> mem_uuid (trk_uuid k) (conf_uuids txids l) = memN (t_penalty k) txids.
Proof.
  intros Hnd Hk. destruct (memN (t_penalty k) txids) eqn:Em.
  - apply mem_uuid_In. unfold conf_uuids. apply in_map. apply filter_In. split; assumption.
  - apply mem_uuid_false. unfold conf_uuids. intros Hi. apply in_map_iff in Hi. destruct Hi as [k' [He Hk']].
    apply filter_In in Hk'. destruct Hk' as [Hk' Hc]. unfold confirmed_by in Hc.
    assert (k' = k).
    { pose proof (find_trk_In_NoDup l k Hnd Hk) as F1. pose proof (find_trk_In_NoDup l k' Hnd Hk') as F2.
      rewrite He in F2. congruence. }
    subst k'. congruence.
Qed.

(* the table after check_confirmations: every tracker whose penalty is in the block is (h, true) *)
Definition confirm_rows (txids : list N) (h : N) (l : list trk) : list trk :=
  map (fun k => if memN (t_penalty k) txids then restamp k h true else k) l.

Definition cc_result (txids : list N) (h : N) (t : tower) : tower :=
  set_reorged (set_db_trks t (confirm_rows txids h (db_trks t)))
              (filter (fun u => negb (mem_uuid u (conf_uuids txids (db_trks t)))) (reorged t)).

Lemma cc_state_result txids h t :
  NoDup (map trk_uuid (db_trks t)) -> cc_state t h (conf_uuids txids (db_trks t)) = cc_result txids h t.
Proof.
  intros Hnd. unfold cc_state, cc_result, confirm_rows. f_equal. f_equal.
  apply map_ext_in. intros k Hk. rewrite mem_conf_uuids by assumption. reflexivity.
Qed.

(* with the snapshot = the table, check_confirmations never aborts (S_r_confirm_update_unwrap needs a
   snapshot row that is no longer in the table) *)
Theorem check_conf_loop_spec le txids h t comp0 :
  Inv t ->
  check_conf_loop le txids h (db_trks t) t comp0 = Ok (comp0 ++ completed_list txids h t) (cc_result txids h t).
Proof.
  intros HI. pose proof (inv_trks_nodup t HI) as Hnd.
  rewrite check_conf_loop_ok; [|exact Hnd|intros k Hk; apply find_trk_In; exact Hk].
  rewrite cc_state_result by exact Hnd. reflexivity.
Qed.

(* readable forms of the pieces *)
Lemma completes_iff txids h rg k :
  completes txids h rg k = true <->
  memN (t_penalty k) txids = false /\ mem_uuid (trk_uuid k) rg = false /\ t_conf k = true /\
  t_height k + IRR = h.
Proof.
  unfold completes. rewrite !andb_true_iff, !negb_true_iff, N.eqb_eq. pose proof IRR_100. split.
  - intros [[[A B] C] D]. repeat split; auto. lia.
  - intros [A [B [C D]]]. repeat split; auto. lia.
Qed.

(* the code's reading: current_height.saturating_sub(h) == IRREVOCABLY_RESOLVED *)
Lemma completes_iff_sub txids h rg k :
  completes txids h rg k = true <->
  memN (t_penalty k) txids = false /\ mem_uuid (trk_uuid k) rg = false /\ t_conf k = true /\
  h - t_height k = IRR.
Proof. unfold completes. rewrite !andb_true_iff, !negb_true_iff, N.eqb_eq. tauto. Qed.

Lemma in_completed_list txids h t uuid :
  In uuid (completed_list txids h t) <->
  exists k, In k (db_trks t) /\ trk_uuid k = uuid /\ completes txids h (reorged t) k = true.
Proof.
  unfold completed_list. rewrite in_map_iff. split.
  - intros [k [He Hk]]. apply filter_In in Hk. exists k. tauto.
  - intros [k [Hk [He Hc]]]. exists k. split; [exact He|apply filter_In; tauto].
Qed.

(* (e) the only abort of the loop, S_r_confirm_update_unwrap, needs a snapshot row missing from the table *)
Theorem check_conf_loop_never_aborts le txids h t comp0 s t' :
  Inv t -> check_conf_loop le txids h (db_trks t) t comp0 <> Abort s t'.
Proof. intros HI. rewrite (check_conf_loop_spec le txids h t comp0 HI). discriminate. Qed.

Theorem check_conf_loop_abort_site le txids h snap : forall t comp0 s t',
  check_conf_loop le txids h snap t comp0 = Abort s t' -> s = S_r_confirm_update_unwrap.
Proof.
  induction snap as [|k r IH]; intros t comp0 s t'; cbn [check_conf_loop]; [discriminate|].
  destruct (memN (t_penalty k) txids).
  - destruct (find_trk (db_trks t) (trk_uuid k)); [apply IH|intros E; inversion E; reflexivity].
  - destruct (mem_uuid (trk_uuid k) (reorged t)); [apply IH|]. destruct (t_conf k); apply IH.
Qed.

(* ------------------------------------------------------------------------------------------ *)
(* 6. an unconfirmed tracker never completes *)

Theorem never_completes_unconfirmed txids h t k :
  Inv t -> In k (db_trks t) -> t_conf k = false -> ~ In (trk_uuid k) (completed_list txids h t).
Proof.
  intros HI Hk Hc Hin. apply in_completed_list in Hin. destruct Hin as [k' [Hk' [He Hcm]]].
  pose proof (inv_trks_nodup t HI) as Hnd.
  pose proof (find_trk_In_NoDup _ k Hnd Hk) as F1. pose proof (find_trk_In_NoDup _ k' Hnd Hk') as F2.
  rewrite He in F2. assert (k' = k) by congruence. subst k'.
  apply completes_iff in Hcm. destruct Hcm as [_ [_ [Hc' _]]]. congruence.
Qed.

(* ------------------------------------------------------------------------------------------ *)
(* 3. block_disconnected marks exactly the trackers confirmed in the disconnected block *)

Definition marked_at (h : N) (k : trk) : bool := t_conf k && N.eqb (t_height k) h.

Theorem disconnect_marks_exactly t hash h :
  Inv t ->
  exists added,
    r_block_disconnected t hash h =
      Ok tt (set_reorged (set_r_index (set_car_height t h) (ti_disconnect (r_index t) hash)) (reorged t ++ added)) /\
    NoDup added /\
    (forall u, In u added <->
               ~ In u (reorged t) /\ exists k, In k (db_trks t) /\ trk_uuid k = u /\ t_conf k = true /\ t_height k = h).
Proof.
  intros HI. unfold r_block_disconnected.
  cbn [r_index set_car_height reorged set_r_index db_trks].
  eexists. split; [reflexivity|]. split.
  - apply NoDup_filter. apply NoDup_map_filter. exact (inv_trks_nodup t HI).
  - intros u. rewrite filter_In, in_map_iff, negb_true_iff, mem_uuid_false. split.
    + intros [[k [He Hk]] Hn]. split; [exact Hn|]. apply filter_In in Hk. destruct Hk as [Hk Hm].
      apply andb_true_iff in Hm. destruct Hm as [Hc Hh]. apply N.eqb_eq in Hh. exists k. tauto.
    + intros [Hn [k [Hk [He [Hc Hh]]]]]. split; [|exact Hn]. exists k. split; [exact He|].
      apply filter_In. split; [exact Hk|]. rewrite Hc, Hh, N.eqb_refl. reflexivity.
Qed.

Corollary disconnect_reorged_iff t hash h t' :
  Inv t -> r_block_disconnected t hash h = Ok tt t' ->
  same_tables t t' /\
  (forall u, In u (reorged t') <->
             In u (reorged t) \/ exists k, In k (db_trks t) /\ trk_uuid k = u /\ t_conf k = true /\ t_height k = h) /\
  (NoDup (reorged t) -> NoDup (reorged t')).
Proof.
  intros HI E. destruct (disconnect_marks_exactly t hash h HI) as [added [E' [Hnd Hiff]]].
  rewrite E' in E. inversion E. subst t'. clear E. split; [repeat split|]. cbn [reorged set_reorged]. split.
  - intros u. rewrite in_app_iff, Hiff. split; [tauto|].
    intros [H|H]; [tauto|]. destruct (mem_uuid u (reorged t)) eqn:Em.
    + left. apply mem_uuid_In. exact Em.
    + right. apply mem_uuid_false in Em. tauto.
  - intros Hr. apply NoDup_app_iff. repeat split; [exact Hr|exact Hnd|]. intros x Hx Hx'. apply Hiff in Hx'. tauto.
Qed.

(* ------------------------------------------------------------------------------------------ *)
(* the Carrier: memo-aware answers *)

(* what send_transaction answers for x in state t: the memo of the current block period first *)
Definition eff_status (sc : script) (t : tower) (x : N) : cstatus :=
  match aget (car_memo t) x with
  | Some r => r
  | None => send_status t (snd (script_get sc x))
  end.

Definition with_carrier (t : tower) (m : list (N * cstatus)) (l : list rpc_event) : tower :=
  set_rpc_log (set_car_memo t m) l.

Lemma with_carrier_id t : with_carrier t (car_memo t) (rpc_log t) = t.
Proof. destruct t; reflexivity. Qed.

(* t' is t after some submissions to the node in the same block period *)
Record carried (sc : script) (t t' : tower) : Prop := {
  ca_height : car_height t' = car_height t;
  ca_eff : forall x, eff_status sc t' x = eff_status sc t x;
  ca_memo_mono : forall x r, aget (car_memo t) x = Some r -> aget (car_memo t') x = Some r;
  ca_memo_new : forall x r, aget (car_memo t) x = None -> aget (car_memo t') x = Some r ->
                            In (mk_rpc K_send x r) (rpc_log t');
  ca_log_mono : forall e, In e (rpc_log t) -> In e (rpc_log t');
  ca_log_new : forall e, In e (rpc_log t') ->
                         In e (rpc_log t) \/
                         (r_kind e = K_send /\ aget (car_memo t) (r_tx e) = None /\
                          r_res e = eff_status sc t (r_tx e) /\ aget (car_memo t') (r_tx e) = Some (r_res e))
}.

Lemma carried_refl sc t : carried sc t t.
Proof. constructor; auto. intros x r H1 H2. congruence. Qed.

Lemma carried_trans sc a b c : carried sc a b -> carried sc b c -> carried sc a c.
Proof.
  intros [A1 A2 A3 A4 A5 A6] [B1 B2 B3 B4 B5 B6]. constructor.
  - congruence.
  - intros x. rewrite B2. apply A2.
  - auto.
  - intros x r Hn Hs. destruct (aget (car_memo b) x) as [r'|] eqn:Eb.
    + pose proof (B3 _ _ Eb) as Hc. assert (r' = r) by congruence. subst r'. apply B5. apply A4; assumption.
    + apply B4; assumption.
  - auto.
  - intros e He. destruct (B6 e He) as [Hb|[Hk [Hn [Hr Hm]]]].
    + destruct (A6 e Hb) as [Ha|[Hk [Hn [Hr Hm]]]]; [left; exact Ha|]. right. repeat split; auto.
    + right. repeat split; [exact Hk| |rewrite Hr; apply A2|exact Hm].
      destruct (aget (car_memo a) (r_tx e)) as [r'|] eqn:Ea; [|reflexivity].
      rewrite (A3 _ _ Ea) in Hn. discriminate.
Qed.

(* states that differ only in fields the carrier does not look at *)
Lemma carried_ext sc a b b' :
  carried sc a b -> car_height b' = car_height b -> car_memo b' = car_memo b -> rpc_log b' = rpc_log b ->
  carried sc a b'.
Proof.
  intros [A1 A2 A3 A4 A5 A6] Hh Hm Hl. constructor; rewrite ?Hh, ?Hm, ?Hl; auto.
  intros x. rewrite <- A2. unfold eff_status, send_status. rewrite Hh, Hm. reflexivity.
Qed.

Lemma eff_status_ext sc t t' x :
  car_height t' = car_height t -> car_memo t' = car_memo t -> eff_status sc t' x = eff_status sc t x.
Proof. intros Hh Hm. unfold eff_status, send_status. rewrite Hh, Hm. reflexivity. Qed.

Lemma send_spec sc t x :
  exists m l, send_transaction sc t x = (eff_status sc t x, with_carrier t m l) /\
              carried sc t (with_carrier t m l) /\ aget m x = Some (eff_status sc t x).
Proof.
  unfold send_transaction, eff_status. destruct (aget (car_memo t) x) as [r|] eqn:Em.
  - exists (car_memo t), (rpc_log t). rewrite with_carrier_id. split; [reflexivity|]. split; [apply carried_refl|exact Em].
  - set (r := send_status t (snd (script_get sc x))).
    exists ((x, r) :: car_memo t), (mk_rpc K_send x r :: rpc_log t). split; [reflexivity|]. split.
    + constructor; unfold with_carrier; cbn [car_height car_memo rpc_log set_rpc_log set_car_memo].
      * reflexivity.
      * intros y. unfold eff_status, send_status. cbn [car_memo car_height set_rpc_log set_car_memo aget]. destruct (N.eqb y x) eqn:E.
        -- apply N.eqb_eq in E. subst y. rewrite Em. reflexivity.
        -- reflexivity.
      * intros y r' Hy. cbn [aget]. destruct (N.eqb y x) eqn:E; [|exact Hy].
        apply N.eqb_eq in E. subst y. congruence.
      * intros y r' Hn Hs. cbn [aget] in Hs. destruct (N.eqb y x) eqn:E; [|congruence].
        apply N.eqb_eq in E. subst y. inversion Hs. left. reflexivity.
      * intros e He. right. exact He.
      * intros e [He|He]; [|left; exact He]. right. subst e. cbn [r_kind r_tx r_res aget].
        rewrite N.eqb_refl. unfold eff_status. rewrite Em. repeat split.
    + cbn [aget]. rewrite N.eqb_refl. reflexivity.
Qed.

(* ------------------------------------------------------------------------------------------ *)
(* 4. handle_reorged_txs *)

Definition is_confirmed (s : cstatus) : bool := match s with ConfirmedIn _ => true | _ => false end.

(* the node (or the memo) rejects the dispute, or accepts it and rejects the penalty *)
Definition trk_rejected (e : N -> cstatus) (k : trk) : bool :=
  status_rejected (e (t_dispute k)) || status_rejected (e (t_penalty k)).

Definition reorg_rejected (e : N -> cstatus) (trks : list trk) (uuid : N * N) : bool :=
  match find_trk trks uuid with None => false | Some k => trk_rejected e k end.

Definition reorg_rows (e : N -> cstatus) (h : N) (us : list (N * N)) (trks : list trk) : list trk :=
  map (fun k => if mem_uuid (trk_uuid k) us && negb (trk_rejected e k) then restamp k h false else k) trks.

Definition status_upd (uuid : N * N) (h : N) (c : bool) (k : trk) : trk :=
  if uuid_eqb (trk_uuid k) uuid then restamp k h c else k.

Lemma status_upd_fields uuid h c k :
  trk_uuid (status_upd uuid h c k) = trk_uuid k /\ t_dispute (status_upd uuid h c k) = t_dispute k /\
  t_penalty (status_upd uuid h c k) = t_penalty k.
Proof. unfold status_upd. destruct (uuid_eqb (trk_uuid k) uuid); repeat split. Qed.

Lemma db_trks_set_status t uuid h c : db_trks (set_trk_status t uuid h c) = map (status_upd uuid h c) (db_trks t).
Proof. reflexivity. Qed.

Lemma nodup_set_status t uuid h c :
  NoDup (map trk_uuid (db_trks t)) -> NoDup (map trk_uuid (db_trks (set_trk_status t uuid h c))).
Proof.
  intros H. rewrite db_trks_set_status, map_map.
  erewrite map_ext; [exact H|]. intros k. apply status_upd_fields.
Qed.

Lemma same_uuid_same_row trks k k' :
  NoDup (map trk_uuid trks) -> In k trks -> In k' trks -> trk_uuid k = trk_uuid k' -> k = k'.
Proof.
  intros Hnd Hk Hk' He. pose proof (find_trk_In_NoDup _ k Hnd Hk) as F1.
  pose proof (find_trk_In_NoDup _ k' Hnd Hk') as F2. rewrite He in F1. congruence.
Qed.

Lemma row_of_find trks uuid k k' :
  NoDup (map trk_uuid trks) -> find_trk trks uuid = Some k -> In k' trks -> uuid_eqb (trk_uuid k') uuid = true -> k' = k.
Proof.
  intros Hnd Hf Hk' He. apply uuid_eqb_eq in He. apply find_trk_Some in Hf. destruct Hf as [Hk Hu].
  apply (same_uuid_same_row trks); auto. congruence.
Qed.

Lemma reorged_loop_cons sc h uuid r t rej :
  reorged_loop sc h (uuid :: r) t rej =
  match find_trk (db_trks t) uuid with
  | None => reorged_loop sc h r t rej
  | Some k =>
      let '(s, t1) := send_transaction sc t (t_dispute k) in
      if is_confirmed s then Abort S_r_reorg_unreachable t1
      else if status_rejected s then reorged_loop sc h r t1 (rej ++ [uuid])
      else let '(s2, t2) := send_transaction sc t1 (t_penalty k) in
           if status_rejected s2 then reorged_loop sc h r t2 (rej ++ [uuid])
           else reorged_loop sc h r (set_trk_status t2 uuid h false) rej
  end.
Proof.
  cbn [reorged_loop]. destruct (find_trk (db_trks t) uuid); [|reflexivity].
  destruct (send_transaction sc t (t_dispute t0)) as [s t1]. destruct s; reflexivity.
Qed.

Lemma reorg_rows_cons_none e h uuid r trks :
  find_trk trks uuid = None -> reorg_rows e h (uuid :: r) trks = reorg_rows e h r trks.
Proof.
  intros Hf. unfold reorg_rows. apply map_ext_in. intros k Hk. rewrite mem_uuid_cons.
  destruct (uuid_eqb (trk_uuid k) uuid) eqn:E; [|reflexivity].
  apply uuid_eqb_eq in E. exfalso. apply (find_trk_None _ _ Hf). rewrite <- E. apply in_map. exact Hk.
Qed.

Lemma reorg_rows_cons_rej e h uuid r trks k :
  NoDup (map trk_uuid trks) -> find_trk trks uuid = Some k -> trk_rejected e k = true ->
  reorg_rows e h (uuid :: r) trks = reorg_rows e h r trks.
Proof.
  intros Hnd Hf Hr. unfold reorg_rows. apply map_ext_in. intros k' Hk'. rewrite mem_uuid_cons.
  destruct (uuid_eqb (trk_uuid k') uuid) eqn:E; [|reflexivity].
  rewrite (row_of_find _ _ _ _ Hnd Hf Hk' E), Hr. rewrite !andb_false_r. reflexivity.
Qed.

Lemma reorg_rows_cons_acc e h uuid r trks k :
  NoDup (map trk_uuid trks) -> find_trk trks uuid = Some k -> trk_rejected e k = false ->
  reorg_rows e h r (map (status_upd uuid h false) trks) = reorg_rows e h (uuid :: r) trks.
Proof.
  intros Hnd Hf Hr. unfold reorg_rows. rewrite map_map. apply map_ext_in. intros k' Hk'. rewrite mem_uuid_cons.
  unfold status_upd. destruct (uuid_eqb (trk_uuid k') uuid) eqn:E; [|reflexivity].
  rewrite (row_of_find _ _ _ _ Hnd Hf Hk' E). rewrite restamp_uuid.
  change (trk_rejected e (restamp k h false)) with (trk_rejected e k). rewrite Hr. cbn [orb negb andb].
  destruct (mem_uuid (trk_uuid k) r); reflexivity.
Qed.

Lemma reorg_rejected_upd e trks uuid h c u :
  reorg_rejected e (map (status_upd uuid h c) trks) u = reorg_rejected e trks u.
Proof.
  unfold reorg_rejected. rewrite find_trk_map by (intros k; apply status_upd_fields).
  destruct (find_trk trks u) as [k|]; [|reflexivity]. cbn [option_map]. unfold trk_rejected.
  destruct (status_upd_fields uuid h c k) as [_ [-> ->]]. reflexivity.
Qed.

Definition reorg_covered (e : N -> cstatus) (t' : tower) (k : trk) : Prop :=
  is_confirmed (e (t_dispute k)) = false /\
  aget (car_memo t') (t_dispute k) = Some (e (t_dispute k)) /\
  (status_rejected (e (t_dispute k)) = false -> aget (car_memo t') (t_penalty k) = Some (e (t_penalty k))).

Lemma reorged_loop_gen sc h e us : forall t rej0 rej t',
  NoDup (map trk_uuid (db_trks t)) ->
  (forall x, eff_status sc t x = e x) ->
  reorged_loop sc h us t rej0 = Ok rej t' ->
  rej = rej0 ++ filter (reorg_rejected e (db_trks t)) us /\
  (exists m l, t' = with_carrier (set_db_trks t (reorg_rows e h us (db_trks t))) m l) /\
  carried sc t t' /\
  (forall uuid k, In uuid us -> find_trk (db_trks t) uuid = Some k -> reorg_covered e t' k).
Proof.
  induction us as [|uuid r IH]; intros t rej0 rej t' Hnd He E.
  - cbn [reorged_loop] in E. inversion E; subst. split; [rewrite app_nil_r; reflexivity|]. split.
    + exists (car_memo t'), (rpc_log t'). unfold reorg_rows. cbn [mem_uuid existsb andb]. rewrite map_id.
      destruct t'; reflexivity.
    + split; [apply carried_refl|intros ? ? []].
  - rewrite reorged_loop_cons in E. destruct (find_trk (db_trks t) uuid) as [k|] eqn:Ef.
    2:{ apply IH in E; [|exact Hnd|exact He]. destruct E as [Er [[m [l Et]] [Hc Hcov]]].
        split; [|split; [|split]].
        - rewrite Er. cbn [filter]. unfold reorg_rejected at 2. rewrite Ef. reflexivity.
        - exists m, l. rewrite reorg_rows_cons_none by exact Ef. exact Et.
        - exact Hc.
        - intros u k [Hu|Hu] Hf; [congruence|]. eapply Hcov; eassumption. }
    destruct (send_spec sc t (t_dispute k)) as [m1 [l1 [Es1 [Hc1 Hm1]]]]. rewrite Es1 in E. rewrite He in E, Hm1.
    set (t1 := with_carrier t m1 l1) in *.
    assert (He1 : forall x, eff_status sc t1 x = e x) by (intros x; rewrite (ca_eff _ _ _ Hc1); apply He).
    destruct (is_confirmed (e (t_dispute k))) eqn:Ecf; [discriminate|].
    destruct (status_rejected (e (t_dispute k))) eqn:Erd.
    { apply IH in E; [|exact Hnd|exact He1]. destruct E as [Er [[m [l Et]] [Hc Hcov]]].
      change (db_trks t1) with (db_trks t) in *.
      assert (Hrej : trk_rejected e k = true) by (unfold trk_rejected; rewrite Erd; reflexivity).
      split; [|split; [|split]].
      - rewrite Er, <- app_assoc. cbn [filter List.app]. unfold reorg_rejected at 2. rewrite Ef, Hrej. reflexivity.
      - exists m, l. rewrite (reorg_rows_cons_rej e h uuid r _ k Hnd Ef Hrej). exact Et.
      - eapply carried_trans; eassumption.
      - intros u k' [Hu|Hu] Hf; [|eapply Hcov; eassumption].
        subst u. assert (k' = k) by congruence. subst k'. split; [exact Ecf|]. split.
        + apply (ca_memo_mono _ _ _ Hc). exact Hm1.
        + congruence. }
    destruct (send_spec sc t1 (t_penalty k)) as [m2 [l2 [Es2 [Hc2 Hm2]]]]. rewrite Es2 in E. rewrite He1 in E, Hm2.
    set (t2 := with_carrier t1 m2 l2) in *.
    assert (He2 : forall x, eff_status sc t2 x = e x) by (intros x; rewrite (ca_eff _ _ _ Hc2); apply He1).
    assert (Hm1' : aget (car_memo t2) (t_dispute k) = Some (e (t_dispute k))) by (apply (ca_memo_mono _ _ _ Hc2); exact Hm1).
    assert (Hc12 : carried sc t t2) by (eapply carried_trans; eassumption).
    destruct (status_rejected (e (t_penalty k))) eqn:Erp.
    { apply IH in E; [|exact Hnd|exact He2]. destruct E as [Er [[m [l Et]] [Hc Hcov]]].
      change (db_trks t2) with (db_trks t) in *.
      assert (Hrej : trk_rejected e k = true) by (unfold trk_rejected; rewrite Erp; apply orb_true_r).
      split; [|split; [|split]].
      - rewrite Er, <- app_assoc. cbn [filter List.app]. unfold reorg_rejected at 2. rewrite Ef, Hrej. reflexivity.
      - exists m, l. rewrite (reorg_rows_cons_rej e h uuid r _ k Hnd Ef Hrej). exact Et.
      - eapply carried_trans; eassumption.
      - intros u k' [Hu|Hu] Hf; [|eapply Hcov; eassumption].
        subst u. assert (k' = k) by congruence. subst k'. split; [exact Ecf|]. split.
        + apply (ca_memo_mono _ _ _ Hc). exact Hm1'.
        + intros _. apply (ca_memo_mono _ _ _ Hc). exact Hm2. }
    apply IH in E; [|apply nodup_set_status; exact Hnd|intros x; rewrite <- He2; apply eff_status_ext; reflexivity].
    destruct E as [Er [[m [l Et]] [Hc Hcov]]].
    rewrite db_trks_set_status in *. change (db_trks t2) with (db_trks t) in *.
    assert (Hrej : trk_rejected e k = false) by (unfold trk_rejected; rewrite Erd, Erp; reflexivity).
    assert (Hc' : carried sc t2 t').
    { destruct Hc as [C1 C2 C3 C4 C5 C6]. constructor; auto. }
    split; [|split; [|split]].
    + rewrite Er. cbn [filter]. unfold reorg_rejected at 2. rewrite Ef, Hrej. f_equal.
      apply filter_ext_in'. intros u _. apply reorg_rejected_upd.
    + exists m, l. rewrite Et. rewrite (reorg_rows_cons_acc e h uuid r _ k Hnd Ef Hrej). reflexivity.
    + eapply carried_trans; eassumption.
    + intros u k' [Hu|Hu] Hf.
      * subst u. assert (k' = k) by congruence. subst k'. split; [exact Ecf|]. split.
        -- apply (ca_memo_mono _ _ _ Hc'). exact Hm1'.
        -- intros _. apply (ca_memo_mono _ _ _ Hc'). exact Hm2.
      * specialize (Hcov u (status_upd uuid h false k') Hu).
        rewrite find_trk_map in Hcov by (intros k0; apply status_upd_fields). rewrite Hf in Hcov.
        specialize (Hcov eq_refl). unfold reorg_covered in *.
        destruct (status_upd_fields uuid h false k') as [_ [Hd Hp]]. rewrite Hd, Hp in Hcov. exact Hcov.
Qed.

(* ------------------------------------------------------------------------------------------ *)
(* 5. rebroadcast_stale_txs *)

Definition stale_upd (e : N -> cstatus) (h : N) (k : trk) : trk :=
  match e (t_penalty k) with
  | Rejected _ => k
  | ConfirmedIn hh => restamp k hh true
  | InMempoolSince hh => restamp k hh false
  | IrrevocablyResolved => restamp k h false
  end.

Definition stale_one (e : N -> cstatus) (h : N) (uuid : N * N) (k : trk) : trk :=
  if uuid_eqb (trk_uuid k) uuid then stale_upd e h k else k.

Definition stale_rows (e : N -> cstatus) (h : N) (us : list (N * N)) (trks : list trk) : list trk :=
  map (fun k => if mem_uuid (trk_uuid k) us then stale_upd e h k else k) trks.

Definition stale_rejected (e : N -> cstatus) (trks : list trk) (uuid : N * N) : bool :=
  match find_trk trks uuid with None => false | Some k => status_rejected (e (t_penalty k)) end.

Lemma stale_upd_fields e h k :
  trk_uuid (stale_upd e h k) = trk_uuid k /\ t_dispute (stale_upd e h k) = t_dispute k /\
  t_penalty (stale_upd e h k) = t_penalty k.
Proof. unfold stale_upd. destruct (e (t_penalty k)); repeat split. Qed.

Lemma stale_upd_idem e h k : stale_upd e h (stale_upd e h k) = stale_upd e h k.
Proof.
  unfold stale_upd. destruct (e (t_penalty k)) eqn:E; cbn [restamp t_penalty]; rewrite E; reflexivity.
Qed.

Lemma stale_one_fields e h uuid k :
  trk_uuid (stale_one e h uuid k) = trk_uuid k /\ t_dispute (stale_one e h uuid k) = t_dispute k /\
  t_penalty (stale_one e h uuid k) = t_penalty k.
Proof. unfold stale_one. destruct (uuid_eqb (trk_uuid k) uuid); [apply stale_upd_fields|repeat split]. Qed.

Lemma stale_loop_cons sc h uuid r t rej :
  stale_loop sc h (uuid :: r) t rej =
  match find_trk (db_trks t) uuid with
  | None => Abort S_r_stale_load_tracker_unwrap t
  | Some k =>
      let '(s, t1) := send_transaction sc t (t_penalty k) in
      stale_loop sc h r
        (match s with
         | Rejected _ => t1
         | ConfirmedIn hh => set_trk_status t1 uuid hh true
         | InMempoolSince hh => set_trk_status t1 uuid hh false
         | IrrevocablyResolved => set_trk_status t1 uuid h false
         end) (if status_rejected s then rej ++ [uuid] else rej)
  end.
Proof.
  cbn [stale_loop]. destruct (find_trk (db_trks t) uuid); [|reflexivity].
  destruct (send_transaction sc t (t_penalty t0)) as [s t1]. destruct s; reflexivity.
Qed.

Lemma stale_rows_cons e h uuid r trks :
  stale_rows e h r (map (stale_one e h uuid) trks) = stale_rows e h (uuid :: r) trks.
Proof.
  unfold stale_rows. rewrite map_map. apply map_ext. intros k. rewrite mem_uuid_cons. unfold stale_one.
  destruct (uuid_eqb (trk_uuid k) uuid) eqn:E; [|reflexivity]. cbn [orb].
  rewrite stale_upd_idem. destruct (mem_uuid _ r); reflexivity.
Qed.

Lemma stale_rejected_upd e h uuid trks u :
  stale_rejected e (map (stale_one e h uuid) trks) u = stale_rejected e trks u.
Proof.
  unfold stale_rejected. rewrite find_trk_map by (intros k; apply stale_one_fields).
  destruct (find_trk trks u) as [k|]; [|reflexivity]. cbn [option_map].
  destruct (stale_one_fields e h uuid k) as [_ [_ ->]]. reflexivity.
Qed.

Lemma stale_loop_gen sc h e us : forall t rej0,
  NoDup (map trk_uuid (db_trks t)) ->
  (forall x, eff_status sc t x = e x) ->
  (forall u, In u us -> find_trk (db_trks t) u <> None) ->
  exists t', stale_loop sc h us t rej0 = Ok (rej0 ++ filter (stale_rejected e (db_trks t)) us) t' /\
    (exists m l, t' = with_carrier (set_db_trks t (stale_rows e h us (db_trks t))) m l) /\
    carried sc t t' /\
    (forall u k, In u us -> find_trk (db_trks t) u = Some k ->
                 aget (car_memo t') (t_penalty k) = Some (e (t_penalty k))).
Proof.
  induction us as [|uuid r IH]; intros t rej0 Hnd He Hrows.
  - exists t. cbn [stale_loop filter]. rewrite app_nil_r. split; [reflexivity|]. split.
    + exists (car_memo t), (rpc_log t). unfold stale_rows. cbn [mem_uuid existsb]. rewrite map_id. destruct t; reflexivity.
    + split; [apply carried_refl|intros ? ? []].
  - rewrite stale_loop_cons. destruct (find_trk (db_trks t) uuid) as [k|] eqn:Ef;
      [|exfalso; exact (Hrows uuid (or_introl eq_refl) Ef)].
    destruct (send_spec sc t (t_penalty k)) as [m1 [l1 [Es1 [Hc1 Hm1]]]]. rewrite Es1. rewrite He in *.
    set (t1 := with_carrier t m1 l1) in *.
    set (tn := match e (t_penalty k) with
               | Rejected _ => t1
               | ConfirmedIn hh => set_trk_status t1 uuid hh true
               | InMempoolSince hh => set_trk_status t1 uuid hh false
               | IrrevocablyResolved => set_trk_status t1 uuid h false
               end).
    assert (Htn : tn = with_carrier (set_db_trks t (map (stale_one e h uuid) (db_trks t))) m1 l1).
    { assert (Hone : forall hh c, stale_upd e h k = restamp k hh c ->
                map (status_upd uuid hh c) (db_trks t) = map (stale_one e h uuid) (db_trks t)).
      { intros hh c Hu. apply map_ext_in. intros k' Hk'. unfold status_upd, stale_one.
        destruct (uuid_eqb (trk_uuid k') uuid) eqn:E; [|reflexivity].
        rewrite (row_of_find _ _ _ _ Hnd Ef Hk' E). symmetry. exact Hu. }
      unfold tn, stale_upd in *. destruct (e (t_penalty k)) eqn:Ee.
      - rewrite set_trk_status_eq. change (db_trks t1) with (db_trks t).
        fold (status_upd uuid h0 true). rewrite (Hone h0 true eq_refl). reflexivity.
      - rewrite set_trk_status_eq. change (db_trks t1) with (db_trks t).
        fold (status_upd uuid h0 false). rewrite (Hone h0 false eq_refl). reflexivity.
      - rewrite set_trk_status_eq. change (db_trks t1) with (db_trks t).
        fold (status_upd uuid h false). rewrite (Hone h false eq_refl). reflexivity.
      - replace (map (stale_one e h uuid) (db_trks t)) with (db_trks t); [destruct t; reflexivity|].
        rewrite <- (map_id (db_trks t)) at 1. apply map_ext_in. intros k' Hk'. unfold stale_one.
        destruct (uuid_eqb (trk_uuid k') uuid) eqn:E; [|reflexivity].
        rewrite (row_of_find _ _ _ _ Hnd Ef Hk' E). unfold stale_upd. rewrite Ee. reflexivity. }
    fold tn. clearbody tn. subst tn.
    set (tn := with_carrier (set_db_trks t (map (stale_one e h uuid) (db_trks t))) m1 l1).
    assert (Hcn : carried sc t tn) by (eapply carried_ext; [exact Hc1|reflexivity..]).
    destruct (IH tn (if status_rejected (e (t_penalty k)) then rej0 ++ [uuid] else rej0)) as [t' [El [[m [l Et]] [Hc Hcov]]]].
    { change (db_trks tn) with (map (stale_one e h uuid) (db_trks t)). rewrite map_map.
      erewrite map_ext; [exact Hnd|]. intros k0. apply stale_one_fields. }
    { intros x. rewrite (ca_eff _ _ _ Hcn). apply He. }
    { intros u Hu. change (db_trks tn) with (map (stale_one e h uuid) (db_trks t)).
      rewrite find_trk_map by (intros k0; apply stale_one_fields).
      destruct (find_trk (db_trks t) u) eqn:E'; [discriminate|]. exfalso. exact (Hrows u (or_intror Hu) E'). }
    change (db_trks tn) with (map (stale_one e h uuid) (db_trks t)) in *.
    exists t'. split; [|split; [|split]].
    + rewrite El. f_equal. cbn [filter]. unfold stale_rejected at 2. rewrite Ef.
      erewrite (filter_ext_in' (stale_rejected e (map (stale_one e h uuid) (db_trks t)))) by (intros u _; apply stale_rejected_upd).
      destruct (status_rejected (e (t_penalty k))); [rewrite <- app_assoc|]; reflexivity.
    + exists m, l. rewrite Et. rewrite stale_rows_cons. reflexivity.
    + eapply carried_trans; eassumption.
    + intros u k' [Hu|Hu] Hf.
      * subst u. assert (k' = k) by congruence. subst k'. apply (ca_memo_mono _ _ _ Hc). exact Hm1.
      * specialize (Hcov u (stale_one e h uuid k') Hu).
        rewrite find_trk_map in Hcov by (intros k0; apply stale_one_fields). rewrite Hf in Hcov.
        specialize (Hcov eq_refl). destruct (stale_one_fields e h uuid k') as [_ [_ Hp]]. rewrite Hp in Hcov. exact Hcov.
Qed.

(* ------------------------------------------------------------------------------------------ *)
(* 2. refunds *)

Definition credit (n : N) (ui : uinfo) : uinfo := mk_uinfo (u_slots ui + n) (u_start ui) (u_expiry ui).

(* the slots of the rows `us` owned by u *)
Fixpoint refund_total (apps : list app) (us : list (N * N)) (u : N) : N :=
  match us with
  | [] => 0
  | uuid :: r =>
      match find_app apps uuid with
      | Some a => if N.eqb (a_user a) u then slots_of (b_len (a_blob a)) else 0
      | None => 0
      end + refund_total apps r u
  end.

Lemma credit_0 ui : credit 0 ui = ui.
Proof. unfold credit. rewrite N.add_0_r. destruct ui; reflexivity. Qed.

Lemma credit_credit a b ui : credit b (credit a ui) = credit (a + b) ui.
Proof. unfold credit. cbn [u_slots u_start u_expiry]. rewrite N.add_assoc. reflexivity. Qed.

Lemma option_map_credit_0 o : option_map (credit 0) o = o.
Proof. destruct o; [cbn; rewrite credit_0|]; reflexivity. Qed.

Definition with_users (t : tower) (g d : list (N * uinfo)) : tower := set_db_users (set_gk_users t g) d.

Lemma with_users_id t : with_users t (gk_users t) (db_users t) = t.
Proof. destruct t; reflexivity. Qed.

Lemma refund_loop_spec us : forall t t',
  Inv t -> refund_loop t us = Ok tt t' ->
  (exists g d, t' = with_users t g d) /\
  (forall u, aget (gk_users t') u = option_map (credit (refund_total (db_apps t) us u)) (aget (gk_users t) u)) /\
  (forall u, aget (db_users t') u = option_map (credit (refund_total (db_apps t) us u)) (aget (db_users t) u)) /\
  (forall uuid, In uuid us -> exists a, find_app (db_apps t) uuid = Some a).
Proof.
  induction us as [|uuid r IH]; intros t t' HI E.
  - cbn [refund_loop] in E. inversion E; subst. split; [exists (gk_users t'), (db_users t'); symmetry; apply with_users_id|].
    cbn [refund_total]. split; [|split]; [intros u; rewrite option_map_credit_0; reflexivity..|intros ? []].
  - cbn [refund_loop] in E. destruct (find_app (db_apps t) uuid) as [a|] eqn:Ea; [|discriminate].
    destruct (gk_get t (a_user a)) as [ui|] eqn:Eg; [|discriminate].
    destruct (u32_add (u_slots ui) (slots_of (b_len (a_blob a)))) as [s|] eqn:Es; [|discriminate].
    assert (Hs : s = u_slots ui + slots_of (b_len (a_blob a))).
    { unfold u32_add in Es. destruct (N.leb _ _); congruence. }
    pose proof (inv_refund t (a_user a) ui s HI Eg) as HI1.
    apply IH in E; [|exact HI1]. destruct E as [[g [d Et]] [Hg [Hd Hr]]].
    split; [|split; [|split]].
    + exists g, d. rewrite Et. reflexivity.
    + intros u. rewrite Hg. change (db_apps (p_refund_user t (a_user a) ui s)) with (db_apps t).
      cbn [refund_total]. rewrite Ea. unfold p_refund_user, db_update_user_slots, gk_put.
      cbn [gk_users set_db_users set_gk_users aget]. rewrite aget_remove.
      destruct (N.eqb u (a_user a)) eqn:E.
      * apply N.eqb_eq in E. subst u. rewrite N.eqb_refl. unfold gk_get in Eg. rewrite Eg. cbn [option_map].
        f_equal. rewrite <- credit_credit. f_equal. unfold credit. rewrite Hs. reflexivity.
      * rewrite N.eqb_sym, E. rewrite N.add_0_l. reflexivity.
    + intros u. rewrite Hd. change (db_apps (p_refund_user t (a_user a) ui s)) with (db_apps t).
      cbn [refund_total]. rewrite Ea. unfold p_refund_user, db_update_user_slots, gk_put.
      cbn [db_users set_db_users set_gk_users]. rewrite aget_map_slots.
      destruct (N.eqb u (a_user a)) eqn:E.
      * apply N.eqb_eq in E. subst u. rewrite N.eqb_refl. rewrite <- (inv_sync t HI). unfold gk_get in Eg. rewrite Eg.
        cbn [option_map]. f_equal. rewrite <- credit_credit. f_equal. unfold credit. rewrite Hs. reflexivity.
      * rewrite N.eqb_sym, E. rewrite N.add_0_l. reflexivity.
    + intros u [Hu|Hu]; [subst; eauto|]. apply Hr. exact Hu.
Qed.

Lemma db_delete_apps_nil t : db_delete_apps t [] = t.
Proof.
  unfold db_delete_apps. cbn [mem_uuid existsb negb db_apps db_trks set_db_apps]. rewrite !filter_true.
  destruct t; reflexivity.
Qed.

Lemma delete_opt t us refund :
  match us with [] => Ok tt t | _ => gk_delete_appointments t us refund end = gk_delete_appointments t us refund.
Proof.
  destruct us; [|reflexivity]. unfold gk_delete_appointments. destruct refund; cbn [refund_loop bind];
    rewrite db_delete_apps_nil; reflexivity.
Qed.

Lemma delete_opt' t us refund :
  match us with [] => Ok tt t | p :: l => gk_delete_appointments t (p :: l) refund end = gk_delete_appointments t us refund.
Proof. destruct us; [|reflexivity]. apply (delete_opt t [] refund). Qed.

Lemma delete_opt_false t us :
  match us with [] => Ok tt t | p :: l => Ok tt (db_delete_apps t (p :: l)) end = Ok tt (db_delete_apps t us).
Proof. destruct us; [rewrite db_delete_apps_nil|]; reflexivity. Qed.

Lemma reorged_opt sc h t :
  match reorged t with [] => Ok [] t | us => reorged_loop sc h us (set_reorged t []) [] end
  = reorged_loop sc h (reorged t) (set_reorged t []) [].
Proof.
  destruct (reorged t) eqn:E; [|reflexivity]. cbn [reorged_loop]. destruct t; cbn in *; subst; reflexivity.
Qed.

(* what the memo holds after rebroadcast_stale_txs: what it held, plus penalties of the listed trackers *)
Lemma send_memo_dom sc t x s t' y :
  send_transaction sc t x = (s, t') -> aget (car_memo t') y <> None -> aget (car_memo t) y <> None \/ y = x.
Proof.
  unfold send_transaction. destruct (aget (car_memo t) x) eqn:Em.
  - intros E. inversion E. subst. auto.
  - intros E. inversion E. subst. cbn [car_memo set_car_memo log_rpc set_rpc_log aget].
    destruct (N.eqb y x) eqn:Ey; [apply N.eqb_eq in Ey; auto|auto].
Qed.

Lemma stale_loop_memo_dom sc h us : forall t rej rej' t',
  stale_loop sc h us t rej = Ok rej' t' ->
  forall x, aget (car_memo t') x <> None ->
            aget (car_memo t) x <> None \/ exists u k, In u us /\ find_trk (db_trks t) u = Some k /\ x = t_penalty k.
Proof.
  induction us as [|uuid r IH]; intros t rej rej' t' E x Hx.
  - cbn [stale_loop] in E. inversion E. subst. auto.
  - rewrite stale_loop_cons in E. destruct (find_trk (db_trks t) uuid) as [k|] eqn:Ef; [|discriminate].
    destruct (send_transaction sc t (t_penalty k)) as [s t1] eqn:Es.
    assert (Htr : db_trks t1 = db_trks t).
    { destruct (send_spec sc t (t_penalty k)) as [m [l [Es' _]]]. rewrite Es' in Es. inversion Es. reflexivity. }
    apply IH with (x := x) in E; [|exact Hx].
    assert (Hstep : forall tn, (car_memo tn = car_memo t1) ->
               (forall u k', find_trk (db_trks tn) u = Some k' -> exists k0, find_trk (db_trks t) u = Some k0 /\ t_penalty k' = t_penalty k0) ->
               (aget (car_memo tn) x <> None \/ exists u k', In u r /\ find_trk (db_trks tn) u = Some k' /\ x = t_penalty k') ->
               aget (car_memo t) x <> None \/ exists u k', In u (uuid :: r) /\ find_trk (db_trks t) u = Some k' /\ x = t_penalty k').
    { intros tn Hm Hrows [H|[u [k' [Hu [Hf Hp]]]]].
      - rewrite Hm in H. destruct (send_memo_dom _ _ _ _ _ x Es H) as [H'|H']; [left; exact H'|].
        right. exists uuid, k. split; [left; reflexivity|]. split; [exact Ef|exact H'].
      - destruct (Hrows u k' Hf) as [k0 [Hf0 Hp0]]. right. exists u, k0. split; [right; exact Hu|]. split; [exact Hf0|congruence]. }
    assert (Hupd : forall hh c u k', find_trk (db_trks (set_trk_status t1 uuid hh c)) u = Some k' ->
               exists k0, find_trk (db_trks t) u = Some k0 /\ t_penalty k' = t_penalty k0).
    { intros hh c u k' Hf. rewrite find_trk_set_status, Htr in Hf. destruct (find_trk (db_trks t) u) as [k0|]; [|discriminate].
      exists k0. split; [reflexivity|]. cbn [option_map] in Hf. inversion Hf.
      destruct (uuid_eqb (trk_uuid k0) uuid); reflexivity. }
    destruct s as [hh|hh| |c].
    + apply (Hstep (set_trk_status t1 uuid hh true) eq_refl (Hupd hh true) E).
    + apply (Hstep (set_trk_status t1 uuid hh false) eq_refl (Hupd hh false) E).
    + apply (Hstep (set_trk_status t1 uuid h false) eq_refl (Hupd h false) E).
    + apply (Hstep t1 eq_refl); [|exact E]. intros u k' Hf. rewrite Htr in Hf. eauto.
Qed.

Lemma reorged_loop_memo_dom sc h us : forall t rej rej' t',
  reorged_loop sc h us t rej = Ok rej' t' ->
  forall x, aget (car_memo t') x <> None ->
            aget (car_memo t) x <> None \/
            exists u k, In u us /\ find_trk (db_trks t) u = Some k /\ (x = t_dispute k \/ x = t_penalty k).
Proof.
  induction us as [|uuid r IH]; intros t rej rej' t' E x Hx.
  - cbn [reorged_loop] in E. inversion E. subst. auto.
  - rewrite reorged_loop_cons in E. destruct (find_trk (db_trks t) uuid) as [k|] eqn:Ef.
    2:{ destruct (IH _ _ _ _ E x Hx) as [H|[u [k [Hu H]]]]; [auto|]. right. exists u, k. split; [right; exact Hu|exact H]. }
    destruct (send_transaction sc t (t_dispute k)) as [s t1] eqn:Es.
    assert (Htr : db_trks t1 = db_trks t).
    { destruct (send_spec sc t (t_dispute k)) as [m [l [Es' _]]]. rewrite Es' in Es. inversion Es. reflexivity. }
    assert (Hback1 : aget (car_memo t1) x <> None ->
                     aget (car_memo t) x <> None \/
                     exists u k', In u (uuid :: r) /\ find_trk (db_trks t) u = Some k' /\ (x = t_dispute k' \/ x = t_penalty k')).
    { intros H. destruct (send_memo_dom _ _ _ _ _ x Es H) as [H'|H']; [left; exact H'|].
      right. exists uuid, k. split; [left; reflexivity|]. split; [exact Ef|left; exact H']. }
    assert (Hlift : forall (l0 : list trk),
               (forall u k', find_trk l0 u = Some k' ->
                  exists k0, find_trk (db_trks t) u = Some k0 /\ t_dispute k' = t_dispute k0 /\ t_penalty k' = t_penalty k0) ->
               (exists u k', In u r /\ find_trk l0 u = Some k' /\ (x = t_dispute k' \/ x = t_penalty k')) ->
               exists u k', In u (uuid :: r) /\ find_trk (db_trks t) u = Some k' /\ (x = t_dispute k' \/ x = t_penalty k')).
    { intros l0 Hrows [u [k' [Hu [Hf Hp]]]]. destruct (Hrows u k' Hf) as [k0 [Hf0 [Hd0 Hp0]]].
      exists u, k0. split; [right; exact Hu|]. split; [exact Hf0|]. rewrite <- Hd0, <- Hp0. exact Hp. }
    assert (Hid : forall u k', find_trk (db_trks t) u = Some k' ->
               exists k0, find_trk (db_trks t) u = Some k0 /\ t_dispute k' = t_dispute k0 /\ t_penalty k' = t_penalty k0) by eauto.
    destruct (is_confirmed s); [discriminate|].
    destruct (status_rejected s).
    { destruct (IH _ _ _ _ E x Hx) as [H|H]; [exact (Hback1 H)|]. right. rewrite Htr in H. exact (Hlift _ Hid H). }
    destruct (send_transaction sc t1 (t_penalty k)) as [s2 t2] eqn:Es2.
    assert (Htr2 : db_trks t2 = db_trks t).
    { destruct (send_spec sc t1 (t_penalty k)) as [m [l [Es' _]]]. rewrite Es' in Es2. inversion Es2. rewrite <- Htr. reflexivity. }
    assert (Hback2 : aget (car_memo t2) x <> None ->
                     aget (car_memo t) x <> None \/
                     exists u k', In u (uuid :: r) /\ find_trk (db_trks t) u = Some k' /\ (x = t_dispute k' \/ x = t_penalty k')).
    { intros H. destruct (send_memo_dom _ _ _ _ _ x Es2 H) as [H'|H']; [exact (Hback1 H')|].
      right. exists uuid, k. split; [left; reflexivity|]. split; [exact Ef|right; exact H']. }
    destruct (status_rejected s2).
    { destruct (IH _ _ _ _ E x Hx) as [H|H]; [exact (Hback2 H)|]. right. rewrite Htr2 in H. exact (Hlift _ Hid H). }
    assert (Hupd : forall u k', find_trk (db_trks (set_trk_status t2 uuid h false)) u = Some k' ->
               exists k0, find_trk (db_trks t) u = Some k0 /\ t_dispute k' = t_dispute k0 /\ t_penalty k' = t_penalty k0).
    { intros u k' Hf. rewrite find_trk_set_status, Htr2 in Hf. destruct (find_trk (db_trks t) u) as [k0|]; [|discriminate].
      exists k0. split; [reflexivity|]. cbn [option_map] in Hf. inversion Hf.
      destruct (uuid_eqb (trk_uuid k0) uuid); split; reflexivity. }
    destruct (IH _ _ _ _ E x Hx) as [H|H]; [exact (Hback2 H)|]. right. exact (Hlift _ Hupd H).
Qed.

(* ------------------------------------------------------------------------------------------ *)
(* the responder's block_connected, stage by stage *)

Definition stale_sel (lim : N) (k : trk) : bool := negb (t_conf k) && N.leb (t_height k) lim.

Record rbc_stages (sc : script) (t : tower) (b : iblock N) (h : N) (t' : tower)
       (idx : txindex N) (lim : N) (tR t3 t5 : tower) : Prop := {
  rs_index : ti_update (r_index t) b = Some idx;
  rs_lim : u32_sub h RETRY = Some lim;
  rs_refund : refund_loop (cc_result (keys_of (ib_data b)) h (set_r_index (set_car_height t h) idx))
                          (completed_list (keys_of (ib_data b)) h t) = Ok tt tR;
  rs_t3 : t3 = set_reorged (db_delete_apps tR (completed_list (keys_of (ib_data b)) h t)) [];
  rs_t5 : exists m l,
      t5 = with_carrier
             (set_db_trks t3
                (stale_rows (eff_status sc t3) h
                   (map trk_uuid (filter (stale_sel lim)
                      (reorg_rows (eff_status sc t3) h (reorged tR) (db_trks t3))))
                   (reorg_rows (eff_status sc t3) h (reorged tR) (db_trks t3)))) m l;
  rs_carried : carried sc t3 t5;
  rs_cov_reorg : forall uuid k, In uuid (reorged tR) -> find_trk (db_trks t3) uuid = Some k ->
                                reorg_covered (eff_status sc t3) t5 k;
  rs_cov_stale : forall uuid k,
      In uuid (map trk_uuid (filter (stale_sel lim) (reorg_rows (eff_status sc t3) h (reorged tR) (db_trks t3)))) ->
      find_trk (reorg_rows (eff_status sc t3) h (reorged tR) (db_trks t3)) uuid = Some k ->
      aget (car_memo t5) (t_penalty k) = Some (eff_status sc t3 (t_penalty k));
  rs_final : t' = set_car_memo
                    (db_delete_apps t5
                       (filter (reorg_rejected (eff_status sc t3) (db_trks t3)) (reorged tR) ++
                        filter (stale_rejected (eff_status sc t3)
                                  (reorg_rows (eff_status sc t3) h (reorged tR) (db_trks t3)))
                               (map trk_uuid (filter (stale_sel lim)
                                  (reorg_rows (eff_status sc t3) h (reorged tR) (db_trks t3)))))) [];
  rs_memo_dom : forall x, aget (car_memo t5) x <> None ->
      aget (car_memo t3) x <> None \/
      (exists u k, In u (reorged tR) /\ find_trk (db_trks t3) u = Some k /\ (x = t_dispute k \/ x = t_penalty k)) \/
      (exists u k, In u (map trk_uuid (filter (stale_sel lim) (reorg_rows (eff_status sc t3) h (reorged tR) (db_trks t3)))) /\
                   find_trk (reorg_rows (eff_status sc t3) h (reorged tR) (db_trks t3)) u = Some k /\ x = t_penalty k)
}.

Lemma inv_nodup_delete t us : NoDup (map trk_uuid (db_trks t)) -> NoDup (map trk_uuid (db_trks (db_delete_apps t us))).
Proof. intros H. unfold db_delete_apps. cbn [db_trks set_db_trks set_db_apps]. apply NoDup_map_filter. exact H. Qed.

Theorem r_block_connected_stages le sc t b h t' :
  Inv t -> r_block_connected le sc t b h = Ok tt t' ->
  exists idx lim tR t3 t5, rbc_stages sc t b h t' idx lim tR t3 t5.
Proof.
  intros HI E. unfold r_block_connected in E.
  change (r_index (set_car_height t h)) with (r_index t) in E.
  destruct (ti_update (r_index t) b) as [idx|] eqn:Ei; [|discriminate].
  set (t1 := set_r_index (set_car_height t h) idx) in *.
  set (txids := keys_of (ib_data b)) in *.
  assert (HI1 : Inv t1) by (eapply inv_frame; [|exact HI]; repeat split).
  pose proof (check_conf_loop_spec le txids h t1 [] HI1) as Hcc.
  change (reorged t1) with (reorged t) in Hcc. change (db_trks t1) with (db_trks t) in Hcc.
  change (db_trks t1) with (db_trks t) in E.
  rewrite Hcc in E. cbn [bind List.app] in E.
  change (completed_list txids h t1) with (completed_list txids h t) in E.
  set (completed := completed_list txids h t) in *.
  set (t2 := cc_result txids h t1) in *.
  rewrite (delete_opt t2 completed true) in E. unfold gk_delete_appointments in E.
  assert (HI2 : Inv t2).
  { pose proof (check_conf_loop_pres Inv (sb_wr _ (sa_block _ inv_stable)) le txids h (db_trks t1) t1 [] HI1) as Hp.
    change (db_trks t1) with (db_trks t) in Hp. rewrite Hcc in Hp. exact Hp. }
  destruct (refund_loop t2 completed) as [[] tR|] eqn:Er; [|discriminate]. cbn [bind] in E.
  assert (HIR : Inv tR).
  { pose proof (refund_loop_pres Inv (sb_wr _ (sa_block _ inv_stable)) completed t2 HI2) as Hp. rewrite Er in Hp. exact Hp. }
  rewrite (reorged_opt sc h (db_delete_apps tR completed)) in E.
  change (reorged (db_delete_apps tR completed)) with (reorged tR) in E.
  set (t3 := set_reorged (db_delete_apps tR completed) []) in *.
  assert (Hnd3 : NoDup (map trk_uuid (db_trks t3))).
  { change (db_trks t3) with (db_trks (db_delete_apps tR completed)). apply inv_nodup_delete. exact (inv_trks_nodup _ HIR). }
  destruct (reorged_loop sc h (reorged tR) t3 []) as [rej1 t4|] eqn:El; [|discriminate]. cbn [bind] in E.
  destruct (reorged_loop_gen sc h (eff_status sc t3) (reorged tR) t3 [] rej1 t4 Hnd3 (fun x => eq_refl) El)
    as [Hr1 [[m4 [l4 Et4]] [Hc4 Hcov4]]].
  cbn [List.app] in Hr1.
  fold RETRY in E. destruct (u32_sub h RETRY) as [lim|] eqn:Elim; [|discriminate].
  set (e := eff_status sc t3) in *.
  set (trksC := reorg_rows e h (reorged tR) (db_trks t3)) in *.
  assert (Ht4 : db_trks t4 = trksC) by (rewrite Et4; reflexivity).
  rewrite Ht4 in E. fold (stale_sel lim) in E.
  assert (Hnd4 : NoDup (map trk_uuid (db_trks t4))).
  { rewrite Ht4. unfold trksC, reorg_rows. rewrite map_map. erewrite map_ext; [exact Hnd3|].
    intros k. destruct (_ && _); reflexivity. }
  set (stale := map trk_uuid (filter (stale_sel lim) trksC)) in *.
  destruct (stale_loop_gen sc h e stale t4 [] Hnd4) as [t5 [Es [[m5 [l5 Et5]] [Hc5 Hcov5]]]].
  { intros x. rewrite (ca_eff _ _ _ Hc4). reflexivity. }
  { intros u Hu. rewrite Ht4. unfold stale in Hu. apply in_map_iff in Hu. destruct Hu as [k [He Hk]].
    apply filter_In in Hk. subst u. apply find_trk_In. tauto. }
  rewrite Es in E. cbn [bind List.app] in E. rewrite Ht4 in *.
  match type of E with context [match ?l with [] => _ | _ => _ end] => rewrite (delete_opt_false t5 l) in E end.
  cbn [bind] in E.
  inversion E. clear E.
  exists idx, lim, tR, t3, t5. constructor; try assumption; try reflexivity.
  - exists m5, l5. rewrite Et5, Et4. reflexivity.
  - eapply carried_trans; eassumption.
  - intros uuid k Hu Hf. specialize (Hcov4 uuid k Hu Hf). destruct Hcov4 as [A [B C]].
    split; [exact A|]. split; [apply (ca_memo_mono _ _ _ Hc5); exact B|].
    intros Hn. apply (ca_memo_mono _ _ _ Hc5). apply C. exact Hn.
  - rewrite Hr1. reflexivity.
  - intros x Hx. destruct (stale_loop_memo_dom _ _ _ _ _ _ _ Es x Hx) as [H|H]; [|right; right; rewrite Ht4 in H; exact H].
    destruct (reorged_loop_memo_dom _ _ _ _ _ _ _ El x H) as [H'|H']; [left; exact H'|right; left; exact H'].
Qed.

(* ------------------------------------------------------------------------------------------ *)
(* what one connected block does to one tracker row *)

Lemma find_trk_filter_uuid (D : list (N * N)) l u :
  find_trk (filter (fun k => negb (mem_uuid (trk_uuid k) D)) l) u = if mem_uuid u D then None else find_trk l u.
Proof.
  unfold find_trk. induction l as [|k l IH]; [destruct (mem_uuid u D); reflexivity|]. cbn [filter find].
  destruct (uuid_eqb (trk_uuid k) u) eqn:E.
  - apply uuid_eqb_eq in E. rewrite E. destruct (mem_uuid u D) eqn:Em; cbn [negb]; [exact IH|].
    cbn [find]. rewrite E, uuid_eqb_refl. reflexivity.
  - destruct (mem_uuid (trk_uuid k) D); cbn [negb]; [exact IH|]. cbn [find]. rewrite E. exact IH.
Qed.

Lemma mem_uuid_map_filter (p : trk -> bool) l u k :
  NoDup (map trk_uuid l) -> find_trk l u = Some k -> mem_uuid u (map trk_uuid (filter p l)) = p k.
Proof.
  intros Hnd Hf. destruct (find_trk_Some _ _ _ Hf) as [Hk Hu]. destruct (p k) eqn:Ep.
  - apply mem_uuid_In. rewrite <- Hu. apply in_map. apply filter_In. tauto.
  - apply mem_uuid_false. intros Hi. apply in_map_iff in Hi. destruct Hi as [k' [He Hk']].
    apply filter_In in Hk'. destruct Hk' as [Hk' Hp]. assert (k' = k) by (apply (same_uuid_same_row l); auto; congruence).
    congruence.
Qed.

Lemma mem_uuid_map_filter_none (p : trk -> bool) l u :
  find_trk l u = None -> mem_uuid u (map trk_uuid (filter p l)) = false.
Proof.
  intros Hf. apply mem_uuid_false. intros Hi. apply (find_trk_None _ _ Hf).
  apply in_map_iff in Hi. destruct Hi as [k [He Hk]]. apply filter_In in Hk. apply in_map_iff. exists k. tauto.
Qed.

Lemma mem_uuid_filter (q : N * N -> bool) l u : mem_uuid u (filter q l) = mem_uuid u l && q u.
Proof.
  induction l as [|x l IH]; [reflexivity|]. cbn [filter]. destruct (q x) eqn:Eq.
  - rewrite !mem_uuid_cons, IH. destruct (uuid_eqb u x) eqn:E; [|reflexivity].
    apply uuid_eqb_eq in E. subst x. rewrite Eq. cbn [orb andb]. reflexivity.
  - rewrite mem_uuid_cons, IH. destruct (uuid_eqb u x) eqn:E; [|reflexivity].
    apply uuid_eqb_eq in E. subst x. rewrite Eq, andb_false_r. reflexivity.
Qed.

Lemma mem_uuid_app u a b : mem_uuid u (a ++ b) = mem_uuid u a || mem_uuid u b.
Proof. apply existsb_app. Qed.

Definition confirm_one (txids : list N) (h : N) (k : trk) : trk :=
  if memN (t_penalty k) txids then restamp k h true else k.

Definition fate (txids : list N) (h lim : N) (rg : list (N * N)) (e : N -> cstatus) (k : trk) : option trk :=
  if memN (t_penalty k) txids then Some (restamp k h true)                 (* confirmed by this block *)
  else if mem_uuid (trk_uuid k) rg then                                    (* its confirming block was disconnected *)
    (if trk_rejected e k then None else Some (restamp k h false))
  else if t_conf k then                                                    (* counting confirmations *)
    (if N.eqb (h - t_height k) IRR then None else Some k)
  else if N.leb (t_height k) lim then                                      (* stale: re-broadcast *)
    (if status_rejected (e (t_penalty k)) then None else Some (stale_upd e h k))
  else Some k.

Section Pipeline.
  Context (txids : list N) (h lim : N) (rg0 : list (N * N)) (e : N -> cstatus) (l : list trk).
  Context (Hnd : NoDup (map trk_uuid l)) (Hlim : lim < h).

  Let completed := map trk_uuid (filter (completes txids h rg0) l).
  Let lA := confirm_rows txids h l.
  Let lB := filter (fun k => negb (mem_uuid (trk_uuid k) completed)) lA.
  Let rg := filter (fun u => negb (mem_uuid u (conf_uuids txids l))) rg0.
  Let lC := reorg_rows e h rg lB.
  Let stale := map trk_uuid (filter (stale_sel lim) lC).
  Let lD := stale_rows e h stale lC.
  Let rej1 := filter (reorg_rejected e lB) rg.
  Let rej2 := filter (stale_rejected e lC) stale.
  Let lE := filter (fun k => negb (mem_uuid (trk_uuid k) (rej1 ++ rej2))) lD.

  Lemma pl_ndA : NoDup (map trk_uuid lA).
  Proof.
    unfold lA, confirm_rows. rewrite map_map. erewrite map_ext; [exact Hnd|].
    intros k. destruct (memN _ _); reflexivity.
  Qed.
  Lemma pl_ndB : NoDup (map trk_uuid lB).
  Proof. unfold lB. apply NoDup_map_filter. exact pl_ndA. Qed.
  Lemma pl_ndC : NoDup (map trk_uuid lC).
  Proof.
    unfold lC, reorg_rows. rewrite map_map. erewrite map_ext; [exact pl_ndB|].
    intros k. destruct (_ && _); reflexivity.
  Qed.

  Lemma pl_findA u : find_trk lA u = option_map (confirm_one txids h) (find_trk l u).
  Proof. unfold lA, confirm_rows. apply find_trk_map. intros k. destruct (memN _ _); reflexivity. Qed.

  Lemma pl_findC u :
    find_trk lC u = option_map (fun k => if mem_uuid (trk_uuid k) rg && negb (trk_rejected e k)
                                         then restamp k h false else k) (find_trk lB u).
  Proof. unfold lC, reorg_rows. apply find_trk_map. intros k. destruct (_ && _); reflexivity. Qed.

  Lemma pl_findD u :
    find_trk lD u = option_map (fun k => if mem_uuid (trk_uuid k) stale then stale_upd e h k else k) (find_trk lC u).
  Proof.
    unfold lD, stale_rows. apply find_trk_map. intros k. destruct (mem_uuid _ _); [apply stale_upd_fields|reflexivity].
  Qed.

  Lemma pipeline_none u : find_trk l u = None -> find_trk lE u = None.
  Proof.
    intros Hf. unfold lE. rewrite find_trk_filter_uuid. destruct (mem_uuid u (rej1 ++ rej2)); [reflexivity|].
    rewrite pl_findD, pl_findC. unfold lB. rewrite find_trk_filter_uuid.
    destruct (mem_uuid u completed); [reflexivity|]. rewrite pl_findA, Hf. reflexivity.
  Qed.

  Lemma pipeline_row u k : find_trk l u = Some k -> find_trk lE u = fate txids h lim rg0 e k.
  Proof.
    intros Hf. destruct (find_trk_Some _ _ _ Hf) as [Hk Hu].
    assert (HmC : mem_uuid u completed = completes txids h rg0 k) by (apply mem_uuid_map_filter; assumption).
    assert (HmF : mem_uuid u (conf_uuids txids l) = memN (t_penalty k) txids)
      by (unfold conf_uuids; rewrite (mem_uuid_map_filter _ _ _ k Hnd Hf); reflexivity).
    assert (Hrg : mem_uuid u rg = mem_uuid u rg0 && negb (memN (t_penalty k) txids))
      by (unfold rg; rewrite mem_uuid_filter, HmF; reflexivity).
    assert (HfB : find_trk lB u = if completes txids h rg0 k then None else Some (confirm_one txids h k)).
    { unfold lB. rewrite find_trk_filter_uuid, HmC, pl_findA, Hf. reflexivity. }
    assert (Hr1 : mem_uuid u rej1 = mem_uuid u rg && reorg_rejected e lB u)
      by (unfold rej1; apply mem_uuid_filter).
    assert (Hr2 : mem_uuid u rej2 = mem_uuid u stale && stale_rejected e lC u)
      by (unfold rej2; apply mem_uuid_filter).
    assert (HfE : find_trk lE u = if mem_uuid u rej1 || mem_uuid u rej2 then None else find_trk lD u)
      by (unfold lE; rewrite find_trk_filter_uuid, mem_uuid_app; reflexivity).
    rewrite HfE, Hr1, Hr2, pl_findD. unfold fate. unfold completes in HfB. rewrite Hu in *.
    destruct (memN (t_penalty k) txids) eqn:Em; cbn [negb andb] in *.
    - (* confirmed by this block *)
      rewrite andb_false_r in Hrg. unfold confirm_one in HfB. rewrite Em in HfB.
      assert (HfC : find_trk lC u = Some (restamp k h true)).
      { rewrite pl_findC, HfB. cbn [option_map]. rewrite restamp_uuid, Hu, Hrg. reflexivity. }
      assert (Hst : mem_uuid u stale = false).
      { unfold stale. rewrite (mem_uuid_map_filter _ _ _ _ pl_ndC HfC). reflexivity. }
      rewrite Hrg, Hst, HfC. cbn [andb orb option_map]. rewrite restamp_uuid, Hu, Hst. reflexivity.
    - rewrite andb_true_r in Hrg. unfold confirm_one in HfB. rewrite Em in HfB.
      destruct (mem_uuid u rg0) eqn:Erg; cbn [negb andb] in *.
      + (* reorged *)
        assert (Hrr : reorg_rejected e lB u = trk_rejected e k) by (unfold reorg_rejected; rewrite HfB; reflexivity).
        rewrite Hrg, Hrr. cbn [andb]. destruct (trk_rejected e k) eqn:Erj; [reflexivity|].
        assert (HfC : find_trk lC u = Some (restamp k h false)).
        { rewrite pl_findC, HfB. cbn [option_map]. rewrite Hu, Hrg, Erj. reflexivity. }
        assert (Hst : mem_uuid u stale = false).
        { unfold stale. rewrite (mem_uuid_map_filter _ _ _ _ pl_ndC HfC). unfold stale_sel. cbn [t_conf t_height restamp negb andb].
          apply N.leb_gt. exact Hlim. }
        rewrite Hst, HfC. cbn [andb orb option_map]. rewrite restamp_uuid, Hu, Hst. reflexivity.
      + destruct (t_conf k) eqn:Ec; cbn [andb] in *.
        * (* counting confirmations *)
          destruct (N.eqb (h - t_height k) IRR) eqn:Ei.
          { assert (HfC : find_trk lC u = None) by (rewrite pl_findC, HfB; reflexivity).
            rewrite HfC. cbn [option_map]. match goal with |- (if ?c then _ else _) = _ => destruct c end; reflexivity. }
          assert (HfC : find_trk lC u = Some k).
          { rewrite pl_findC, HfB. cbn [option_map]. rewrite Hu, Hrg. reflexivity. }
          assert (Hst : mem_uuid u stale = false).
          { unfold stale. rewrite (mem_uuid_map_filter _ _ _ _ pl_ndC HfC). unfold stale_sel. rewrite Ec. reflexivity. }
          rewrite Hrg, Hst, HfC. cbn [andb orb option_map]. rewrite Hu, Hst. reflexivity.
        * (* unconfirmed *)
          assert (HfC : find_trk lC u = Some k).
          { rewrite pl_findC, HfB. cbn [option_map]. rewrite Hu, Hrg. reflexivity. }
          assert (Hst : mem_uuid u stale = N.leb (t_height k) lim).
          { unfold stale. rewrite (mem_uuid_map_filter _ _ _ _ pl_ndC HfC). unfold stale_sel. rewrite Ec. reflexivity. }
          assert (Hsr : stale_rejected e lC u = status_rejected (e (t_penalty k)))
            by (unfold stale_rejected; rewrite HfC; reflexivity).
          rewrite Hrg, Hst, HfC, Hsr. cbn [andb orb option_map]. rewrite Hu, Hst.
          destruct (N.leb (t_height k) lim); cbn [andb]; [|reflexivity].
          destruct (status_rejected (e (t_penalty k))); reflexivity.
  Qed.
  Lemma pl_B u k : find_trk l u = Some k ->
    find_trk lB u = if completes txids h rg0 k then None else Some (confirm_one txids h k).
  Proof.
    intros Hf. unfold lB. rewrite find_trk_filter_uuid, pl_findA, Hf.
    unfold completed. rewrite (mem_uuid_map_filter _ _ _ k Hnd Hf). reflexivity.
  Qed.

  Lemma pl_rg u k : find_trk l u = Some k -> mem_uuid u rg = mem_uuid u rg0 && negb (memN (t_penalty k) txids).
  Proof.
    intros Hf. unfold rg. rewrite mem_uuid_filter. unfold conf_uuids.
    rewrite (mem_uuid_map_filter _ _ _ k Hnd Hf). reflexivity.
  Qed.

  (* a reorged tracker not re-confirmed by this block is handed to handle_reorged_txs as it is *)
  Lemma pl_reorged u k :
    find_trk l u = Some k -> memN (t_penalty k) txids = false -> mem_uuid u rg0 = true ->
    find_trk lB u = Some k /\ In u rg.
  Proof.
    intros Hf Em Er. destruct (find_trk_Some _ _ _ Hf) as [_ Hu]. split.
    - rewrite (pl_B u k Hf). unfold completes, confirm_one. rewrite Hu, Em, Er. reflexivity.
    - apply mem_uuid_In. rewrite (pl_rg u k Hf), Em, Er. reflexivity.
  Qed.

  (* an unconfirmed tracker outside the reorged set reaches rebroadcast_stale_txs as it is *)
  Lemma pl_unconfirmed u k :
    find_trk l u = Some k -> memN (t_penalty k) txids = false -> mem_uuid u rg0 = false -> t_conf k = false ->
    find_trk lC u = Some k /\ mem_uuid u stale = N.leb (t_height k) lim.
  Proof.
    intros Hf Em Er Ec. destruct (find_trk_Some _ _ _ Hf) as [_ Hu].
    assert (HfC : find_trk lC u = Some k).
    { rewrite pl_findC, (pl_B u k Hf). unfold completes, confirm_one. rewrite Hu, Em, Er, Ec. cbn [negb andb option_map].
      rewrite Hu, (pl_rg u k Hf), Er. reflexivity. }
    split; [exact HfC|]. unfold stale. rewrite (mem_uuid_map_filter _ _ _ _ pl_ndC HfC). unfold stale_sel. rewrite Ec. reflexivity.
  Qed.
  Lemma pl_B_inv u kB : find_trk lB u = Some kB ->
    exists k, find_trk l u = Some k /\ kB = confirm_one txids h k.
  Proof.
    unfold lB. rewrite find_trk_filter_uuid. destruct (mem_uuid u completed); [discriminate|].
    rewrite pl_findA. destruct (find_trk l u) as [k|]; [|discriminate]. cbn [option_map]. intros E. inversion E. eauto.
  Qed.

  (* what handle_reorged_txs is handed comes from the reorged set and was not re-confirmed by this block *)
  Lemma pl_reorged_inv u kB : In u rg -> find_trk lB u = Some kB ->
    exists k, find_trk l u = Some k /\ In u rg0 /\ memN (t_penalty k) txids = false /\
              t_dispute kB = t_dispute k /\ t_penalty kB = t_penalty k.
  Proof.
    intros Hu Hf. destruct (pl_B_inv u kB Hf) as [k [Hk He]]. exists k. split; [exact Hk|].
    apply mem_uuid_In in Hu. rewrite (pl_rg u k Hk) in Hu. apply andb_true_iff in Hu. destruct Hu as [H1 H2].
    apply mem_uuid_In in H1. apply negb_true_iff in H2. split; [exact H1|]. split; [exact H2|].
    subst kB. unfold confirm_one. rewrite H2. split; reflexivity.
  Qed.

  (* what rebroadcast_stale_txs selects is an untouched unconfirmed row of the table before the block *)
  Lemma pl_stale_inv u kC : In u stale -> find_trk lC u = Some kC ->
    find_trk l u = Some kC /\ t_conf kC = false /\ t_height kC <= lim /\ memN (t_penalty kC) txids = false.
  Proof.
    intros Hu Hf. apply mem_uuid_In in Hu. unfold stale in Hu. rewrite (mem_uuid_map_filter _ _ _ _ pl_ndC Hf) in Hu.
    unfold stale_sel in Hu. apply andb_true_iff in Hu. destruct Hu as [Hc Hh]. apply negb_true_iff in Hc. apply N.leb_le in Hh.
    rewrite pl_findC in Hf. destruct (find_trk lB u) as [kB|] eqn:EB; [|discriminate]. cbn [option_map] in Hf.
    destruct (pl_B_inv u kB EB) as [k [Hk He]].
    destruct (mem_uuid (trk_uuid kB) rg && negb (trk_rejected e kB)).
    { inversion Hf. subst kC. cbn [t_height restamp] in Hh. lia. }
    inversion Hf. subst kC. subst kB. unfold confirm_one in *.
    destruct (memN (t_penalty k) txids) eqn:Em; [cbn [t_conf restamp] in Hc; discriminate|]. auto.
  Qed.
End Pipeline.

(* the carrier's answers during the block of height h, as seen from the state before the block *)
Definition blk_eff (sc : script) (t : tower) (h : N) : N -> cstatus := eff_status sc (set_car_height t h).

Lemma retry_lim h lim : u32_sub h RETRY = Some lim -> lim < h /\ lim = h - RETRY /\ RETRY <= h.
Proof.
  unfold u32_sub. rewrite RETRY_6. destruct (N.leb_spec 6 h); [|discriminate]. intros E. inversion E. lia.
Qed.

(* every row of the tracker table after the responder has processed a block *)
Theorem r_block_connected_rows le sc t b h t' :
  Inv t -> r_block_connected le sc t b h = Ok tt t' ->
  exists lim, u32_sub h RETRY = Some lim /\
    forall u, find_trk (db_trks t') u =
              match find_trk (db_trks t) u with
              | None => None
              | Some k => fate (keys_of (ib_data b)) h lim (reorged t) (blk_eff sc t h) k
              end.
Proof.
  intros HI E. destruct (r_block_connected_stages le sc t b h t' HI E) as [idx [lim [tR [t3 [t5 S]]]]].
  destruct S as [S1 S2 S4 S5 [m [l S6]] S7 S8 S9 S10 S11].
  exists lim. split; [exact S2|]. intros u.
  assert (HI2 : Inv (cc_result (keys_of (ib_data b)) h (set_r_index (set_car_height t h) idx))).
  { assert (HI1 : Inv (set_r_index (set_car_height t h) idx)) by (eapply inv_frame; [|exact HI]; repeat split).
    pose proof (check_conf_loop_pres Inv (sb_wr _ (sa_block _ inv_stable)) le (keys_of (ib_data b)) h
                  (db_trks t) (set_r_index (set_car_height t h) idx) [] HI1) as Hp.
    pose proof (check_conf_loop_spec le (keys_of (ib_data b)) h _ [] HI1) as Hcc.
    change (reorged (set_r_index (set_car_height t h) idx)) with (reorged t) in Hcc.
    change (db_trks (set_r_index (set_car_height t h) idx)) with (db_trks t) in Hcc.
    rewrite Hcc in Hp. exact Hp. }
  destruct (refund_loop_spec _ _ _ HI2 S4) as [[g [d EtR]] _].
  destruct (retry_lim h lim S2) as [Hlim _].
  subst tR. subst t3. subst t5. subst t'.
  pose proof (inv_trks_nodup t HI) as Hnd.
  destruct (find_trk (db_trks t) u) as [k|] eqn:Ef.
  - exact (pipeline_row (keys_of (ib_data b)) h lim (reorged t) (blk_eff sc t h) (db_trks t) Hnd Hlim u k Ef).
  - exact (pipeline_none (keys_of (ib_data b)) h lim (reorged t) (blk_eff sc t h) (db_trks t) u Ef).
Qed.

Lemma carried_ext_l sc a a' b :
  carried sc a b -> car_height a' = car_height a -> car_memo a' = car_memo a -> rpc_log a' = rpc_log a ->
  carried sc a' b.
Proof.
  intros [A1 A2 A3 A4 A5 A6] Hh Hm Hl.
  assert (He : forall x, eff_status sc a' x = eff_status sc a x) by (intros x; apply eff_status_ext; assumption).
  constructor; rewrite ?Hh, ?Hm, ?Hl; auto.
  - intros x. rewrite He. apply A2.
  - intros e Hi. destruct (A6 e Hi) as [H|[H1 [H2 [H3 H4]]]]; [left; exact H|right]. rewrite He. auto.
Qed.

Lemma find_app_filter_uuid (D : list (N * N)) l u :
  find_app (filter (fun a => negb (mem_uuid (app_uuid a) D)) l) u = if mem_uuid u D then None else find_app l u.
Proof.
  unfold find_app. induction l as [|k l IH]; [destruct (mem_uuid u D); reflexivity|]. cbn [filter find].
  destruct (uuid_eqb (app_uuid k) u) eqn:E.
  - apply uuid_eqb_eq in E. rewrite E. destruct (mem_uuid u D) eqn:Em; cbn [negb]; [exact IH|].
    cbn [find]. rewrite E, uuid_eqb_refl. reflexivity.
  - destruct (mem_uuid (app_uuid k) D); cbn [negb]; [exact IH|]. cbn [find]. rewrite E. exact IH.
Qed.

(* everything the responder's block_connected does, in terms of the state before the block *)
Record rbc_facts (sc : script) (t : tower) (b : iblock N) (h : N) (t' : tower) (lim : N) (t5 : tower) : Prop := {
  rf_lim : u32_sub h RETRY = Some lim;
  rf_lim_lt : lim < h;
  rf_mem : forall u, aget (gk_users t') u =
                     option_map (credit (refund_total (db_apps t) (completed_list (keys_of (ib_data b)) h t) u))
                                (aget (gk_users t) u);
  rf_db : forall u, aget (db_users t') u =
                    option_map (credit (refund_total (db_apps t) (completed_list (keys_of (ib_data b)) h t) u))
                               (aget (db_users t) u);
  rf_completed_apps : forall u, In u (completed_list (keys_of (ib_data b)) h t) ->
                                (exists a, find_app (db_apps t) u = Some a) /\ find_app (db_apps t') u = None;
  rf_rows : forall u, find_trk (db_trks t') u =
                      match find_trk (db_trks t) u with
                      | None => None
                      | Some k => fate (keys_of (ib_data b)) h lim (reorged t) (blk_eff sc t h) k
                      end;
  rf_log : rpc_log t' = rpc_log t5;
  rf_carried : carried sc (set_car_height t h) t5;
  rf_cov_reorg : forall u k, find_trk (db_trks t) u = Some k -> memN (t_penalty k) (keys_of (ib_data b)) = false ->
                             In u (reorged t) -> reorg_covered (blk_eff sc t h) t5 k;
  rf_cov_stale : forall u k, find_trk (db_trks t) u = Some k -> memN (t_penalty k) (keys_of (ib_data b)) = false ->
                             ~ In u (reorged t) -> t_conf k = false -> t_height k <= lim ->
                             aget (car_memo t5) (t_penalty k) = Some (blk_eff sc t h (t_penalty k));
  rf_sent_justified : forall x, aget (car_memo t5) x <> None ->
      aget (car_memo t) x <> None \/
      (exists k, In k (db_trks t) /\ In (trk_uuid k) (reorged t) /\ memN (t_penalty k) (keys_of (ib_data b)) = false /\
                 (x = t_dispute k \/ x = t_penalty k)) \/
      (exists k, In k (db_trks t) /\ t_conf k = false /\ t_height k <= lim /\
                 memN (t_penalty k) (keys_of (ib_data b)) = false /\ x = t_penalty k);
  rf_reorged : reorged t' = [];
  rf_memo : car_memo t' = [];
  rf_car_height : car_height t' = h;
  rf_heights : gk_height t' = gk_height t /\ w_height t' = w_height t /\ w_cache t' = w_cache t /\ cfg t' = cfg t;
  rf_index : ti_update (r_index t) b = Some (r_index t')
}.

Theorem r_block_connected_facts le sc t b h t' :
  Inv t -> r_block_connected le sc t b h = Ok tt t' -> exists lim t5, rbc_facts sc t b h t' lim t5.
Proof.
  intros HI E. destruct (r_block_connected_rows le sc t b h t' HI E) as [lim0 [Hl0 Hrows]].
  destruct (r_block_connected_stages le sc t b h t' HI E) as [idx [lim [tR [t3 [t5 S]]]]].
  destruct S as [S1 S2 S4 S5 [m [l S6]] S7 S8 S9 S10 S11].
  assert (lim0 = lim) by congruence. subst lim0.
  assert (HI2 : Inv (cc_result (keys_of (ib_data b)) h (set_r_index (set_car_height t h) idx))).
  { assert (HI1 : Inv (set_r_index (set_car_height t h) idx)) by (eapply inv_frame; [|exact HI]; repeat split).
    pose proof (check_conf_loop_pres Inv (sb_wr _ (sa_block _ inv_stable)) le (keys_of (ib_data b)) h
                  (db_trks t) (set_r_index (set_car_height t h) idx) [] HI1) as Hp.
    pose proof (check_conf_loop_spec le (keys_of (ib_data b)) h _ [] HI1) as Hcc.
    change (reorged (set_r_index (set_car_height t h) idx)) with (reorged t) in Hcc.
    change (db_trks (set_r_index (set_car_height t h) idx)) with (db_trks t) in Hcc.
    rewrite Hcc in Hp. exact Hp. }
  destruct (refund_loop_spec _ _ _ HI2 S4) as [[g [d EtR]] [Hg [Hd Hex]]].
  destruct (retry_lim h lim S2) as [Hlim _].
  pose proof (inv_trks_nodup t HI) as Hnd.
  exists lim, t5. subst tR. subst t3.
  assert (Hlog : rpc_log t' = rpc_log t5) by (rewrite S10; reflexivity).
  assert (Hgk : gk_users t' = g) by (rewrite S10, S6; reflexivity).
  assert (Hdb : db_users t' = d) by (rewrite S10, S6; reflexivity).
  constructor; try assumption.
  - intros u. rewrite Hgk. exact (Hg u).
  - intros u. rewrite Hdb. exact (Hd u).
  - intros u Hu. split; [exact (Hex u Hu)|]. rewrite S10, S6.
    unfold db_delete_apps, with_carrier, with_users.
    cbn [db_apps set_db_apps set_db_trks set_car_memo set_rpc_log set_reorged set_db_users set_gk_users].
    rewrite !find_app_filter_uuid. apply mem_uuid_In in Hu. rewrite Hu.
    match goal with |- (if ?c then _ else _) = _ => destruct c end; reflexivity.
  - eapply carried_ext_l; [exact S7|reflexivity..].
  - intros u k Hf Em Hu. apply mem_uuid_In in Hu.
    destruct (pl_reorged (keys_of (ib_data b)) h (reorged t) (db_trks t) Hnd u k Hf Em Hu) as [HfB Hrg].
    exact (S8 u k Hrg HfB).
  - intros u k Hf Em Hu Hc Hh. apply mem_uuid_false in Hu.
    destruct (pl_unconfirmed (keys_of (ib_data b)) h lim (reorged t) (blk_eff sc t h) (db_trks t) Hnd u k Hf Em Hu Hc) as [HfC Hst].
    apply N.leb_le in Hh. rewrite Hh in Hst. apply mem_uuid_In in Hst.
    exact (S9 u k Hst HfC).
  - intros x Hx. destruct (S11 x Hx) as [H|[[u [kB [Hu [Hf Hp]]]]|[u [kC [Hu [Hf Hp]]]]]].
    + left. exact H.
    + right. left.
      destruct (pl_reorged_inv (keys_of (ib_data b)) h (reorged t) (db_trks t) Hnd u kB Hu Hf) as [k [Hk [Hr [Em [Hdd Hpp]]]]].
      destruct (find_trk_Some _ _ _ Hk) as [Hin Huu]. exists k. rewrite Huu. split; [exact Hin|]. split; [exact Hr|]. split; [exact Em|]. rewrite <- Hdd, <- Hpp. exact Hp.
    + right. right.
      destruct (pl_stale_inv (keys_of (ib_data b)) h lim (reorged t) (blk_eff sc t h) (db_trks t) Hnd Hlim u kC Hu Hf) as [Hk [Hc [Hh Em]]].
      destruct (find_trk_Some _ _ _ Hk) as [Hin Huu]. exists kC. auto.
  - rewrite S10, S6. reflexivity.
  - rewrite S10. reflexivity.
  - rewrite S10, S6. reflexivity.
  - rewrite S10, S6. repeat split.
  - rewrite S10, S6. exact S1.
Qed.

(* ------------------------------------------------------------------------------------------ *)
(* the C04 statements at the level of the responder's listener *)

(* x was handed to the node during this block period: answered from the memo, or a K_send was logged *)
Definition given (sc : script) (t : tower) (h : N) (log : list rpc_event) (x : N) : Prop :=
  aget (car_memo t) x <> None \/ In (mk_rpc K_send x (blk_eff sc t h x)) log.

Lemma given_of_cov sc t h t5 x :
  carried sc (set_car_height t h) t5 -> aget (car_memo t5) x = Some (blk_eff sc t h x) ->
  given sc t h (rpc_log t5) x.
Proof.
  intros Hc Hm. unfold given. destruct (aget (car_memo t) x) eqn:E; [left; discriminate|right].
  apply (ca_memo_new _ _ _ Hc); [exact E|exact Hm].
Qed.

Lemma blk_eff_fresh sc t h x :
  aget (car_memo t) x = None ->
  blk_eff sc t h x = send_status (set_car_height t h) (snd (script_get sc x)).
Proof. intros H. unfold blk_eff, eff_status. cbn [car_memo set_car_height]. rewrite H. reflexivity. Qed.

Lemma blk_eff_fresh_ok sc t h x :
  aget (car_memo t) x = None -> snd (script_get sc x) = A_ok -> blk_eff sc t h x = InMempoolSince h.
Proof. intros H Ha. rewrite blk_eff_fresh by exact H. rewrite Ha. reflexivity. Qed.

Lemma blk_eff_memo sc t h x r : aget (car_memo t) x = Some r -> blk_eff sc t h x = r.
Proof. intros H. unfold blk_eff, eff_status. cbn [car_memo set_car_height]. rewrite H. reflexivity. Qed.

Theorem completes_iff_100 le sc t b h t' :
  Inv t -> r_block_connected le sc t b h = Ok tt t' ->
  (forall k, In k (db_trks t) ->
     (In (trk_uuid k) (completed_list (keys_of (ib_data b)) h t) <->
      memN (t_penalty k) (keys_of (ib_data b)) = false /\ mem_uuid (trk_uuid k) (reorged t) = false /\
      t_conf k = true /\ t_height k + IRR = h)) /\
  (forall u, In u (completed_list (keys_of (ib_data b)) h t) ->
     find_trk (db_trks t') u = None /\ find_app (db_apps t') u = None /\ exists a, find_app (db_apps t) u = Some a) /\
  (forall u, aget (gk_users t') u =
             option_map (credit (refund_total (db_apps t) (completed_list (keys_of (ib_data b)) h t) u)) (aget (gk_users t) u)) /\
  (forall u, aget (db_users t') u =
             option_map (credit (refund_total (db_apps t) (completed_list (keys_of (ib_data b)) h t) u)) (aget (db_users t) u)).
Proof.
  intros HI E. destruct (r_block_connected_facts le sc t b h t' HI E) as [lim [t5 F]].
  pose proof (inv_trks_nodup t HI) as Hnd.
  split; [|split; [|split]].
  - intros k Hk. rewrite in_completed_list. split.
    + intros [k' [Hk' [He Hc]]]. assert (k' = k) by (apply (same_uuid_same_row (db_trks t)); auto). subst k'.
      apply completes_iff. exact Hc.
    + intros H. exists k. split; [exact Hk|]. split; [reflexivity|]. apply completes_iff. exact H.
  - intros u Hu. destruct (rf_completed_apps _ _ _ _ _ _ _ F u Hu) as [Ha Hn]. split; [|split; assumption].
    rewrite (rf_rows _ _ _ _ _ _ _ F). apply in_completed_list in Hu. destruct Hu as [k [Hk [He Hc]]].
    subst u. rewrite (find_trk_In_NoDup _ k Hnd Hk). apply completes_iff_sub in Hc. destruct Hc as [C1 [C2 [C3 C5]]].
    unfold fate. rewrite C1, C2, C3, C5, N.eqb_refl. reflexivity.
  - exact (rf_mem _ _ _ _ _ _ _ F).
  - exact (rf_db _ _ _ _ _ _ _ F).
Qed.

(* nothing is completed: no balance moves, whatever else the block deletes *)
Lemma refund_total_nil apps u : refund_total apps [] u = 0.
Proof. reflexivity. Qed.

Lemma refund_total_not_owner apps us u :
  (forall uuid, In uuid us -> snd uuid <> u) -> refund_total apps us u = 0.
Proof.
  induction us as [|uuid r IH]; intros H; [reflexivity|]. cbn [refund_total].
  rewrite IH by (intros x Hx; apply H; right; exact Hx).
  destruct (find_app apps uuid) as [a|] eqn:Ea; [|reflexivity].
  apply find_app_Some in Ea. destruct Ea as [_ Ea]. destruct (N.eqb (a_user a) u) eqn:E; [|reflexivity].
  apply N.eqb_eq in E. exfalso. apply (H uuid (or_introl eq_refl)). rewrite <- Ea. exact E.
Qed.

(* a user none of whose trackers completes in this block keeps its balance, in memory and on disk *)
Corollary no_completion_no_refund le sc t b h t' u :
  Inv t -> r_block_connected le sc t b h = Ok tt t' ->
  (forall uuid, In uuid (completed_list (keys_of (ib_data b)) h t) -> snd uuid <> u) ->
  aget (gk_users t') u = aget (gk_users t) u /\ aget (db_users t') u = aget (db_users t) u.
Proof.
  intros HI E Hn. destruct (completes_iff_100 le sc t b h t' HI E) as [_ [_ [Hg Hd]]].
  rewrite Hg, Hd, (refund_total_not_owner _ _ _ Hn), !option_map_credit_0. split; reflexivity.
Qed.

Theorem reorg_reannounce le sc t b h t' u k :
  Inv t -> r_block_connected le sc t b h = Ok tt t' ->
  find_trk (db_trks t) u = Some k -> In u (reorged t) ->
  reorged t' = [] /\
  ~ In u (completed_list (keys_of (ib_data b)) h t) /\
  if memN (t_penalty k) (keys_of (ib_data b))
  then find_trk (db_trks t') u = Some (restamp k h true)
  else
    is_confirmed (blk_eff sc t h (t_dispute k)) = false /\
    given sc t h (rpc_log t') (t_dispute k) /\
    if status_rejected (blk_eff sc t h (t_dispute k)) then find_trk (db_trks t') u = None
    else given sc t h (rpc_log t') (t_penalty k) /\
         if status_rejected (blk_eff sc t h (t_penalty k)) then find_trk (db_trks t') u = None
         else find_trk (db_trks t') u = Some (restamp k h false).
Proof.
  intros HI E Hf Hu. destruct (r_block_connected_facts le sc t b h t' HI E) as [lim [t5 F]].
  pose proof (inv_trks_nodup t HI) as Hnd. destruct (find_trk_Some _ _ _ Hf) as [Hk Hku].
  pose proof Hu as Hm. apply mem_uuid_In in Hm.
  split; [exact (rf_reorged _ _ _ _ _ _ _ F)|]. split.
  { intros Hc. apply in_completed_list in Hc. destruct Hc as [k' [Hk' [He Hc]]].
    apply completes_iff in Hc. destruct Hc as [_ [Hr _]]. rewrite He in Hr. congruence. }
  pose proof (rf_rows _ _ _ _ _ _ _ F u) as Hrow. rewrite Hf in Hrow. unfold fate in Hrow. rewrite Hku, Hm in Hrow.
  destruct (memN (t_penalty k) (keys_of (ib_data b))) eqn:Em; [exact Hrow|].
  destruct (rf_cov_reorg _ _ _ _ _ _ _ F u k Hf Em Hu) as [C1 [C2 C3]].
  rewrite (rf_log _ _ _ _ _ _ _ F).
  split; [exact C1|]. split; [apply given_of_cov; [exact (rf_carried _ _ _ _ _ _ _ F)|exact C2]|].
  unfold trk_rejected in Hrow.
  destruct (status_rejected (blk_eff sc t h (t_dispute k))) eqn:Ed; [exact Hrow|].
  split; [apply given_of_cov; [exact (rf_carried _ _ _ _ _ _ _ F)|exact (C3 eq_refl)]|].
  cbn [orb] in Hrow. destruct (status_rejected (blk_eff sc t h (t_penalty k))); exact Hrow.
Qed.

Theorem rebroadcast_cadence le sc t b h t' u k :
  Inv t -> r_block_connected le sc t b h = Ok tt t' ->
  find_trk (db_trks t) u = Some k -> t_conf k = false -> ~ In u (reorged t) ->
  memN (t_penalty k) (keys_of (ib_data b)) = false ->
  RETRY <= h /\
  if N.leb (t_height k + RETRY) h
  then given sc t h (rpc_log t') (t_penalty k) /\
       find_trk (db_trks t') u =
       match blk_eff sc t h (t_penalty k) with
       | Rejected _ => None
       | ConfirmedIn hh => Some (restamp k hh true)
       | InMempoolSince hh => Some (restamp k hh false)
       | IrrevocablyResolved => Some (restamp k h false)
       end
  else find_trk (db_trks t') u = Some k.
Proof.
  intros HI E Hf Hc Hu Em. destruct (r_block_connected_facts le sc t b h t' HI E) as [lim [t5 F]].
  destruct (find_trk_Some _ _ _ Hf) as [Hk Hku].
  pose proof Hu as Hm. apply mem_uuid_false in Hm.
  destruct (retry_lim h lim (rf_lim _ _ _ _ _ _ _ F)) as [Hlt [Hlim Hle]]. split; [exact Hle|].
  pose proof (rf_rows _ _ _ _ _ _ _ F u) as Hrow. rewrite Hf in Hrow. unfold fate in Hrow. rewrite Hku, Hm, Em, Hc in Hrow.
  destruct (N.leb_spec (t_height k + RETRY) h) as [Hs|Hs].
  - assert (Hl : t_height k <= lim) by lia. split.
    + rewrite (rf_log _ _ _ _ _ _ _ F). apply given_of_cov; [exact (rf_carried _ _ _ _ _ _ _ F)|].
      exact (rf_cov_stale _ _ _ _ _ _ _ F u k Hf Em Hu Hc Hl).
    + apply N.leb_le in Hl. rewrite Hl in Hrow. rewrite Hrow. unfold stale_upd.
      destruct (blk_eff sc t h (t_penalty k)); reflexivity.
  - assert (Hl : lim < t_height k) by lia. apply N.leb_gt in Hl. rewrite Hl in Hrow. exact Hrow.
Qed.

(* the restamp is the height at which the node was given the penalty: this block's height ... *)
Corollary rebroadcast_restamps_now le sc t b h t' u k :
  Inv t -> r_block_connected le sc t b h = Ok tt t' ->
  find_trk (db_trks t) u = Some k -> t_conf k = false -> ~ In u (reorged t) ->
  memN (t_penalty k) (keys_of (ib_data b)) = false -> t_height k + RETRY <= h ->
  aget (car_memo t) (t_penalty k) = None -> snd (script_get sc (t_penalty k)) = A_ok ->
  In (mk_rpc K_send (t_penalty k) (InMempoolSince h)) (rpc_log t') /\
  find_trk (db_trks t') u = Some (restamp k h false).
Proof.
  intros HI E Hf Hc Hu Em Hs Hmemo Hok.
  destruct (rebroadcast_cadence le sc t b h t' u k HI E Hf Hc Hu Em) as [_ H].
  apply N.leb_le in Hs. rewrite Hs in H. unfold given in H. rewrite (blk_eff_fresh_ok sc t h _ Hmemo Hok) in H.
  destruct H as [[Hg|Hg] Hrow]; [congruence|]. split; assumption.
Qed.

(* ... or the stamp the carrier memoized earlier in this block period *)
Corollary rebroadcast_restamps_memo le sc t b h t' u k hh :
  Inv t -> r_block_connected le sc t b h = Ok tt t' ->
  find_trk (db_trks t) u = Some k -> t_conf k = false -> ~ In u (reorged t) ->
  memN (t_penalty k) (keys_of (ib_data b)) = false -> t_height k + RETRY <= h ->
  aget (car_memo t) (t_penalty k) = Some (InMempoolSince hh) ->
  find_trk (db_trks t') u = Some (restamp k hh false).
Proof.
  intros HI E Hf Hc Hu Em Hs Hmemo.
  destruct (rebroadcast_cadence le sc t b h t' u k HI E Hf Hc Hu Em) as [_ H].
  apply N.leb_le in Hs. rewrite Hs in H. rewrite (blk_eff_memo sc t h _ _ Hmemo) in H. tauto.
Qed.

(* 6, block level: an unconfirmed tracker is never deleted with refund *)
Theorem unconfirmed_never_refunded le sc t b h t' k :
  Inv t -> r_block_connected le sc t b h = Ok tt t' -> In k (db_trks t) -> t_conf k = false ->
  ~ In (trk_uuid k) (completed_list (keys_of (ib_data b)) h t).
Proof. intros HI _ Hk Hc. apply never_completes_unconfirmed; assumption. Qed.

(* ------------------------------------------------------------------------------------------ *)
(* preservation through the watcher's procedures (no refund, no status update): the induction
   done once, with the provenance of every inserted tracker's confirmation height *)

Definition same_but_watcher (t t' : tower) : Prop :=
  cfg t = cfg t' /\ gk_users t = gk_users t' /\ gk_height t = gk_height t' /\ db_users t = db_users t' /\
  db_apps t = db_apps t' /\ db_trks t = db_trks t' /\ r_index t = r_index t' /\ car_height t = car_height t' /\
  car_memo t = car_memo t' /\ reorged t = reorged t'.

(* a tracker inserted as ConfirmedIn h got h from the responder's index (or from a memoized
   ConfirmedIn answer of the carrier, which never exists: memo_ok below) *)
Definition trk_provenance (t : tower) (k : trk) : Prop :=
  t_conf k = true ->
  (exists bh z, ti_get_height (r_index t) bh = Some z /\ t_height k = Z.to_N z) \/
  (exists x, aget (car_memo t) x = Some (ConfirmedIn (t_height k))).

Record StableW (P : tower -> Prop) : Prop := {
  sw_frame : forall t t', same_but_watcher t t' -> P t -> P t';
  sw_send : forall sc t x, P t -> P (snd (send_transaction sc t x));
  sw_delete : forall t us, P t -> P (db_delete_apps t us);
  sw_insert_trk : forall t k, P t -> find_trk (db_trks t) (trk_uuid k) = None ->
                              (exists a, find_app (db_apps t) (trk_uuid k) = Some a) ->
                              trk_provenance t k -> P (p_insert_trk t k)
}.

Lemma send_confirmed_memo sc t x hh t2 :
  send_transaction sc t x = (ConfirmedIn hh, t2) -> aget (car_memo t2) x = Some (ConfirmedIn hh).
Proof.
  intros E. destruct (send_spec sc t x) as [m [l [Es [_ Hm]]]]. rewrite Es in E. inversion E. subst t2.
  unfold with_carrier. cbn [car_memo set_rpc_log set_car_memo]. congruence.
Qed.

(* the predicate holds after a normal return, and an abort happens only at a site in S
   (S was introduced to exclude S_r_confirmations_underflow, a site the repaired code no longer has) *)
Definition pres2 {A} (P : tower -> Prop) (S : site -> Prop) (r : res A) : Prop :=
  match r with Ok _ t => P t | Abort s _ => S s end.

Lemma pres2_bind {A B} (P : tower -> Prop) (S : site -> Prop) (r : res A) (f : A -> tower -> res B) :
  pres2 P S r -> (forall a t, P t -> pres2 P S (f a t)) -> pres2 P S (bind r f).
Proof. destruct r as [a t|s t]; cbn; auto. Qed.

Lemma pres2_pres {A} (P : tower -> Prop) (r : res A) : pres2 P (fun _ => True) r -> pres P r.
Proof. destruct r; exact (fun H => H). Qed.

Section W.
  Context (P : tower -> Prop) (HW : StableW P).
  Context (S : site -> Prop) (HSite : forall s : site, S s).

  Lemma in_mempool_presW sc t tx : P t -> P (snd (in_mempool sc t tx)).
  Proof. intros H. unfold in_mempool. cbn [snd]. eapply (sw_frame P HW); [|exact H]. repeat split. Qed.

  Lemma add_tracker_presW t uuid d p s :
    P t ->
    (forall h, s = ConfirmedIn h ->
       (exists bh z, ti_get_height (r_index t) bh = Some z /\ h = Z.to_N z) \/
       (exists x, aget (car_memo t) x = Some (ConfirmedIn h))) ->
    P (r_add_tracker t uuid d p s).
  Proof.
    intros H Hprov. unfold r_add_tracker.
    destruct s as [h|h| |c]; try exact H;
      destruct (find_trk (db_trks t) uuid) eqn:Et; try exact H;
      destruct (find_app (db_apps t) uuid) eqn:Ea; try exact H;
      (apply (sw_insert_trk P HW); [exact H|destruct uuid; exact Et|destruct uuid; eauto|]).
    - intros _. cbn [t_height]. apply Hprov. reflexivity.
    - intros Hc. discriminate.
  Qed.

  Lemma handle_breach_presW sc t uuid d p : P t -> pres2 P S (r_handle_breach sc t uuid d p).
  Proof.
    intros H. unfold r_handle_breach.
    destruct (ti_get (r_index t) p) as [bh|].
    - destruct (ti_get_height (r_index t) bh) as [z|] eqn:Ez; cbn [bind pres2]; [|apply HSite].
      cbn [status_accepted]. apply add_tracker_presW; [exact H|].
      intros h Eh. inversion Eh. left. eauto.
    - pose proof (in_mempool_presW sc t p H) as H1.
      destruct (in_mempool sc t p) as [inm t1]. cbn [snd] in H1.
      destruct inm.
      + cbn [bind pres2 status_accepted]. apply add_tracker_presW; [exact H1|]. intros h Eh. discriminate.
      + pose proof (sw_send P HW sc t1 p H1) as H2.
        destruct (send_transaction sc t1 p) as [s t2] eqn:Es. cbn [snd] in H2. cbn [bind pres2].
        destruct (status_accepted s); [|exact H2].
        apply add_tracker_presW; [exact H2|]. intros h Eh. subst s. right. exists p.
        eapply send_confirmed_memo. exact Es.
  Qed.

  Lemma breach_uuid_loop_presW sc d us : forall t inv, P t -> pres2 P S (breach_uuid_loop sc d us t inv).
  Proof.
    induction us as [|uuid us IH]; intros t inv H; cbn [breach_uuid_loop]; [exact H|].
    destruct (find_app (db_apps t) uuid) as [a|]; [|apply IH; exact H].
    destruct (decrypt (a_blob a) d) as [p|]; [|apply IH; exact H].
    apply pres2_bind; [apply handle_breach_presW; exact H|].
    intros s t1 H1. apply IH. exact H1.
  Qed.

  Lemma breach_loop_presW sc ds : forall t inv, P t -> pres2 P S (breach_loop sc ds t inv).
  Proof.
    induction ds as [|d ds IH]; intros t inv H; cbn [breach_loop]; [exact H|].
    apply pres2_bind; [apply breach_uuid_loop_presW; exact H|].
    intros inv' t1 H1. apply IH. exact H1.
  Qed.

  Lemma w_block_connected_presW sc t b h : P t -> pres2 P S (w_block_connected sc t b h).
  Proof.
    intros H. unfold w_block_connected.
    destruct (ti_update (w_cache t) b) as [c|]; [|apply HSite].
    apply pres2_bind; [apply breach_loop_presW; eapply (sw_frame P HW); [|exact H]; repeat split|].
    intros inv t2 H2. apply pres2_bind.
    - destruct inv; [exact H2|]. unfold gk_delete_appointments. cbn [pres2]. apply (sw_delete P HW). exact H2.
    - intros _ t3 H3. cbn [pres2]. eapply (sw_frame P HW); [|exact H3]. repeat split.
  Qed.
End W.

(* the watcher never touches the users: balances move only through the responder's refunds *)
Lemma users_stableW (G D : list (N * uinfo)) : StableW (fun t => gk_users t = G /\ db_users t = D).
Proof.
  constructor.
  - intros t t' [_ [Hg [_ [Hd _]]]] [H1 H2]. split; congruence.
  - intros sc t x H. destruct (send_spec sc t x) as [m [l [Es _]]]. rewrite Es. exact H.
  - intros t us H. exact H.
  - intros t k H _ _ _. exact H.
Qed.

Lemma w_block_connected_users sc t b h t' :
  w_block_connected sc t b h = Ok tt t' -> gk_users t' = gk_users t /\ db_users t' = db_users t.
Proof.
  intros E. pose proof (w_block_connected_presW _ (users_stableW (gk_users t) (db_users t)) (fun _ => True) (fun _ => I) sc t b h (conj eq_refl eq_refl)) as H.
  rewrite E in H. exact H.
Qed.

(* ------------------------------------------------------------------------------------------ *)
(* the whole Connect step *)

Lemma keys_index_block hash txs : keys_of (ib_data (index_block hash txs)) = txs.
Proof.
  unfold index_block, keys_of. cbn [ib_data]. rewrite map_map. cbn [fst]. apply map_id.
Qed.

Lemma step_connect_inv le t hash txs sc t' :
  step le t (OConnect hash txs) sc = (t', OBlockRes) ->
  exists tg tw,
    gk_block_connected (set_rpc_log t []) (gk_height t + 1) = Ok tt tg /\
    w_block_connected sc tg (cache_block hash txs) (gk_height t + 1) = Ok tt tw /\
    r_block_connected le sc tw (index_block hash txs) (gk_height t + 1) = Ok tt t'.
Proof.
  cbn [step]. change Consts.LISTENER_ORDER with [0%Z; 1%Z; 2%Z]. cbn [run_listeners].
  change (gk_height (set_rpc_log t [])) with (gk_height t).
  unfold listener_connected. cbn [Z.eqb Pos.eqb].
  destruct (gk_block_connected (set_rpc_log t []) (gk_height t + 1)) as [[] tg|s tg] eqn:Eg; cbn [bind wrap]; [|intros E; inversion E].
  destruct (w_block_connected sc tg (cache_block hash txs) (gk_height t + 1)) as [[] tw|s tw] eqn:Ew; cbn [bind wrap]; [|intros E; inversion E].
  destruct (r_block_connected le sc tw (index_block hash txs) (gk_height t + 1)) as [[] t6|s t6] eqn:Er; cbn [bind wrap]; [|intros E; inversion E].
  intros E. inversion E. subst. exists tg, tw. auto.
Qed.

Lemma gk_block_connected_users t h tg :
  gk_block_connected t h = Ok tt tg ->
  exists outdated, outdated_users (c_delta (cfg t)) h (gk_users t) = Some outdated /\
    gk_height tg = h /\
    (forall u, aget (gk_users tg) u = if memN u outdated then None else aget (gk_users t) u) /\
    (forall u, aget (db_users tg) u = if memN u outdated then None else aget (db_users t) u).
Proof.
  unfold gk_block_connected. destruct (outdated_users (c_delta (cfg t)) h (gk_users t)) as [out|]; [|discriminate].
  intros E. inversion E. clear E. exists out. split; [reflexivity|]. split; [reflexivity|]. destruct out as [|o out].
  - split; intros u; reflexivity.
  - split; intros u; unfold p_purge, db_delete_users;
      cbn [gk_users db_users set_gk_height set_db_trks set_db_apps set_db_users set_gk_users].
    + rewrite aget_retain. destruct (memN u (o :: out)); reflexivity.
    + rewrite (aget_filter_key (fun k => negb (memN k (o :: out)))). destruct (memN u (o :: out)); reflexivity.
Qed.

Theorem step_connect_refunds le t hash txs sc t' :
  Inv t -> step le t (OConnect hash txs) sc = (t', OBlockRes) ->
  exists outdated tw,
    outdated_users (c_delta (cfg t)) (gk_height t + 1) (gk_users t) = Some outdated /\
    Inv tw /\ gk_height tw = gk_height t + 1 /\
    r_block_connected le sc tw (index_block hash txs) (gk_height t + 1) = Ok tt t' /\
    (forall u, aget (gk_users t') u =
               if memN u outdated then None
               else option_map (credit (refund_total (db_apps tw) (completed_list txs (gk_height t + 1) tw) u))
                               (aget (gk_users t) u)) /\
    (forall u, aget (db_users t') u =
               if memN u outdated then None
               else option_map (credit (refund_total (db_apps tw) (completed_list txs (gk_height t + 1) tw) u))
                               (aget (db_users t) u)).
Proof.
  intros HI E. destruct (step_connect_inv le t hash txs sc t' E) as [tg [tw [Eg [Ew Er]]]].
  assert (HIf : Inv (set_rpc_log t [])) by (eapply inv_frame; [|exact HI]; repeat split).
  assert (HIg : Inv tg).
  { pose proof (gk_block_connected_pres Inv (sa_block _ inv_stable) _ (gk_height t + 1) HIf) as Hp. rewrite Eg in Hp. exact Hp. }
  assert (HIw : Inv tw).
  { pose proof (w_block_connected_pres Inv (sb_wr _ (sa_block _ inv_stable)) sc tg (cache_block hash txs) (gk_height t + 1) HIg) as Hp.
    rewrite Ew in Hp. exact Hp. }
  destruct (gk_block_connected_users _ _ _ Eg) as [out [Eo [Hh [Hgu Hdu]]]].
  destruct (w_block_connected_users sc tg (cache_block hash txs) (gk_height t + 1) tw Ew) as [Hwg Hwd].
  destruct (completes_iff_100 le sc tw (index_block hash txs) (gk_height t + 1) t' HIw Er) as [_ [_ [Hg Hd]]].
  rewrite keys_index_block in Hg, Hd.
  assert (Hwh : gk_height tw = gk_height tg).
  { pose proof (w_block_connected_presW (fun x => gk_height x = gk_height tg)) as Hp.
    assert (HS : StableW (fun x => gk_height x = gk_height tg)).
    { constructor.
      - intros a b [_ [_ [Hx _]]] Ha. congruence.
      - intros sc0 a x Ha. destruct (send_spec sc0 a x) as [m [l [Es _]]]. rewrite Es. exact Ha.
      - intros a us Ha. exact Ha.
      - intros a k Ha _ _ _. exact Ha. }
    specialize (Hp HS (fun _ => True) (fun _ => I) sc tg (cache_block hash txs) (gk_height t + 1) eq_refl). rewrite Ew in Hp. exact Hp. }
  exists out, tw. split; [exact Eo|]. split; [exact HIw|]. split; [congruence|]. split; [exact Er|]. split.
  - intros u. rewrite Hg, Hwg, Hgu. change (gk_users (set_rpc_log t [])) with (gk_users t).
    destruct (memN u out); reflexivity.
  - intros u. rewrite Hd, Hwd, Hdu. change (db_users (set_rpc_log t [])) with (db_users t).
    destruct (memN u out); reflexivity.
Qed.

(* ------------------------------------------------------------------------------------------ *)
(* no other path gives slots back *)

Lemma handle_breach_users sc t uuid d p s t' :
  r_handle_breach sc t uuid d p = Ok s t' -> gk_users t' = gk_users t /\ db_users t' = db_users t.
Proof.
  intros E. pose proof (handle_breach_presW _ (users_stableW (gk_users t) (db_users t)) (fun _ => True) (fun _ => I) sc t uuid d p (conj eq_refl eq_refl)) as H.
  rewrite E in H. exact H.
Qed.

Lemma store_appointment_users t a t' :
  w_store_appointment t a = Ok tt t' -> gk_users t' = gk_users t /\ db_users t' = db_users t.
Proof.
  unfold w_store_appointment. destruct (find_app (db_apps t) (app_uuid a)).
  - intros E. inversion E. split; reflexivity.
  - destruct (amem (db_users t) (a_user a)); intros E; inversion E; split; reflexivity.
Qed.

Lemma delete_false_users t us t' :
  gk_delete_appointments t us false = Ok tt t' -> gk_users t' = gk_users t /\ db_users t' = db_users t.
Proof. unfold gk_delete_appointments. intros E. inversion E. split; reflexivity. Qed.

Lemma store_triggered_users sc t a d t' :
  w_store_triggered sc t a d = Ok tt t' -> gk_users t' = gk_users t /\ db_users t' = db_users t.
Proof.
  unfold w_store_triggered. destruct (decrypt (a_blob a) d) as [p|].
  - destruct (w_store_ok t a); [|intros E; inversion E; split; reflexivity].
    destruct (w_store_appointment t a) as [[] t1|] eqn:E1; [|discriminate]. cbn [bind].
    destruct (r_handle_breach sc t1 (app_uuid a) d p) as [s t2|] eqn:E2; [|discriminate]. cbn [bind].
    destruct (store_appointment_users _ _ _ E1) as [A1 A2]. destruct (handle_breach_users _ _ _ _ _ _ _ E2) as [B1 B2].
    destruct (status_rejected s).
    + intros E. destruct (delete_false_users _ _ _ E) as [C1 C2]. split; congruence.
    + intros E. inversion E. subst. split; congruence.
  - destruct (find_app (db_apps t) (app_uuid a)).
    + apply delete_false_users.
    + intros E. inversion E. split; reflexivity.
Qed.

Lemma aget_gk_put t u ui v : aget (gk_users (gk_put t u ui)) v = if N.eqb v u then Some ui else aget (gk_users t) v.
Proof.
  unfold gk_put. cbn [gk_users set_gk_users aget]. rewrite aget_remove. destruct (N.eqb v u); reflexivity.
Qed.

Lemma add_update_user_others t u r t' v :
  gk_add_update_user t u = Ok r t' -> v <> u -> aget (gk_users t') v = aget (gk_users t) v.
Proof.
  unfold gk_add_update_user. intros E Hn. apply N.eqb_neq in Hn.
  destruct (gk_get t u) as [ui|].
  - destruct (u32_add (u_slots ui) (c_slots (cfg t))); inversion E; [|reflexivity].
    unfold p_set_user, db_update_user. cbn [gk_users set_db_users]. rewrite aget_gk_put, Hn. reflexivity.
  - destruct (u32_add (gk_height t) (c_duration (cfg t))); [|discriminate].
    destruct (amem (db_users t) u); [discriminate|]. inversion E.
    unfold p_new_user. rewrite aget_gk_put, Hn. reflexivity.
Qed.

Lemma add_appointment_slots sc t signer loc b delay sig r t' v ui ui' :
  w_add_appointment sc t signer loc b delay sig = Ok r t' ->
  aget (gk_users t) v = Some ui -> aget (gk_users t') v = Some ui' -> u_slots ui < u_slots ui' ->
  signer = Some v /\ exists a, find_app (db_apps t) (loc, v) = Some a /\ slots_of (b_len b) < slots_of (b_len (a_blob a)).
Proof.
  unfold w_add_appointment. intros E Hv Hv' Hlt.
  assert (Hsame : gk_users t' = gk_users t -> False) by (intros Hs; rewrite Hs in Hv'; assert (ui = ui') by congruence; subst; lia).
  destruct (authenticate t signer) as [u|] eqn:Ea; [|inversion E; subst; exfalso; auto].
  apply authenticate_Some in Ea. destruct Ea as [Hs _].
  destruct (gk_get t u) as [ui0|] eqn:Eg; [|inversion E; subst; exfalso; auto].
  destruct (N.leb (u_expiry ui0) (gk_height t)); [inversion E; subst; exfalso; auto|].
  destruct (find_trk (db_trks t) (loc, u)); [inversion E; subst; exfalso; auto|].
  unfold gk_add_update_appointment in E. rewrite Eg in E. cbv zeta in E.
  set (used := match find_app (db_apps t) (loc, u) with Some a => slots_of (b_len (a_blob a)) | None => 0 end) in *.
  destruct (N.leb (slots_of (b_len b)) (u_slots ui0 + used)) eqn:Ele; cbn [bind] in E; [|inversion E; subst; exfalso; auto].
  set (s := (u_slots ui0 + used - slots_of (b_len b)) mod U32MOD) in *.
  set (t1 := p_set_user t u (mk_uinfo s (u_start ui0) (u_expiry ui0))) in *.
  assert (Hg : gk_users t' = gk_users t1).
  { destruct (ti_get (w_cache t1) loc) as [dispute|].
    - destruct (w_store_triggered sc t1 _ dispute) as [[] t2|] eqn:E2; [|discriminate]. cbn [bind] in E.
      match type of E with context [if ?c then _ else _] => destruct c end;
        inversion E; subst; apply (store_triggered_users _ _ _ _ _ E2).
    - destruct (w_store_appointment t1 _) as [[] t2|] eqn:E2; [|discriminate]. cbn [bind] in E.
      match type of E with context [if ?c then _ else _] => destruct c end;
        inversion E; subst; apply (store_appointment_users _ _ _ E2). }
  rewrite Hg in Hv'. unfold t1, p_set_user, db_update_user in Hv'. cbn [gk_users set_db_users] in Hv'.
  rewrite aget_gk_put in Hv'. destruct (N.eqb v u) eqn:Evu.
  2:{ assert (ui = ui') by congruence. subst. lia. }
  apply N.eqb_eq in Evu. subst v. inversion Hv'. subst ui'. cbn [u_slots] in Hlt.
  unfold gk_get in Eg. assert (ui0 = ui) by congruence. subst ui0.
  split; [exact Hs|]. apply N.leb_le in Ele.
  assert (Hs_le : s <= u_slots ui + used - slots_of (b_len b)) by (apply N.mod_le; discriminate).
  unfold used in *. destruct (find_app (db_apps t) (loc, u)) as [a|]; [|lia].
  exists a. split; [reflexivity|lia].
Qed.

Lemma disconnect_users t hash h w t' :
  listener_disconnected hash h w t = Ok tt t' -> gk_users t' = gk_users t.
Proof.
  unfold listener_disconnected. destruct (Z.eqb w 0).
  - unfold gk_block_disconnected. destruct (u32_sub h 1); [|discriminate]. intros E. inversion E. reflexivity.
  - destruct (Z.eqb w 1).
    + unfold w_block_disconnected. destruct (u32_sub h 1); [|discriminate]. intros E. inversion E. reflexivity.
    + unfold r_block_disconnected. intros E. inversion E. reflexivity.
Qed.

Lemma run_listeners_users (f : Z -> tower -> res unit) order :
  (forall w t t', f w t = Ok tt t' -> gk_users t' = gk_users t) ->
  forall t t', run_listeners f order t = Ok tt t' -> gk_users t' = gk_users t.
Proof.
  intros Hf. induction order as [|w order IH]; intros t t' E; cbn [run_listeners] in E; [inversion E; reflexivity|].
  destruct (f w t) as [[] t1|] eqn:E1; [|discriminate]. cbn [bind] in E.
  rewrite (IH _ _ E). apply (Hf _ _ _ E1).
Qed.

(* A user's balance grows in a step only by registering, by replacing one of its own appointments
   with a smaller blob, or because one of its trackers completed in the block being connected. *)
Theorem refund_only_on_completion le t o sc t' x u ui ui' :
  Inv t -> step le t o sc = (t', x) -> not_abort x ->
  aget (gk_users t) u = Some ui -> aget (gk_users t') u = Some ui' -> u_slots ui < u_slots ui' ->
  match o with
  | ORegister u' => u' = u
  | OAdd signer loc b _ _ =>
      signer = Some u /\ exists a, find_app (db_apps t) (loc, u) = Some a /\ slots_of (b_len b) < slots_of (b_len (a_blob a))
  | OConnect hash txs =>
      exists tw uuid, Inv tw /\ r_block_connected le sc tw (index_block hash txs) (gk_height t + 1) = Ok tt t' /\
                      In uuid (completed_list txs (gk_height t + 1) tw) /\ snd uuid = u
  | _ => False
  end.
Proof.
  intros HI E Hna Hu Hu' Hlt.
  assert (Hsame : gk_users t' = gk_users t -> False)
    by (intros Hs; rewrite Hs in Hu'; assert (ui = ui') by congruence; subst; lia).
  destruct o as [u0|signer loc b delay sig|signer loc|signer|hash txs|].
  - cbn [step] in E. destruct (gk_add_update_user (set_rpc_log t []) u0) as [r t1|s t1] eqn:E1; cbn [wrap] in E;
      inversion E; subst; [|contradiction].
    destruct (N.eq_dec u u0) as [->|Hn]; [reflexivity|]. exfalso.
    pose proof (add_update_user_others _ _ _ _ u E1 Hn) as Hs. change (gk_users (set_rpc_log t [])) with (gk_users t) in Hs.
    assert (ui = ui') by congruence. subst. lia.
  - cbn [step] in E. destruct (w_add_appointment sc (set_rpc_log t []) signer loc b delay sig) as [r t1|s t1] eqn:E1;
      cbn [wrap] in E; inversion E; subst; [|contradiction].
    exact (add_appointment_slots sc (set_rpc_log t []) signer loc b delay sig r t' u ui ui' E1 Hu Hu' Hlt).
  - destruct (get_unchanged le t sc signer loc) as [r Er]. rewrite Er in E. inversion E. subst. apply Hsame. reflexivity.
  - destruct (getsub_unchanged le t sc signer) as [r Er]. rewrite Er in E. inversion E. subst. apply Hsame. reflexivity.
  - assert (x = OBlockRes).
    { cbn [step] in E. destruct (run_listeners _ _ _) as [[] t1|s t1]; cbn [wrap] in E; inversion E; subst; [reflexivity|contradiction]. }
    subst x. destruct (step_connect_refunds le t hash txs sc t' HI E) as [out [tw [Eo [HIw [Hh [Er [Hg Hd]]]]]]].
    exists tw. specialize (Hg u). rewrite Hu, Hu' in Hg. destruct (memN u out); [discriminate|]. cbn [option_map] in Hg.
    inversion Hg. subst ui'. cbn [u_slots credit] in Hlt.
    set (completed := completed_list txs (gk_height t + 1) tw) in *.
    assert (Hex : exists uuid, In uuid completed /\ snd uuid = u).
    { destruct (existsb (fun uuid => N.eqb (snd uuid) u) completed) eqn:Ex.
      - apply existsb_exists in Ex. destruct Ex as [uuid [Hi He]]. apply N.eqb_eq in He. eauto.
      - exfalso. rewrite refund_total_not_owner in Hlt; [lia|].
        intros uuid Hi He. assert (existsb (fun uuid => N.eqb (snd uuid) u) completed = true); [|congruence].
        apply existsb_exists. exists uuid. split; [exact Hi|]. apply N.eqb_eq. exact He. }
    destruct Hex as [uuid [Hi He]]. exists uuid. auto.
  - cbn [step] in E. destruct (last_hash (set_rpc_log t [])) as [hash|]; [|inversion E; subst; apply Hsame; reflexivity].
    destruct (run_listeners _ _ _) as [[] t1|s t1] eqn:E1; cbn [wrap] in E; inversion E; subst; [|contradiction].
    apply Hsame. apply (run_listeners_users _ _ (fun w a b => disconnect_users a hash _ w b) _ _ E1).
Qed.

(* ------------------------------------------------------------------------------------------ *)
(* 5, corollary: the cadence over a run of consecutive blocks *)

Lemma keys_cache_block hash txs : keys_of (ib_data (cache_block hash txs)) = txs.
Proof. unfold cache_block, keys_of. cbn [ib_data]. rewrite map_map. cbn [fst]. apply map_id. Qed.

(* a block none of whose transactions is the locator of a stored appointment: the watcher only
   updates its cache and height *)
Lemma w_block_connected_idle sc t hash txs h t' :
  (forall a, In a (db_apps t) -> ~ In (a_loc a) txs) ->
  w_block_connected sc t (cache_block hash txs) h = Ok tt t' ->
  exists c, t' = set_w_height (set_w_cache t c) h.
Proof.
  intros Hno. unfold w_block_connected. destruct (ti_update (w_cache t) (cache_block hash txs)) as [c|]; [|discriminate].
  rewrite keys_cache_block. cbn [db_apps set_w_cache].
  assert (Hb : filter (fun d => existsb (fun a => N.eqb (a_loc a) d) (db_apps t)) txs = []).
  { induction txs as [|d txs IH]; [reflexivity|]. cbn [filter].
    destruct (existsb (fun a => N.eqb (a_loc a) d) (db_apps t)) eqn:Ex.
    - apply existsb_exists in Ex. destruct Ex as [a [Ha He]]. apply N.eqb_eq in He. exfalso.
      apply (Hno a Ha). left. symmetry. exact He.
    - apply IH. intros a Ha Hi. apply (Hno a Ha). right. exact Hi. }
  rewrite Hb. cbn [breach_loop bind]. intros E. inversion E. exists c. reflexivity.
Qed.

Lemma find_trk_filter_user (out : list N) l u :
  find_trk (filter (fun k => negb (memN (t_user k) out)) l) u = if memN (snd u) out then None else find_trk l u.
Proof.
  unfold find_trk. induction l as [|k l IH]; [destruct (memN (snd u) out); reflexivity|]. cbn [filter find].
  destruct (uuid_eqb (trk_uuid k) u) eqn:E.
  - apply uuid_eqb_eq in E. assert (Hu : t_user k = snd u) by (rewrite <- E; reflexivity). rewrite Hu.
    destruct (memN (snd u) out) eqn:Em; cbn [negb]; [exact IH|].
    cbn [find]. rewrite E, uuid_eqb_refl. reflexivity.
  - destruct (memN (t_user k) out); cbn [negb]; [exact IH|]. cbn [find]. rewrite E. exact IH.
Qed.

Lemma gk_block_connected_shape t h tg :
  gk_block_connected t h = Ok tt tg ->
  exists out, (forall u, find_trk (db_trks tg) u = if memN (snd u) out then None else find_trk (db_trks t) u) /\
              incl (db_apps tg) (db_apps t) /\ incl (db_trks tg) (db_trks t) /\
              reorged tg = reorged t /\ car_memo tg = car_memo t /\
              rpc_log tg = rpc_log t /\ gk_height tg = h.
Proof.
  unfold gk_block_connected. destruct (outdated_users (c_delta (cfg t)) h (gk_users t)) as [out|]; [|discriminate].
  intros E. inversion E. clear E. destruct out as [|o out].
  - exists []. split; [intros u; reflexivity|]. repeat split; apply incl_refl.
  - exists (o :: out). split; [|repeat split].
    + intros u. unfold p_purge, db_delete_users.
      cbn [db_trks set_gk_height set_db_trks set_db_apps set_db_users set_gk_users]. apply find_trk_filter_user.
    + unfold p_purge, db_delete_users. cbn [db_apps set_gk_height set_db_trks set_db_apps set_db_users set_gk_users].
      apply incl_filter.
    + unfold p_purge, db_delete_users. cbn [db_trks set_gk_height set_db_trks set_db_apps set_db_users set_gk_users].
      apply incl_filter.
Qed.


(* every submission the responder logs while connecting a block is the dispute / penalty of a
   tracker whose confirming block was disconnected, or the penalty of a stale unconfirmed tracker *)
Theorem responder_sends_justified le sc t b h t' ev :
  Inv t -> r_block_connected le sc t b h = Ok tt t' -> In ev (rpc_log t') ->
  In ev (rpc_log t) \/
  (r_kind ev = K_send /\
   ((exists k, In k (db_trks t) /\ In (trk_uuid k) (reorged t) /\ memN (t_penalty k) (keys_of (ib_data b)) = false /\
               (r_tx ev = t_dispute k \/ r_tx ev = t_penalty k)) \/
    (exists k, In k (db_trks t) /\ t_conf k = false /\ t_height k + RETRY <= h /\
               memN (t_penalty k) (keys_of (ib_data b)) = false /\ r_tx ev = t_penalty k))).
Proof.
  intros HI E Hev. destruct (r_block_connected_facts le sc t b h t' HI E) as [lim [t5 F]].
  rewrite (rf_log _ _ _ _ _ _ _ F) in Hev.
  destruct (ca_log_new _ _ _ (rf_carried _ _ _ _ _ _ _ F) ev Hev) as [H|[Hk [Hn [_ Hm]]]]; [left; exact H|].
  right. split; [exact Hk|]. cbn [car_memo set_car_height] in Hn.
  destruct (retry_lim h lim (rf_lim _ _ _ _ _ _ _ F)) as [_ [Hl Hle]].
  destruct (rf_sent_justified _ _ _ _ _ _ _ F (r_tx ev)) as [H|[H|[k [H1 [H2 [H3 [H4 H5]]]]]]].
  - rewrite Hm. discriminate.
  - congruence.
  - left. exact H.
  - right. exists k. repeat split; auto. lia.
Qed.

Lemma send_status_cases t a :
  send_status t a = InMempoolSince (car_height t) \/ send_status t a = IrrevocablyResolved \/
  exists c, send_status t a = Rejected c.
Proof.
  unfold send_status. destruct a as [|c]; [auto|].
  repeat match goal with |- context [if ?b then _ else _] => destruct b end; eauto.
Qed.

Lemma fate_fields txids h lim rg e k k' :
  fate txids h lim rg e k = Some k' ->
  trk_uuid k' = trk_uuid k /\ t_dispute k' = t_dispute k /\ t_penalty k' = t_penalty k.
Proof.
  unfold fate.
  repeat match goal with |- context [if ?b then _ else _] => destruct b end;
    intros E; inversion E; try (repeat split; fail); try discriminate.
  apply stale_upd_fields.
Qed.

Lemma incl_apps_stableWR (A : list app) : StableWR (fun t => incl (db_apps t) A).
Proof.
  constructor.
  - intros t t' [_ [_ [_ [Ha _]]]] H. rewrite <- Ha. exact H.
  - intros t us H. unfold db_delete_apps. cbn [db_apps set_db_trks set_db_apps].
    intros a Ha. apply filter_In in Ha. apply H. tauto.
  - intros t u ui s H _. exact H.
  - intros t k H _ _. exact H.
  - intros t uuid h c H. exact H.
Qed.

(* the situation the cadence corollary follows along a run: tracker U is unconfirmed with penalty p,
   which no other tracker shares; no reorg is pending; the carrier's memo is empty (a block has been
   processed since the last API submission); the appointments are among A0 *)
Definition cad_inv (U : N * N) (p : N) (A0 : list app) (t : tower) (k : trk) : Prop :=
  Inv t /\ reorged t = [] /\ car_memo t = [] /\ find_trk (db_trks t) U = Some k /\ t_conf k = false /\
  t_penalty k = p /\ (forall k', In k' (db_trks t) -> t_penalty k' = p -> trk_uuid k' = U) /\ incl (db_apps t) A0.

Lemma cadence_step le U p A0 t k hash txs sc t' :
  cad_inv U p A0 t k -> gk_height t < t_height k + RETRY ->
  ~ In p txs -> (forall a, In a A0 -> ~ In (a_loc a) txs) ->
  step le t (OConnect hash txs) sc = (t', OBlockRes) -> find_trk (db_trks t') U <> None ->
  gk_height t' = gk_height t + 1 /\
  if N.eqb (gk_height t + 1) (t_height k + RETRY)
  then cad_inv U p A0 t' (restamp k (gk_height t + 1) false) /\ (exists r, In (mk_rpc K_send p r) (rpc_log t'))
  else cad_inv U p A0 t' k /\ ~ (exists r, In (mk_rpc K_send p r) (rpc_log t')).
Proof.
  intros [HI [Hrg [Hmemo [Hf [Hc [Hp [Huniq Hincl]]]]]]] Hnot_due Hptx Hnob E Hsurv.
  set (h := gk_height t + 1) in *.
  destruct (step_connect_inv le t hash txs sc t' E) as [tg [tw [Eg [Ew Er]]]]. fold h in Eg, Ew, Er.
  assert (HIf : Inv (set_rpc_log t [])) by (eapply inv_frame; [|exact HI]; repeat split).
  assert (HIg : Inv tg).
  { pose proof (gk_block_connected_pres Inv (sa_block _ inv_stable) _ h HIf) as Hpp. rewrite Eg in Hpp. exact Hpp. }
  destruct (gk_block_connected_shape _ _ _ Eg) as [out [Hrows_g [Happs_g [Htrks_g [Hrg_g [Hmemo_g [Hlog_g Hh_g]]]]]]].
  cbn [db_trks db_apps reorged car_memo rpc_log set_rpc_log] in Hrows_g, Happs_g, Htrks_g, Hrg_g, Hmemo_g, Hlog_g.
  destruct (w_block_connected_idle sc tg hash txs h tw) as [c Etw]; [|exact Ew|].
  { intros a Ha. apply Hnob. apply Hincl. apply Happs_g. exact Ha. }
  assert (HIw : Inv tw) by (rewrite Etw; eapply inv_frame; [|exact HIg]; repeat split).
  assert (Htrks_w : db_trks tw = db_trks tg) by (rewrite Etw; reflexivity).
  assert (Happs_w : db_apps tw = db_apps tg) by (rewrite Etw; reflexivity).
  assert (Hrg_w : reorged tw = []) by (rewrite Etw; cbn [reorged set_w_height set_w_cache]; congruence).
  assert (Hmemo_w : car_memo tw = []) by (rewrite Etw; cbn [car_memo set_w_height set_w_cache]; congruence).
  assert (Hlog_w : rpc_log tw = []) by (rewrite Etw; cbn [rpc_log set_w_height set_w_cache]; congruence).
  assert (Hh_w : gk_height tw = h) by (rewrite Etw; cbn [gk_height set_w_height set_w_cache]; exact Hh_g).
  destruct (r_block_connected_facts le sc tw (index_block hash txs) h t' HIw Er) as [lim [t5 F]].
  pose proof (rf_rows _ _ _ _ _ _ _ F) as Hrows. rewrite keys_index_block in Hrows.
  destruct (retry_lim h lim (rf_lim _ _ _ _ _ _ _ F)) as [Hlt [Hlim Hle]].
  destruct (rf_heights _ _ _ _ _ _ _ F) as [Hh' _].
  assert (HI' : Inv t').
  { pose proof (r_block_connected_pres Inv (sb_wr _ (sa_block _ inv_stable)) le sc tw (index_block hash txs) h HIw) as Hpp. rewrite Er in Hpp. exact Hpp. }
  assert (Happs' : incl (db_apps t') A0).
  { pose proof (r_block_connected_pres _ (incl_apps_stableWR A0) le sc tw (index_block hash txs) h) as Hpp.
    rewrite Er in Hpp. apply Hpp. rewrite Happs_w. intros a Ha. apply Hincl. apply Happs_g. exact Ha. }
  (* the row handed to the responder is the row before the step *)
  assert (Hfw : find_trk (db_trks tw) U = Some k).
  { pose proof (Hrows U) as HU. rewrite Htrks_w, Hrows_g in *. destruct (memN (snd U) out); [|exact Hf].
    exfalso. apply Hsurv. exact HU. }
  assert (Hmem_p : memN p txs = false) by (apply memN_false; exact Hptx).
  pose proof (Hrows U) as HU. rewrite Hfw in HU. unfold fate in HU. rewrite Hp, Hmem_p, Hrg_w, Hc in HU.
  cbn [mem_uuid existsb] in HU.
  (* uniqueness of the penalty carries over *)
  assert (Huniq' : forall k', In k' (db_trks t') -> t_penalty k' = p -> trk_uuid k' = U).
  { intros k' Hk' Hp'. pose proof (find_trk_In_NoDup _ k' (inv_trks_nodup _ HI') Hk') as Hfk.
    rewrite Hrows in Hfk. destruct (find_trk (db_trks tw) (trk_uuid k')) as [k2|] eqn:E2; [|discriminate].
    destruct (fate_fields _ _ _ _ _ _ _ Hfk) as [Hu2 [_ Hp2]]. rewrite Hu2.
    destruct (find_trk_Some _ _ _ E2) as [Hin2 _]. apply Huniq; [|congruence].
    apply Htrks_g. rewrite <- Htrks_w. exact Hin2. }
  split; [congruence|].
  assert (Hbase : forall k1, find_trk (db_trks t') U = Some k1 -> t_conf k1 = false -> t_penalty k1 = p -> cad_inv U p A0 t' k1).
  { intros k1 H1 H2 H3. unfold cad_inv. split; [exact HI'|]. split; [exact (rf_reorged _ _ _ _ _ _ _ F)|].
    split; [exact (rf_memo _ _ _ _ _ _ _ F)|]. split; [exact H1|]. split; [exact H2|]. split; [exact H3|].
    split; [exact Huniq'|exact Happs']. }
  destruct (N.eqb_spec h (t_height k + RETRY)) as [Hdue|Hnd].
  - assert (Hl : N.leb (t_height k) lim = true) by (apply N.leb_le; lia). rewrite Hl in HU.
    assert (Hmemo_p : aget (car_memo tw) p = None) by (rewrite Hmemo_w; reflexivity).
    pose proof (blk_eff_fresh sc tw h p Hmemo_p) as He.
    assert (Hst : status_rejected (blk_eff sc tw h p) = false /\ stale_upd (blk_eff sc tw h) h k = restamp k h false).
    { unfold stale_upd. rewrite Hp.
      destruct (send_status_cases (set_car_height tw h) (snd (script_get sc p))) as [Hs|[Hs|[cc Hs]]];
        rewrite He, Hs in *; cbn [status_rejected] in *.
      - split; reflexivity.
      - split; reflexivity.
      - exfalso. apply Hsurv. exact HU. }
    destruct Hst as [Hnr Hupd]. rewrite Hnr, Hupd in HU. split.
    + apply Hbase; [exact HU|reflexivity|exact Hp].
    + exists (blk_eff sc tw h p). rewrite (rf_log _ _ _ _ _ _ _ F).
      assert (Hcov : aget (car_memo t5) (t_penalty k) = Some (blk_eff sc tw h (t_penalty k))).
      { apply (rf_cov_stale _ _ _ _ _ _ _ F U k Hfw); [rewrite keys_index_block, Hp; exact Hmem_p|rewrite Hrg_w; intros []|exact Hc|lia]. }
      rewrite Hp in Hcov. destruct (given_of_cov sc tw h t5 p (rf_carried _ _ _ _ _ _ _ F) Hcov) as [Hg|Hg]; [congruence|exact Hg].
  - assert (Hl : N.leb (t_height k) lim = false) by (apply N.leb_gt; lia). rewrite Hl in HU. split.
    + apply Hbase; [exact HU|exact Hc|exact Hp].
    + intros [r Hr]. rewrite (rf_log _ _ _ _ _ _ _ F) in Hr.
      destruct (ca_log_new _ _ _ (rf_carried _ _ _ _ _ _ _ F) _ Hr) as [H|[_ [_ [_ Hm]]]].
      { cbn [rpc_log set_car_height] in H. rewrite Hlog_w in H. destruct H. }
      cbn [r_tx r_res] in Hm.
      destruct (rf_sent_justified _ _ _ _ _ _ _ F p) as [H|[[k2 [_ [H _]]]|[k2 [H1 [H2 [H3 [H4 H5]]]]]]].
      * rewrite Hm. discriminate.
      * rewrite Hmemo_w in H. apply H. reflexivity.
      * rewrite Hrg_w in H. destruct H.
      * assert (Hu2 : trk_uuid k2 = U) by (apply Huniq; [apply Htrks_g; rewrite <- Htrks_w; exact H1|congruence]).
        destruct (find_trk_Some _ _ _ Hfw) as [Hkin Hku].
        assert (k2 = k) by (apply (same_uuid_same_row (db_trks tw)); auto; [exact (inv_trks_nodup _ HIw)|congruence]).
        subst k2. apply N.leb_gt in Hl. lia.
Qed.

(* a run of consecutive block connections: (hash, transactions, node script) per block *)
Definition connects (bs : list (N * list N * script)) : list (op * script) :=
  map (fun b => (OConnect (fst (fst b)) (snd (fst b)), snd b)) bs.

(* no step aborts and tracker U is still in the table after each block (it is not rejected, its
   owner's subscription does not lapse) *)
Fixpoint stays (le : bool) (U : N * N) (t : tower) (bs : list (N * list N * script)) : Prop :=
  match bs with
  | [] => True
  | b :: r =>
      snd (step le t (OConnect (fst (fst b)) (snd (fst b))) (snd b)) = OBlockRes /\
      find_trk (db_trks (fst (step le t (OConnect (fst (fst b)) (snd (fst b))) (snd b)))) U <> None /\
      stays le U (fst (step le t (OConnect (fst (fst b)) (snd (fst b))) (snd b))) r
  end.

Lemma run_connects_cons le t b r :
  snd (step le t (OConnect (fst (fst b)) (snd (fst b))) (snd b)) = OBlockRes ->
  fst (run le t (connects (b :: r))) = fst (run le (fst (step le t (OConnect (fst (fst b)) (snd (fst b))) (snd b))) (connects r)).
Proof.
  intros H. cbn [connects map run]. fold (connects r).
  destruct (step le t (OConnect (fst (fst b)) (snd (fst b))) (snd b)) as [t1 x]. cbn [fst snd] in *. subst x.
  destruct (run le t1 (connects r)) as [t2 xs]. reflexivity.
Qed.

Lemma stays_firstn le U i : forall bs t, stays le U t bs -> stays le U t (firstn i bs).
Proof.
  induction i as [|i IH]; intros bs t H; [exact I|]. destruct bs as [|b r]; [exact I|].
  cbn [firstn stays] in *. destruct H as [H1 [H2 H3]]. auto.
Qed.

Lemma in_firstn {A} (x : A) i : forall l, In x (firstn i l) -> In x l.
Proof.
  induction i as [|i IH]; intros l H; [destruct H|]. destruct l as [|y l]; [destruct H|].
  cbn [firstn] in H. destruct H as [H|H]; [left; exact H|right; apply IH; exact H].
Qed.

Lemma restamp_self k : t_conf k = false -> restamp k (t_height k) false = k.
Proof. intros H. destruct k. cbn in *. subst. reflexivity. Qed.

Lemma cadence_run le U p A0 x : forall bs t k q,
  cad_inv U p A0 t k -> t_height k = x + RETRY * q -> gk_height t < t_height k + RETRY ->
  (q = 0 \/ t_height k <= gk_height t) ->
  (forall b, In b bs -> ~ In p (snd (fst b)) /\ forall a, In a A0 -> ~ In (a_loc a) (snd (fst b))) ->
  stays le U t bs -> bs <> [] ->
  gk_height (fst (run le t (connects bs))) = gk_height t + N.of_nat (length bs) /\
  exists q', find_trk (db_trks (fst (run le t (connects bs)))) U = Some (restamp k (x + RETRY * q') false) /\
             gk_height t + N.of_nat (length bs) < x + RETRY * q' + RETRY /\
             (q' = 0 \/ x + RETRY * q' <= gk_height t + N.of_nat (length bs)) /\
             ((exists r, In (mk_rpc K_send p r) (rpc_log (fst (run le t (connects bs))))) <->
              (0 < q' /\ gk_height t + N.of_nat (length bs) = x + RETRY * q')).
Proof.
  induction bs as [|b r IH]; intros t k q Hci Hx Hnd Hq Hbs Hst Hne; [contradiction|].
  cbn [stays] in Hst. destruct Hst as [Hok [Hsurv Hst]].
  rewrite (run_connects_cons le t b r Hok).
  destruct (Hbs b (or_introl eq_refl)) as [Hp Hnb].
  assert (Hstep := cadence_step le U p A0 t k (fst (fst b)) (snd (fst b)) (snd b)
                     (fst (step le t (OConnect (fst (fst b)) (snd (fst b))) (snd b))) Hci Hnd Hp Hnb).
  destruct (step le t (OConnect (fst (fst b)) (snd (fst b))) (snd b)) as [t1 o] eqn:Es. cbn [fst snd] in *. subst o.
  specialize (Hstep eq_refl Hsurv). destruct Hstep as [Hh1 Hcase].
  pose proof RETRY_6 as R6.
  assert (Hconf : t_conf k = false) by (destruct Hci as [_ [_ [_ [_ [Hc _]]]]]; exact Hc).
  destruct r as [|b2 r2].
  - (* last block *)
    cbn [connects map run fst length]. split; [lia|].
    destruct (N.eqb_spec (gk_height t + 1) (t_height k + RETRY)) as [Hdue|Hnot].
    + destruct Hcase as [Hci1 Hlog]. exists (q + 1).
      replace (x + RETRY * (q + 1)) with (gk_height t + 1) by lia.
      split; [destruct Hci1 as [_ [_ [_ [Hf _]]]]; exact Hf|]. split; [lia|]. split; [right; lia|].
      split; [intros _; lia|intros _; exact Hlog].
    + destruct Hcase as [Hci1 Hlog]. exists q. rewrite <- Hx, (restamp_self k Hconf).
      split; [destruct Hci1 as [_ [_ [_ [Hf _]]]]; exact Hf|]. split; [lia|]. split; [destruct Hq; [left; assumption|right; lia]|].
      split; [intros H; contradiction|]. intros [H1 H2]. exfalso. destruct Hq; lia.
  - (* more blocks follow *)
    assert (Hbs' : forall b0, In b0 (b2 :: r2) -> ~ In p (snd (fst b0)) /\ forall a, In a A0 -> ~ In (a_loc a) (snd (fst b0)))
      by (intros b0 Hb0; apply Hbs; right; exact Hb0).
    assert (Hlen : gk_height t + N.of_nat (length (b :: b2 :: r2)) = gk_height t1 + N.of_nat (length (b2 :: r2)))
      by (cbn [length]; lia).
    rewrite Hlen.
    destruct (N.eqb_spec (gk_height t + 1) (t_height k + RETRY)) as [Hdue|Hnot].
    + destruct Hcase as [Hci1 _].
      destruct (IH t1 (restamp k (gk_height t + 1) false) (q + 1) Hci1) as [Hh [q' [Hf [Hlt [Hq' Hiff]]]]];
        [cbn [t_height restamp]; lia|cbn [t_height restamp]; lia|right; cbn [t_height restamp]; lia|exact Hbs'|exact Hst|discriminate|].
      split; [exact Hh|]. exists q'. rewrite restamp_restamp in Hf. auto.
    + destruct Hcase as [Hci1 _].
      destruct (IH t1 k q Hci1) as [Hh [q' [Hf [Hlt [Hq' Hiff]]]]];
        [exact Hx|lia|destruct Hq; [left; assumption|right; lia]|exact Hbs'|exact Hst|discriminate|].
      split; [exact Hh|]. exists q'. auto.
Qed.

(* A tracker InMempoolSince x that stays unconfirmed in the table, with no disconnection pending, an
   empty carrier memo, blocks that contain neither its penalty nor the dispute of any appointment
   (so that the watcher submits nothing that could be memoized) and no other tracker sharing its
   penalty: in the block that brings the tower to height H the penalty is re-sent iff
   H = x + RETRY * j for some j >= 1, and the row is then restamped to H. *)
Theorem resent_every_6th_block le t0 U k0 bs :
  Inv t0 -> reorged t0 = [] -> car_memo t0 = [] ->
  find_trk (db_trks t0) U = Some k0 -> t_conf k0 = false ->
  (forall k', In k' (db_trks t0) -> t_penalty k' = t_penalty k0 -> trk_uuid k' = U) ->
  gk_height t0 < t_height k0 + RETRY ->
  (forall b, In b bs -> ~ In (t_penalty k0) (snd (fst b)) /\
                        forall a, In a (db_apps t0) -> ~ In (a_loc a) (snd (fst b))) ->
  stays le U t0 bs ->
  forall i, (0 < i <= length bs)%nat ->
    let ti := fst (run le t0 (connects (firstn i bs))) in
    let H := gk_height t0 + N.of_nat i in
    gk_height ti = H /\
    ((exists r, In (mk_rpc K_send (t_penalty k0) r) (rpc_log ti)) <-> (exists j, 0 < j /\ H = t_height k0 + RETRY * j)) /\
    (exists q, find_trk (db_trks ti) U = Some (restamp k0 (t_height k0 + RETRY * q) false) /\
               H < t_height k0 + RETRY * q + RETRY /\ (q = 0 \/ t_height k0 + RETRY * q <= H)).
Proof.
  intros HI Hrg Hmemo Hf Hc Huniq Hnd Hbs Hst i Hi.
  assert (Hlen : length (firstn i bs) = i) by (apply firstn_length_le; lia).
  assert (Hci : cad_inv U (t_penalty k0) (db_apps t0) t0 k0).
  { unfold cad_inv. split; [exact HI|]. split; [exact Hrg|]. split; [exact Hmemo|]. split; [exact Hf|]. split; [exact Hc|].
    split; [reflexivity|]. split; [exact Huniq|apply incl_refl]. }
  destruct (cadence_run le U (t_penalty k0) (db_apps t0) (t_height k0) (firstn i bs) t0 k0 0 Hci) as [Hh [q [Hrow [Hlt [Hq Hiff]]]]].
  - lia.
  - exact Hnd.
  - left. reflexivity.
  - intros b Hb. apply Hbs. eapply in_firstn. exact Hb.
  - apply stays_firstn. exact Hst.
  - intros E. rewrite E in Hlen. cbn in Hlen. lia.
  - rewrite Hlen in *. pose proof RETRY_6 as R6. cbv zeta. split; [exact Hh|]. split.
    + rewrite Hiff. split.
      * intros [H1 H2]. exists q. auto.
      * intros [j [Hj HH]]. destruct Hq as [Hq|Hq]; [subst q; lia|]. assert (q = j) by lia. subst j. split; [lia|exact HH].
    + exists q. auto.
Qed.

(* ------------------------------------------------------------------------------------------ *)
(* 7. confirmed heights stay on the active chain *)

(* the part of TxIndex's representation invariant needed here: distinct block hashes, each with
   its entry in tx_in_block (so that remove_disconnected_block always finds the block) *)
Definition idx_wf (i : txindex N) : Prop :=
  NoDup (ti_blocks i) /\ forall h, In h (ti_blocks i) -> aget (ti_txs i) h <> None.

Definition memo_ok (t : tower) : Prop := forall x hh, aget (car_memo t) x <> Some (ConfirmedIn hh).

Definition heights_ok (t : tower) : Prop :=
  forall k, In k (db_trks t) -> t_conf k = true -> mem_uuid (trk_uuid k) (reorged t) = false ->
            t_height k <= gk_height t.

Record chain_inv (t : tower) : Prop := {
  ci_heights : heights_ok t;
  ci_tip : (ti_tip (r_index t) <= Z.of_N (gk_height t))%Z;
  ci_memo : memo_ok t;
  ci_idx : idx_wf (r_index t)
}.

Lemma get_height_le_tip (i : txindex N) bh z : ti_get_height i bh = Some z -> (z <= ti_tip i)%Z.
Proof.
  unfold ti_get_height. destruct (positionN bh (ti_blocks i)) as [p|] eqn:E; [|discriminate].
  apply positionN_lt in E. intros H. inversion H. lia.
Qed.

Lemma idx_wf_update (i : txindex N) b i' :
  idx_wf i -> ~ In (ib_hash b) (ti_blocks i) -> ti_update i b = Some i' ->
  idx_wf i' /\ ti_tip i' = (ti_tip i + 1)%Z /\
  (forall h, In h (ti_blocks i') -> In h (ti_blocks i) \/ h = ib_hash b).
Proof.
  intros [Hnd Htx] Hfresh. unfold ti_update.
  set (t1 := {| ti_index := ib_data b ++ ti_index i; ti_blocks := ti_blocks i ++ [ib_hash b];
                ti_txs := ainsert (ti_txs i) (ib_hash b) (keys_of (ib_data b));
                ti_tip := (ti_tip i + 1)%Z; ti_size := ti_size i |}).
  assert (Hwf1 : idx_wf t1).
  { split; cbn [ti_blocks ti_txs t1].
    - apply NoDup_app_iff. repeat split; [exact Hnd|repeat constructor; intros []|].
      intros x Hx [Hx'|[]]. subst x. contradiction.
    - intros h Hh. unfold ainsert. cbn [aget]. destruct (N.eqb h (ib_hash b)) eqn:E; [discriminate|].
      apply in_app_or in Hh. destruct Hh as [Hh|[Hh|[]]]; [apply Htx; exact Hh|].
      subst h. rewrite N.eqb_refl in E. discriminate. }
  assert (Hsub1 : forall h, In h (ti_blocks t1) -> In h (ti_blocks i) \/ h = ib_hash b).
  { intros h Hh. cbn [ti_blocks t1] in Hh. apply in_app_or in Hh. destruct Hh as [Hh|[Hh|[]]]; auto. }
  assert (Htip1 : ti_tip t1 = (ti_tip i + 1)%Z) by reflexivity.
  clearbody t1.
  destruct (ti_is_full t1).
  - unfold ti_remove_oldest. destruct (ti_blocks t1) as [|h0 rest] eqn:Eb; [discriminate|].
    destruct (aget (ti_txs t1) h0) as [ks|]; [|discriminate]. intros E. inversion E. subst i'. clear E.
    destruct Hwf1 as [Hnd1 Htx1]. rewrite Eb in Hnd1, Htx1. apply NoDup_cons_iff in Hnd1. destruct Hnd1 as [Hh0 Hnd1].
    split; [|split].
    + split; cbn [ti_blocks ti_txs]; [exact Hnd1|].
      intros h Hh. rewrite aget_remove. destruct (N.eqb h h0) eqn:E.
      * apply N.eqb_eq in E. subst h. contradiction.
      * apply Htx1. right. exact Hh.
    + exact Htip1.
    + cbn [ti_blocks]. intros h Hh. apply Hsub1. right. exact Hh.
  - intros E. inversion E. subst i'. split; [exact Hwf1|]. split; [exact Htip1|exact Hsub1].
Qed.

Lemma last_map_some (l : list N) h : last (map Some l) None = Some h -> exists bs, l = bs ++ [h].
Proof.
  destruct l as [|x l] using rev_ind; [discriminate|]. rewrite map_app. cbn [map]. rewrite last_last.
  intros E. inversion E. eauto.
Qed.

Lemma idx_wf_disconnect (i : txindex N) hash :
  idx_wf i -> last (map Some (ti_blocks i)) None = Some hash ->
  idx_wf (ti_disconnect i hash) /\ ti_tip (ti_disconnect i hash) = (ti_tip i - 1)%Z.
Proof.
  intros [Hnd Htx] Hl. destruct (last_map_some _ _ Hl) as [bs Eb].
  unfold ti_disconnect. destruct (aget (ti_txs i) hash) as [ks|] eqn:Ea.
  2:{ exfalso. apply (Htx hash); [rewrite Eb; apply in_or_app; right; left; reflexivity|exact Ea]. }
  destruct (ti_blocks i) as [|b0 r0] eqn:E0; [destruct bs; discriminate|]. rewrite Eb in *.
  rewrite removelast_last. apply NoDup_app_iff in Hnd. destruct Hnd as [Hnb [_ Hdis]].
  split; [|reflexivity]. split; cbn [ti_blocks ti_txs]; [exact Hnb|].
  intros h Hh. rewrite aget_remove. destruct (N.eqb h hash) eqn:E.
  - apply N.eqb_eq in E. subst h. exfalso. apply (Hdis hash Hh). left. reflexivity.
  - apply Htx. apply in_or_app. left. exact Hh.
Qed.

Lemma idx_wf_updates bs : forall (i i' : txindex N),
  idx_wf i -> NoDup (map ib_hash bs) -> (forall b, In b bs -> ~ In (ib_hash b) (ti_blocks i)) ->
  ti_updates i bs = Some i' -> idx_wf i'.
Proof.
  induction bs as [|b bs IH]; intros i i' Hwf Hnd Hfr E; cbn [ti_updates] in E; [inversion E; subst; exact Hwf|].
  destruct (ti_update i b) as [i1|] eqn:E1; [|discriminate].
  cbn [map] in Hnd. apply NoDup_cons_iff in Hnd. destruct Hnd as [Hb Hnd].
  destruct (idx_wf_update i b i1 Hwf (Hfr b (or_introl eq_refl)) E1) as [Hwf1 [_ Hsub]].
  apply (IH i1 i' Hwf1 Hnd); [|exact E].
  intros b' Hb' Hin. destruct (Hsub _ Hin) as [H|H].
  - apply (Hfr b' (or_intror Hb')). exact H.
  - apply Hb. rewrite <- H. apply in_map. exact Hb'.
Qed.

Lemma chain_inv_init c h0 boot t0 : init c h0 boot = Some t0 -> NoDup (map fst boot) -> chain_inv t0.
Proof.
  unfold init. destruct (ti_new _ _) as [wc|]; [|discriminate].
  destruct (ti_new (map (fun b => index_block (fst b) (snd b)) boot) (Z.of_N h0)) as [ri|] eqn:Er; [|discriminate].
  intros E Hnd. inversion E. subst t0. clear E. constructor; cbn [db_trks gk_height r_index car_memo reorged].
  - intros k [].
  - unfold ti_new in Er. destruct (ti_updates _ _) as [t|]; [|discriminate]. inversion Er. cbn [ti_tip]. lia.
  - intros x hh. cbn [aget]. discriminate.
  - unfold ti_new in Er. destruct (ti_updates _ _) as [t|] eqn:Eu; [|discriminate]. inversion Er.
    assert (Hwf : idx_wf t).
    { eapply (idx_wf_updates _ _ t); [| | |exact Eu].
      - split; cbn [ti_blocks]; [constructor|intros h []].
      - rewrite map_rev, map_map. cbn [ib_hash index_block]. apply NoDup_rev. exact Hnd.
      - intros b _ []. }
    destruct Hwf as [H1 H2]. split; cbn [ti_blocks ti_txs]; assumption.
Qed.

(* chain_inv looks only at these fields *)
Definition same_core (t t' : tower) : Prop :=
  gk_height t = gk_height t' /\ db_trks t = db_trks t' /\ r_index t = r_index t' /\
  car_memo t = car_memo t' /\ reorged t = reorged t'.

Lemma chain_inv_core t t' : same_core t t' -> chain_inv t -> chain_inv t'.
Proof.
  intros [Hh [Hk [Hi [Hm Hr]]]] [C1 C2 C3 C4].
  constructor; unfold heights_ok, memo_ok in *; rewrite <- ?Hh, <- ?Hk, <- ?Hi, <- ?Hm, <- ?Hr; assumption.
Qed.

Lemma memo_ok_send sc t x : memo_ok t -> memo_ok (snd (send_transaction sc t x)).
Proof.
  intros H. unfold send_transaction. destruct (aget (car_memo t) x) eqn:Em; [exact H|].
  cbn [snd]. intros y hh. cbn [car_memo set_car_memo log_rpc set_rpc_log aget].
  destruct (N.eqb y x); [|apply H].
  destruct (send_status_cases t (snd (script_get sc x))) as [Hs|[Hs|[c Hs]]]; rewrite Hs; discriminate.
Qed.

Lemma chain_inv_stableW : StableW chain_inv.
Proof.
  constructor.
  - intros t t' [_ [_ [Hh [_ [_ [Hk [Hi [_ [Hm Hr]]]]]]]]]. apply chain_inv_core. repeat split; assumption.
  - intros sc t x [C1 C2 C3 C4]. pose proof (memo_ok_send sc t x C3) as Hm.
    destruct (send_spec sc t x) as [m [l [Es _]]]. rewrite Es in *. cbn [snd] in *.
    constructor; try assumption.
  - intros t us [C1 C2 C3 C4]. constructor; try assumption.
    intros k Hk. unfold db_delete_apps in Hk. cbn [db_trks set_db_trks set_db_apps] in Hk.
    apply filter_In in Hk. apply C1. tauto.
  - intros t k [C1 C2 C3 C4] _ _ Hprov. constructor; try assumption.
    intros k' Hk'. unfold p_insert_trk in Hk'. cbn [db_trks set_db_trks] in Hk'.
    apply in_app_or in Hk'. destruct Hk' as [Hk'|[Hk'|[]]]; [apply C1; exact Hk'|]. subst k'.
    intros Hc _. cbn [gk_height p_insert_trk set_db_trks].
    destruct (Hprov Hc) as [[bh [z [Hz Hh]]]|[x Hx]].
    + apply get_height_le_tip in Hz. lia.
    + exfalso. exact (C3 _ _ Hx).
Qed.

(* abort sites of the loops the responder runs after check_confirmations *)
Section Sites.
  Context (S : site -> Prop) (HSite : forall s : site, S s).

  Lemma refund_loop_sites us : forall t, pres2 (fun _ => True) S (refund_loop t us).
  Proof.
    induction us as [|u us IH]; intros t; cbn [refund_loop]; [exact I|].
    destruct (find_app (db_apps t) u) as [a|]; [|apply HSite].
    destruct (gk_get t (a_user a)) as [ui|]; [|apply HSite].
    destruct (u32_add _ _); [apply IH|apply HSite].
  Qed.

  Lemma reorged_loop_sites sc h us : forall t rej, pres2 (fun _ => True) S (reorged_loop sc h us t rej).
  Proof.
    induction us as [|u us IH]; intros t rej; [exact I|]. rewrite reorged_loop_cons.
    destruct (find_trk (db_trks t) u) as [k|]; [|apply IH].
    destruct (send_transaction sc t (t_dispute k)) as [s t1].
    destruct (is_confirmed s); [apply HSite|].
    destruct (status_rejected s); [apply IH|].
    destruct (send_transaction sc t1 (t_penalty k)) as [s2 t2]. destruct (status_rejected s2); apply IH.
  Qed.

  Lemma stale_loop_sites sc h us : forall t rej, pres2 (fun _ => True) S (stale_loop sc h us t rej).
  Proof.
    induction us as [|u us IH]; intros t rej; [exact I|]. rewrite stale_loop_cons.
    destruct (find_trk (db_trks t) u) as [k|]; [|apply HSite].
    destruct (send_transaction sc t (t_penalty k)) as [s t1]. apply IH.
  Qed.

  Lemma site_of_pres2 {A} (r : res A) s t : pres2 (fun _ => True) S r -> r = Abort s t -> S s.
  Proof. intros H E. rewrite E in H. exact H. Qed.

  (* the API procedures *)
  Lemma store_appointment_chain t a : chain_inv t -> pres2 chain_inv S (w_store_appointment t a).
  Proof.
    intros H. unfold w_store_appointment. destruct (find_app (db_apps t) (app_uuid a)).
    - cbn [pres2]. eapply chain_inv_core; [|exact H]. repeat split.
    - destruct (amem (db_users t) (a_user a)); [|exact H].
      cbn [pres2]. eapply chain_inv_core; [|exact H]. repeat split.
  Qed.

  Lemma store_triggered_chain sc t a d : chain_inv t -> pres2 chain_inv S (w_store_triggered sc t a d).
  Proof.
    intros H. unfold w_store_triggered. destruct (decrypt (a_blob a) d) as [p|].
    - destruct (w_store_ok t a); [|exact H].
      apply pres2_bind; [apply store_appointment_chain; exact H|]. intros _ t1 H1.
      apply pres2_bind; [apply (handle_breach_presW _ chain_inv_stableW S HSite); exact H1|]. intros s t2 H2.
      destruct (status_rejected s); [|exact H2]. unfold gk_delete_appointments. cbn [pres2].
      apply (sw_delete _ chain_inv_stableW). exact H2.
    - destruct (find_app (db_apps t) (app_uuid a)); [|exact H]. unfold gk_delete_appointments. cbn [pres2].
      apply (sw_delete _ chain_inv_stableW). exact H.
  Qed.

  Lemma add_appointment_chain sc t signer loc b delay sig :
    chain_inv t -> pres2 chain_inv S (w_add_appointment sc t signer loc b delay sig).
  Proof.
    intros H. unfold w_add_appointment.
    destruct (authenticate t signer) as [u|]; [|exact H].
    destruct (gk_get t u) as [ui|] eqn:Eg; [|exact H].
    destruct (N.leb (u_expiry ui) (gk_height t)); [exact H|].
    destruct (find_trk (db_trks t) (loc, u)); [exact H|].
    apply pres2_bind.
    - unfold gk_add_update_appointment. rewrite Eg.
      match goal with |- context [if ?c then _ else _] => destruct c end; cbn [pres2]; [|exact H].
      eapply chain_inv_core; [|exact H]. repeat split.
    - intros charged t1 H1. destruct charged as [av|]; [|exact H1]. cbv zeta.
      apply pres2_bind;
        [|intros _ t2 H2; match goal with |- context [if ?c then _ else _] => destruct c end; exact H2].
      destruct (ti_get (w_cache t1) loc); [apply store_triggered_chain|apply store_appointment_chain]; exact H1.
  Qed.

  Lemma add_update_user_chain t u : chain_inv t -> pres2 chain_inv S (gk_add_update_user t u).
  Proof.
    intros H. unfold gk_add_update_user. destruct (gk_get t u) as [ui|].
    - destruct (u32_add (u_slots ui) (c_slots (cfg t))); cbn [pres2]; [|exact H].
      eapply chain_inv_core; [|exact H]. repeat split.
    - destruct (u32_add (gk_height t) (c_duration (cfg t))); [|apply HSite].
      destruct (amem (db_users t) u); [apply HSite|]. cbn [pres2].
      eapply chain_inv_core; [|exact H]. repeat split.
  Qed.
End Sites.

Lemma blk_eff_not_confirmed sc t h x hh : memo_ok t -> blk_eff sc t h x <> ConfirmedIn hh.
Proof.
  intros Hm. unfold blk_eff, eff_status. cbn [car_memo set_car_height].
  destruct (aget (car_memo t) x) as [r|] eqn:E; [intros ->; exact (Hm _ _ E)|].
  destruct (send_status_cases (set_car_height t h) (snd (script_get sc x))) as [Hs|[Hs|[c Hs]]]; rewrite Hs; discriminate.
Qed.

Section Sites2.
  Context (S : site -> Prop) (HSite : forall s : site, S s).

  Lemma r_block_connected_sites le sc t b h :
    Inv t -> pres2 (fun _ => True) S (r_block_connected le sc t b h).
  Proof.
    intros HI. unfold r_block_connected. change (r_index (set_car_height t h)) with (r_index t).
    destruct (ti_update (r_index t) b) as [idx|]; [|apply HSite].
    assert (HI1 : Inv (set_r_index (set_car_height t h) idx)) by (eapply inv_frame; [|exact HI]; repeat split).
    pose proof (check_conf_loop_spec le (keys_of (ib_data b)) h _ [] HI1) as Hcc.
    change (reorged (set_r_index (set_car_height t h) idx)) with (reorged t) in Hcc.
    change (db_trks (set_r_index (set_car_height t h) idx)) with (db_trks t) in *.
    rewrite Hcc. cbn [bind].
    apply pres2_bind.
    { destruct ([] ++ completed_list _ _ _); [exact I|]. unfold gk_delete_appointments.
      apply pres2_bind; [apply refund_loop_sites; exact HSite|]. intros; exact I. }
    intros _ t3 _. apply pres2_bind.
    { destruct (reorged t3); [exact I|apply reorged_loop_sites; exact HSite]. }
    intros rej1 t4 _. destruct (u32_sub h _); [|apply HSite].
    apply pres2_bind; [apply stale_loop_sites; exact HSite|]. intros rej2 t5 _.
    apply pres2_bind; [destruct (rej1 ++ rej2); exact I|]. intros; exact I.
  Qed.

  Lemma r_block_connected_chain le sc t b h :
    Inv t -> chain_inv t -> gk_height t = h -> (ti_tip (r_index t) + 1 <= Z.of_N h)%Z ->
    ~ In (ib_hash b) (ti_blocks (r_index t)) ->
    pres2 chain_inv S (r_block_connected le sc t b h).
  Proof.
    intros HI [C1 C2 C3 C4] Hh Htip Hfresh.
    pose proof (r_block_connected_sites le sc t b h HI) as Hsites.
    destruct (r_block_connected le sc t b h) as [[] t'|s t''] eqn:E; [|exact Hsites]. cbn [pres2].
    destruct (r_block_connected_facts le sc t b h t' HI E) as [lim [t5 F]].
    assert (HI' : Inv t').
    { pose proof (r_block_connected_pres Inv (sb_wr _ (sa_block _ inv_stable)) le sc t b h HI) as Hp. rewrite E in Hp. exact Hp. }
    destruct (rf_heights _ _ _ _ _ _ _ F) as [Hgh _].
    destruct (idx_wf_update _ _ _ C4 Hfresh (rf_index _ _ _ _ _ _ _ F)) as [Hwf [Htip' _]].
    constructor.
    - intros k' Hk' Hc' _. rewrite Hgh, Hh.
      pose proof (find_trk_In_NoDup _ k' (inv_trks_nodup _ HI') Hk') as Hfk.
      rewrite (rf_rows _ _ _ _ _ _ _ F) in Hfk.
      destruct (find_trk (db_trks t) (trk_uuid k')) as [k|] eqn:Ek; [|discriminate].
      destruct (find_trk_Some _ _ _ Ek) as [Hkin _]. unfold fate in Hfk.
      destruct (memN (t_penalty k) (keys_of (ib_data b))); [inversion Hfk; cbn [t_height restamp]; lia|].
      destruct (mem_uuid (trk_uuid k) (reorged t)) eqn:Er.
      { destruct (trk_rejected _ k); [discriminate|]. inversion Hfk. subst k'. discriminate. }
      destruct (t_conf k) eqn:Ec.
      { destruct (N.eqb _ _); [discriminate|]. inversion Hfk. subst k'. rewrite <- Hh. apply C1; assumption. }
      destruct (N.leb (t_height k) lim); [|inversion Hfk; subst k'; congruence].
      destruct (status_rejected _); [discriminate|]. inversion Hfk. subst k'. unfold stale_upd in Hc'.
      destruct (blk_eff sc t h (t_penalty k)) eqn:Ee; cbn [t_conf restamp] in Hc'; try congruence.
      exfalso. exact (blk_eff_not_confirmed sc t h _ _ C3 Ee).
    - rewrite Hgh, Hh, Htip'. exact Htip.
    - intros x hh. rewrite (rf_memo _ _ _ _ _ _ _ F). discriminate.
    - exact Hwf.
  Qed.
End Sites2.

Lemma gk_block_connected_chain t h tg :
  chain_inv t -> gk_height t <= h -> gk_block_connected t h = Ok tt tg ->
  chain_inv tg /\ r_index tg = r_index t /\ gk_height tg = h.
Proof.
  intros [C1 C2 C3 C4] Hle. unfold gk_block_connected.
  destruct (outdated_users (c_delta (cfg t)) h (gk_users t)) as [out|]; [|discriminate].
  destruct out as [|o out]; intros E; inversion E; clear E; cbv iota.
  - split; [|split; reflexivity]. constructor; unfold heights_ok; cbn [db_trks gk_height r_index car_memo reorged set_gk_height]; try assumption.
    + intros k Hk Hc Hr. specialize (C1 k Hk Hc Hr). lia.
    + lia.
  - split; [|split; reflexivity]. unfold p_purge, db_delete_users.
    constructor; unfold heights_ok; cbn [db_trks gk_height r_index car_memo reorged set_gk_height set_db_trks set_db_apps set_db_users set_gk_users];
      try assumption.
    + intros k Hk Hc Hr. apply filter_In in Hk. destruct Hk as [Hk _]. specialize (C1 k Hk Hc Hr). lia.
    + lia.
Qed.

Lemma index_height_stableW (i : txindex N) (h : N) : StableW (fun t => r_index t = i /\ gk_height t = h).
Proof.
  constructor.
  - intros t t' [_ [_ [Hh [_ [_ [_ [Hi _]]]]]]] [H1 H2]. split; congruence.
  - intros sc t x H. destruct (send_spec sc t x) as [m [l [Es _]]]. rewrite Es. exact H.
  - intros t us H. exact H.
  - intros t k H _ _ _. exact H.
Qed.

Lemma mem_uuid_marked_false (p : trk -> bool) l k :
  In k l -> mem_uuid (trk_uuid k) (map trk_uuid (filter p l)) = false -> p k = false.
Proof.
  intros Hk Hm. destruct (p k) eqn:Ep; [|reflexivity]. apply mem_uuid_false in Hm. exfalso. apply Hm.
  apply in_map. apply filter_In. tauto.
Qed.

(* one step keeps the invariant; a connected block must carry a hash the responder's index does not hold *)
Lemma step_chain le t o sc :
  Inv t -> chain_inv t ->
  match o with OConnect hash _ => ~ In hash (ti_blocks (r_index t)) | _ => True end ->
  not_abort (snd (step le t o sc)) -> chain_inv (fst (step le t o sc)).
Proof.
  intros HI HC Hfresh.
  assert (HCf : chain_inv (set_rpc_log t [])) by (eapply chain_inv_core; [|exact HC]; repeat split).
  assert (HIf : Inv (set_rpc_log t [])) by (eapply inv_frame; [|exact HI]; repeat split).
  destruct o as [u|signer loc b delay sig|signer loc|signer|hash txs|].
  - cbn [step]. pose proof (add_update_user_chain (fun _ => True) (fun _ => I) (set_rpc_log t []) u HCf) as Hp.
    destruct (gk_add_update_user (set_rpc_log t []) u); cbn [wrap fst snd]; [intros _; exact Hp|intros []].
  - cbn [step]. pose proof (add_appointment_chain (fun _ => True) (fun _ => I) sc (set_rpc_log t []) signer loc b delay sig HCf) as Hp.
    destruct (w_add_appointment sc (set_rpc_log t []) signer loc b delay sig); cbn [wrap fst snd]; [intros _; exact Hp|intros []].
  - destruct (get_unchanged le t sc signer loc) as [r Er]. rewrite Er. intros _. exact HCf.
  - destruct (getsub_unchanged le t sc signer) as [r Er]. rewrite Er. intros _. exact HCf.
  - cbn [step]. change Consts.LISTENER_ORDER with [0%Z; 1%Z; 2%Z]. cbn [run_listeners].
    change (gk_height (set_rpc_log t [])) with (gk_height t).
    unfold listener_connected. cbn [Z.eqb Pos.eqb]. set (h := gk_height t + 1).
    destruct (gk_block_connected (set_rpc_log t []) h) as [[] tg|s tg] eqn:Eg; cbn [bind wrap fst snd]; [|intros []].
    destruct (gk_block_connected_chain _ h tg HCf) as [HCg [Hig Hhg]];
      [cbn [gk_height set_rpc_log]; unfold h; lia|exact Eg|].
    assert (HIg : Inv tg).
    { pose proof (gk_block_connected_pres Inv (sa_block _ inv_stable) _ h HIf) as Hpp. rewrite Eg in Hpp. exact Hpp. }
    pose proof (w_block_connected_presW _ chain_inv_stableW (fun _ => True) (fun _ => I) sc tg (cache_block hash txs) h HCg) as HCw.
    pose proof (w_block_connected_presW _ (index_height_stableW (r_index tg) h) (fun _ => True) (fun _ => I) sc tg
                  (cache_block hash txs) h (conj eq_refl Hhg)) as Hiw.
    pose proof (w_block_connected_pres Inv (sb_wr _ (sa_block _ inv_stable)) sc tg (cache_block hash txs) h HIg) as HIw.
    destruct (w_block_connected sc tg (cache_block hash txs) h) as [[] tw|s tw]; cbn [bind wrap fst snd]; [|intros []].
    cbn [pres2 pres] in HCw, Hiw, HIw. destruct Hiw as [Hiw Hhw].
    assert (Hidx : r_index tw = r_index t) by (rewrite Hiw, Hig; reflexivity).
    pose proof (r_block_connected_chain (fun _ => True) (fun _ => I) le sc tw (index_block hash txs) h HIw HCw Hhw) as Hp.
    destruct (r_block_connected le sc tw (index_block hash txs) h); cbn [wrap fst snd]; [intros _|intros []].
    apply Hp.
    + rewrite Hidx. pose proof (ci_tip _ HC). unfold h. lia.
    + rewrite Hidx. exact Hfresh.
  - cbn [step]. destruct (last_hash (set_rpc_log t [])) as [hash|] eqn:El; [|intros _; exact HCf].
    change Consts.LISTENER_ORDER with [0%Z; 1%Z; 2%Z]. cbn [run_listeners].
    change (gk_height (set_rpc_log t [])) with (gk_height t).
    unfold listener_disconnected. cbn [Z.eqb Pos.eqb].
    unfold gk_block_disconnected, w_block_disconnected.
    destruct (u32_sub (gk_height t) 1) as [h'|] eqn:Eh; cbn [bind wrap fst snd]; [|intros []].
    unfold r_block_disconnected. cbn [bind wrap fst snd]. intros _.
    assert (Hh' : h' = gk_height t - 1 /\ 1 <= gk_height t).
    { unfold u32_sub in Eh. destruct (N.leb_spec 1 (gk_height t)); [|discriminate]. inversion Eh. split; [reflexivity|assumption]. }
    destruct Hh' as [Hh' Hge]. destruct HC as [C1 C2 C3 C4].
    unfold last_hash in El. cbn [r_index set_rpc_log] in El.
    destruct (idx_wf_disconnect _ hash C4 El) as [Hwf Htip].
    constructor; unfold heights_ok; cbn [db_trks gk_height r_index car_memo reorged set_reorged set_r_index set_car_height set_w_height
                      set_w_cache set_gk_height set_rpc_log].
    + intros k Hk Hc Hr. rewrite mem_uuid_app in Hr. apply orb_false_iff in Hr. destruct Hr as [Hr1 Hr2].
      rewrite mem_uuid_filter, Hr1 in Hr2. cbn [negb] in Hr2. rewrite andb_true_r in Hr2.
      apply (mem_uuid_marked_false _ _ _ Hk) in Hr2. cbv beta in Hr2. rewrite Hc in Hr2. cbn [andb] in Hr2. apply N.eqb_neq in Hr2.
      specialize (C1 k Hk Hc Hr1). lia.
    + rewrite Htip. lia.
    + exact C3.
    + exact Hwf.
Qed.

(* every block handed to the tower carries a hash the responder's index does not currently hold *)
Fixpoint fresh_hashes (le : bool) (t : tower) (hist : list (op * script)) : Prop :=
  match hist with
  | [] => True
  | (o, sc) :: r =>
      match o with OConnect hash _ => ~ In hash (ti_blocks (r_index t)) | _ => True end /\
      fresh_hashes le (fst (step le t o sc)) r
  end.

Theorem chain_inv_run le : forall hist t,
  Inv t -> chain_inv t -> fresh_hashes le t hist -> Forall not_abort (snd (run le t hist)) ->
  chain_inv (fst (run le t hist)).
Proof.
  induction hist as [|[o sc] hist IH]; intros t HI HC Hf; cbn [run]; [intros _; exact HC|].
  cbn [fresh_hashes] in Hf. destruct Hf as [Hf1 Hf2].
  pose proof (step_chain le t o sc HI HC Hf1) as H1.
  pose proof (step_pres Inv inv_stable le t o sc HI) as H2.
  destruct (step le t o sc) as [t1 x]. cbn [fst snd] in *.
  destruct x; try (specialize (IH t1); destruct (run le t1 hist) as [t2 xs]; cbn [fst snd] in *;
                   intros Hall; inversion Hall; subst; apply IH; [apply H2; exact I|apply H1; exact I|exact Hf2|assumption]).
  cbn [fst snd]. intros Hall. inversion Hall; subst. contradiction.
Qed.

(* 7. From the bootstrap, along any history of requests, connections (with fresh block hashes) and
   disconnections in which no handler aborted: every tracker recorded as ConfirmedIn h and not
   waiting for re-announcement has h <= the height of the active chain's tip. *)
Theorem confirmed_on_active_chain le c h0 boot t0 hist :
  init c h0 boot = Some t0 -> NoDup (map fst boot) -> fresh_hashes le t0 hist ->
  Forall not_abort (snd (run le t0 hist)) ->
  forall k, In k (db_trks (fst (run le t0 hist))) -> t_conf k = true ->
            mem_uuid (trk_uuid k) (reorged (fst (run le t0 hist))) = false ->
            t_height k <= gk_height (fst (run le t0 hist)).
Proof.
  intros Hi Hnd Hf Hna.
  exact (ci_heights _ (chain_inv_run le hist t0 (inv_init _ _ _ _ Hi) (chain_inv_init _ _ _ _ Hi Hnd) Hf Hna)).
Qed.

(* ------------------------------------------------------------------------------------------ *)
(* the monitor's vocabulary (TowerMon.completing) agrees with `completes` outside the reorged set *)
From TeosModel Require TowerMon.

Lemma completes_matches_monitor txids h k :
  completes txids h [] k = TowerMon.completing h txids k.
Proof.
  unfold completes, TowerMon.completing. cbn [mem_uuid existsb negb andb].
  change Consts.IRREVOCABLY_RESOLVED with 100%Z. rewrite IRR_100.
  destruct (memN (t_penalty k) txids), (t_conf k); cbn [negb andb]; try reflexivity;
    try (rewrite andb_false_r; reflexivity); rewrite andb_true_r;
    destruct (N.eqb_spec (h - t_height k) 100), (Z.eqb_spec (Z.of_N h - Z.of_N (t_height k)) 100); try reflexivity; lia.
Qed.

(* 4 / 5: the two loops, as functions of the carrier's answers e (= eff_status of the state they start from) *)
Theorem reorged_loop_spec sc h us t rej0 rej t' :
  Inv t -> reorged_loop sc h us t rej0 = Ok rej t' ->
  rej = rej0 ++ filter (reorg_rejected (eff_status sc t) (db_trks t)) us /\
  (exists m l, t' = with_carrier (set_db_trks t (reorg_rows (eff_status sc t) h us (db_trks t))) m l) /\
  carried sc t t' /\
  (forall uuid k, In uuid us -> find_trk (db_trks t) uuid = Some k -> reorg_covered (eff_status sc t) t' k).
Proof.
  intros HI E. exact (reorged_loop_gen sc h (eff_status sc t) us t rej0 rej t' (inv_trks_nodup t HI) (fun x => eq_refl) E).
Qed.

Theorem stale_loop_spec sc h us t rej0 :
  Inv t -> (forall u, In u us -> find_trk (db_trks t) u <> None) ->
  exists t', stale_loop sc h us t rej0 = Ok (rej0 ++ filter (stale_rejected (eff_status sc t) (db_trks t)) us) t' /\
    (exists m l, t' = with_carrier (set_db_trks t (stale_rows (eff_status sc t) h us (db_trks t))) m l) /\
    carried sc t t' /\
    (forall u k, In u us -> find_trk (db_trks t) u = Some k ->
                 aget (car_memo t') (t_penalty k) = Some (eff_status sc t (t_penalty k))).
Proof.
  intros HI Hrows. exact (stale_loop_gen sc h (eff_status sc t) us t rej0 (inv_trks_nodup t HI) (fun x => eq_refl) Hrows).
Qed.

(* "recorded as confirmed only in a block of the active chain": while a block is connected, a row is
   (newly) recorded as confirmed only with the height of that block and only when the block contains
   its penalty; every other confirmed row is an unchanged one.  memo_ok (the carrier's memo holds no
   ConfirmedIn answer) is part of chain_inv, hence holds in every reachable state. *)
Theorem confirmed_only_by_block le sc t b h t' u k k' :
  Inv t -> memo_ok t -> r_block_connected le sc t b h = Ok tt t' ->
  find_trk (db_trks t) u = Some k -> find_trk (db_trks t') u = Some k' -> t_conf k' = true ->
  (memN (t_penalty k) (keys_of (ib_data b)) = true /\ k' = restamp k h true) \/
  (memN (t_penalty k) (keys_of (ib_data b)) = false /\ k' = k).
Proof.
  intros HI Hm E Hf Hf' Hc'. destruct (r_block_connected_facts le sc t b h t' HI E) as [lim [t5 F]].
  rewrite (rf_rows _ _ _ _ _ _ _ F), Hf in Hf'. unfold fate in Hf'.
  destruct (memN (t_penalty k) (keys_of (ib_data b))); [left; inversion Hf'; auto|right; split; [reflexivity|]].
  destruct (mem_uuid (trk_uuid k) (reorged t)).
  { destruct (trk_rejected _ k); [discriminate|]. inversion Hf'. subst k'. discriminate. }
  destruct (t_conf k) eqn:Ec.
  { destruct (N.eqb _ _); [discriminate|]. inversion Hf'. reflexivity. }
  destruct (N.leb (t_height k) lim); [|inversion Hf'; reflexivity].
  destruct (status_rejected _); [discriminate|]. inversion Hf'. subst k'. unfold stale_upd in *.
  destruct (blk_eff sc t h (t_penalty k)) eqn:Ee; cbn [t_conf restamp] in Hc'; try congruence.
  exfalso. exact (blk_eff_not_confirmed sc t h _ _ Hm Ee).
Qed.

Theorem memo_ok_reachable le c h0 boot t0 hist :
  init c h0 boot = Some t0 -> NoDup (map fst boot) -> fresh_hashes le t0 hist ->
  Forall not_abort (snd (run le t0 hist)) -> memo_ok (fst (run le t0 hist)).
Proof.
  intros Hi Hnd Hf Hna.
  exact (ci_memo _ (chain_inv_run le hist t0 (inv_init _ _ _ _ Hi) (chain_inv_init _ _ _ _ Hi Hnd) Hf Hna)).
Qed.
