(* ClientMon.v — the boolean forms of C05, C14 and C13 on a trace OBSERVED on the real plugin process
   (harness/src/bin/client_proc): for every scenario step the raw rows of the plugin's SQLite file,
   the answer of `listtowers`, the requests the fake towers saw (with the class of the reply they
   gave and a millisecond timestamp) and the result / duration of the step.
   The monitors demand no more than the properties state; the timing ones (C13) carry explicit,
   generous slack (constants below).  Evaluated by coq/extraction/drv_client_proc.ml on the
   IMPLEMENTATION's observations only.  No proofs in this file. *)
From TeosModel Require Import Base Db Client ClientFlow.

(* ---------- the observed trace ---------- *)
Record logent := mk_logent {
  le_t : N; le_ep : N (* 0 register, 1 add_appointment, 2 other *); le_l : N; le_cls : N; le_ms : N;
  le_v1 : N; le_v2 : N; le_v3 : N }.

Record cobs := mk_cobs {
  ob_alive : bool;                  (* listtowers was answered *)
  ob_ms : N;
  ob_lt : amap summary;             (* listtowers ([] when not alive) *)
  ob_db : db;                       (* the seven tables read in one transaction (8th table left empty) *)
  ob_log : list logent;             (* requests the towers saw since the previous observation *)
  ob_van : list (N * N * N) }.      (* database sampler: (tower, locator, ms) of a pair that HAD a record and was sampled with none, tower row present *)

Record cstep := mk_cstep { ss_kind : N; ss_a : N; ss_b : N; ss_res : N; ss_dur : N; ss_obs : cobs }.

Record scen := mk_scen { sc_nt : N; sc_max_retry : N; sc_auto : N; sc_interval : N; sc_steps : list cstep }.

(* step kinds and reply classes of the harness *)
Definition K_REG : N := 1.   Definition K_MODE : N := 2.   Definition K_UP : N := 3.    Definition K_REV : N := 4.
Definition K_SETTLE : N := 5. Definition K_SLEEP : N := 6.  Definition K_RETRY : N := 7. Definition K_ABANDON : N := 8.
Definition K_KILL : N := 9.  Definition K_START : N := 10. Definition K_REVNOWAIT : N := 11. Definition K_WAKE : N := 12.
Definition A_ACCEPT : N := 0. Definition A_WRONGKEY : N := 1. Definition A_BADSIG : N := 2. Definition A_SUBERR : N := 3.
Definition A_APIERR : N := 4.
Definition R_GOOD : N := 0.  Definition R_NOTEXT : N := 2. Definition R_NOTEXT_SLOTS : N := 5. Definition R_NOTEXT_EXPIRY : N := 6.
Definition R_GARBAGE : N := 3. Definition R_APIERR : N := 4.
Definition C_DOWN : N := 20.

(* a violation: (check code, step index, tower, locator) *)
Definition viol := (N * N * N * N)%type.

Definition is_settle_step (st : cstep) : bool :=
  (N.eqb (ss_kind st) K_SETTLE || N.eqb (ss_kind st) K_WAKE) && N.eqb (ss_res st) 0.

Definition db_towers (d : db) : list N := map (fun r => col r C_towers_tower_id) (tbl d T_towers).
Definition has_proof (d : db) (t : N) : bool := has_pk CS d T_misbehaving_proofs [t].
Definition lt_status (o : cobs) (t : N) : option tower_status :=
  match aget (ob_lt o) t with Some su => Some (su_status su) | None => None end.

Fixpoint index_from {A} (i : N) (l : list A) : list (N * A) :=
  match l with [] => [] | x :: r => (i, x) :: index_from (i + 1) r end.

Definition empty_cobs : cobs := {| ob_alive := false; ob_ms := 0; ob_lt := []; ob_db := db_empty CS; ob_log := []; ob_van := [] |}.

(* ================= C05 ================= *)
(* 501: a (tower, locator) the client owes a record for has none;  502: at a settle point it has more than one
   (two are tolerated after a KILL as long as one of them is the pending row: the interrupted move);
   503: the database sampler caught an INTERMEDIATE durable state in which a pair that had a record has none (the model says
   this never happens: C05_recorded_at_least_one_at_crash).
   A notification sent without waiting for its completion (REVNOWAIT) is owed a record from the next settle point on (the
   handler has completed by then), for the towers registered when it was sent; a KILL in between cancels it. *)
Record m05 := mk_m05 { m5_due : list (N * N); m5_prev : cobs; m5_killed : bool; m5_nowait : list (N * list N); m5_out : list viol }.

Definition c05_step (last : N) (m : m05) (ist : N * cstep) : m05 :=
  let (i, st) := ist in
  let o := ss_obs st in
  let d := ob_db o in
  let k := ss_kind st in
  let due1 :=
    if N.eqb k K_REV && N.eqb (ss_res st) 0 then
      fold_left (fun acc t => if memN t (db_towers d) then due_add acc (t, ss_a st) else acc)
                (db_towers (ob_db (m5_prev m))) (m5_due m)
    else if N.eqb k K_ABANDON then filter (fun p => negb (N.eqb (fst p) (ss_a st))) (m5_due m)
    else m5_due m in
  let killed := m5_killed m || N.eqb k K_KILL in
  let settle := is_settle_step st || N.eqb i last in
  let nowait0 := if N.eqb k K_KILL then []
                 else if N.eqb k K_REVNOWAIT then m5_nowait m ++ [(ss_a st, db_towers (ob_db (m5_prev m)))]
                 else if N.eqb k K_ABANDON then map (fun lt => (fst lt, filter (fun t => negb (N.eqb t (ss_a st))) (snd lt))) (m5_nowait m)
                 else m5_nowait m in
  let due1 := if is_settle_step st && ob_alive o then
                fold_left (fun acc lt => fold_left (fun acc2 t => if memN t (db_towers d) then due_add acc2 (t, fst lt) else acc2) (snd lt) acc) nowait0 due1
              else due1 in
  let nowait1 := if is_settle_step st && ob_alive o then [] else nowait0 in
  let v_van := map (fun v => (503, i, fst (fst v), snd (fst v))) (ob_van o) in
  let check (p : N * N) : list viol :=
    let (t, l) := p in
    if has_proof d t then [] else
    let n := record_count d t l in
    if Nat.eqb n 0 then [(501, i, t, l)]
    else if settle && negb (Nat.eqb n 1) && negb (killed && has_pending_row d t l) then [(502, i, t, l)]
    else [] in
  {| m5_due := due1; m5_prev := o; m5_killed := killed; m5_nowait := nowait1; m5_out := m5_out m ++ flat_map check due1 ++ v_van |}.

Definition mon_c05 (sc : scen) : list viol :=
  let steps := index_from 0 (sc_steps sc) in
  let last := N.of_nat (length steps) - 1 in
  m5_out (fold_left (c05_step last) steps {| m5_due := []; m5_prev := empty_cobs; m5_killed := false; m5_nowait := []; m5_out := [] |}).

(* ================= C14 ================= *)
(* 1401 a registration was stored that must not be; 1402 one that must be stored was not (or the RPC's answer
   disagrees with what was stored); 1403 a stored registration receipt does not verify; 1404 a stored
   registration does not come from a verifying reply that strictly extends (expiry and slots) what was known;
   1405 a tower answered with a signature of another key and is not flagged (proof + misbehaving) at the next
   settle point (detail 0), or a tower whose proof is stored is not shown misbehaving at a settle point, e.g. after a
   restart (detail 1); 1406 a request reached a tower after its misbehaviour proof was stored (also across restarts);
   1407 the plugin did not answer (crashed / wedged handler);
   1408 "stores the proof": a stored misbehaviour proof (tower, locator, recovered_id) is not backed by the offending receipt - the
   receipt stored for (tower, locator) must recover to recovered_id, a key other than the tower's (signature class 2 = the other
   key of the fake tower, whose id is 100 + tower; the harness recomputes the recovery with teos_common on the stored strings).
   A registration reply of class 7 (a receipt the tower signed correctly, strictly extending, for ANOTHER user) is not a
   good-signature class: storing it is 1401 / 1403 / 1404. *)
Definition rr_rows (d : db) (t : N) : list row :=
  filter (fun r => N.eqb (col r C_registration_receipts_tower_id) t) (tbl d T_registration_receipts).
Definition max_expiry (d : db) (t : N) : N :=
  fold_left (fun m r => N.max m (col r C_registration_receipts_subscription_expiry)) (rr_rows d t) 0.
Definition tower_slots (d : db) (t : N) : N :=
  match find_pk CS d T_towers [t] with Some r => col r C_towers_available_slots | None => 0 end.
Definition row_in (r : row) (rows : list row) : bool := existsb (key_eqb r) rows.
Definition good_sig_class (c : N) : bool := N.eqb c R_GOOD || N.eqb c R_NOTEXT || N.eqb c R_NOTEXT_SLOTS || N.eqb c R_NOTEXT_EXPIRY.

(* does a receipt (slots, expiry) strictly extend what database d knows of tower t *)
Definition extends (d : db) (t slots expiry : N) : bool :=
  negb (tower_row d t) || (N.ltb (max_expiry d t) expiry && N.ltb (tower_slots d t) slots).

Record m14 := mk_m14 {
  m4_prev : cobs; m4_up : bool;
  m4_wk : list N;        (* towers that answered with another key's signature, not yet seen flagged at a settle point *)
  m4_proven : list N;    (* towers whose proof row has been observed *)
  m4_out : list viol }.

Definition c14_step (last : N) (m : m14) (ist : N * cstep) : m14 :=
  let (i, st) := ist in
  let o := ss_obs st in
  let d := ob_db o in
  let pd := ob_db (m4_prev m) in
  let k := ss_kind st in
  let up := if N.eqb k K_START then N.eqb (ss_res st) 0 else if N.eqb k K_KILL then false else m4_up m in
  (* liveness *)
  let v_alive :=
    (if up && negb (ob_alive o) then [(1407, i, 0, 0)] else []) ++
    (if m4_up m && N.eqb (ss_res st) 2 &&
        (N.eqb k K_REG || N.eqb k K_REV || N.eqb k K_RETRY || N.eqb k K_ABANDON) then [(1407, i, ss_a st, 1)] else []) ++
    (if N.eqb k K_START && negb (N.eqb (ss_res st) 0) then [(1407, i, 0, 2)] else []) in
  (* every stored registration verifies; every NEW one comes from a verifying, extending reply of this window *)
  let rrs := tbl d T_registration_receipts in
  let v_sig := flat_map (fun r => if N.eqb (col r C_registration_receipts_signature) 1 then []
                                  else [(1403, i, col r C_registration_receipts_tower_id, 0)]) rrs in
  let newr := filter (fun r => negb (row_in r (tbl pd T_registration_receipts))) rrs in
  let from_reply (r : row) : bool :=
    existsb (fun e => N.eqb (le_t e) (col r C_registration_receipts_tower_id) && N.eqb (le_ep e) 0 &&
                      good_sig_class (le_cls e) &&
                      N.eqb (le_v1 e) (col r C_registration_receipts_available_slots) &&
                      N.eqb (le_v2 e) (col r C_registration_receipts_subscription_start) &&
                      N.eqb (le_v3 e) (col r C_registration_receipts_subscription_expiry)) (ob_log o) in
  (* an ABANDON + REG pair never shares a window, so `pd` is what the client knew *)
  let v_new := flat_map (fun r =>
       let t := col r C_registration_receipts_tower_id in
       if from_reply r && extends pd t (col r C_registration_receipts_available_slots)
                                       (col r C_registration_receipts_subscription_expiry)
       then [] else [(1404, i, t, 0)]) newr in
  (* the synchronous gate: registertower *)
  let v_gate :=
    if N.eqb k K_REG && m4_up m && negb (N.eqb (ss_res st) 2) && negb (N.eqb (ss_res st) 3) then
      let t := ss_a st in
      let es := filter (fun e => N.eqb (le_t e) t && N.eqb (le_ep e) 0) (ob_log o) in
      match es with
      | [] => (* nothing reached the tower: nothing may be stored, the call fails *)
        if existsb (fun r => N.eqb (col r C_registration_receipts_tower_id) t) newr || N.eqb (ss_res st) 0
        then [(1401, i, t, 0)] else []
      | [e] =>
        let expect := good_sig_class (le_cls e) && extends pd t (le_v1 e) (le_v3 e) in
        let stored := existsb (fun r => N.eqb (col r C_registration_receipts_tower_id) t &&
                                        N.eqb (col r C_registration_receipts_available_slots) (le_v1 e) &&
                                        N.eqb (col r C_registration_receipts_subscription_expiry) (le_v3 e)) newr in
        if stored && negb expect then [(1401, i, t, 0)]
        else if (expect && negb stored) || negb (Bool.eqb stored (N.eqb (ss_res st) 0)) then [(1402, i, t, 0)]
        else []
      | _ => []     (* a retrier renewed at the same time: only the general checks apply *)
      end
    else [] in
  (* misbehaviour *)
  let proven0 := if N.eqb k K_ABANDON && N.eqb (ss_res st) 0 then filter (fun t => negb (N.eqb t (ss_a st))) (m4_proven m) else m4_proven m in
  let wk0 := if (N.eqb k K_ABANDON && N.eqb (ss_res st) 0) then filter (fun t => negb (N.eqb t (ss_a st))) (m4_wk m)
             else if N.eqb k K_KILL then [] else m4_wk m in
  (* (the register request of a `registertower` the USER issues against that tower is the user's own action) *)
  let v_after := flat_map (fun e => if memN (le_t e) proven0 && negb (N.eqb (le_ep e) 2) &&
                                       negb (N.eqb k K_REG && N.eqb (le_ep e) 0 && N.eqb (le_t e) (ss_a st))
                                    then [(1406, i, le_t e, le_l e)] else []) (ob_log o) in
  let wk1 := fold_left (fun acc e => if N.eqb (le_ep e) 1 && N.eqb (le_cls e) A_WRONGKEY && negb (N.eqb k K_KILL)
                                     then set_add (le_t e) acc else acc) (ob_log o) wk0 in
  let settle := is_settle_step st || N.eqb i last in
  let flagged (t : N) : bool :=
    has_proof d t && (negb (ob_alive o) || match lt_status o t with Some Misbehaving => true | _ => false end) in
  let v_flag := if settle then flat_map (fun t => if flagged t || negb (tower_row d t) then [] else [(1405, i, t, 0)]) wk1 else [] in
  (* ... and stays flagged: at every settle point a tower whose proof is stored is shown misbehaving (also after a restart) *)
  let v_kept := if settle && up && ob_alive o then
                  flat_map (fun t => if has_proof d t && negb (match lt_status o t with Some Misbehaving => true | _ => false end)
                                     then [(1405, i, t, 1)] else []) (db_towers d)
                else [] in
  let proven1 := fold_left (fun acc t => if has_proof d t then set_add t acc else acc) (db_towers d) proven0 in
  (* the proof row and its receipt are written in one transaction, and the tables are read in one: every observation counts *)
  let v_proof := flat_map (fun r =>
       let t := col r C_misbehaving_proofs_tower_id in
       let l := col r C_misbehaving_proofs_locator in
       let rc := col r C_misbehaving_proofs_recovered_id in
       match find_pk CS d T_appointment_receipts [l; t] with
       | Some rr => if N.eqb (col rr C_appointment_receipts_tower_signature) 2 && N.eqb rc (100 + t) then [] else [(1408, i, t, l)]
       | None => [(1408, i, t, l)]
       end) (tbl d T_misbehaving_proofs) in
  {| m4_prev := o; m4_up := up; m4_wk := if settle then [] else wk1; m4_proven := proven1;
     m4_out := m4_out m ++ v_alive ++ v_sig ++ v_new ++ v_gate ++ v_after ++ v_flag ++ v_kept ++ v_proof |}.

Definition mon_c14 (sc : scen) : list viol :=
  let steps := index_from 0 (sc_steps sc) in
  let last := N.of_nat (length steps) - 1 in
  m4_out (fold_left (c14_step last) steps {| m4_prev := empty_cobs; m4_up := false; m4_wk := []; m4_proven := []; m4_out := [] |}).

(* ================= C13 ================= *)
(* slack constants (milliseconds).  The back-off of one retry loop starts at 500 ms +-50% and grows, so two sends
   of one locator by ONE loop are at least 250 ms apart; the manager polls its queue once per second. *)
Definition DUP_GAP_MS : N := 200.        (* two sends of one (tower, locator) closer than this = two loops *)
Definition FLOOD_BASE : N := 15.         (* failing requests per second and tower tolerated, plus one per locator *)
Definition DELIVER_SLACK_MS : N := 5000. (* polling (1 s) twice + idle-time rounding to seconds (1 s) + scheduling *)
Definition GIVEUP_SLACK_MS : N := 4000.

(* 1301 two retry loops (duplicate sends of one locator within DUP_GAP_MS); 1302 flooding (no back-off);
   1303 pending data not delivered / tower not shown reachable within max-retry + auto-retry + slack after the
   tower recovered (detail 2: a tower left in `subscription error` by a refused renewal, healthy now, still has
   pending data that long after an accepted retrytower / a new revocation issued from a settled state);
   (detail 3: registertower alone turned a tower with undelivered data - shown subscription error / unreachable / misbehaving
   at the last settle point - into `reachable`: the status is kept on a renewal, wt_add_update_tower);
   1304 a tower that keeps failing is not shown unreachable after max-retry + slack (failing = down, answering
   garbage, or: answering `subscription error` while its register endpoint fails transiently, counted from the
   event that started the retry loop);
   1305 retrytower accepted / refused against the documented states; 1306 a tower is still shown `temporary
   unreachable` (= being retried) when a settle step reaches its cap of 2 x max-retry + interval + 3 s, i.e. long
   after any retry loop must have delivered or given up: the status is not truthful / a loop never ends. *)

(* absolute send list: (tower, locator, ms, epoch, notification-path?) *)
Record send := mk_send { sd_t : N; sd_l : N; sd_ms : N; sd_epoch : N; sd_notif : bool; sd_fail : bool; sd_step : N }.

Definition sends_of (sc : scen) : list send :=
  snd (fold_left (fun (acc : N * list send) (ist : N * cstep) =>
         let (ep, out) := acc in
         let (i, st) := ist in
         let k := ss_kind st in
         let ep1 := if N.eqb k K_KILL || N.eqb k K_START || N.eqb k K_WAKE || (N.eqb k K_RETRY && N.eqb (ss_res st) 0)
                    then ep + 1 else ep in
         (ep1, out ++ flat_map (fun e =>
                 if N.eqb (le_ep e) 1 then
                   [{| sd_t := le_t e; sd_l := le_l e; sd_ms := le_ms e; sd_epoch := ep1;
                       sd_notif := (N.eqb k K_REV || N.eqb k K_REVNOWAIT) && N.eqb (ss_a st) (le_l e);
                       sd_fail := negb (N.eqb (le_cls e) A_ACCEPT); sd_step := i |}]
                 else []) (ob_log (ss_obs st))))
       (index_from 0 (sc_steps sc)) (0, [])).

Fixpoint dup_pairs (l : list send) : list viol :=
  match l with
  | [] => []
  | a :: r =>
    flat_map (fun b =>
      if N.eqb (sd_t a) (sd_t b) && N.eqb (sd_l a) (sd_l b) && N.eqb (sd_epoch a) (sd_epoch b) &&
         negb (sd_notif a) && negb (sd_notif b) &&
         N.ltb (if N.leb (sd_ms a) (sd_ms b) then sd_ms b - sd_ms a else sd_ms a - sd_ms b) DUP_GAP_MS
      then [(1301, sd_step b, sd_t b, sd_l b)] else []) r ++ dup_pairs r
  end.

Definition nlocs (l : list send) : N := N.of_nat (length (nodupN (map sd_l l))).

Definition flood (l : list send) : list viol :=
  let lim := FLOOD_BASE + nlocs l in
  flat_map (fun a =>
    if sd_fail a &&
       N.ltb lim (N.of_nat (length (filter (fun b => N.eqb (sd_t a) (sd_t b) && sd_fail b &&
                                                     N.leb (sd_ms a) (sd_ms b) && N.ltb (sd_ms b) (sd_ms a + 1000)) l)))
    then [(1302, sd_step a, sd_t a, sd_l a)] else []) l.

Definition first_viol (l : list viol) : list viol := match l with [] => [] | v :: _ => [v] end.
Definition towers_upto (n : N) : list N := map fst (index_from 0 (repeat tt (N.to_nat n))).

(* tower script state, per tower: (up, add class, register class) and since when (ms) it has been accepting / failing hard *)
Record tw := mk_tw { tw_up : bool; tw_add : N; tw_reg : N; tw_acc : option N; tw_bad : option N }.
Definition hard_fail_class (c : N) : bool :=
  N.eqb c A_BADSIG || (N.leb 5 c && N.leb c 10) || N.eqb c 12.   (* undecodable signature, garbage, wrong shape, empty, huge, reset, wrong types, multi-byte garbage (11 = a held acceptance) *)
Definition tw_accepting (w : tw) : bool := tw_up w && N.eqb (tw_add w) A_ACCEPT && N.eqb (tw_reg w) R_GOOD.
(* the tower answers add_appointment with `subscription error` and its register endpoint fails TRANSIENTLY (garbage, API
   error): a retry loop can neither renew nor deliver, it must give up like against a tower that is down *)
Definition tw_subfail (w : tw) : bool :=
  tw_up w && N.eqb (tw_add w) A_SUBERR && (N.eqb (tw_reg w) R_GARBAGE || N.eqb (tw_reg w) R_APIERR || N.eqb (tw_reg w) 8).
Definition tw_failing (w : tw) : bool := negb (tw_up w) || hard_fail_class (tw_add w) || tw_subfail w.
Definition tw_retime (w : tw) (now : N) (force : bool) : tw :=
  {| tw_up := tw_up w; tw_add := tw_add w; tw_reg := tw_reg w;
     tw_acc := if tw_accepting w then (match tw_acc w with Some x => if force then Some now else Some x | None => Some now end) else None;
     tw_bad := if tw_failing w then (match tw_bad w with Some x => if force then Some now else Some x | None => Some now end) else None |}.

Record m13 := mk_m13 {
  m3_tw : amap tw; m3_up : bool; m3_prev : cstep; m3_have_prev : bool;
  m3_pend_since : amap N;     (* tower -> ms of the first observation since which it has had pending rows continuously (and no retry/start) *)
  m3_settled : bool;          (* nothing has been asked of the plugin since the last settle point (tower script changes and sleeps aside) *)
  m3_regonly : bool;          (* since the last settle point the plugin was asked nothing but registertower (script changes, sleeps aside) *)
  m3_last : amap summary;     (* listtowers at the last settle point *)
  m3_kick : amap N;           (* tower -> ms of the last event, issued from a settled state, that makes the plugin (re)start retrying it:
                                 an ACCEPTED retrytower of the tower, a commitment_revocation *)
  m3_out : list viol }.

Definition get_tw (m : amap tw) (t : N) : tw :=
  match aget m t with Some w => w | None => {| tw_up := true; tw_add := A_ACCEPT; tw_reg := R_GOOD; tw_acc := Some 0; tw_bad := None |} end.

Definition c13_step (sc : scen) (m : m13) (ist : N * cstep) : m13 :=
  let (i, st) := ist in
  let o := ss_obs st in
  let now := ob_ms o in
  let k := ss_kind st in
  let t := ss_a st in
  let b := ss_b st in
  (* the script *)
  let w := get_tw (m3_tw m) t in
  let tws :=
    if N.eqb k K_UP then aset (m3_tw m) t (tw_retime {| tw_up := N.eqb b 1; tw_add := tw_add w; tw_reg := tw_reg w; tw_acc := tw_acc w; tw_bad := tw_bad w |} now false)
    else if N.eqb k K_MODE then
      aset (m3_tw m) t (tw_retime (if N.leb 100 b then {| tw_up := tw_up w; tw_add := tw_add w; tw_reg := b - 100; tw_acc := tw_acc w; tw_bad := tw_bad w |}
                                   else {| tw_up := tw_up w; tw_add := b; tw_reg := tw_reg w; tw_acc := tw_acc w; tw_bad := tw_bad w |}) now false)
    else if N.eqb k K_REG then
      aset (m3_tw m) t (tw_retime (if N.eqb b C_DOWN then w else {| tw_up := tw_up w; tw_add := tw_add w; tw_reg := b; tw_acc := tw_acc w; tw_bad := tw_bad w |}) now true)
    else if N.eqb k K_ABANDON || N.eqb k K_RETRY then aset (m3_tw m) t (tw_retime w now true)
    else if N.eqb k K_START || N.eqb k K_KILL then
      map (fun x : N => (x, tw_retime (get_tw (m3_tw m) x) now true)) (towers_upto (sc_nt sc))
    else m3_tw m in
  let up := if N.eqb k K_START then N.eqb (ss_res st) 0 else if N.eqb k K_KILL then false else m3_up m in
  (* kicks *)
  let kick0 := if N.eqb k K_KILL || N.eqb k K_START then []
               else if N.eqb k K_ABANDON || N.eqb k K_REG then aremove (m3_kick m) t else m3_kick m in
  let kicks :=
    if m3_settled m && m3_up m && ob_alive o && N.eqb (ss_res st) 0 then
      if N.eqb k K_RETRY then aset kick0 t now
      else if N.eqb k K_REV then fold_left (fun acc kv => aset acc (fst kv) now) (ob_lt (ss_obs (m3_prev m))) kick0
      else kick0
    else kick0 in
  (* registertower alone never makes a tower with undelivered data `reachable`: a tower that was shown subscription error
     (renewal refused for good: no retrier), unreachable (idle retrier; only while the auto-retry is far away) or misbehaving
     at the last settle point, with data pending, and has only been registered with again since, keeps that status
     (1303 detail 3: shown reachable with the data still pending and nobody retrying it) *)
  let regonly := (is_settle_step st) || (m3_regonly m && (N.eqb k K_REG || N.eqb k K_MODE || N.eqb k K_UP || N.eqb k K_SLEEP)) in
  let v_regkeep :=
    if is_settle_step st && m3_regonly m && up && ob_alive o then
      flat_map (fun kv : N * summary =>
        let (x, su) := kv in
        match su_status su, su_pending su, aget (m3_last m) x with
        | Reachable, _ :: _, Some su0 =>
          match su_status su0, su_pending su0 with
          | SubscriptionError, _ :: _ | Misbehaving, _ :: _ => [(1303, i, x, 3)]
          | Unreachable, _ :: _ => if N.leb 20 (sc_auto sc) then [(1303, i, x, 3)] else []
          | _, _ => []
          end
        | _, _, _ => []
        end) (ob_lt o)
    else [] in
  let last := if is_settle_step st && ob_alive o then ob_lt o else if N.eqb k K_KILL || N.eqb k K_START then [] else m3_last m in
  let settled := (is_settle_step st) || (m3_settled m && (N.eqb k K_MODE || N.eqb k K_UP || N.eqb k K_SLEEP)) in
  (* delivery after recovery *)
  let dlim := 1000 * (sc_max_retry sc + sc_auto sc + 2 * sc_interval sc) + DELIVER_SLACK_MS in
  let v_deliver :=
    if up && ob_alive o then
      flat_map (fun kv : N * summary =>
        let (x, su) := kv in
        match tw_acc (get_tw tws x) with
        | Some since =>
          if N.leb (since + dlim) now then
            match su_status su with
            | Reachable => match su_pending su with [] => [] | _ => [(1303, i, x, 0)] end
            | TemporaryUnreachable | Unreachable => [(1303, i, x, 1)]
            | SubscriptionError =>
              (* a tower left with a subscription error (renewal refused for good earlier) that is healthy now and has been
                 kicked since (from a settled state): the retry loop renews and delivers *)
              match su_pending su, aget kicks x with
              | _ :: _, Some kt => if N.leb since kt && N.leb (kt + dlim) now then [(1303, i, x, 2)] else []
              | _, _ => []
              end
            | _ => []
            end
          else []
        | None => []
        end) (ob_lt o)
    else [] in
  (* keeps failing => unreachable *)
  let pend_since :=
    if up && ob_alive o then
      flat_map (fun kv : N * summary =>
        let (x, su) := kv in
        match su_pending su with
        | [] => []
        | _ => if (N.eqb k K_RETRY && N.eqb t x) || N.eqb k K_START || N.eqb k K_WAKE then [(x, now)]
               else match aget (m3_pend_since m) x with Some s0 => [(x, s0)] | None => [(x, now)] end
        end) (ob_lt o)
    else [] in
  let glim := 1000 * (sc_max_retry sc + sc_interval sc + 1) + GIVEUP_SLACK_MS in
  let v_giveup :=
    if up && ob_alive o && N.leb 20 (sc_auto sc) then
      flat_map (fun kv : N * summary =>
        let (x, su) := kv in
        match tw_bad (get_tw tws x), aget pend_since x with
        | Some bad, Some ps =>
          (* (for the subscription-error pattern only once a retry loop has certainly been started since: a kick) *)
          if N.leb (N.max bad ps + glim) now &&
             (negb (tw_subfail (get_tw tws x)) ||
              match aget kicks x with Some kt => N.leb bad kt && N.leb (kt + glim) now | None => false end) then
            match su_status su with
            | Unreachable | Misbehaving => []
            | _ => [(1304, i, x, tower_status_code (su_status su))]
            end
          else []
        | _, _ => []
        end) (ob_lt o)
    else [] in
  (* the manual retry gate, judged on the settled state just before *)
  let v_gate :=
    if N.eqb k K_RETRY && m3_have_prev m && is_settle_step (m3_prev m) && m3_up m &&
       (N.eqb (ss_res st) 0 || N.eqb (ss_res st) 1) then
      match lt_status (ss_obs (m3_prev m)) t with
      | None => if N.eqb (ss_res st) 0 then [(1305, i, t, 9)] else []
      | Some Unreachable => if N.leb 20 (sc_auto sc) && N.eqb (ss_res st) 1 then [(1305, i, t, 2)] else []
      | Some SubscriptionError => []
      | Some s0 => if N.eqb (ss_res st) 0 then [(1305, i, t, tower_status_code s0)] else []
      end
    else [] in
  let v_cap :=
    if (N.eqb k K_SETTLE || N.eqb k K_WAKE) && N.eqb (ss_res st) 2 && up && ob_alive o then
      flat_map (fun kv : N * summary => match su_status (snd kv) with TemporaryUnreachable => [(1306, i, fst kv, 0)] | _ => [] end) (ob_lt o)
    else [] in
  {| m3_tw := tws; m3_up := up; m3_prev := st; m3_have_prev := true; m3_pend_since := pend_since;
     m3_settled := settled; m3_regonly := regonly; m3_last := last; m3_kick := kicks;
     m3_out := m3_out m ++ v_deliver ++ v_giveup ++ v_gate ++ v_cap ++ v_regkeep |}.

Definition mon_c13 (sc : scen) : list viol :=
  let steps := index_from 0 (sc_steps sc) in
  let sds := sends_of sc in
  first_viol (dup_pairs sds) ++ first_viol (flood sds) ++
  m3_out (fold_left (c13_step sc) steps
            {| m3_tw := []; m3_up := false; m3_prev := mk_cstep 0 0 0 0 0 empty_cobs; m3_have_prev := false;
               m3_pend_since := []; m3_settled := false; m3_regonly := false; m3_last := []; m3_kick := []; m3_out := [] |}).
