(* HttpProofs.v — proofs about the HTTP layer model (Http.v, HttpTower.v) over the tables generated from
   /repo (Gen/Http.v).  Every fact about the tables themselves is a boolean computed by vm_compute on
   what the translator read from the source in THIS run; the theorems then hold for every request and
   every answer of the internal API. *)
From Coq Require Import ZArith NArith List Bool Lia.
From TeosModel Require Import Base TxIndex Tower TowerProofs HttpBase Http HttpTower.
From TeosModel.Gen Require Import Http.
Import ListNotations.
Local Open Scope Z_scope.

(* ------------------------------------------------------------------------------------------ *)
(* equalities *)
Lemma hbytes_eqb_eq a b : hbytes_eqb a b = true <-> a = b.
Proof.
  revert b. induction a as [|x a IH]; intros [|y b]; cbn; split; try discriminate; auto.
  - intros H. apply andb_prop in H. destruct H as [H1 H2]. apply N.eqb_eq in H1. apply IH in H2. subst. reflexivity.
  - intros H. inversion H. subst. rewrite N.eqb_refl. cbn. apply IH. reflexivity.
Qed.
Lemma hbytes_eqb_neq a b : a <> b -> hbytes_eqb a b = false.
Proof. intros H. destruct (hbytes_eqb a b) eqn:E; [|reflexivity]. apply hbytes_eqb_eq in E. contradiction. Qed.
Lemma hfield_eqb_eq a b : hfield_eqb a b = true -> a = b.
Proof. destruct a, b; cbn; intros H; try discriminate; reflexivity. Qed.
Lemma hcond_eqb_eq a b : hcond_eqb a b = true -> a = b.
Proof. destruct a, b; cbn; intros H; try discriminate; try reflexivity. apply Z.eqb_eq in H. subst. reflexivity. Qed.

(* ------------------------------------------------------------------------------------------ *)
(* statuses *)
Definition hstatus_ok (s : Z) : Prop := s = 200 \/ (400 <= s < 500) \/ s = 503.
Lemma hstatus_okb_ok s : hstatus_okb s = true -> hstatus_ok s.
Proof.
  unfold hstatus_okb, hstatus_ok. intros H. apply orb_prop in H. destruct H as [H|H].
  - apply orb_prop in H. destruct H as [H|H].
    + left. apply Z.eqb_eq. exact H.
    + right. left. apply andb_prop in H. destruct H as [H1 H2]. apply Z.leb_le in H1. apply Z.ltb_lt in H2. lia.
  - right. right. apply Z.eqb_eq. exact H.
Qed.

(* the statuses the tables can produce *)
Definition htable_statuses : list Z :=
  H_OK_STATUS :: H_REJ_BODY_STATUS :: H_REJ_API_STATUS :: fst H_MATCH_STATUS_DEFAULT ::
  (map (fun r => fst (snd r)) H_MATCH_STATUS ++ map (fun r => fst (snd r)) H_REJ_WARP_ROWS).
Lemma table_statuses_ok : forallb hstatus_okb htable_statuses = true.
Proof. vm_compute. reflexivity. Qed.
Lemma table_status_ok s : In s htable_statuses -> hstatus_ok s.
Proof. intros H. apply hstatus_okb_ok. exact (proj1 (forallb_forall _ _) table_statuses_ok s H). Qed.

Lemma hassoc_in k l v : hassoc k l = Some v -> In (k, v) l.
Proof.
  induction l as [|[k' v'] l IH]; cbn; [discriminate|].
  destruct (Z.eqb_spec k k') as [->|N]; intros H; [inversion H; subst; left; reflexivity | right; auto].
Qed.
Lemma hassoc_none k l : ~ In k (map fst l) -> hassoc k l = None.
Proof.
  induction l as [|[k' v'] l IH]; cbn; [reflexivity|]. intros H.
  destruct (Z.eqb_spec k k') as [->|N]; [exfalso; apply H; left; reflexivity | apply IH; intros H'; apply H; right; exact H'].
Qed.

Lemma match_status_status_ok c : hstatus_ok (fst (hmatch_status c)).
Proof.
  unfold hmatch_status. destruct (hassoc c H_MATCH_STATUS) as [r|] eqn:E.
  - apply table_status_ok. unfold htable_statuses. do 4 right. apply in_or_app. left. apply hassoc_in in E.
    change (fst r) with ((fun r : Z * (Z * Z) => fst (snd r)) (c, r)). apply in_map. exact E.
  - apply table_status_ok. unfold htable_statuses. do 3 right. left. reflexivity.
Qed.

Lemma grpc_reply_status_ok g : hstatus_ok (rp_status (hgrpc_reply g)).
Proof.
  destruct g as [|c|c]; cbn.
  - apply table_status_ok. left. reflexivity.
  - pose proof (match_status_status_ok c) as H. destruct (hmatch_status c). exact H.
  - pose proof (match_status_status_ok c) as H. destruct (hmatch_status c). exact H.
Qed.

(* a reply of a route *)
Lemma route_reply_cases rq g rt b r :
  hroute_outcome rq g rt b = OReply r ->
  r = mk_hreply H_OK_STATUS None false \/
  (exists ia fs, rt_internal rt = Some ia /\ b = BodyOk fs /\ hrun_checks (rt_checks rt) fs = None /\
                 r = hgrpc_reply (hinternal_call ia fs g)).
Proof.
  unfold hroute_outcome.
  destruct (negb (hmethod_eqb (rq_method rq) (rt_method rt))); [discriminate|].
  destruct (negb (hbytes_eqb (hfirst_segment (rq_target rq)) (rt_name rt))); [discriminate|].
  destruct (rt_cap rt) as [cap|]; [|intros H; inversion H; left; reflexivity].
  destruct (rq_clen rq) as [len|]; [|discriminate].
  destruct (cap <? len); [discriminate|].
  destruct (rq_ctype rq); try discriminate;
    (destruct b as [m|fs]; [discriminate|];
     destruct (hrun_checks (rt_checks rt) fs) eqn:Ec; [discriminate|];
     destruct (rt_internal rt) as [ia|]; intros H; inversion H;
     [right; exists ia, fs; repeat split; auto | left; reflexivity]).
Qed.

Lemma route_reply_status_ok rq g rt b r : hroute_outcome rq g rt b = OReply r -> hstatus_ok (rp_status r).
Proof.
  intros H. apply route_reply_cases in H. destruct H as [->|(ia & fs & _ & _ & _ & ->)].
  - cbn. apply table_status_ok. left. reflexivity.
  - apply grpc_reply_status_ok.
Qed.

(* the reply of the first route that does not reject *)
Lemma nth_tl {A} i (l : list A) d : nth (S i) l d = nth i (tl l) d.
Proof. destruct l; cbn; [destruct i; reflexivity | reflexivity]. Qed.

Lemma first_reply_route rq g rts bodies r :
  hfirst_reply (houtcomes rq g rts bodies) = Some r ->
  exists i rt, nth_error rts i = Some rt /\ hroute_outcome rq g rt (nth i bodies (BodyErr [])) = OReply r.
Proof.
  revert bodies. induction rts as [|rt rts IH]; intros bodies; cbn; [discriminate|].
  destruct (hroute_outcome rq g rt (hd (BodyErr []) bodies)) as [r'|j] eqn:E.
  - intros H. inversion H. subst r'. exists 0%nat, rt. split; [reflexivity|].
    destruct bodies; exact E.
  - intros H. apply IH in H. destruct H as (i & rt' & Hn & Ho). exists (S i), rt'. split; [exact Hn|].
    rewrite nth_tl. exact Ho.
Qed.

(* rejections that fall through handle_rejection *)
Definition hplain (j : hrej) : Prop :=
  j = RjNotFound \/ j = RjMethod \/ j = RjLengthRequired \/ j = RjTooLarge \/ j = RjMediaType.
Lemma plain_status j : hplain j -> 400 <= hrej_status j < 500.
Proof. intros [->|[->|[->|[->| ->]]]]; cbn; lia. Qed.

Lemma no_body_no_api_plain js : hfind_body js = None -> hfind_api js = None -> Forall hplain js.
Proof.
  induction js as [|j js IH]; intros Hb Ha; [constructor|].
  destruct j; cbn in Hb, Ha; try discriminate; (constructor; [unfold hplain; tauto | apply IH; assumption]).
Qed.

Lemma prefer_either a b : hprefer a b = a \/ hprefer a b = b.
Proof.
  unfold hprefer. destruct (hrej_status b =? 404); [auto|]. destruct (hrej_status a =? 404); [auto|].
  destruct (hrej_status b =? 405); [auto|]. destruct (hrej_status a =? 405); [auto|].
  destruct (hrej_status a <? hrej_status b); auto.
Qed.
Lemma fold_prefer_in l a : fold_left hprefer l a = a \/ In (fold_left hprefer l a) l.
Proof.
  revert a. induction l as [|b l IH]; intros a; cbn; [left; reflexivity|].
  destruct (IH (hprefer a b)) as [H|H]; [|right; right; exact H].
  rewrite H. destruct (prefer_either a b) as [E|E]; rewrite E; [left; reflexivity | right; left; reflexivity].
Qed.

Lemma warp_default_status_4xx js : Forall hplain js -> 400 <= hwarp_default_status js < 500.
Proof.
  intros H. unfold hwarp_default_status.
  assert (Hf : Forall hplain (filter (fun j => negb (his_not_found j)) js)).
  { apply Forall_forall. intros j Hj. apply filter_In in Hj. exact (proj1 (Forall_forall _ _) H j (proj1 Hj)). }
  destruct (filter (fun j => negb (his_not_found j)) js) as [|j r]; [lia|].
  apply plain_status. destruct (fold_prefer_in r j) as [E|E].
  - rewrite E. inversion Hf. assumption.
  - inversion Hf as [|? ? _ Hr]. exact (proj1 (Forall_forall _ _) Hr _ E).
Qed.

Lemma find_warp_in rows js r : hfind_warp rows js = Some r -> In r (map snd rows).
Proof.
  induction rows as [|[k r'] rows IH]; cbn; [discriminate|].
  destruct (hhas_kind k js); intros H; [inversion H; left; reflexivity | right; exact (IH H)].
Qed.

Lemma recover_status_ok js : hstatus_ok (rp_status (hrecover js)).
Proof.
  unfold hrecover. destruct (hfind_body js) eqn:Eb.
  - cbn [rp_status]. apply table_status_ok. right. left. reflexivity.
  - destruct (hfind_api js) eqn:Ea.
    + cbn [rp_status]. apply table_status_ok. right. right. left. reflexivity.
    + destruct (hfind_warp H_REJ_WARP_ROWS js) as [[st c]|] eqn:Ew; cbn [rp_status].
      * apply table_status_ok. unfold htable_statuses. do 4 right. apply in_or_app. right.
        apply find_warp_in in Ew. apply in_map_iff in Ew. destruct Ew as ([k r] & E & Hin). cbn [snd] in E. subst r.
        apply in_map_iff. exists (k, (st, c)). split; [reflexivity | exact Hin].
      * right. left. apply warp_default_status_4xx. apply no_body_no_api_plain; assumption.
Qed.

(* ---------------- status_documented ---------------- *)
Theorem status_documented rq g : hstatus_ok (rp_status (respond rq g)).
Proof.
  unfold respond, hrespond_with.
  destruct (hfirst_reply (houtcomes rq g H_ROUTES (rq_bodies rq))) as [r|] eqn:E.
  - apply first_reply_route in E. destruct E as (i & rt & _ & Ho). exact (route_reply_status_ok _ _ _ _ _ Ho).
  - apply recover_status_ok.
Qed.

(* ------------------------------------------------------------------------------------------ *)
(* internal_codes_mapped *)
Definition hcode_mappedb (c : Z) : bool :=
  match hassoc c H_MATCH_STATUS with
  | Some (_, code) => hcode_documentedb code && negb (Z.eqb code H_ERR_UNEXPECTED_ERROR)
  | None => false
  end.
Definition hroute_codes_mappedb (rt : hroute) : bool :=
  match rt_internal rt with Some ia => forallb hcode_mappedb (ia_codes ia) | None => true end.
Lemma routes_codes_mapped : forallb hroute_codes_mappedb H_ROUTES = true.
Proof. vm_compute. reflexivity. Qed.

Lemma code_documentedb_in c : hcode_documentedb c = true -> In c HDoc_CODES /\ c <> HDoc_UNEXPECTED.
Proof.
  unfold hcode_documentedb. intros H. apply andb_prop in H. destruct H as [H1 H2]. split.
  - apply existsb_exists in H1. destruct H1 as (x & Hx & E). apply Z.eqb_eq in E. subst. exact Hx.
  - apply negb_true_iff in H2. apply Z.eqb_neq. exact H2.
Qed.

Theorem internal_codes_mapped rt ia c :
  In rt H_ROUTES -> rt_internal rt = Some ia -> In c (ia_codes ia) ->
  exists st code, hassoc c H_MATCH_STATUS = Some (st, code) /\ hmatch_status c = (st, code) /\
                  In code HDoc_CODES /\ code <> H_ERR_UNEXPECTED_ERROR.
Proof.
  intros Hrt Hia Hc.
  pose proof (proj1 (forallb_forall _ _) routes_codes_mapped rt Hrt) as H.
  unfold hroute_codes_mappedb in H. rewrite Hia in H.
  pose proof (proj1 (forallb_forall _ _) H c Hc) as H'. unfold hcode_mappedb in H'.
  destruct (hassoc c H_MATCH_STATUS) as [[st code]|] eqn:E; [|discriminate].
  exists st, code. split; [reflexivity|]. split; [unfold hmatch_status; rewrite E; reflexivity|].
  apply andb_prop in H'. destruct H' as [H1 H2]. split.
  - exact (proj1 (code_documentedb_in _ H1)).
  - apply negb_true_iff in H2. apply Z.eqb_neq. exact H2.
Qed.

(* ------------------------------------------------------------------------------------------ *)
(* validated_before_unwrap *)
Definition hcoversb (rt : hroute) : bool :=
  match rt_internal rt with
  | None => true
  | Some ia =>
    forallb (fun r => existsb (fun c => hfield_eqb (ck_field c) (fst r) && hcond_eqb (ck_cond c) (snd r)) (rt_checks rt))
            (ia_requires ia)
  end.
Lemma routes_cover : forallb hcoversb H_ROUTES = true.
Proof. vm_compute. reflexivity. Qed.

Lemma run_checks_none cs fs c :
  hrun_checks cs fs = None -> In c cs -> hcond_holds fs (ck_field c) (ck_cond c) = true.
Proof.
  induction cs as [|c' cs IH]; cbn; [intros _ []|].
  destruct (hcond_holds fs (ck_field c') (ck_cond c')) eqn:E; [|discriminate].
  intros H [->|Hin]; [exact E | exact (IH H Hin)].
Qed.

Lemma covered_requirements rt ia fs :
  In rt H_ROUTES -> rt_internal rt = Some ia -> hrun_checks (rt_checks rt) fs = None ->
  forall f c, In (f, c) (ia_requires ia) -> hcond_holds fs f c = true.
Proof.
  intros Hrt Hia Hrun f c Hin.
  pose proof (proj1 (forallb_forall _ _) routes_cover rt Hrt) as H. unfold hcoversb in H. rewrite Hia in H.
  pose proof (proj1 (forallb_forall _ _) H (f, c) Hin) as H'. apply existsb_exists in H'.
  destruct H' as (ck & Hck & E). apply andb_prop in E. destruct E as [E1 E2].
  apply hfield_eqb_eq in E1. apply hcond_eqb_eq in E2. cbn in E1, E2. subst f c.
  exact (run_checks_none _ _ _ Hrun Hck).
Qed.

Lemma internal_call_id ia fs g :
  (forall f c, In (f, c) (ia_requires ia) -> hcond_holds fs f c = true) -> hinternal_call ia fs g = g.
Proof.
  intros H. unfold hinternal_call.
  replace (forallb (fun r => hcond_holds fs (fst r) (snd r)) (ia_requires ia)) with true; [reflexivity|].
  symmetry. apply forallb_forall. intros [f c] Hin. exact (H f c Hin).
Qed.

Lemma recover_not_forwarded js : rp_forwarded (hrecover js) = false.
Proof.
  unfold hrecover. destruct (hfind_body js); [reflexivity|]. destruct (hfind_api js); [reflexivity|].
  destruct (hfind_warp H_REJ_WARP_ROWS js) as [[st c]|]; reflexivity.
Qed.

(* whenever the HTTP layer forwards: the request went through the field checks of a route, every
   requirement of the unwrap()s of that route's internal API method holds of the parsed request, and the
   answer is the internal API's answer run through match_status *)
Theorem validated_before_unwrap rq g :
  rp_forwarded (respond rq g) = true ->
  exists i rt ia fs,
    nth_error H_ROUTES i = Some rt /\ rt_internal rt = Some ia /\
    nth i (rq_bodies rq) (BodyErr []) = BodyOk fs /\
    hrun_checks (rt_checks rt) fs = None /\
    (forall f c, In (f, c) (ia_requires ia) -> hcond_holds fs f c = true) /\
    respond rq g = hgrpc_reply g.
Proof.
  unfold respond, hrespond_with.
  destruct (hfirst_reply (houtcomes rq g H_ROUTES (rq_bodies rq))) as [r|] eqn:E.
  2:{ rewrite recover_not_forwarded. discriminate. }
  intros Hf. apply first_reply_route in E. destruct E as (i & rt & Hn & Ho).
  pose proof (route_reply_cases _ _ _ _ _ Ho) as [->|(ia & fs & Hia & Hb & Hrun & Hr)]; [discriminate|].
  assert (Hreq : forall f c, In (f, c) (ia_requires ia) -> hcond_holds fs f c = true).
  { apply (covered_requirements rt); auto. eapply nth_error_In. exact Hn. }
  exists i, rt, ia, fs. repeat split; auto.
  rewrite Hr. rewrite (internal_call_id _ _ _ Hreq). reflexivity.
Qed.

Corollary forwarded_answer rq g : rp_forwarded (respond rq g) = true -> respond rq g = hgrpc_reply g.
Proof. intros H. destruct (validated_before_unwrap rq g H) as (i & rt & ia & fs & _ & _ & _ & _ & _ & E). exact E. Qed.

(* ------------------------------------------------------------------------------------------ *)
(* error_body_documented *)
Fixpoint hdistinctb (l : list hbytes) : bool :=
  match l with [] => true | x :: r => negb (existsb (hbytes_eqb x) r) && hdistinctb r end.
Lemma hdistinctb_NoDup l : hdistinctb l = true -> NoDup l.
Proof.
  induction l as [|x l IH]; cbn; intros H; constructor.
  - apply andb_prop in H. destruct H as [H _]. apply negb_true_iff in H. intros Hin.
    assert (existsb (hbytes_eqb x) l = true) as E; [|congruence].
    apply existsb_exists. exists x. split; [exact Hin | apply hbytes_eqb_eq; reflexivity].
  - apply IH. apply andb_prop in H. tauto.
Qed.
Lemma route_names_distinct : hdistinctb (map rt_name H_ROUTES) = true.
Proof. vm_compute. reflexivity. Qed.

(* codes of the checks and of handle_rejection's rows are documented ones *)
Definition hdoc_tableb : bool :=
  forallb (fun rt => forallb (fun c => hcode_documentedb (ck_code c) && negb (Z.eqb (ck_code c) H_ERR_UNEXPECTED_ERROR)) (rt_checks rt)) H_ROUTES
  && forallb (fun r => hcode_documentedb (snd r) && negb (Z.eqb (snd r) H_ERR_UNEXPECTED_ERROR)) H_REJ_BODY_ROWS
  && (hcode_documentedb H_REJ_BODY_DEFAULT && negb (Z.eqb H_REJ_BODY_DEFAULT H_ERR_UNEXPECTED_ERROR))
  && Z.eqb H_OK_STATUS 200.
(* handle_rejection answers an unsupported content-type itself, and every warp rejection it answers gets a documented code *)
Definition hwarp_rows_docb : bool :=
  existsb (fun r => hwarpkind_eqb (fst r) WUnsupportedMediaType) H_REJ_WARP_ROWS
  && forallb (fun r => hcode_documentedb (snd (snd r)) && negb (Z.eqb (snd (snd r)) H_ERR_UNEXPECTED_ERROR)) H_REJ_WARP_ROWS.
Lemma warp_rows_doc : hwarp_rows_docb = true.
Proof. vm_compute. reflexivity. Qed.
Lemma doc_table : hdoc_tableb = true.
Proof. vm_compute. reflexivity. Qed.

Definition hdoc_code (c : Z) : Prop := In c HDoc_CODES /\ c <> H_ERR_UNEXPECTED_ERROR.
Lemma doc_code_of_b c : hcode_documentedb c && negb (Z.eqb c H_ERR_UNEXPECTED_ERROR) = true -> hdoc_code c.
Proof.
  intros H. apply andb_prop in H. destruct H as [H1 H2]. split.
  - exact (proj1 (code_documentedb_in _ H1)).
  - apply negb_true_iff in H2. apply Z.eqb_neq. exact H2.
Qed.

Lemma ok_status_200 : H_OK_STATUS = 200.
Proof.
  pose proof doc_table as H. unfold hdoc_tableb in H. apply andb_prop in H. destruct H as [_ H]. apply Z.eqb_eq. exact H.
Qed.

Lemma classify_documented msg : hdoc_code (hclassify H_REJ_BODY_ROWS H_REJ_BODY_DEFAULT msg).
Proof.
  pose proof doc_table as H. unfold hdoc_tableb in H.
  apply andb_prop in H. destruct H as [H _]. apply andb_prop in H. destruct H as [H Hd].
  apply andb_prop in H. destruct H as [_ Hr].
  induction H_REJ_BODY_ROWS as [|[subs c] rows IH]; cbn.
  - apply doc_code_of_b. exact Hd.
  - cbn in Hr. apply andb_prop in Hr. destruct Hr as [Hc Hr].
    destruct (existsb (fun p => hcontainsb p msg) subs); [apply doc_code_of_b; exact Hc | exact (IH Hr)].
Qed.

Lemma run_checks_code cs fs c : hrun_checks cs fs = Some c -> exists ck, In ck cs /\ ck_code ck = c.
Proof.
  induction cs as [|c' cs IH]; cbn; [discriminate|].
  destruct (hcond_holds fs (ck_field c') (ck_cond c')).
  - intros H. destruct (IH H) as (ck & Hin & E). exists ck. split; [right; exact Hin | exact E].
  - intros H. inversion H. exists c'. split; [left; reflexivity | reflexivity].
Qed.
Lemma check_code_documented rt fs c : In rt H_ROUTES -> hrun_checks (rt_checks rt) fs = Some c -> hdoc_code c.
Proof.
  intros Hrt Hrun. destruct (run_checks_code _ _ _ Hrun) as (ck & Hin & <-).
  pose proof doc_table as H. unfold hdoc_tableb in H.
  apply andb_prop in H. destruct H as [H _]. apply andb_prop in H. destruct H as [H _]. apply andb_prop in H. destruct H as [H _].
  apply doc_code_of_b. exact (proj1 (forallb_forall _ _) (proj1 (forallb_forall _ _) H rt Hrt) ck Hin).
Qed.

(* a route whose path segment is not the request's rejects with "not found" or "method not allowed" *)
Definition hweakj (j : hrej) : Prop := j = RjMethod \/ j = RjNotFound.
Definition hweak (o : houtcome) : Prop := exists j, o = ORej j /\ hweakj j.
Lemma route_nomatch rq g rt b :
  hbytes_eqb (hfirst_segment (rq_target rq)) (rt_name rt) = false -> hweak (hroute_outcome rq g rt b).
Proof.
  intros H. unfold hroute_outcome, hweak, hweakj. destruct (negb (hmethod_eqb (rq_method rq) (rt_method rt))); [eauto|].
  rewrite H. cbn. eauto.
Qed.

Lemma skipn_S_tl {A} n (l : list A) : skipn (S n) l = skipn n (tl l).
Proof. destruct l; cbn; [destruct n; reflexivity | reflexivity]. Qed.
Lemma outcomes_app rq g a b bodies :
  houtcomes rq g (a ++ b) bodies = houtcomes rq g a bodies ++ houtcomes rq g b (skipn (length a) bodies).
Proof.
  revert bodies. induction a as [|x a IH]; intros bodies; [reflexivity|].
  cbn [List.app houtcomes length]. rewrite IH. rewrite skipn_S_tl. reflexivity.
Qed.
Lemma outcomes_weak rq g rts bodies :
  (forall rt, In rt rts -> hbytes_eqb (hfirst_segment (rq_target rq)) (rt_name rt) = false) ->
  Forall hweak (houtcomes rq g rts bodies).
Proof.
  revert bodies. induction rts as [|rt rts IH]; intros bodies H; cbn; constructor.
  - apply route_nomatch. apply H. left. reflexivity.
  - apply IH. intros rt' Hin. apply H. right. exact Hin.
Qed.
Lemma first_reply_weak_app A B : Forall hweak A -> hfirst_reply (A ++ B) = hfirst_reply B.
Proof. induction 1 as [|o A (j & -> & _) _ IH]; cbn; auto. Qed.
Lemma first_reply_weak A : Forall hweak A -> hfirst_reply A = None.
Proof. intros H. rewrite <- (app_nil_r A). rewrite first_reply_weak_app by exact H. reflexivity. Qed.
Lemma rejections_app A B : hrejections (A ++ B) = hrejections A ++ hrejections B.
Proof. induction A as [|[r|j] A IH]; cbn; [reflexivity | exact IH | rewrite IH; reflexivity]. Qed.
Lemma rejections_weak A : Forall hweak A -> Forall hweakj (hrejections A).
Proof. induction 1 as [|o A (j & -> & Hj) _ IH]; cbn; constructor; assumption. Qed.
Lemma find_body_weak_app J K : Forall hweakj J -> hfind_body (J ++ K) = hfind_body K.
Proof. induction 1 as [|j J [->| ->] _ IH]; cbn; auto. Qed.
Lemma find_api_weak_app J K : Forall hweakj J -> hfind_api (J ++ K) = hfind_api K.
Proof. induction 1 as [|j J [->| ->] _ IH]; cbn; auto. Qed.
Lemma find_api_weak J : Forall hweakj J -> hfind_api J = None.
Proof. intros H. rewrite <- (app_nil_r J). rewrite find_api_weak_app by exact H. reflexivity. Qed.

(* the answer of the router when the request addresses route number i: only that route's outcome counts *)
Lemma respond_addressed rq g i rt :
  nth_error H_ROUTES i = Some rt ->
  hfirst_segment (rq_target rq) = rt_name rt ->
  match hroute_outcome rq g rt (nth i (rq_bodies rq) (BodyErr [])) with
  | OReply r => respond rq g = r
  | ORej (RjBody m) => respond rq g = mk_hreply H_REJ_BODY_STATUS (Some (hclassify H_REJ_BODY_ROWS H_REJ_BODY_DEFAULT m)) false
  | ORej (RjApi c) => respond rq g = mk_hreply H_REJ_API_STATUS (Some c) false
  | ORej RjMediaType =>
    exists js, In RjMediaType js /\
               respond rq g = match hfind_warp H_REJ_WARP_ROWS js with
                              | Some (st, c) => mk_hreply st (Some c) false
                              | None => mk_hreply (hwarp_default_status js) None false
                              end
  | ORej _ => True
  end.
Proof.
  intros Hn Hseg. unfold respond, hrespond_with.
  destruct (nth_error_split _ _ Hn) as (pre & post & Hsplit & Hlen).
  pose proof (hdistinctb_NoDup _ route_names_distinct) as Hnd. rewrite Hsplit in Hnd. rewrite map_app in Hnd. cbn [map] in Hnd.
  pose proof (NoDup_remove_2 _ _ _ Hnd) as Hnotin.
  assert (Hother : forall rt', In rt' pre \/ In rt' post -> hbytes_eqb (hfirst_segment (rq_target rq)) (rt_name rt') = false).
  { intros rt' Hin. apply hbytes_eqb_neq. rewrite Hseg. intros E. apply Hnotin. apply in_or_app.
    destruct Hin as [Hin|Hin]; [left | right]; rewrite E; apply in_map; exact Hin. }
  rewrite Hsplit. rewrite outcomes_app. cbn [houtcomes].
  assert (Hhd : hd (BodyErr []) (skipn (length pre) (rq_bodies rq)) = nth i (rq_bodies rq) (BodyErr [])).
  { rewrite Hlen. clear. generalize (rq_bodies rq) as l. induction i as [|i IH]; intros l; [destruct l; reflexivity|].
    rewrite skipn_S_tl. rewrite nth_tl. apply IH. }
  rewrite Hhd.
  set (A := houtcomes rq g pre (rq_bodies rq)).
  set (B := houtcomes rq g post (tl (skipn (length pre) (rq_bodies rq)))).
  assert (HA : Forall hweak A) by (apply outcomes_weak; intros; apply Hother; left; assumption).
  assert (HB : Forall hweak B) by (apply outcomes_weak; intros; apply Hother; right; assumption).
  rewrite first_reply_weak_app by exact HA.
  destruct (hroute_outcome rq g rt (nth i (rq_bodies rq) (BodyErr []))) as [r|j] eqn:Eo; cbn [hfirst_reply]; [reflexivity|].
  rewrite (first_reply_weak _ HB). rewrite rejections_app. cbn [hrejections].
  unfold hrecover.
  rewrite (find_body_weak_app _ _ (rejections_weak _ HA)).
  assert (Hfb : hfind_body (hrejections B) = None).
  { pose proof (rejections_weak _ HB) as Hw. rewrite <- (app_nil_r (hrejections B)). rewrite find_body_weak_app by exact Hw. reflexivity. }
  destruct j; try exact I.
  - cbn [hfind_body]. rewrite Hfb. rewrite (find_api_weak_app _ _ (rejections_weak _ HA)). cbn [hfind_api].
    rewrite (find_api_weak _ (rejections_weak _ HB)).
    exists (hrejections A ++ RjMediaType :: hrejections B). split; [apply in_or_app; right; left; reflexivity | reflexivity].
  - cbn [hfind_body]. reflexivity.
  - cbn [hfind_body].
    rewrite Hfb. rewrite (find_api_weak_app _ _ (rejections_weak _ HA)). cbn [hfind_api]. reflexivity.
Qed.

Lemma hwarpkind_eqb_eq a b : hwarpkind_eqb a b = true -> a = b.
Proof. destruct a, b; cbn; intros H; try discriminate; reflexivity. Qed.

Lemma has_kind_media js : In RjMediaType js -> hhas_kind WUnsupportedMediaType js = true.
Proof. intros H. unfold hhas_kind. apply existsb_exists. exists RjMediaType. split; [exact H | reflexivity]. Qed.

Lemma find_warp_media rows js :
  existsb (fun r : hwarpkind * (Z * Z) => hwarpkind_eqb (fst r) WUnsupportedMediaType) rows = true ->
  In RjMediaType js -> exists r, hfind_warp rows js = Some r.
Proof.
  intros He Hin. induction rows as [|[k r] rows IH]; cbn in *; [discriminate|].
  destruct (hhas_kind k js) eqn:Ek; [eauto|].
  apply orb_prop in He. destruct He as [He|He]; [|exact (IH He)].
  apply hwarpkind_eqb_eq in He. subst k. rewrite (has_kind_media js Hin) in Ek. discriminate.
Qed.

(* an unsupported content-type among the rejections (no body / handler rejection before it): a JSON error with a documented code *)
Lemma media_type_documented js :
  In RjMediaType js ->
  exists st c, hfind_warp H_REJ_WARP_ROWS js = Some (st, c) /\ hdoc_code c.
Proof.
  intros Hin. pose proof warp_rows_doc as H. unfold hwarp_rows_docb in H. apply andb_prop in H. destruct H as [He Hall].
  destruct (find_warp_media _ js He Hin) as ([st c] & E). exists st, c. split; [exact E|].
  apply find_warp_in in E. apply in_map_iff in E. destruct E as ([k r] & Er & Hr). cbn in Er. subst r.
  apply doc_code_of_b. exact (proj1 (forallb_forall _ _) Hall _ Hr).
Qed.

(* the internal API answers, and with one of the codes internal.rs can produce *)
Definition hinternal_answer (rt : hroute) (g : hgrpc) : Prop :=
  g = GOk \/ exists ia c, rt_internal rt = Some ia /\ g = GErr c /\ In c (ia_codes ia).

Theorem error_body_documented rq g i rt cap len :
  nth_error H_ROUTES i = Some rt ->
  rt_cap rt = Some cap ->                               (* an endpoint that takes a request body *)
  hfirst_segment (rq_target rq) = rt_name rt ->         (* addressed *)
  rq_method rq = rt_method rt ->                        (* with the right method *)
  rq_clen rq = Some len -> len <= cap ->                (* and a body of acceptable size *)
  hinternal_answer rt g ->
  rp_status (respond rq g) <> 200 ->
  exists c, rp_code (respond rq g) = Some c /\ In c HDoc_CODES /\ c <> H_ERR_UNEXPECTED_ERROR.
Proof.
  intros Hn Hcap Hseg Hm Hlen Hle Hg Hst.
  assert (Hrt : In rt H_ROUTES) by (eapply nth_error_In; exact Hn).
  pose proof (respond_addressed rq g i rt Hn Hseg) as H.
  remember (nth i (rq_bodies rq) (BodyErr [])) as b.
  unfold hroute_outcome in H. rewrite Hm in H.
  replace (hmethod_eqb (rt_method rt) (rt_method rt)) with true in H by (destruct (rt_method rt); reflexivity).
  rewrite Hseg in H. replace (hbytes_eqb (rt_name rt) (rt_name rt)) with true in H by (symmetry; apply hbytes_eqb_eq; reflexivity).
  cbn [negb] in H. rewrite Hcap, Hlen in H.
  replace (cap <? len) with false in H by (symmetry; apply Z.ltb_ge; exact Hle).
  destruct (rq_ctype rq) eqn:Ect.
  3:{ (* a content-type other than application/json: handle_rejection's own row *)
      destruct H as (js & Hin & E). destruct (media_type_documented js Hin) as (st & c & Ew & Hdoc).
      rewrite Ew in E. rewrite E. cbn. exists c. split; [reflexivity | exact Hdoc]. }
  all: (assert (Hbody : match b with
                  | BodyErr m => respond rq g = mk_hreply H_REJ_BODY_STATUS (Some (hclassify H_REJ_BODY_ROWS H_REJ_BODY_DEFAULT m)) false
                  | BodyOk fs =>
                    match hrun_checks (rt_checks rt) fs with
                    | Some c => respond rq g = mk_hreply H_REJ_API_STATUS (Some c) false
                    | None => match rt_internal rt with
                              | Some ia => respond rq g = hgrpc_reply (hinternal_call ia fs g)
                              | None => respond rq g = mk_hreply H_OK_STATUS None false
                              end
                    end
                  end)
    by (destruct b as [m|fs]; [exact H|]; destruct (hrun_checks (rt_checks rt) fs); [exact H|]; destruct (rt_internal rt); exact H));
    clear H; (destruct b as [m|fs];
    [ rewrite Hbody; cbn; eexists; split; [reflexivity | apply classify_documented]
    | destruct (hrun_checks (rt_checks rt) fs) as [c|] eqn:Erun;
      [ rewrite Hbody; cbn; exists c; split; [reflexivity | exact (check_code_documented rt fs c Hrt Erun)]
      | destruct (rt_internal rt) as [ia|] eqn:Eia;
        [ assert (Hreq : forall f c, In (f, c) (ia_requires ia) -> hcond_holds fs f c = true)
            by (apply (covered_requirements rt); auto);
          rewrite (internal_call_id _ _ _ Hreq) in Hbody; rewrite Hbody in Hst |- *;
          destruct Hg as [->|(ia' & c & Hia' & -> & Hc)];
          [ cbn in Hst; rewrite ok_status_200 in Hst; contradiction
          | rewrite Hia' in Eia; inversion Eia; subst ia';
            destruct (internal_codes_mapped rt ia c Hrt Hia' Hc) as (st & code & _ & Hms & Hdoc & Hne);
            cbn; rewrite Hms; cbn; exists code; auto ]
        | rewrite Hbody in Hst; cbn in Hst; rewrite ok_status_200 in Hst; contradiction ] ] ]).
Qed.

(* what the statement would be without handle_rejection's row for warp's UnsupportedMediaType (the code before the
   fix 8a3c402): with no such row the answer to a text/plain request is warp's 415 without a JSON body *)
Definition hwitness_415 : hrequest :=
  mk_hrequest MPost (47%N :: HDoc_register) (Some 80) CtOther [BodyOk [(FUserId, 33)]].
Lemma error_body_needs_media_type_row :
  let os := houtcomes hwitness_415 GOk H_ROUTES (rq_bodies hwitness_415) in
  hfirst_reply os = None /\ hfind_body (hrejections os) = None /\ hfind_api (hrejections os) = None /\
  hfind_warp [] (hrejections os) = None /\ hwarp_default_status (hrejections os) = 415.
Proof. vm_compute. repeat split; reflexivity. Qed.

(* ------------------------------------------------------------------------------------------ *)
(* the tables say what the documentation pinned in Http.v says *)
Definition hopt_eqb (a b : option (Z * Z)) : bool :=
  match a, b with
  | Some (x, y), Some (x', y') => Z.eqb x x' && Z.eqb y y'
  | None, None => true
  | _, _ => false
  end.
Lemma hopt_eqb_eq a b : hopt_eqb a b = true -> a = b.
Proof.
  destruct a as [[x y]|], b as [[x' y']|]; cbn; intros H; try discriminate; [|reflexivity].
  apply andb_prop in H. destruct H as [H1 H2]. apply Z.eqb_eq in H1. apply Z.eqb_eq in H2. subst. reflexivity.
Qed.
Definition hanswer_keys : list Z := map fst H_MATCH_STATUS ++ map fst HDoc_ANSWERS.
Lemma answers_agree_on_keys : forallb (fun k => hopt_eqb (hassoc k H_MATCH_STATUS) (hassoc k HDoc_ANSWERS)) hanswer_keys = true.
Proof. vm_compute. reflexivity. Qed.

Theorem match_status_as_documented c : hassoc c H_MATCH_STATUS = hdoc_answer c.
Proof.
  unfold hdoc_answer. destruct (in_dec Z.eq_dec c hanswer_keys) as [Hin|Hnin].
  - apply hopt_eqb_eq. exact (proj1 (forallb_forall _ _) answers_agree_on_keys c Hin).
  - unfold hanswer_keys in Hnin. rewrite !hassoc_none; [reflexivity | |]; intros H; apply Hnin; apply in_or_app; auto.
Qed.

Theorem tables_as_documented :
  map (fun rt => (rt_name rt, rt_method rt, rt_cap rt)) H_ROUTES = HDoc_ENDPOINTS /\
  map (fun rt => (rt_name rt, rt_checks rt)) H_ROUTES = HDoc_CHECKS /\
  [H_ERR_MISSING_FIELD; H_ERR_EMPTY_FIELD; H_ERR_WRONG_FIELD_TYPE; H_ERR_WRONG_FIELD_SIZE; H_ERR_WRONG_FIELD_FORMAT;
   H_ERR_INVALID_REQUEST_FORMAT; H_ERR_INVALID_SIGNATURE_OR_SUBSCRIPTION_ERROR; H_ERR_SERVICE_UNAVAILABLE;
   H_ERR_APPOINTMENT_ALREADY_TRIGGERED; H_ERR_APPOINTMENT_NOT_FOUND; H_ERR_REGISTRATION_RESOURCE_EXHAUSTED] = HDoc_CODES /\
  H_ERR_UNEXPECTED_ERROR = HDoc_UNEXPECTED /\
  H_MATCH_STATUS_DEFAULT = (400, HDoc_UNEXPECTED) /\
  H_OK_STATUS = 200 /\ H_REJ_BODY_STATUS = 400 /\ H_REJ_API_STATUS = 400 /\
  H_REJ_WARP_ROWS = HDoc_WARP_ROWS.
Proof. repeat split; vm_compute; reflexivity. Qed.

(* ------------------------------------------------------------------------------------------ *)
(* non200_unchanged: the link to the tower core *)
Lemma auth_or_slots_one_code : H_IA_add_appointment_AuthenticationFailure = H_IA_add_appointment_NotEnoughSlots.
Proof. vm_compute. reflexivity. Qed.

Local Open Scope N_scope.

(* every Err branch of the core returns the state it was given *)
Lemma api_error_unchanged le t o sc t' r :
  (forall u, user_row_ok t u) ->
  his_api_op o = true -> step le t o sc = (t', r) ->
  hgrpc_of_out r <> GOk -> (forall s, r <> OAbort s) -> t' = fresh t.
Proof.
  intros Hrow Hop Hstep Hne Hab. destruct o as [u|signer loc b delay sig|signer loc|signer| |]; try discriminate.
  - (* register *)
    revert Hstep. cbn [step wrap]. unfold gk_add_update_user. change (set_rpc_log t []) with (fresh t).
    destruct (gk_get (fresh t) u) as [ui|].
    + destruct (u32_add (u_slots ui) (c_slots (cfg (fresh t)))); cbn; intros H; inversion H; subst; cbn in Hne; congruence.
    + destruct (u32_add (gk_height (fresh t)) (c_duration (cfg (fresh t)))).
      * destruct (amem (db_users (fresh t)) u); cbn; intros H; inversion H; subst; [exfalso; eapply Hab; reflexivity | cbn in Hne; congruence].
      * cbn. intros H; inversion H; subst. exfalso; eapply Hab; reflexivity.
  - (* add_appointment *)
    revert Hstep. cbn [step wrap]. unfold w_add_appointment. change (set_rpc_log t []) with (fresh t).
    destruct (authenticate (fresh t) signer) as [u|] eqn:Eau; [|cbn; intros H; inversion H; reflexivity].
    apply authenticate_Some in Eau. destruct Eau as [_ Hmem].
    destruct (gk_get (fresh t) u) as [ui|]; [|cbn; intros H; inversion H; reflexivity].
    destruct (N.leb (u_expiry ui) (gk_height (fresh t))); [cbn; intros H; inversion H; reflexivity|].
    destruct (find_trk (db_trks (fresh t)) (loc, u)); [cbn; intros H; inversion H; reflexivity|].
    unfold gk_add_update_appointment.
    destruct (gk_get (fresh t) u) as [ui2|]; [|cbn; intros H; inversion H; reflexivity].
    match goal with |- context [if ?c then _ else _] => destruct c end.
    + cbn [bind]. cbv zeta.
      rewrite stored_flag_true by (apply store_ok_after_charge; [exact (Hrow u Hmem)|reflexivity]).
      match goal with |- context [bind ?x _] => destruct x end;
        cbn; intros H; inversion H; subst; [cbn in Hne; congruence | exfalso; eapply Hab; reflexivity].
    + cbn. intros H; inversion H; reflexivity.
  - destruct (get_unchanged le t sc signer loc) as (r' & E). rewrite E in Hstep. inversion Hstep. reflexivity.
  - destruct (getsub_unchanged le t sc signer) as (r' & E). rewrite E in Hstep. inversion Hstep. reflexivity.
Qed.

Lemma fresh_fresh t : fresh (fresh t) = fresh t.
Proof. reflexivity. Qed.

Local Open Scope Z_scope.

(* an HTTP request answered with anything but 200 leaves the tower state as it was (the ghost RPC log,
   reset at the start of every operation of the core, aside) - provided the core does not abort *)
Theorem non200_unchanged le t reachable rq den sc t' r :
  (forall u, user_row_ok t u) ->
  (forall o, den = Some o -> his_api_op o = true) ->
  (forall o s, den = Some o -> snd (step le t o sc) <> OAbort s) ->
  hserve le t reachable rq den sc = (t', r) ->
  rp_status r <> 200 ->
  fresh t' = fresh t.
Proof.
  intros Hrow Hop Hab. unfold hserve.
  destruct (hcore le t reachable den sc) as [t1 g] eqn:Ec.
  destruct (rp_forwarded (respond rq g)) eqn:Ef; intros H; inversion H; subst t' r; [|reflexivity].
  intros Hst. rewrite (forwarded_answer rq g Ef) in Hst.
  assert (Hg : g <> GOk).
  { intros ->. cbn in Hst. rewrite ok_status_200 in Hst. contradiction. }
  revert Ec. unfold hcore. destruct (negb reachable); [intros E; inversion E; reflexivity|].
  destruct den as [o|]; [|intros E; inversion E; reflexivity].
  destruct (step le t o sc) as [t2 out] eqn:Es. intros E. inversion E. subst t2 g.
  rewrite (api_error_unchanged le t o sc t1 out Hrow (Hop o eq_refl) Es Hg).
  - apply fresh_fresh.
  - intros s Eo. apply (Hab o s eq_refl). rewrite Es. exact Eo.
Qed.
