(* CrashReplay.v — C03, replay equivalence: the vocabulary.  Definitions only (theorems: CrashReplayProofs.v).

   After a kill inside a block of a poll the last known block has not been advanced (it is written once,
   after the listeners of ALL blocks of the poll: Gen/Bootstrap POLL_PERSISTS_BETTER_TIP, and
   LAST_KNOWN_BLOCK_WRITERS = 2: that write and the bootstrap's), so the restarted tower is handed the
   same block again.  The node it then talks to is the same node, later in time.  What may have changed in
   its answers is written down here as a CONSISTENCY relation between the script of the first attempt (sc1)
   and the script of the replay (sc2), per transaction, on the verdict the tower obtains the way
   handle_breach asks (getrawtransaction: in the mempool?  else sendrawtransaction):
     * nothing changed: the verdict is the same (a transaction the node took stays known: it is reported in
       the mempool, same verdict InMempoolSince; a rejection is stable, with its code; -27 stays -27; a
       transaction nobody gave the node gets the answer it would have got);
     * or the transaction was acceptable / known and has been CONFIRMED in the meantime: the node now
       answers -27 "already in block chain" (IrrevocablyResolved).
   This is exactly the "consistent node" mode of the fault-enumeration harness (crash harness, family
   "the chain moves while the tower is down": a transaction confirmed in the node's active chain is reported
   confirmed by getrawtransaction and refused with -27 by sendrawtransaction; everything else answers as
   before).  It is an ASSUMPTION about the environment, computable per transaction (consistent_tx). *)
From TeosModel Require Import Base ListAux TxIndex Tower TowerStable TowerInv Crash CrashOps.
From TeosModel.Gen Require Consts Bootstrap.
Local Open Scope N_scope.

Definition says_mempool (sc : script) (tx : N) : bool :=
  match fst (script_get sc tx) with G_in_mempool => true | _ => false end.

(* the node's verdict on tx, obtained as handle_breach obtains it, at the carrier height of t *)
Definition node_status (sc : script) (t : tower) (tx : N) : cstatus :=
  if says_mempool sc tx then InMempoolSince (car_height t) else send_status t (snd (script_get sc tx)).

Definition status_eqb (a b : cstatus) : bool :=
  match a, b with
  | ConfirmedIn x, ConfirmedIn y | InMempoolSince x, InMempoolSince y => N.eqb x y
  | IrrevocablyResolved, IrrevocablyResolved => true
  | Rejected x, Rejected y => Z.eqb x y
  | _, _ => false
  end.
Definition is_resolved (s : cstatus) : bool := match s with IrrevocablyResolved => true | _ => false end.

(* THE CONSISTENCY RELATION (per transaction, computable) *)
Definition consistent_tx (t : tower) (sc1 sc2 : script) (tx : N) : bool :=
  status_eqb (node_status sc2 t tx) (node_status sc1 t tx)
  || (status_accepted (node_status sc1 t tx) && is_resolved (node_status sc2 t tx)).
Definition consistent (t : tower) (sc1 sc2 : script) : Prop := forall tx, consistent_tx t sc1 sc2 tx = true.

(* the carrier's memo only ever holds what the node answered to a send in this block period *)
Definition memo_coherent (sc : script) (t : tower) : Prop :=
  forall tx r, aget (car_memo t) tx = Some r -> r = send_status t (snd (script_get sc tx)).

(* the status handle_breach computes for penalty p (memo coherent): index, mempool, else the node's answer *)
Definition pure_status (sc : script) (t : tower) (p : N) : option cstatus :=
  match ti_get (r_index t) p with
  | Some bh => match ti_get_height (r_index t) bh with
               | Some h => Some (ConfirmedIn (Z.to_N h))
               | None => None                      (* the code panics here (S_r_get_height_unwrap) *)
               end
  | None => Some (node_status sc t p)
  end.

(* the watcher's pass over a block as a function of the appointments table, the responder's index, the carrier's
   height and the node's answers: per breached row the tracker INSERT it issues and whether it reports the row
   invalid; then the statement list of the pass: the inserts, then the DELETE of the invalid rows *)
Definition row_stmts (sc : script) (t : tower) (x : N * (N * N)) : list stmt :=
  match find_app (db_apps t) (snd x) with
  | None => []
  | Some a => match decrypt (a_blob a) (fst x) with
              | None => []
              | Some p => match pure_status sc t p with
                          | Some s => stmts_of (tr_add_tracker (snd x) (fst x) p s)
                          | None => []
                          end
              end
  end.
Definition row_invalid (sc : script) (t : tower) (x : N * (N * N)) : bool :=
  match find_app (db_apps t) (snd x) with
  | None => false
  | Some a => match decrypt (a_blob a) (fst x) with
              | None => true
              | Some p => match pure_status sc t p with Some s => status_rejected s | None => false end
              end
  end.
Definition uuids_of (t : tower) (d : N) : list (N * N) := map app_uuid (filter (fun a => N.eqb (a_loc a) d) (db_apps t)).
Definition breached_rows (t : tower) (txs : list N) : list (N * (N * N)) :=
  flat_map (fun d => map (pair d) (uuids_of t d))
           (filter (fun d => existsb (fun a => N.eqb (a_loc a) d) (db_apps t)) txs).
Definition w_inserts (sc : script) (t : tower) (txs : list N) : list stmt := flat_map (row_stmts sc t) (breached_rows t txs).
Definition w_invalid (sc : script) (t : tower) (txs : list N) : list (N * N) :=
  map snd (filter (row_invalid sc t) (breached_rows t txs)).
Definition w_delete (l : list (N * N)) : list stmt :=
  match l with [] => [] | [u] => [SDelApps [u]] | _ => [STxn [SDelApps l]] end.

(* THE CLASS OUTSIDE WHICH REPLAY IS EQUIVALENT (it is the recorded finding
   tracker-never-created-penalty-confirmed-while-down): for every breached row of the database the kill left,
   the verdict on its penalty is unchanged, or the penalty was acceptable and is confirmed by now AND the row
   already has its tracker (the kill came after the INSERT) *)
Definition replay_ok (t : tower) (d : db) (txs : list N) (sc1 sc2 : script) : Prop :=
  forall a p, In a (d_apps d) -> In (a_loc a) txs -> decrypt (a_blob a) (a_loc a) = Some p ->
              ti_get (r_index t) p = None ->
              node_status sc2 t p = node_status sc1 t p \/
              (status_accepted (node_status sc1 t p) = true /\ node_status sc2 t p = IrrevocablyResolved /\
               has_trk d (app_uuid a) = true).

(* tables equal up to the stamp of unconfirmed trackers (InMempoolSince h: h is when the node was last given
   the penalty) - CrashOps.db_nostamp *)
Definition eq_up_to_stamp (d d' : db) : Prop := db_nostamp d = db_nostamp d'.

(* the gatekeeper + watcher part of a block connection (the listeners before the responder) *)
Definition gw_connected (sc : script) (t : tower) (hash : N) (txs : list N) : res unit :=
  do _, t1 <- gk_block_connected t (gk_height t + 1);
  w_block_connected sc t1 (cache_block hash txs) (gk_height t + 1).

(* a poll-boundary state: no reorg in flight, the carrier's memo cleared *)
Definition at_poll_boundary (t : tower) : Prop := reorged t = [] /\ car_memo t = [].

(* ---- witness of the refutation: user 1's appointment (locator 7, penalty 9) of the example tower; block 5000
   holds the dispute 7; first attempt: the node takes the penalty; the kill comes after the 2nd micro step (the
   sendrawtransaction returned, the tracker INSERT not yet executed); while the tower is down the penalty is
   confirmed: the replay is answered -27 *)
Definition ex_block : op := OConnect 5000 [7].
Definition ex_sc1 : script := [].
Definition ex_sc2 : script := [(9, (G_confirmed, A_code Consts.RPC_VERIFY_ALREADY_IN_CHAIN))].
