(* TowerLive.v — C11, sequential half at full strength: no handler of the tower model ever aborts.

   Tower.v turns every `.unwrap()` / unchecked u32 operation of a modelled path into `Abort S_xxx`.
   This file proves, site by site, that each of them is unreachable from a state satisfying the
   big invariant `BigInv` (structural Inv + chain_inv + index shape + subscription/slot bounds),
   that `BigInv` is preserved by every step inside the envelope, and concludes by induction over
   histories: `no_abort_seq`.

   The flag `le` (first argument of step/run) is `log_enabled`: whether the arguments of log::info!
   are evaluated.  Since the repair of F17 (saturating_sub in the log argument) the model does not
   look at it any more; every theorem here is for both values (universally quantified).

   Abort sites (Tower.site) and where they are discharged:
     S_gk_new_user_expiry_overflow   envelope (env_step, ORegister of a new user)         register_ok
     S_gk_store_user_unwrap          Inv (memory = table users)                            register_ok
     S_gk_outdated_overflow          ExpInv (expiry + delta <= U32MAX, kept by the envelope at ORegister)
                                                                                           gk_block_connected_ok
     S_gk_refund_row_unwrap          Inv (tracker -> appointment row)                      refund_loop_ok
     S_gk_refund_user_unwrap         Inv (appointment -> user row, memory = table)         refund_loop_ok
     S_gk_refund_overflow            SlotInv (available + held <= U32MAX)                  refund_loop_ok
     S_gk_disconnect_underflow       IdxInv (|blocks| <= tip) + chain_inv (tip <= height)  disconnect_ok
     S_w_disconnect_underflow        same                                                  disconnect_ok
     S_w_cache_update                idx_wf (w_cache)                                      ti_update_some
     S_r_index_update                idx_wf (r_index)   (chain_inv)                        ti_update_some
     S_r_get_height_unwrap           idx_val (r_index): every indexed value is a live block handle_breach_ok
     S_r_confirm_update_unwrap       Inv (TowerReorg.check_conf_loop_spec)                 r_block_connected_ok
     S_r_reorg_unreachable           memo_ok (the carrier's memo holds no ConfirmedIn)     reorged_loop_ok
     S_r_stale_underflow             envelope (env_step, OConnect: RETRY <= height + 1)    r_block_connected_ok
     S_r_stale_load_tracker_unwrap   the uuids come from the table (TowerReorg.stale_loop_spec)
   Sites that no longer exist (repaired code: the request is refused / the uuid skipped instead of unwrapping):
     S_gk_charge_user_unwrap S_w_store_insert_unwrap S_w_load_appointment_unwrap S_api_expired_unwrap.
   Never produced by Tower.v (repaired code, kept in the type for the correspondence tooling):
     S_w_store_update_unwrap S_w_store_triggered_unwrap S_r_confirmations_underflow S_r_missed_log_underflow
     S_r_reorg_load_tracker_unwrap S_r_reorg_update_unwrap S_r_stale_update_unwrap.
   No site is left as a hypothesis.
   Statements: step_never_aborts, step_big (BigInv preserved), big_init, no_abort_seq, no_abort_seq_deep (the
   OConnect clause of the envelope is implied by a bootstrap 5 blocks above the window), no_poison,
   run_le_irrelevant, and one witness per hypothesis showing it cannot be dropped (section 10).

   Poisoning: Tower.v does not carry a poisoned-lock flag; it represents the death of the tower by
   `run` stopping at the first OAbort (the history is cut, nothing later is answered).  `no_poison`
   states the model-level consequence in that representation: inside the envelope every operation
   of the history is answered (|outputs| = |history|), with a non-abort output, and the tower is
   again in a state from which any further in-envelope operation is answered. *)
From TeosModel Require Import Base ListAux TxIndex TxIndexProofs Tower TowerStable TowerInv TowerProofs TowerSubs TowerReorg.
From TeosModel Require TowerLedger.
From TeosModel.Gen Require Consts.
From Coq Require Import Lia.
Local Open Scope N_scope.

(* ------------------------------------------------------------------------------------------ *)
(* 0. vocabulary *)

Definition ok {A} (r : res A) : Prop := match r with Ok _ _ => True | Abort _ _ => False end.

Lemma ok_bind {A B} (r : res A) (f : A -> tower -> res B) :
  ok r -> (forall a t, r = Ok a t -> ok (f a t)) -> ok (bind r f).
Proof. destruct r as [a t|s t]; cbn; [intros _ H; apply H; reflexivity|intros []]. Qed.

Lemma ok_wrap {A} (f : A -> out) (r : res A) :
  (forall a, not_abort (f a)) -> ok r -> not_abort (snd (wrap f r)).
Proof. intros Hf. destruct r as [a t|s t]; cbn; [intros _; apply Hf|intros []]. Qed.

Lemma ok_ex {A} (r : res A) : ok r -> exists a t, r = Ok a t.
Proof. destruct r as [a t|s t]; [eauto|intros []]. Qed.

Lemma ex_ok {A} (r : res A) a t : r = Ok a t -> ok r.
Proof. intros ->. exact I. Qed.

(* ------------------------------------------------------------------------------------------ *)
(* 1. TxIndex: update never panics on a well-formed index; shape of the block deque *)

Lemma ti_update_some (i : txindex N) b : idx_wf i -> exists i', ti_update i b = Some i'.
Proof.
  intros [_ Htx]. unfold ti_update.
  match goal with |- context [ti_is_full ?t1] => destruct (ti_is_full t1); [|eauto] end.
  unfold ti_remove_oldest. cbn [ti_blocks ti_txs].
  destruct (ti_blocks i) as [|h0 rest] eqn:Eb; cbn [List.app].
  - unfold ainsert. cbn [aget]. rewrite N.eqb_refl. eauto.
  - unfold ainsert. cbn [aget]. destruct (N.eqb h0 (ib_hash b)); [eauto|].
    destruct (aget (ti_txs i) h0) eqn:Ea; [eauto|].
    exfalso. apply (Htx h0); [left; reflexivity|exact Ea].
Qed.

(* the deque after update: the new hash is appended; the oldest block leaves iff the deque outgrew size *)
Lemma ti_update_blocks (i : txindex N) b i' :
  ti_update i b = Some i' ->
  ti_size i' = ti_size i /\ ti_tip i' = (ti_tip i + 1)%Z /\
  (((ti_size i < length (ti_blocks i) + 1)%nat /\ exists h0, ti_blocks i ++ [ib_hash b] = h0 :: ti_blocks i') \/
   ((length (ti_blocks i) + 1 <= ti_size i)%nat /\ ti_blocks i' = ti_blocks i ++ [ib_hash b])).
Proof.
  unfold ti_update, ti_is_full. cbn [ti_blocks ti_size]. rewrite app_length. cbn [length].
  destruct (Nat.ltb_spec (ti_size i) (length (ti_blocks i) + 1)) as [Hl|Hl].
  - unfold ti_remove_oldest. cbn [ti_blocks ti_txs].
    destruct (ti_blocks i ++ [ib_hash b]) as [|h0 rest] eqn:Eb; [discriminate|].
    destruct (aget _ h0); [|discriminate]. intros E. inversion E. subst i'. clear E. cbn [ti_size ti_tip ti_blocks].
    split; [reflexivity|]. split; [reflexivity|]. left. split; [exact Hl|]. exists h0. reflexivity.
  - intros E. inversion E. subst i'. clear E. cbn [ti_size ti_tip ti_blocks].
    split; [reflexivity|]. split; [reflexivity|]. right. split; [exact Hl|reflexivity].
Qed.

(* every value of the responder's index is the hash of a block the index still holds, and the key is
   recorded under that block (so removing the block removes the entry) *)
Definition idx_val (i : txindex N) : Prop :=
  forall k v, In (k, v) (ti_index i) ->
    In v (ti_blocks i) /\ exists ks, aget (ti_txs i) v = Some ks /\ In k ks.

(* the responder's blocks map every transaction to the block's own hash *)
Definition blk_self (b : iblock N) : Prop := forall k v, In (k, v) (ib_data b) -> v = ib_hash b.

Lemma index_block_self hash txs : blk_self (index_block hash txs).
Proof.
  intros k v Hin. unfold index_block in Hin. cbn [ib_data ib_hash] in *.
  apply in_map_iff in Hin. destruct Hin as [x [E _]]. inversion E. reflexivity.
Qed.

Lemma in_retain {V} (p : N -> bool) (m : amap V) k v : In (k, v) (aretain p m) <-> In (k, v) m /\ p k = true.
Proof. unfold aretain. rewrite filter_In. cbn [fst]. tauto. Qed.

Lemma idx_val_update (i : txindex N) b i' :
  idx_val i -> blk_self b -> ~ In (ib_hash b) (ti_blocks i) -> ti_update i b = Some i' -> idx_val i'.
Proof.
  intros Hv Hself Hfresh. unfold ti_update.
  set (t1 := {| ti_index := ib_data b ++ ti_index i; ti_blocks := ti_blocks i ++ [ib_hash b];
                ti_txs := ainsert (ti_txs i) (ib_hash b) (keys_of (ib_data b));
                ti_tip := (ti_tip i + 1)%Z; ti_size := ti_size i |}).
  assert (Hv1 : idx_val t1).
  { intros k v Hin. cbn [t1 ti_index ti_blocks ti_txs] in *. apply in_app_or in Hin. destruct Hin as [Hin|Hin].
    - pose proof (Hself k v Hin) as Hvh. subst v. split; [apply in_or_app; right; left; reflexivity|].
      exists (keys_of (ib_data b)). unfold ainsert. cbn [aget]. rewrite N.eqb_refl. split; [reflexivity|].
      unfold keys_of. apply in_map_iff. exists (k, ib_hash b). split; [reflexivity|exact Hin].
    - destruct (Hv k v Hin) as [Hb [ks [Ha Hk]]]. split; [apply in_or_app; left; exact Hb|].
      exists ks. unfold ainsert. cbn [aget]. destruct (N.eqb v (ib_hash b)) eqn:E; [|auto].
      apply N.eqb_eq in E. subst v. contradiction. }
  clearbody t1. destruct (ti_is_full t1); [|intros E; inversion E; subst; exact Hv1].
  unfold ti_remove_oldest. destruct (ti_blocks t1) as [|h0 rest] eqn:Eb; [discriminate|].
  destruct (aget (ti_txs t1) h0) as [ks0|] eqn:Ea0; [|discriminate]. intros E. inversion E. subst i'. clear E.
  intros k v Hin. cbn [ti_index ti_blocks ti_txs] in *. apply in_retain in Hin. destruct Hin as [Hin Hp].
  apply negb_true_iff in Hp. apply memN_false in Hp.
  destruct (Hv1 k v Hin) as [Hb [ks [Ha Hk]]]. rewrite Eb in Hb.
  assert (Hne : v <> h0).
  { intros ->. rewrite Ea0 in Ha. inversion Ha. subst ks0. contradiction. }
  split; [destruct Hb as [Hb|Hb]; [congruence|exact Hb]|].
  exists ks. rewrite aget_remove. apply N.eqb_neq in Hne. rewrite Hne. auto.
Qed.

Lemma idx_val_disconnect (i : txindex N) hash :
  idx_val i -> last (map Some (ti_blocks i)) None = Some hash -> idx_val (ti_disconnect i hash).
Proof.
  intros Hv Hl. destruct (last_map_some _ _ Hl) as [bs Eb].
  unfold ti_disconnect. destruct (aget (ti_txs i) hash) as [ks0|] eqn:Ea0; [|exact Hv].
  destruct (ti_blocks i) as [|b0 r0] eqn:E0; [destruct bs; discriminate|]. rewrite Eb. rewrite removelast_last.
  intros k v Hin. cbn [ti_index ti_blocks ti_txs] in *. apply in_retain in Hin. destruct Hin as [Hin Hp].
  apply negb_true_iff in Hp. apply memN_false in Hp.
  destruct (Hv k v Hin) as [Hb [ks [Ha Hk]]]. rewrite E0, Eb in Hb.
  assert (Hne : v <> hash).
  { intros ->. rewrite Ea0 in Ha. inversion Ha. subst ks0. contradiction. }
  split.
  - apply in_app_or in Hb. destruct Hb as [Hb|[Hb|[]]]; [exact Hb|congruence].
  - exists ks. rewrite aget_remove. apply N.eqb_neq in Hne. rewrite Hne. auto.
Qed.

Lemma positionN_In h l : In h l -> positionN h l <> None.
Proof.
  induction l as [|x l IH]; [intros []|]. intros Hin. cbn [positionN].
  destruct (N.eqb x h) eqn:E; [discriminate|].
  destruct Hin as [Hx|Hin]; [subst; rewrite N.eqb_refl in E; discriminate|].
  specialize (IH Hin). destruct (positionN h l); [discriminate|contradiction].
Qed.

(* S_r_get_height_unwrap *)
Lemma get_height_some (i : txindex N) p bh : idx_val i -> ti_get i p = Some bh -> ti_get_height i bh <> None.
Proof.
  intros Hv Hg. unfold ti_get in Hg. apply aget_Some_In in Hg. destruct (Hv _ _ Hg) as [Hb _].
  unfold ti_get_height. pose proof (positionN_In _ _ Hb) as Hp. destruct (positionN bh (ti_blocks i)); [discriminate|contradiction].
Qed.

(* |blocks| <= tip: the index never holds the genesis block, so a block that can be disconnected has height >= 1 *)
Definition len_ok (i : txindex N) : Prop := (Z.of_nat (length (ti_blocks i)) <= ti_tip i)%Z.

Lemma len_ok_update (i : txindex N) b i' : len_ok i -> ti_update i b = Some i' -> len_ok i'.
Proof.
  unfold len_ok. intros Hl E. destruct (ti_update_blocks i b i' E) as [_ [Ht [[_ [h0 Hb]]|[_ Hb]]]].
  - apply (f_equal (@length N)) in Hb. rewrite app_length in Hb. cbn [length] in Hb. lia.
  - rewrite Hb, app_length. cbn [length]. lia.
Qed.

Lemma len_ok_disconnect (i : txindex N) hash : len_ok i -> len_ok (ti_disconnect i hash).
Proof.
  unfold len_ok, ti_disconnect. intros Hl. destruct (aget (ti_txs i) hash); [|exact Hl].
  destruct (ti_blocks i) as [|b0 r0] eqn:E0; cbn [ti_blocks ti_tip]; [exact Hl|].
  rewrite removelast_length. cbn [length] in *. lia.
Qed.

(* the watcher's cache holds a suffix of the responder's blocks *)
Definition is_suffix (w r : list N) : Prop := exists p, r = p ++ w.

Lemma suffix_update (w r : txindex N) bw br w' r' :
  is_suffix (ti_blocks w) (ti_blocks r) -> (ti_size w <= ti_size r)%nat -> ib_hash bw = ib_hash br ->
  ti_update w bw = Some w' -> ti_update r br = Some r' -> is_suffix (ti_blocks w') (ti_blocks r').
Proof.
  intros [p Hp] Hs Hh Ew Er.
  destruct (ti_update_blocks w bw w' Ew) as [_ [_ Hw]]. destruct (ti_update_blocks r br r' Er) as [_ [_ Hr]].
  rewrite Hh in Hw. set (h := ib_hash br) in *. rewrite Hp in Hr. rewrite app_length in Hr.
  destruct Hw as [[Hwl [x Hw]]|[Hwl Hw]], Hr as [[Hrl [y Hr]]|[Hrl Hr]].
  - (* both drop *)
    destruct p as [|y' p'].
    + cbn [List.app] in Hr. rewrite Hw in Hr. inversion Hr. exists []. reflexivity.
    + rewrite <- app_assoc in Hr. cbn [List.app] in Hr. inversion Hr. subst y'. rewrite Hw.
      exists (p' ++ [x]). rewrite <- app_assoc. reflexivity.
  - (* the watcher drops only *)
    rewrite Hr, <- app_assoc, Hw. exists (p ++ [x]). rewrite <- app_assoc. reflexivity.
  - (* the responder drops only: p is not empty *)
    destruct p as [|y' p']; [cbn [length] in Hrl; lia|].
    rewrite <- app_assoc in Hr. cbn [List.app] in Hr. inversion Hr. rewrite Hw. exists p'. reflexivity.
  - rewrite Hr, Hw, <- app_assoc. exists p. reflexivity.
Qed.

Lemma suffix_disconnect (w r : txindex N) hash :
  is_suffix (ti_blocks w) (ti_blocks r) -> idx_wf w -> idx_wf r ->
  last (map Some (ti_blocks r)) None = Some hash ->
  is_suffix (ti_blocks (ti_disconnect w hash)) (ti_blocks (ti_disconnect r hash)).
Proof.
  intros [p Hp] [_ Hwtx] [_ Hrtx] Hl. destruct (last_map_some _ _ Hl) as [bs Eb].
  assert (Hr : ti_blocks (ti_disconnect r hash) = bs).
  { unfold ti_disconnect. destruct (aget (ti_txs r) hash) eqn:Ea.
    - destruct (ti_blocks r) as [|b0 r0] eqn:E0; [destruct bs; discriminate|]. cbn [ti_blocks]. rewrite Eb. apply removelast_last.
    - exfalso. apply (Hrtx hash); [rewrite Eb; apply in_or_app; right; left; reflexivity|exact Ea]. }
  rewrite Hr.
  assert (Hcase : ti_blocks w = [] \/ exists wr w0, ti_blocks w = wr ++ [w0]).
  { destruct (ti_blocks w) as [|w0 wr _] using rev_ind; [left; reflexivity|right; eauto]. }
  destruct Hcase as [Ew|[wr [w0 Ew]]]; rewrite Ew in Hp.
  - assert (Hwb : ti_blocks (ti_disconnect w hash) = []).
    { unfold ti_disconnect. destruct (aget (ti_txs w) hash); [|exact Ew]. rewrite Ew. reflexivity. }
    rewrite Hwb. exists bs. rewrite app_nil_r. reflexivity.
  - rewrite Eb, app_assoc in Hp. apply app_inj_tail in Hp. destruct Hp as [Hbs Hx]. subst w0.
    assert (Hwb : ti_blocks (ti_disconnect w hash) = wr).
    { unfold ti_disconnect. destruct (aget (ti_txs w) hash) eqn:Ea.
      - rewrite Ew. destruct (wr ++ [hash]) as [|c0 cr] eqn:Ec; [destruct wr; discriminate|].
        cbn [ti_blocks]. rewrite <- Ec. apply removelast_last.
      - exfalso. apply (Hwtx hash); [rewrite Ew; apply in_or_app; right; left; reflexivity|exact Ea]. }
    rewrite Hwb. exists p. exact Hbs.
Qed.

(* ti_new: the deque of a bootstrapped index is the given blocks, oldest first *)
Lemma ti_updates_blocks (bs : list (iblock N)) : forall (i i' : txindex N),
  (length (ti_blocks i) + length bs <= ti_size i)%nat -> ti_updates i bs = Some i' ->
  ti_blocks i' = ti_blocks i ++ map ib_hash bs /\ ti_size i' = ti_size i.
Proof.
  induction bs as [|b bs IH]; intros i i' Hlen E; cbn [ti_updates] in E.
  - inversion E. subst. cbn [map]. rewrite app_nil_r. auto.
  - destruct (ti_update i b) as [i1|] eqn:E1; [|discriminate]. cbn [length] in Hlen.
    destruct (ti_update_blocks i b i1 E1) as [Hs [_ [[Hl _]|[_ Hb]]]]; [lia|].
    destruct (IH i1 i') as [Hb' Hs']; [rewrite Hb, app_length, Hs; cbn [length]; lia|exact E|].
    rewrite Hb', Hb, <- app_assoc, Hs', Hs. auto.
Qed.

Lemma ti_new_blocks (l : list (iblock N)) height (i : txindex N) :
  ti_new l height = Some i -> ti_blocks i = map ib_hash (rev l) /\ ti_size i = length l /\ ti_tip i = height.
Proof.
  unfold ti_new. destruct (ti_updates _ (rev l)) as [t|] eqn:Eu; [|discriminate]. intros E. inversion E. subst i. clear E.
  cbn [ti_blocks ti_size ti_tip]. apply ti_updates_blocks in Eu; [|cbn [ti_blocks ti_size length]; rewrite rev_length; lia].
  cbn [ti_blocks ti_size] in Eu. destruct Eu as [Hb Hs]. rewrite Hb, Hs. auto.
Qed.

(* ------------------------------------------------------------------------------------------ *)
(* 2. the procedures reached from add_appointment and from the watcher's listener *)

(* everything but the trackers, the carrier and the log *)
Definition kcore (t : tower) :=
  (cfg t, gk_users t, gk_height t, db_users t, db_apps t, (r_index t, reorged t, w_cache t, w_height t)).

Lemma core_kcore t t' : TowerLedger.core t' = TowerLedger.core t -> kcore t' = kcore t.
Proof. unfold TowerLedger.core, kcore. intros H. inversion H. reflexivity. Qed.

Lemma add_tracker_kcore t uuid d p s : kcore (r_add_tracker t uuid d p s) = kcore t.
Proof.
  unfold r_add_tracker. destruct s; try reflexivity;
    destruct (find_trk (db_trks t) uuid); try reflexivity; destruct (find_app (db_apps t) uuid); reflexivity.
Qed.

Lemma handle_breach_kcore sc t uuid d p s t' : r_handle_breach sc t uuid d p = Ok s t' -> kcore t' = kcore t.
Proof.
  intros H. apply TowerLedger.handle_breach_spec in H. destruct H as [t1 [Hc [_ [Ht _]]]]. subst t'.
  destruct (status_accepted s); [rewrite add_tracker_kcore|]; apply core_kcore; exact Hc.
Qed.

Lemma kcore_fields t t' :
  kcore t' = kcore t ->
  cfg t' = cfg t /\ gk_users t' = gk_users t /\ gk_height t' = gk_height t /\ db_users t' = db_users t /\
  db_apps t' = db_apps t /\ r_index t' = r_index t /\ w_cache t' = w_cache t /\ reorged t' = reorged t.
Proof. unfold kcore. intros H. inversion H. repeat split; assumption. Qed.

(* S_r_get_height_unwrap *)
Lemma handle_breach_ok sc t uuid d p : idx_val (r_index t) -> ok (r_handle_breach sc t uuid d p).
Proof.
  intros Hv. unfold r_handle_breach.
  destruct (ti_get (r_index t) p) as [bh|] eqn:Eg.
  - pose proof (get_height_some _ _ _ Hv Eg) as Hh. destruct (ti_get_height (r_index t) bh); [exact I|contradiction].
  - destruct (in_mempool sc t p) as [inm t1]. destruct inm; [exact I|].
    destruct (send_transaction sc t1 p) as [s t2]. exact I.
Qed.

(* the breach loop: a uuid whose row is gone by the time it is loaded is skipped (repaired code), so only the
   responder's site is left *)
Lemma breach_uuid_loop_ok sc d : forall us t inv,
  idx_val (r_index t) -> ok (breach_uuid_loop sc d us t inv).
Proof.
  induction us as [|uuid us IH]; intros t inv Hv; cbn [breach_uuid_loop]; [exact I|].
  destruct (find_app (db_apps t) uuid) as [a|] eqn:Ef; [|apply IH; exact Hv].
  destruct (decrypt (a_blob a) d) as [p|]; [|apply IH; assumption].
  apply ok_bind; [apply handle_breach_ok; exact Hv|].
  intros s t1 E. apply handle_breach_kcore in E. apply kcore_fields in E. destruct E as [_ [_ [_ [_ [Ha [Hi _]]]]]].
  apply IH. rewrite Hi. exact Hv.
Qed.

Lemma breach_uuid_loop_kcore sc d : forall us t inv inv' t',
  breach_uuid_loop sc d us t inv = Ok inv' t' -> kcore t' = kcore t.
Proof.
  induction us as [|uuid us IH]; intros t inv inv' t'; cbn [breach_uuid_loop]; [intros H; inversion H; reflexivity|].
  destruct (find_app (db_apps t) uuid) as [a|]; [|apply IH].
  destruct (decrypt (a_blob a) d) as [p|]; [|apply IH].
  destruct (r_handle_breach sc t uuid d p) as [s t1|] eqn:Eh; cbn [bind]; [|discriminate].
  apply handle_breach_kcore in Eh. intros H. apply IH in H. congruence.
Qed.

Lemma breach_loop_kcore sc : forall ds t inv inv' t',
  breach_loop sc ds t inv = Ok inv' t' -> kcore t' = kcore t.
Proof.
  induction ds as [|d ds IH]; intros t inv inv' t'; cbn [breach_loop]; [intros H; inversion H; reflexivity|].
  destruct (breach_uuid_loop sc d _ t inv) as [inv1 t1|] eqn:Eb; cbn [bind]; [|discriminate].
  apply breach_uuid_loop_kcore in Eb. intros H. apply IH in H. congruence.
Qed.

Lemma breach_loop_ok sc : forall ds t inv, idx_val (r_index t) -> ok (breach_loop sc ds t inv).
Proof.
  induction ds as [|d ds IH]; intros t inv Hv; cbn [breach_loop]; [exact I|].
  apply ok_bind.
  - apply breach_uuid_loop_ok. exact Hv.
  - intros inv1 t1 E. apply breach_uuid_loop_kcore in E. apply kcore_fields in E.
    destruct E as [_ [_ [_ [_ [_ [Hi _]]]]]]. apply IH. rewrite Hi. exact Hv.
Qed.

(* S_w_cache_update + the loops *)
Lemma w_block_connected_ok sc t b h :
  idx_wf (w_cache t) -> idx_val (r_index t) -> ok (w_block_connected sc t b h).
Proof.
  intros Hwf Hv. unfold w_block_connected. destruct (ti_update_some (w_cache t) b Hwf) as [c Ec]. rewrite Ec.
  apply ok_bind; [apply breach_loop_ok; exact Hv|]. intros invalid t2 _.
  apply ok_bind; [destruct invalid; exact I|]. intros _ t3 _. exact I.
Qed.

Lemma w_block_connected_indexes sc t b h t' :
  w_block_connected sc t b h = Ok tt t' ->
  ti_update (w_cache t) b = Some (w_cache t') /\ r_index t' = r_index t /\ gk_height t' = gk_height t /\ cfg t' = cfg t.
Proof.
  unfold w_block_connected. destruct (ti_update (w_cache t) b) as [c|]; [|discriminate].
  destruct (breach_loop sc _ (set_w_cache t c) []) as [invalid t2|] eqn:Eb; cbn [bind]; [|discriminate].
  apply breach_loop_kcore in Eb. apply kcore_fields in Eb. destruct Eb as [Hc [_ [Hh [_ [_ [Hi [Hw _]]]]]]].
  destruct invalid as [|i0 is]; cbn [bind gk_delete_appointments]; intros H; inversion H; subst t'; clear H;
    cbn [w_cache r_index gk_height cfg set_w_height db_delete_apps set_db_trks set_db_apps];
    rewrite Hw, Hi, Hh, Hc; repeat split.
Qed.

(* S_gk_outdated_overflow *)
Lemma outdated_users_some delta h us :
  (forall u ui, In (u, ui) us -> u_expiry ui + delta <= U32MAX) -> outdated_users delta h us <> None.
Proof.
  induction us as [|[u ui] us IH]; intros Hb; cbn [outdated_users]; [discriminate|].
  unfold u32_add. pose proof (Hb u ui (or_introl eq_refl)) as H1. apply N.leb_le in H1. rewrite H1.
  destruct (outdated_users delta h us) eqn:E; [discriminate|].
  exfalso. apply IH; [|reflexivity]. intros v vi Hv. apply (Hb v vi). right. exact Hv.
Qed.

(* every subscription can still be given its grace period in u32 *)
Definition ExpInv (t : tower) : Prop :=
  forall u ui, aget (db_users t) u = Some ui -> u_expiry ui + c_delta (cfg t) <= U32MAX.

Lemma gk_block_connected_ok t h : Inv t -> ExpInv t -> ok (gk_block_connected t h).
Proof.
  intros HI HE. unfold gk_block_connected.
  destruct (outdated_users (c_delta (cfg t)) h (gk_users t)) eqn:Eo; [exact I|].
  exfalso. revert Eo. apply outdated_users_some. intros u ui Hin. apply (HE u).
  rewrite <- (inv_sync t HI). apply aget_In_nodup; [exact (inv_mem_nodup t HI)|exact Hin].
Qed.

(* store_appointment has no abort site left: a failed INSERT is answered UnknownUser (repaired code) *)
Lemma store_appointment_ok t a : ok (w_store_appointment t a).
Proof.
  unfold w_store_appointment. destruct (find_app (db_apps t) (app_uuid a)); [exact I|].
  destruct (amem (db_users t) (a_user a)); exact I.
Qed.

Lemma store_appointment_indexes t a t' :
  w_store_appointment t a = Ok tt t' -> r_index t' = r_index t /\ w_cache t' = w_cache t.
Proof.
  unfold w_store_appointment. destruct (find_app (db_apps t) (app_uuid a)).
  - intros H; inversion H; subst; split; reflexivity.
  - destruct (amem (db_users t) (a_user a)); intros H; inversion H; subst; split; reflexivity.
Qed.

Lemma store_triggered_ok sc t a d :
  idx_val (r_index t) -> ok (w_store_triggered sc t a d).
Proof.
  intros Hv. unfold w_store_triggered. destruct (decrypt (a_blob a) d) as [p|].
  - destruct (w_store_ok t a); [|exact I].
    apply ok_bind; [apply store_appointment_ok|]. intros [] t1 E1.
    apply store_appointment_indexes in E1. destruct E1 as [Hi _].
    apply ok_bind; [apply handle_breach_ok; rewrite Hi; exact Hv|]. intros s t2 _.
    destruct (status_rejected s); exact I.
  - destruct (find_app (db_apps t) (app_uuid a)); exact I.
Qed.

(* add_appointment: only S_r_get_height_unwrap is left on this path (the repaired code answers an authentication
   failure where it used to unwrap the vanished user / the failed INSERT) *)
Lemma add_appointment_ok sc t signer loc b delay sig :
  idx_val (r_index t) -> ok (w_add_appointment sc t signer loc b delay sig).
Proof.
  intros Hv. unfold w_add_appointment.
  destruct (authenticate t signer) as [u|]; [|exact I].
  destruct (gk_get t u) as [ui|] eqn:Hg; [|exact I].
  destruct (N.leb (u_expiry ui) (gk_height t)); [exact I|].
  destruct (find_trk (db_trks t) (loc, u)); [exact I|].
  unfold gk_add_update_appointment. rewrite Hg.
  match goal with |- context [if ?c then _ else _] => destruct c end; cbn [bind]; [|exact I].
  set (ui' := mk_uinfo _ _ _). set (t1 := p_set_user t u ui'). cbv zeta.
  apply ok_bind; [|intros; match goal with |- context [if ?c then _ else _] => destruct c end; exact I].
  change (w_cache t1) with (w_cache t).
  destruct (ti_get (w_cache t) loc) as [dispute|]; [apply store_triggered_ok; exact Hv|apply store_appointment_ok].
Qed.

(* ------------------------------------------------------------------------------------------ *)
(* 3. the responder's listener *)

Notation bal := TowerLedger.bal.
Notation avail := TowerLedger.avail.
Notation held_t := TowerLedger.held_t.
Notation ssum := TowerLedger.ssum.
Notation ofu := TowerLedger.ofu.
Notation aslots := TowerLedger.aslots.

(* nobody's balance (available + held slots) exceeds u32 *)
Definition SlotInv (t : tower) : Prop := forall v, bal t v <= U32MAX.

Lemma ssum_filter_and_le (p q : app -> bool) l : ssum (filter (fun a => p a && q a) l) <= ssum (filter p l).
Proof.
  induction l as [|a l IH]; cbn [filter]; [lia|].
  destruct (p a), (q a); cbn [andb]; rewrite ?TowerLedger.ssum_cons; lia.
Qed.

Lemma ssum_filter_filter_le (p q : app -> bool) l : ssum (filter p (filter q l)) <= ssum (filter p l).
Proof.
  induction l as [|a l IH]; cbn [filter]; [lia|].
  destruct (q a); cbn [filter]; destruct (p a); rewrite ?TowerLedger.ssum_cons; lia.
Qed.

(* S_gk_refund_row_unwrap, S_gk_refund_user_unwrap, S_gk_refund_overflow *)
Lemma refund_loop_ok : forall us t,
  Inv t -> NoDup us -> (forall u, In u us -> find_app (db_apps t) u <> None) ->
  (forall v, avail t v + ssum (filter (fun a => ofu v a && mem_uuid (app_uuid a) us) (db_apps t)) <= U32MAX) ->
  exists t', refund_loop t us = Ok tt t'.
Proof.
  induction us as [|uuid us IH]; intros t HI Hnd Hrows Hb; cbn [refund_loop]; [eauto|].
  apply NoDup_cons_iff in Hnd. destruct Hnd as [Hu Hnd].
  destruct (find_app (db_apps t) uuid) as [a|] eqn:Ef; [|exfalso; exact (Hrows uuid (or_introl eq_refl) Ef)].
  destruct (find_app_Some _ _ _ Ef) as [Hain _].
  pose proof (inv_fk_app t HI a Hain) as Hfk. unfold amem in Hfk.
  destruct (aget (db_users t) (a_user a)) as [ui|] eqn:Eu; [|discriminate].
  assert (Eg : gk_get t (a_user a) = Some ui) by (unfold gk_get; rewrite (inv_sync t HI); exact Eu).
  rewrite Eg.
  assert (Ho : ofu (a_user a) a = true) by (apply TowerLedger.ofu_true; reflexivity).
  pose proof (Hb (a_user a)) as Hba.
  rewrite (TowerLedger.ssum_mem_cons (ofu (a_user a)) uuid us (db_apps t) (inv_apps_nodup t HI) Hu), Ef, Ho in Hba.
  unfold TowerLedger.avail in Hba. rewrite Eu in Hba.
  change (slots_of (b_len (a_blob a))) with (aslots a). unfold u32_add.
  assert (Hle : u_slots ui + aslots a <= U32MAX) by lia. apply N.leb_le in Hle. rewrite Hle.
  set (s := u_slots ui + aslots a).
  apply IH.
  - exact (inv_refund t (a_user a) ui s HI Eg).
  - exact Hnd.
  - intros u Hu'. change (db_apps (p_refund_user t (a_user a) ui s)) with (db_apps t). apply Hrows. right. exact Hu'.
  - intros v. change (db_apps (p_refund_user t (a_user a) ui s)) with (db_apps t).
    pose proof (Hb v) as Hbv.
    rewrite (TowerLedger.ssum_mem_cons (ofu v) uuid us (db_apps t) (inv_apps_nodup t HI) Hu), Ef in Hbv.
    assert (Hget : aget (db_users (p_refund_user t (a_user a) ui s)) v =
                   if N.eqb v (a_user a) then option_map (fun x => mk_uinfo s (u_start x) (u_expiry x)) (aget (db_users t) v)
                   else aget (db_users t) v).
    { unfold p_refund_user, db_update_user_slots. cbn [db_users set_db_users gk_put set_gk_users]. apply aget_map_slots. }
    unfold TowerLedger.avail in *. rewrite Hget. destruct (N.eqb v (a_user a)) eqn:Ev.
    + apply N.eqb_eq in Ev. subst v. rewrite Eu in *. cbn [option_map u_slots]. rewrite Ho in Hbv. subst s. lia.
    + lia.
Qed.

(* S_r_reorg_unreachable *)
Lemma reorged_loop_ok sc h : forall us t rej, TowerReorg.memo_ok t -> ok (reorged_loop sc h us t rej).
Proof.
  induction us as [|uuid us IH]; intros t rej Hm; cbn [reorged_loop]; [exact I|].
  destruct (find_trk (db_trks t) uuid) as [k|]; [|apply IH; exact Hm].
  pose proof (memo_ok_send sc t (t_dispute k) Hm) as Hm1.
  destruct (send_transaction sc t (t_dispute k)) as [s t1] eqn:E1. cbn [snd] in Hm1.
  destruct s as [hh|hh| |c].
  - exfalso. apply send_confirmed_memo in E1. exact (Hm1 _ _ E1).
  - pose proof (memo_ok_send sc t1 (t_penalty k) Hm1) as Hm2.
    destruct (send_transaction sc t1 (t_penalty k)) as [s2 t2]. cbn [snd] in Hm2.
    destruct (status_rejected s2); apply IH; exact Hm2.
  - pose proof (memo_ok_send sc t1 (t_penalty k) Hm1) as Hm2.
    destruct (send_transaction sc t1 (t_penalty k)) as [s2 t2]. cbn [snd] in Hm2.
    destruct (status_rejected s2); apply IH; exact Hm2.
  - apply IH. exact Hm1.
Qed.

Lemma r_block_connected_ok le sc t b h :
  Inv t -> idx_wf (r_index t) -> TowerReorg.memo_ok t -> SlotInv t -> RETRY <= h ->
  ok (r_block_connected le sc t b h).
Proof.
  intros HI Hwf Hm HS Hh. unfold r_block_connected.
  change (r_index (set_car_height t h)) with (r_index t).
  destruct (ti_update_some (r_index t) b Hwf) as [idx Ei]. rewrite Ei.
  set (t1 := set_r_index (set_car_height t h) idx). set (txids := keys_of (ib_data b)).
  assert (HI1 : Inv t1) by (eapply inv_frame; [|exact HI]; repeat split).
  pose proof (check_conf_loop_spec le txids h t1 [] HI1) as Hcc.
  pose proof (check_conf_loop_pres Inv (sb_wr _ (sa_block _ inv_stable)) le txids h (db_trks t1) t1 [] HI1) as HI2.
  rewrite Hcc in HI2. cbn [pres] in HI2. rewrite Hcc. cbn [bind List.app].
  set (completed := completed_list txids h t1) in *. set (t2 := cc_result txids h t1) in *.
  rewrite (delete_opt t2 completed true). unfold gk_delete_appointments.
  destruct (refund_loop_ok completed t2 HI2) as [tR Er].
  { unfold completed, completed_list. apply NoDup_map_filter. exact (inv_trks_nodup t1 HI1). }
  { intros u Hu. unfold completed, completed_list in Hu. apply in_map_iff in Hu. destruct Hu as [k [He Hk]].
    apply filter_In in Hk. destruct Hk as [Hk _].
    destruct (inv_fk_trk t1 HI1 k Hk) as [a [Ha Hau]].
    change (db_apps t2) with (db_apps t1). destruct (find_app_In _ _ Ha) as [a' Ha'].
    rewrite <- He, <- Hau, Ha'. discriminate. }
  { intros v. change (db_apps t2) with (db_apps t). specialize (HS v). unfold TowerLedger.bal, TowerLedger.held_t in HS.
    change (avail t2 v) with (avail t v).
    pose proof (ssum_filter_and_le (ofu v) (fun a => mem_uuid (app_uuid a) completed) (db_apps t)). lia. }
  rewrite Er. cbn [bind].
  assert (HIR : Inv tR).
  { pose proof (refund_loop_pres Inv (sb_wr _ (sa_block _ inv_stable)) completed t2 HI2) as Hp. rewrite Er in Hp. exact Hp. }
  assert (HmR : car_memo tR = car_memo t).
  { destruct (refund_loop_spec _ _ _ HI2 Er) as [[g [d EtR]] _]. rewrite EtR. reflexivity. }
  rewrite (reorged_opt sc h (db_delete_apps tR completed)).
  set (t3 := set_reorged (db_delete_apps tR completed) []).
  assert (HI3 : Inv t3) by (eapply inv_frame; [|apply inv_delete; exact HIR]; repeat split).
  apply ok_bind.
  { apply reorged_loop_ok. intros x hh. change (car_memo t3) with (car_memo tR). rewrite HmR. apply Hm. }
  intros rej1 t4 E4.
  assert (HI4 : Inv t4).
  { pose proof (reorged_loop_pres Inv (sb_wr _ (sa_block _ inv_stable)) sc h (reorged (db_delete_apps tR completed)) t3 [] HI3) as Hp. rewrite E4 in Hp. exact Hp. }
  fold RETRY. unfold u32_sub. apply N.leb_le in Hh. rewrite Hh.
  apply ok_bind.
  { match goal with |- ok (stale_loop sc h ?us t4 []) => destruct (stale_loop_spec sc h us t4 [] HI4) as [t5 [E5 _]] end.
    - intros u Hu. apply in_map_iff in Hu. destruct Hu as [k [He Hk]]. apply filter_In in Hk. destruct Hk as [Hk _].
      rewrite <- He. apply find_trk_In. exact Hk.
    - rewrite E5. exact I. }
  intros rej2 t5 _. apply ok_bind; [destruct (rej1 ++ rej2); exact I|intros; exact I].
Qed.

(* ------------------------------------------------------------------------------------------ *)
(* 4. balances never grow while a block is connected (so SlotInv survives every phase) *)

Lemma ssum_split_mem v (C : list (N * N)) l :
  ssum (filter (ofu v) l) =
  ssum (filter (fun a => ofu v a && mem_uuid (app_uuid a) C) l) + ssum (filter (ofu v) (TowerLedger.del C l)).
Proof.
  unfold TowerLedger.del. induction l as [|a l IH]; cbn [filter]; [reflexivity|].
  destruct (ofu v a) eqn:Eo, (mem_uuid (app_uuid a) C); cbn [andb negb filter]; rewrite ?Eo, ?TowerLedger.ssum_cons; lia.
Qed.

Lemma gk_phase_bal t0 h t1 : gk_block_connected t0 h = Ok tt t1 -> forall v, bal t1 v <= bal t0 v.
Proof.
  intros E v. destruct (TowerLedger.gk_block_spec t0 h t1 E) as [outd [Hu [Ha _]]].
  unfold TowerLedger.bal, TowerLedger.avail, TowerLedger.held_t. rewrite Hu, Ha.
  rewrite (aget_filter_key (fun k => negb (memN k outd))).
  pose proof (ssum_filter_filter_le (ofu v) (fun a => negb (memN (a_user a) outd)) (db_apps t0)).
  destruct (negb (memN v outd)); [lia|]. destruct (aget (db_users t0) v); lia.
Qed.

Lemma w_phase_bal sc t1 hash txs h t2 :
  w_block_connected sc t1 (cache_block hash txs) h = Ok tt t2 -> forall v, bal t2 v <= bal t1 v.
Proof.
  intros E v. destruct (TowerLedger.w_block_spec sc t1 hash txs h t2 E) as [tb [invalid [HB [_ [Ha [_ [Hu _]]]]]]].
  destruct (TowerLedger.ua_fields _ _ (TowerLedger.bl_ua _ _ _ HB)) as [_ [Hub Hab]].
  unfold TowerLedger.bal, TowerLedger.avail, TowerLedger.held_t. rewrite Hu, Ha, Hub, Hab. unfold TowerLedger.del.
  pose proof (ssum_filter_filter_le (ofu v) (fun a => negb (mem_uuid (app_uuid a) invalid)) (db_apps t1)). lia.
Qed.

Lemma r_phase_bal le sc t2 hash txs h t3 :
  Inv t2 -> r_block_connected le sc t2 (index_block hash txs) h = Ok tt t3 -> forall v, bal t3 v <= bal t2 v.
Proof.
  intros HI E v. destruct (TowerLedger.r_block_spec le sc t2 hash txs h t3 HI E) as [completed [rej [_ [_ [_ [Ha Hv]]]]]].
  destruct (Hv v) as [_ Hav]. unfold TowerLedger.bal, TowerLedger.held_t. rewrite Hav, Ha.
  rewrite (ssum_split_mem v completed (db_apps t2)). unfold TowerLedger.del at 1.
  pose proof (ssum_filter_filter_le (ofu v) (fun a => negb (mem_uuid (app_uuid a) rej)) (TowerLedger.del completed (db_apps t2))). lia.
Qed.

Lemma gk_block_connected_wcache t h tg : gk_block_connected t h = Ok tt tg -> w_cache tg = w_cache t /\ cfg tg = cfg t.
Proof.
  unfold gk_block_connected. destruct (outdated_users (c_delta (cfg t)) h (gk_users t)) as [out|]; [|discriminate].
  destruct out; intros E; inversion E; split; reflexivity.
Qed.

(* ------------------------------------------------------------------------------------------ *)
(* 5. the big invariant and the envelope *)

Record IdxInv (t : tower) : Prop := {
  ii_wwf : idx_wf (w_cache t);
  ii_val : idx_val (r_index t);
  ii_len : len_ok (r_index t);
  ii_suffix : is_suffix (ti_blocks (w_cache t)) (ti_blocks (r_index t));
  ii_sizes : (ti_size (w_cache t) <= ti_size (r_index t))%nat
}.

Record BigInv (t : tower) : Prop := {
  bi_inv : Inv t;
  bi_chain : chain_inv t;
  bi_idx : IdxInv t;
  bi_exp : ExpInv t;
  bi_slot : SlotInv t
}.

(* THE ENVELOPE, one operation in one state (computable).  It excludes exactly the u32 overflow sites:
   - a first registration needs height + duration + grace <= 2^32-1 (S_gk_new_user_expiry_overflow now,
     S_gk_outdated_overflow at the next block) and the configured slots to be a u32;
   - a renewal that is granted needs the (saturated) new expiry + grace <= 2^32-1 (S_gk_outdated_overflow
     at the next block: F12) and the user's balance available + held + granted <= 2^32-1
     (S_gk_refund_overflow when a tracker of that user completes);
   - a block is connected at a height >= CONFIRMATIONS_BEFORE_RETRY (S_r_stale_underflow).
   API requests other than register, and disconnections, are unconstrained. *)
Definition envb (t : tower) (o : op) : bool :=
  match o with
  | ORegister u =>
      match gk_get t u with
      | None => N.leb (gk_height t + c_duration (cfg t) + c_delta (cfg t)) U32MAX && N.leb (c_slots (cfg t)) U32MAX
      | Some ui =>
          negb (N.leb (u_slots ui + c_slots (cfg t)) U32MAX) ||
          (N.leb (N.min U32MAX (u_expiry ui + c_duration (cfg t)) + c_delta (cfg t)) U32MAX &&
           N.leb (bal t u + c_slots (cfg t)) U32MAX)
      end
  | OConnect _ _ => N.leb RETRY (gk_height t + 1)
  | _ => true
  end.

(* CHAIN DISCIPLINE, one operation: a connected block carries a hash the responder's index does not hold
   (what TowerReorg.fresh_hashes asks; ODisconnect always removes the current tip by construction of `step`) *)
Definition chainb (t : tower) (o : op) : bool :=
  match o with OConnect hash _ => negb (memN hash (ti_blocks (r_index t))) | _ => true end.

Fixpoint in_envelope (le : bool) (t : tower) (h : list (op * script)) : bool :=
  match h with
  | [] => true
  | (o, sc) :: r => envb t o && in_envelope le (fst (step le t o sc)) r
  end.

Fixpoint chain_disciplined (le : bool) (t : tower) (h : list (op * script)) : bool :=
  match h with
  | [] => true
  | (o, sc) :: r => chainb t o && chain_disciplined le (fst (step le t o sc)) r
  end.

Lemma big_fresh t : BigInv t -> BigInv (fresh t).
Proof.
  intros [HI HC HX HE HS]. constructor.
  - eapply inv_frame; [|exact HI]. repeat split.
  - eapply chain_inv_core; [|exact HC]. repeat split.
  - destruct HX as [X1 X2 X3 X4 X5]. constructor; assumption.
  - exact HE.
  - exact HS.
Qed.

Lemma disconnect_height_pos t hash : chain_inv t -> len_ok (r_index t) -> last_hash t = Some hash -> 1 <= gk_height t.
Proof.
  intros HC Hl El. unfold last_hash in El. destruct (last_map_some _ _ El) as [bs Eb].
  unfold len_ok in Hl. rewrite Eb, app_length in Hl. cbn [length] in Hl. pose proof (ci_tip _ HC). lia.
Qed.

(* the three listeners of a connected block all return *)
Lemma connect_phases_ok le t hash txs sc :
  BigInv t -> RETRY <= gk_height t + 1 ->
  exists tg tw t',
    gk_block_connected (fresh t) (gk_height t + 1) = Ok tt tg /\
    w_block_connected sc tg (cache_block hash txs) (gk_height t + 1) = Ok tt tw /\
    r_block_connected le sc tw (index_block hash txs) (gk_height t + 1) = Ok tt t' /\
    step le t (OConnect hash txs) sc = (t', OBlockRes) /\
    Inv tg /\ Inv tw /\ (forall v, bal tw v <= bal t v).
Proof.
  intros HB Hr. apply big_fresh in HB. destruct HB as [HI HC HX HE HS]. set (h := gk_height t + 1).
  (* gatekeeper *)
  pose proof (gk_block_connected_ok (fresh t) h HI HE) as Hok. apply ok_ex in Hok. destruct Hok as [[] [tg Eg]].
  pose proof (gk_block_connected_pres Inv (sa_block _ inv_stable) _ h HI) as HIg. rewrite Eg in HIg. cbn [pres] in HIg.
  destruct (gk_block_connected_chain _ h tg HC) as [HCg [Hig Hhg]]; [cbn [gk_height fresh set_rpc_log]; unfold h; lia|exact Eg|].
  destruct (gk_block_connected_wcache _ _ _ Eg) as [Hwg _].
  (* watcher *)
  pose proof (w_block_connected_ok sc tg (cache_block hash txs) h) as Hok.
  rewrite Hwg, Hig in Hok. specialize (Hok (ii_wwf _ HX) (ii_val _ HX)). apply ok_ex in Hok. destruct Hok as [[] [tw Ew]].
  pose proof (w_block_connected_pres Inv (sb_wr _ (sa_block _ inv_stable)) sc tg (cache_block hash txs) h HIg) as HIw.
  rewrite Ew in HIw. cbn [pres] in HIw.
  pose proof (w_block_connected_presW _ chain_inv_stableW (fun _ => True) (fun _ => I) sc tg (cache_block hash txs) h HCg) as HCw.
  rewrite Ew in HCw. cbn [pres2] in HCw.
  destruct (w_block_connected_indexes _ _ _ _ _ Ew) as [_ [Hiw _]].
  assert (Hbal : forall v, bal tw v <= bal t v).
  { intros v. pose proof (w_phase_bal _ _ _ _ _ _ Ew v). pose proof (gk_phase_bal _ _ _ Eg v).
    change (bal (fresh t) v) with (bal t v) in *. lia. }
  (* responder *)
  pose proof (r_block_connected_ok le sc tw (index_block hash txs) h HIw) as Hok.
  rewrite Hiw, Hig in Hok. specialize (Hok (ci_idx _ HC) (ci_memo _ HCw)).
  assert (HSw : SlotInv tw) by (intros v; specialize (Hbal v); specialize (HS v); change (bal (fresh t) v) with (bal t v) in HS; lia).
  specialize (Hok HSw Hr). apply ok_ex in Hok. destruct Hok as [[] [t' Er]].
  exists tg, tw, t'. split; [exact Eg|]. split; [exact Ew|]. split; [exact Er|].
  split; [|split; [exact HIg|split; [exact HIw|exact Hbal]]].
  cbn [step]. change (set_rpc_log t []) with (fresh t). change (gk_height (fresh t)) with (gk_height t).
  change Consts.LISTENER_ORDER with [0%Z; 1%Z; 2%Z]. cbn [run_listeners]. unfold listener_connected. cbn [Z.eqb Pos.eqb].
  fold h. rewrite Eg. cbn [bind]. rewrite Ew. cbn [bind]. rewrite Er. reflexivity.
Qed.

Lemma disconnect_shape le t sc hash :
  last_hash t = Some hash -> 1 <= gk_height t ->
  exists t', step le t ODisconnect sc = (t', OBlockRes) /\
             r_index t' = ti_disconnect (r_index t) hash /\ w_cache t' = ti_disconnect (w_cache t) hash.
Proof.
  intros El Hh. cbn [step]. change (last_hash (set_rpc_log t [])) with (last_hash t). rewrite El.
  change Consts.LISTENER_ORDER with [0%Z; 1%Z; 2%Z]. cbn [run_listeners]. unfold listener_disconnected. cbn [Z.eqb Pos.eqb].
  unfold gk_block_disconnected, w_block_disconnected, r_block_disconnected, u32_sub.
  change (gk_height (set_rpc_log t [])) with (gk_height t). apply N.leb_le in Hh. rewrite !Hh. cbn [bind wrap].
  eexists. split; [reflexivity|]. split; reflexivity.
Qed.

(* ONE STEP NEVER ABORTS: from a state satisfying the big invariant, inside the envelope, whatever the
   operation, the node's answers and the logging flag *)
Theorem step_never_aborts le t o sc : BigInv t -> envb t o = true -> not_abort (snd (step le t o sc)).
Proof.
  intros HB Henv. pose proof HB as [HI HC HX HE HS].
  destruct o as [u|signer loc b delay sig|signer loc|signer|hash txs|].
  - cbn [envb] in Henv. destruct (gk_get t u) as [ui|] eqn:Eg.
    + destruct (N.leb_spec (u_slots ui + c_slots (cfg t)) U32MAX) as [Hs|Hs].
      * rewrite (register_renew le t sc u ui Eg Hs). exact I.
      * rewrite (register_max_slots le t sc u ui Eg Hs). exact I.
    + apply andb_true_iff in Henv. destruct Henv as [He _]. apply N.leb_le in He.
      assert (Hm : amem (db_users t) u = false).
      { unfold amem. rewrite <- (inv_sync t HI). unfold gk_get in Eg. rewrite Eg. reflexivity. }
      rewrite (register_new le t sc u Eg Hm); [exact I|lia].
  - cbn [step]. apply ok_wrap; [intros; exact I|]. apply big_fresh in HB.
    apply add_appointment_ok. exact (ii_val _ (bi_idx _ HB)).
  - apply reads_never_abort.
  - apply reads_never_abort.
  - cbn [envb] in Henv. apply N.leb_le in Henv.
    destruct (connect_phases_ok le t hash txs sc HB Henv) as [tg [tw [t' [_ [_ [_ [Es _]]]]]]]. rewrite Es. exact I.
  - destruct (last_hash t) as [hash|] eqn:El.
    + destruct (disconnect_shape le t sc hash El (disconnect_height_pos t hash HC (ii_len _ HX) El)) as [t' [Es _]].
      rewrite Es. exact I.
    + cbn [step]. change (last_hash (set_rpc_log t [])) with (last_hash t). rewrite El. exact I.
Qed.

(* ------------------------------------------------------------------------------------------ *)
(* 6. the big invariant is preserved by every step inside the envelope and the chain discipline *)

Lemma same_ledger_exp t t' : TowerLedger.same_ledger t t' -> ExpInv t -> ExpInv t'.
Proof. intros [_ [Hu [_ [_ Hc]]]] HE u ui. rewrite Hu, Hc. apply HE. Qed.

Lemma same_ledger_slot t t' : TowerLedger.same_ledger t t' -> SlotInv t -> SlotInv t'.
Proof. intros Hs HS v. destruct (TowerLedger.same_ledger_bal t t' Hs v) as [_ Hb]. rewrite Hb. apply HS. Qed.

Lemma store_triggered_indexes sc t a d t' :
  w_store_triggered sc t a d = Ok tt t' -> r_index t' = r_index t /\ w_cache t' = w_cache t.
Proof.
  unfold w_store_triggered. destruct (decrypt (a_blob a) d) as [p|].
  - destruct (w_store_ok t a); [|intros H; inversion H; split; reflexivity].
    destruct (w_store_appointment t a) as [[] t1|] eqn:E1; cbn [bind]; [|discriminate].
    apply store_appointment_indexes in E1. destruct E1 as [Hi1 Hw1].
    destruct (r_handle_breach sc t1 (app_uuid a) d p) as [s t2|] eqn:E2; cbn [bind]; [|discriminate].
    apply handle_breach_kcore in E2. apply kcore_fields in E2. destruct E2 as [_ [_ [_ [_ [_ [Hi2 [Hw2 _]]]]]]].
    destruct (status_rejected s); unfold gk_delete_appointments; intros H; inversion H; subst t'; clear H;
      cbn [r_index w_cache db_delete_apps set_db_trks set_db_apps]; split; congruence.
  - destruct (find_app (db_apps t) (app_uuid a)); unfold gk_delete_appointments; intros H; inversion H; subst; split; reflexivity.
Qed.

Lemma add_appointment_indexes sc t signer loc b delay sig r t' :
  w_add_appointment sc t signer loc b delay sig = Ok r t' -> r_index t' = r_index t /\ w_cache t' = w_cache t.
Proof.
  unfold w_add_appointment.
  destruct (authenticate t signer) as [u|]; [|intros H; inversion H; split; reflexivity].
  destruct (gk_get t u) as [ui|] eqn:Eg; [|intros H; inversion H; split; reflexivity].
  destruct (N.leb (u_expiry ui) (gk_height t)); [intros H; inversion H; split; reflexivity|].
  destruct (find_trk (db_trks t) (loc, u)); [intros H; inversion H; split; reflexivity|].
  unfold gk_add_update_appointment. rewrite Eg.
  match goal with |- context [if ?c then _ else _] => destruct c end; cbn [bind]; [|intros H; inversion H; split; reflexivity].
  set (t1 := p_set_user t u _). cbv zeta.
  change (w_cache t1) with (w_cache t).
  destruct (ti_get (w_cache t) loc) as [d|].
  - match goal with |- context [w_store_triggered sc t1 ?a d] => destruct (w_store_triggered sc t1 a d) as [[] t2|] eqn:E2 end;
      cbn [bind]; try match goal with |- context [if ?c then _ else _] => destruct c end;
      intros H; inversion H; subst; apply store_triggered_indexes in E2; exact E2.
  - match goal with |- context [w_store_appointment t1 ?a] => destruct (w_store_appointment t1 a) as [[] t2|] eqn:E2 end;
      cbn [bind]; try match goal with |- context [if ?c then _ else _] => destruct c end;
      intros H; inversion H; subst; apply store_appointment_indexes in E2; exact E2.
Qed.

Lemma idx_inv_same t t' : r_index t' = r_index t -> w_cache t' = w_cache t -> IdxInv t -> IdxInv t'.
Proof. intros Hi Hw [X1 X2 X3 X4 X5]. constructor; rewrite ?Hi, ?Hw; assumption. Qed.

Lemma idx_wf_disconnect_suffix (w r : txindex N) hash :
  idx_wf w -> is_suffix (ti_blocks w) (ti_blocks r) -> last (map Some (ti_blocks r)) None = Some hash ->
  idx_wf (ti_disconnect w hash).
Proof.
  intros Hwf [p Hp] Hl.
  assert (Hcase : ti_blocks w = [] \/ exists wr w0, ti_blocks w = wr ++ [w0]).
  { destruct (ti_blocks w) as [|w0 wr _] using rev_ind; [left; reflexivity|right; eauto]. }
  destruct Hcase as [Ew|[wr [w0 Ew]]].
  - unfold ti_disconnect. destruct (aget (ti_txs w) hash); [|exact Hwf]. rewrite Ew.
    split; cbn [ti_blocks]; [constructor|intros h []].
  - destruct (last_map_some _ _ Hl) as [bs Eb]. rewrite Ew, Eb, app_assoc in Hp.
    apply app_inj_tail in Hp. destruct Hp as [_ Hx]. subst w0.
    apply (idx_wf_disconnect w hash Hwf). rewrite Ew, map_app. cbn [map]. apply last_last.
Qed.

Lemma ti_disconnect_size (i : txindex N) hash : ti_size (ti_disconnect i hash) = ti_size i.
Proof. unfold ti_disconnect. destruct (aget (ti_txs i) hash); [|reflexivity]. destruct (ti_blocks i); reflexivity. Qed.

Theorem step_big le t o sc :
  BigInv t -> envb t o = true -> chainb t o = true -> BigInv (fst (step le t o sc)).
Proof.
  intros HB Henv Hch. pose proof (step_never_aborts le t o sc HB Henv) as Hna.
  pose proof HB as [HI HC HX HE HS].
  assert (Hfresh : match o with OConnect hash _ => ~ In hash (ti_blocks (r_index t)) | _ => True end).
  { destruct o; try exact I. cbn [chainb] in Hch. apply negb_true_iff in Hch. apply memN_false in Hch. exact Hch. }
  pose proof (step_pres Inv inv_stable le t o sc HI Hna) as HI'.
  pose proof (step_chain le t o sc HI HC Hfresh Hna) as HC'.
  pose proof (TowerLedger.step_cfg le t o sc Hna) as Hcfg.
  destruct (step le t o sc) as [t' x] eqn:Es. cbn [fst snd] in *.
  pose proof (TowerLedger.step_out_shape le t o sc t' x Es) as Hshape.
  constructor; [exact HI'|exact HC'|..];
    destruct o as [u|signer loc b delay sig|signer loc|signer|hash txs|]; destruct x as [r|r|r|r| |s]; try contradiction.
  (* ---- IdxInv ---- *)
  - assert (Hi : r_index t' = r_index t /\ w_cache t' = w_cache t).
    { revert Es. cbn [step wrap]. unfold gk_add_update_user.
      destruct (gk_get (set_rpc_log t []) u) as [ui|].
      - destruct (u32_add (u_slots ui) _); cbn [wrap]; intros H; inversion H; subst; split; reflexivity.
      - destruct (u32_add (gk_height _) _); [|cbn [wrap]; intros H; inversion H].
        destruct (amem _ u); cbn [wrap]; intros H; inversion H; subst; split; reflexivity. }
    destruct Hi as [Hi Hw]. exact (idx_inv_same t t' Hi Hw HX).
  - assert (Hi : r_index t' = r_index t /\ w_cache t' = w_cache t).
    { revert Es. cbn [step].
      destruct (w_add_appointment sc (set_rpc_log t []) signer loc b delay sig) as [r0 t0|s0 t0] eqn:Ea; cbn [wrap]; intros H; inversion H; subst.
      apply add_appointment_indexes in Ea. exact Ea. }
    destruct Hi as [Hi Hw]. exact (idx_inv_same t t' Hi Hw HX).
  - destruct (get_unchanged le t sc signer loc) as [r' Hr']. rewrite Hr' in Es. inversion Es; subst. exact (bi_idx _ (big_fresh t HB)).
  - destruct (getsub_unchanged le t sc signer) as [r' Hr']. rewrite Hr' in Es. inversion Es; subst. exact (bi_idx _ (big_fresh t HB)).
  - cbn [envb] in Henv. apply N.leb_le in Henv.
    destruct (connect_phases_ok le t hash txs sc HB Henv) as [tg [tw [t'' [Eg [Ew [Er [Es' [HIg [HIw _]]]]]]]]].
    rewrite Es in Es'. inversion Es'. subst t''. clear Es'.
    destruct (gk_block_connected_wcache _ _ _ Eg) as [Hwg _].
    destruct (TowerLedger.gk_block_spec _ _ _ Eg) as [_ [_ [_ [_ [Hig _]]]]].
    destruct (w_block_connected_indexes _ _ _ _ _ Ew) as [Euw [Hiw _]].
    destruct (r_block_connected_facts le sc tw _ _ t' HIw Er) as [lim [t5 F]].
    pose proof (rf_index _ _ _ _ _ _ _ F) as Eur. destruct (rf_heights _ _ _ _ _ _ _ F) as [_ [_ [Hwr _]]].
    rewrite Hwg in Euw. change (w_cache (fresh t)) with (w_cache t) in Euw. rewrite <- Hwr in Euw.
    rewrite Hiw, Hig in Eur. change (r_index (fresh t)) with (r_index t) in Eur.
    destruct HX as [X1 X2 X3 X4 X5].
    assert (Hfw : ~ In (ib_hash (cache_block hash txs)) (ti_blocks (w_cache t))).
    { cbn [ib_hash cache_block]. intros Hin. apply Hfresh. destruct X4 as [p Hp]. rewrite Hp. apply in_or_app. right. exact Hin. }
    constructor.
    + exact (proj1 (idx_wf_update _ _ _ X1 Hfw Euw)).
    + exact (idx_val_update _ _ _ X2 (index_block_self hash txs) Hfresh Eur).
    + exact (len_ok_update _ _ _ X3 Eur).
    + exact (suffix_update (w_cache t) (r_index t) (cache_block hash txs) (index_block hash txs) _ _ X4 X5 eq_refl Euw Eur).
    + destruct (ti_update_blocks _ _ _ Euw) as [Hs1 _]. destruct (ti_update_blocks _ _ _ Eur) as [Hs2 _]. lia.
  - destruct (last_hash t) as [hash|] eqn:El.
    + destruct (disconnect_shape le t sc hash El (disconnect_height_pos t hash HC (ii_len _ HX) El)) as [t'' [Es' [Hi Hw]]].
      rewrite Es in Es'. inversion Es'. subst t''. clear Es'. destruct HX as [X1 X2 X3 X4 X5].
      constructor; rewrite ?Hi, ?Hw.
      * exact (idx_wf_disconnect_suffix _ _ hash X1 X4 El).
      * exact (idx_val_disconnect _ hash X2 El).
      * exact (len_ok_disconnect _ hash X3).
      * exact (suffix_disconnect _ _ hash X4 X1 (ci_idx _ HC) El).
      * rewrite !ti_disconnect_size. exact X5.
    + revert Es. cbn [step]. change (last_hash (set_rpc_log t [])) with (last_hash t). rewrite El.
      intros H; inversion H; subst. exact (bi_idx _ (big_fresh t HB)).
  (* ---- ExpInv ---- *)
  - cbn [envb] in Henv. intros v vi. rewrite Hcfg. revert Es. destruct (gk_get t u) as [ui|] eqn:Eg.
    + destruct (N.leb_spec (u_slots ui + c_slots (cfg t)) U32MAX) as [Hs|Hs].
      * rewrite (register_renew le t sc u ui Eg Hs). intros H; inversion H; subst t'; clear H.
        unfold p_set_user, db_update_user. cbn [db_users set_db_users gk_put set_gk_users fresh set_rpc_log].
        rewrite aget_map_update. destruct (N.eqb v u) eqn:Ev; [|apply HE].
        destruct (aget (db_users t) v); [|discriminate]. intros H; inversion H; subst vi; clear H. cbn [u_expiry].
        cbn [negb orb] in Henv. apply andb_true_iff in Henv.
        destruct Henv as [He _]. apply N.leb_le in He. exact He.
      * rewrite (register_max_slots le t sc u ui Eg Hs). intros H; inversion H; subst t'; clear H. apply HE.
    + apply andb_true_iff in Henv. destruct Henv as [He _]. apply N.leb_le in He.
      assert (Hm : amem (db_users t) u = false).
      { unfold amem. rewrite <- (inv_sync t HI). unfold gk_get in Eg. rewrite Eg. reflexivity. }
      rewrite (register_new le t sc u Eg Hm) by lia. intros H; inversion H; subst t'; clear H.
      unfold p_new_user. cbn [db_users set_db_users gk_put set_gk_users fresh set_rpc_log].
      rewrite aget_app_single. destruct (aget (db_users t) v) as [x|] eqn:Ex; [intros H; inversion H; subst; apply (HE v); exact Ex|].
      destruct (N.eqb v u); [|discriminate]. intros H; inversion H; subst vi. cbn [u_expiry]. exact He.
  - intros v vi.
    pose proof (TowerLedger.add_refused_same le t signer loc b delay sig sc t' _ (inv_user_rows t HI) Es) as Hs.
    destruct r as [st sg sl e| | |]; cbn beta iota in Hs;
      [clear Hs; rewrite Hcfg|exact (same_ledger_exp t t' Hs HE v vi)..].
    destruct (TowerLedger.add_ok_shape le t signer loc b delay sig sc t' st sg sl e HI Es) as [u [ui [_ [Eu [_ [_ [Hu' _]]]]]]].
    rewrite Hu', aget_map_update. destruct (N.eqb v u) eqn:Ev; [|apply HE].
    apply N.eqb_eq in Ev. subst v. rewrite Eu. intros H; inversion H; subst vi. cbn [u_expiry]. apply (HE u). exact Eu.
  - destruct (get_unchanged le t sc signer loc) as [r' Hr']. rewrite Hr' in Es. inversion Es; subst. exact HE.
  - destruct (getsub_unchanged le t sc signer) as [r' Hr']. rewrite Hr' in Es. inversion Es; subst. exact HE.
  - intros v vi Hv. rewrite Hcfg. pose proof (connect_purges_exactly le t hash txs sc t' HI Es v) as Hp.
    rewrite Hv in Hp. cbn [option_map] in Hp. destruct (aget (db_users t) v) as [ui|] eqn:Eu; [|discriminate].
    destruct (N.leb _ _); [discriminate|]. inversion Hp as [[H1 H2]]. rewrite H2. apply (HE v). exact Eu.
  - exact (same_ledger_exp t t' (TowerLedger.disconnect_bal le t sc t' _ Es) HE).
  (* ---- SlotInv ---- *)
  - cbn [envb] in Henv. intros v. pose proof (TowerLedger.register_bal le t u sc t' r HI Es) as Hb.
    destruct r as [s st e|]; [|exact (same_ledger_slot t t' Hb HS v)].
    destruct Hb as [Hnew [Hren [_ [_ Hoth]]]].
    destruct (N.eqb_spec v u) as [->|Hne]; [|destruct (Hoth v Hne) as [_ Hbv]; rewrite Hbv; apply HS].
    destruct (gk_get t u) as [ui|] eqn:Eg.
    + assert (Hm : amem (db_users t) u = true).
      { unfold amem. rewrite <- (inv_sync t HI). unfold gk_get in Eg. rewrite Eg. reflexivity. }
      rewrite (Hren Hm).
      destruct (N.leb_spec (u_slots ui + c_slots (cfg t)) U32MAX) as [Hs|Hs].
      * cbn [negb orb] in Henv. apply andb_true_iff in Henv.
        destruct Henv as [_ He]. apply N.leb_le in He. exact He.
      * exfalso. rewrite (register_max_slots le t sc u ui Eg Hs) in Es. inversion Es.
    + assert (Hm : amem (db_users t) u = false).
      { unfold amem. rewrite <- (inv_sync t HI). unfold gk_get in Eg. rewrite Eg. reflexivity. }
      rewrite (Hnew Hm). apply andb_true_iff in Henv. destruct Henv as [_ He]. apply N.leb_le in He. exact He.
  - intros v. pose proof (TowerLedger.add_bal le t signer loc b delay sig sc t' r HI Es) as Hb.
    destruct r as [st sg sl e| | |]; try exact (same_ledger_slot t t' Hb HS v).
    destruct Hb as [u [_ [_ [_ [Hu Hoth]]]]].
    destruct (N.eqb_spec v u) as [->|Hne]; [|destruct (Hoth v Hne) as [_ [_ Hbv]]; rewrite Hbv; apply HS].
    pose proof (HS u) as Hsu. assert (Hlt : bal t u < U32MOD) by (unfold U32MOD, U32MAX in *; lia).
    destruct (Hu Hlt) as [_ Hb2]. destruct (TowerLedger.held_version _ _ _ _); lia.
  - destruct (get_unchanged le t sc signer loc) as [r' Hr']. rewrite Hr' in Es. inversion Es; subst. exact HS.
  - destruct (getsub_unchanged le t sc signer) as [r' Hr']. rewrite Hr' in Es. inversion Es; subst. exact HS.
  - cbn [envb] in Henv. apply N.leb_le in Henv.
    destruct (connect_phases_ok le t hash txs sc HB Henv) as [tg [tw [t'' [Eg [Ew [Er [Es' [HIg [HIw Hbal]]]]]]]]].
    rewrite Es in Es'. inversion Es'. subst t''. clear Es'.
    intros v. pose proof (r_phase_bal le sc tw hash txs _ t' HIw Er v). specialize (Hbal v). specialize (HS v). lia.
  - exact (same_ledger_slot t t' (TowerLedger.disconnect_bal le t sc t' _ Es) HS).
Qed.

(* ------------------------------------------------------------------------------------------ *)
(* 7. the bootstrap state satisfies the big invariant *)

Lemma NoDup_firstn {A} n : forall (l : list A), NoDup l -> NoDup (firstn n l).
Proof.
  induction n as [|n IH]; intros [|x l] H; cbn [firstn]; try constructor.
  - apply NoDup_cons_iff in H. destruct H as [Hx Hl]. intros Hin. apply Hx.
    rewrite <- (firstn_skipn n l). apply in_or_app. left. exact Hin.
  - apply IH. apply NoDup_cons_iff in H. tauto.
Qed.

Lemma idx_updates_val bs : forall (i i' : txindex N),
  idx_wf i -> idx_val i -> NoDup (map ib_hash bs) -> (forall b, In b bs -> ~ In (ib_hash b) (ti_blocks i)) ->
  (forall b, In b bs -> blk_self b) -> ti_updates i bs = Some i' -> idx_val i'.
Proof.
  induction bs as [|b bs IH]; intros i i' Hwf Hv Hnd Hfr Hself E; cbn [ti_updates] in E; [inversion E; subst; exact Hv|].
  destruct (ti_update i b) as [i1|] eqn:E1; [|discriminate].
  cbn [map] in Hnd. apply NoDup_cons_iff in Hnd. destruct Hnd as [Hb Hnd].
  destruct (idx_wf_update i b i1 Hwf (Hfr b (or_introl eq_refl)) E1) as [Hwf1 [_ Hsub]].
  pose proof (idx_val_update i b i1 Hv (Hself b (or_introl eq_refl)) (Hfr b (or_introl eq_refl)) E1) as Hv1.
  apply (IH i1 i' Hwf1 Hv1 Hnd); [| |exact E].
  - intros b' Hb' Hin. destruct (Hsub _ Hin) as [H|H].
    + apply (Hfr b' (or_intror Hb')). exact H.
    + apply Hb. rewrite <- H. apply in_map. exact Hb'.
  - intros b' Hb'. apply Hself. right. exact Hb'.
Qed.

Lemma hashes_rev (f : N * list N -> iblock N) (l : list (N * list N)) :
  (forall b, ib_hash (f b) = fst b) -> map ib_hash (rev (map f l)) = rev (map fst l).
Proof. intros Hf. rewrite map_rev, map_map. f_equal. apply map_ext. exact Hf. Qed.

(* bootstrap hypotheses: the last blocks handed to the tower have pairwise distinct hashes (they are
   blocks of one chain) and do not include the genesis block (|blocks| <= height of the tip) *)
Theorem big_init c h0 boot t0 :
  init c h0 boot = Some t0 -> NoDup (map fst boot) -> N.of_nat (length boot) <= h0 -> BigInv t0.
Proof.
  intros Hi Hnd Hlen. constructor.
  - exact (inv_init _ _ _ _ Hi).
  - exact (chain_inv_init _ _ _ _ Hi Hnd).
  - unfold init in Hi. change (Z.to_nat Consts.WATCHER_CACHE_FROM) with 0%nat in Hi.
    set (n := Z.to_nat Consts.WATCHER_CACHE_TO) in Hi. unfold sublist in Hi. cbn [skipn] in Hi. rewrite Nat.sub_0_r in Hi.
    destruct (ti_new (map (fun b => cache_block (fst b) (snd b)) (firstn n boot)) (Z.of_N h0)) as [wc|] eqn:Ew; [|discriminate].
    destruct (ti_new (map (fun b => index_block (fst b) (snd b)) boot) (Z.of_N h0)) as [ri|] eqn:Er; [|discriminate].
    inversion Hi. subst t0. clear Hi. cbn [w_cache r_index].
    destruct (ti_new_blocks _ _ _ Ew) as [Hwb [Hws Hwt]]. destruct (ti_new_blocks _ _ _ Er) as [Hrb [Hrs Hrt]].
    rewrite (hashes_rev (fun b => cache_block (fst b) (snd b))) in Hwb by reflexivity.
    rewrite (hashes_rev (fun b => index_block (fst b) (snd b))) in Hrb by reflexivity.
    constructor; cbn [w_cache r_index].
    + unfold ti_new in Ew. destruct (ti_updates _ _) as [tw|] eqn:Eu; [|discriminate]. inversion Ew.
      assert (Hwf : idx_wf tw).
      { eapply (idx_wf_updates _ _ tw); [| | |exact Eu].
        - split; cbn [ti_blocks]; [constructor|intros h []].
        - rewrite (hashes_rev (fun b => cache_block (fst b) (snd b))) by reflexivity. apply NoDup_rev.
          rewrite <- firstn_map. apply NoDup_firstn. exact Hnd.
        - intros b _ []. }
      destruct Hwf as [H1 H2]. split; cbn [ti_blocks ti_txs]; assumption.
    + unfold ti_new in Er. destruct (ti_updates _ _) as [tr|] eqn:Eu; [|discriminate]. inversion Er.
      assert (Hv : idx_val tr).
      { eapply (idx_updates_val _ _ tr); [| | | | |exact Eu].
        - split; cbn [ti_blocks]; [constructor|intros h []].
        - intros k v [].
        - rewrite (hashes_rev (fun b => index_block (fst b) (snd b))) by reflexivity. apply NoDup_rev. exact Hnd.
        - intros b _ [].
        - intros b Hb. apply in_rev in Hb. apply in_map_iff in Hb. destruct Hb as [x [Hx _]]. subst b. apply index_block_self. }
      exact Hv.
    + unfold len_ok. rewrite Hrb, Hrt, rev_length, map_length. lia.
    + rewrite Hwb, Hrb. exists (rev (map fst (skipn n boot))).
      rewrite <- rev_app_distr, <- map_app, firstn_skipn. reflexivity.
    + rewrite Hws, Hrs, !map_length. rewrite firstn_length. lia.
  - unfold init in Hi. destruct (ti_new _ _); [|discriminate]. destruct (ti_new _ _); [|discriminate].
    inversion Hi. subst t0. intros u ui. cbn [db_users aget]. discriminate.
  - unfold init in Hi. destruct (ti_new _ _); [|discriminate]. destruct (ti_new _ _); [|discriminate].
    inversion Hi. subst t0. intros v. unfold TowerLedger.bal, TowerLedger.avail, TowerLedger.held_t.
    cbn [db_users db_apps aget filter TowerLedger.ssum fold_right]. unfold U32MAX. lia.
Qed.

(* ------------------------------------------------------------------------------------------ *)
(* 8. histories *)

Theorem no_abort_from le : forall h t,
  BigInv t -> in_envelope le t h = true -> chain_disciplined le t h = true ->
  Forall not_abort (snd (run le t h)) /\ BigInv (fst (run le t h)) /\ length (snd (run le t h)) = length h.
Proof.
  induction h as [|[o sc] h IH]; intros t HB He Hc; cbn [run].
  - split; [constructor|split; [exact HB|reflexivity]].
  - cbn [in_envelope chain_disciplined] in He, Hc. apply andb_true_iff in He, Hc.
    destruct He as [He1 He2]. destruct Hc as [Hc1 Hc2].
    pose proof (step_never_aborts le t o sc HB He1) as Hna. pose proof (step_big le t o sc HB He1 Hc1) as HB1.
    destruct (step le t o sc) as [t1 x]. cbn [fst snd] in *.
    specialize (IH t1 HB1 He2 Hc2). destruct (run le t1 h) as [t2 xs]. cbn [fst snd] in IH. destruct IH as [A [B C]].
    destruct x; try contradiction; cbn [fst snd length];
      (split; [constructor; [exact I|exact A]|split; [exact B|f_equal; exact C]]).
Qed.

(* C11 no_abort_seq: from a bootstrapped tower, along EVERY history of requests, block events and node
   answers inside the envelope and the chain discipline, for both values of the logging flag, no handler
   aborts. *)
Theorem no_abort_seq le c h0 blocks t0 h :
  init c h0 blocks = Some t0 -> NoDup (map fst blocks) -> N.of_nat (length blocks) <= h0 ->
  in_envelope le t0 h = true -> chain_disciplined le t0 h = true ->
  Forall not_abort (snd (run le t0 h)).
Proof.
  intros Hi Hnd Hlen He Hc. exact (proj1 (no_abort_from le h t0 (big_init c h0 blocks t0 Hi Hnd Hlen) He Hc)).
Qed.

Theorem big_inv_reachable le c h0 blocks t0 h :
  init c h0 blocks = Some t0 -> NoDup (map fst blocks) -> N.of_nat (length blocks) <= h0 ->
  in_envelope le t0 h = true -> chain_disciplined le t0 h = true ->
  BigInv (fst (run le t0 h)).
Proof.
  intros Hi Hnd Hlen He Hc. exact (proj1 (proj2 (no_abort_from le h t0 (big_init c h0 blocks t0 Hi Hnd Hlen) He Hc))).
Qed.

(* Poisoning.  Tower.v has no poisoned-lock flag: an abort ends `run` (the tower is dead, nothing later is
   answered).  In that representation "no poisoned lock" reads: the outputs are as many as the operations. *)
Lemma run_no_abort_complete le : forall h t,
  Forall not_abort (snd (run le t h)) -> length (snd (run le t h)) = length h.
Proof.
  induction h as [|[o sc] h IH]; intros t; cbn [run]; [reflexivity|].
  destruct (step le t o sc) as [t1 x]. specialize (IH t1). destruct (run le t1 h) as [t2 xs]. cbn [fst snd] in *.
  destruct x; cbn [snd length]; intros Hall; inversion Hall; subst; try contradiction; f_equal; apply IH; assumption.
Qed.

(* an abort is final: it is the last output, and the rest of the history is never processed *)
Lemma run_abort_is_last le : forall h t s,
  In (OAbort s) (snd (run le t h)) -> exists xs, snd (run le t h) = xs ++ [OAbort s] /\ Forall not_abort xs.
Proof.
  induction h as [|[o sc] h IH]; intros t s; cbn [run]; [intros []|].
  destruct (step le t o sc) as [t1 x]. specialize (IH t1 s). destruct (run le t1 h) as [t2 xs]. cbn [fst snd] in *.
  destruct x; cbn [snd];
    try (intros [Hx|Hin]; [discriminate|]; destruct (IH Hin) as [ys [Hy Hf]]; rewrite Hy;
         eexists (_ :: ys); split; [reflexivity|constructor; [exact I|exact Hf]]).
  intros [Hx|[]]. inversion Hx. subst. exists []. split; [reflexivity|constructor].
Qed.

(* C11 no_poison: inside the envelope every operation of the history is answered, by a non-abort output,
   and afterwards the tower still answers: any further in-envelope operation gets a non-abort output. *)
Theorem no_poison le c h0 blocks t0 h :
  init c h0 blocks = Some t0 -> NoDup (map fst blocks) -> N.of_nat (length blocks) <= h0 ->
  in_envelope le t0 h = true -> chain_disciplined le t0 h = true ->
  length (snd (run le t0 h)) = length h /\ Forall not_abort (snd (run le t0 h)) /\
  forall o sc, envb (fst (run le t0 h)) o = true -> not_abort (snd (step le (fst (run le t0 h)) o sc)).
Proof.
  intros Hi Hnd Hlen He Hc.
  destruct (no_abort_from le h t0 (big_init c h0 blocks t0 Hi Hnd Hlen) He Hc) as [A [B C]].
  split; [exact C|]. split; [exact A|]. intros o sc Ho. exact (step_never_aborts le _ o sc B Ho).
Qed.

(* ------------------------------------------------------------------------------------------ *)
(* 9. the logging flag is irrelevant (since the repair of F17 the log arguments cannot panic) *)

Lemma check_conf_loop_le txids h : forall snap t comp,
  check_conf_loop true txids h snap t comp = check_conf_loop false txids h snap t comp.
Proof.
  induction snap as [|k snap IH]; intros t comp; cbn [check_conf_loop]; [reflexivity|].
  destruct (memN (t_penalty k) txids).
  - destruct (find_trk (db_trks t) (trk_uuid k)); [apply IH|reflexivity].
  - destruct (mem_uuid (trk_uuid k) (reorged t)); [apply IH|]. destruct (t_conf k); apply IH.
Qed.

Lemma run_listeners_ext (f g : Z -> tower -> res unit) order :
  (forall w t, f w t = g w t) -> forall t, run_listeners f order t = run_listeners g order t.
Proof.
  intros Hfg. induction order as [|w order IH]; intros t; cbn [run_listeners]; [reflexivity|].
  rewrite Hfg. destruct (g w t) as [a t1|s t1]; cbn [bind]; [apply IH|reflexivity].
Qed.

Theorem step_le_irrelevant t o sc : step true t o sc = step false t o sc.
Proof.
  destruct o; cbn [step]; try reflexivity. f_equal. apply run_listeners_ext. intros w t0.
  unfold listener_connected. destruct (Z.eqb w 0); [reflexivity|]. destruct (Z.eqb w 1); [reflexivity|].
  unfold r_block_connected. destruct (ti_update _ _); [|reflexivity]. rewrite check_conf_loop_le. reflexivity.
Qed.

Theorem run_le_irrelevant : forall h t, run true t h = run false t h.
Proof.
  induction h as [|[o sc] h IH]; intros t; cbn [run]; [reflexivity|].
  rewrite step_le_irrelevant. destruct (step false t o sc) as [t1 x]. rewrite IH. reflexivity.
Qed.

(* ------------------------------------------------------------------------------------------ *)
(* 10. every hypothesis of no_abort_seq is needed: outside each clause a handler of the faithful model
   does abort (witnesses by computation; all the other hypotheses hold in each of them) *)

Definition boot2 : list (N * list N) := [(900, []); (899, [])].
Lemma boot2_nodup : NoDup (map fst boot2).
Proof. cbn. constructor; [intros [H|[]]; discriminate|constructor; [intros []|constructor]]. Qed.

Definition aborts_with (s : site) (c : config) (h0 : N) (blocks : list (N * list N)) (h : list (op * script)) : Prop :=
  exists t0, init c h0 blocks = Some t0 /\ last (snd (run true t0 h)) OBlockRes = OAbort s.

(* ... while the remaining hypotheses hold: (in_envelope, chain_disciplined) *)
Definition hyps_of (c : config) (h0 : N) (blocks : list (N * list N)) (h : list (op * script)) : option (bool * bool) :=
  match init c h0 blocks with
  | Some t0 => Some (in_envelope true t0 h, chain_disciplined true t0 h)
  | None => None
  end.

(* the slot clause of a renewal (available + held + granted > 2^32-1): the refund of a completed tracker overflows *)
Definition slots_cfg : config := mk_config U32MAX 1000 10.
Definition slots_hist : list (op * script) :=
  [ (ORegister 1, []);
    (OAdd (Some 1) 50 (mk_blob 50 (Some 51) (U32MAX * 2048)) 20 7, []);   (* takes all 2^32-1 slots *)
    (ORegister 1, []);                                                     (* 2^32-1 more: outside the envelope *)
    (OConnect 1001 [50], [(51, (G_not_found, A_ok))]);                     (* breach, penalty accepted *)
    (OConnect 1002 [51], []) ]                                             (* penalty confirmed *)
  ++ map (fun i => (OConnect (2000 + N.of_nat i) [], [])) (seq 0 100).    (* ... 100 confirmations: refund *)

Ltac witness :=
  match goal with |- aborts_with _ ?c ?h0 ?b _ /\ _ =>
    split; [|vm_compute; reflexivity];
    destruct (init c h0 b) as [t0|] eqn:Ei; [|vm_compute in Ei; discriminate];
    exists t0; split; [exact Ei|]; vm_compute in Ei; inversion Ei; subst t0; vm_compute; reflexivity
  end.

Theorem envelope_slots_needed :
  aborts_with S_gk_refund_overflow slots_cfg 100 boot2 slots_hist /\
  hyps_of slots_cfg 100 boot2 slots_hist = Some (false, true).
Proof. witness. Qed.

(* the expiry clause of a renewal (F12): the saturated expiry + grace overflows at the next block *)
Definition expiry_cfg : config := mk_config 10 2147483648 10.
Definition expiry_hist : list (op * script) := [ (ORegister 1, []); (ORegister 1, []); (OConnect 1001 [], []) ].

Theorem envelope_expiry_needed :
  aborts_with S_gk_outdated_overflow expiry_cfg 100 boot2 expiry_hist /\
  hyps_of expiry_cfg 100 boot2 expiry_hist = Some (false, true).
Proof. witness. Qed.

(* a first registration at a height where height + duration does not fit *)
Definition newuser_cfg : config := mk_config 10 U32MAX 10.
Theorem envelope_new_user_needed :
  aborts_with S_gk_new_user_expiry_overflow newuser_cfg 100 boot2 [(ORegister 1, [])] /\
  hyps_of newuser_cfg 100 boot2 [(ORegister 1, [])] = Some (false, true).
Proof. witness. Qed.

(* a block connected below height CONFIRMATIONS_BEFORE_RETRY *)
Definition plain_cfg : config := mk_config 10 1000 10.
Theorem envelope_retry_needed :
  aborts_with S_r_stale_underflow plain_cfg 2 boot2 [(OConnect 1001 [], [])] /\
  hyps_of plain_cfg 2 boot2 [(OConnect 1001 [], [])] = Some (false, true).
Proof. witness. Qed.

(* the bootstrap window includes the genesis block (|blocks| > height): disconnecting it underflows *)
Theorem boot_window_needed :
  aborts_with S_gk_disconnect_underflow plain_cfg 1 boot2 [(ODisconnect, []); (ODisconnect, [])] /\
  hyps_of plain_cfg 1 boot2 [(ODisconnect, []); (ODisconnect, [])] = Some (true, true).
Proof. witness. Qed.

(* a block hash the index already holds is connected again: remove_oldest_block unwraps None later *)
Definition dup_hist : list (op * script) :=
  [(OConnect 7 [], []); (OConnect 7 [], []); (OConnect 8 [], []); (OConnect 9 [], [])].
Theorem chain_discipline_needed :
  aborts_with S_w_cache_update plain_cfg 100 boot2 dup_hist /\
  hyps_of plain_cfg 100 boot2 dup_hist = Some (true, false).
Proof. witness. Qed.

(* ------------------------------------------------------------------------------------------ *)
(* 11. non-vacuity: a history inside the envelope exercising every operation (two users on one locator,
   a breach answered, a rejected penalty, a late appointment whose trigger is in the cache, a reorg,
   reads, an unauthenticated request, a completion with refund) *)
Definition live_hist : list (op * script) :=
  [ (ORegister 1, []); (ORegister 2, []); (ORegister 1, []);
    (OAdd (Some 1) 50 (mk_blob 50 (Some 51) 3000) 20 7, []);
    (OAdd (Some 2) 50 (mk_blob 50 (Some 52) 100) 20 8, []);
    (OAdd (Some 1) 60 (mk_blob 60 (Some 61) 100) 20 9, []);
    (OAdd None 70 (mk_blob 70 (Some 71) 100) 20 9, []);
    (OAdd (Some 3) 70 (mk_blob 70 (Some 71) 100) 20 9, []);
    (OConnect 1001 [50; 60], [(51, (G_not_found, A_ok)); (52, (G_not_found, A_ok)); (61, (G_not_found, A_code (-26)))]);
    (OAdd (Some 2) 60 (mk_blob 60 (Some 62) 100) 20 10, [(62, (G_not_found, A_ok))]);   (* trigger in cache *)
    (OGet (Some 1) 50, []); (OGet (Some 2) 60, []); (OGetSub (Some 2), []); (OGetSub None, []);
    (OConnect 1002 [51; 62], []);
    (ODisconnect, []);
    (OConnect 1003 [51], []) ]
  ++ map (fun i => (OConnect (2000 + N.of_nat i) [], [])) (seq 0 100).

(* ------------------------------------------------------------------------------------------ *)
(* 12. the envelope and the chain discipline as propositions *)

Definition env_step (t : tower) (o : op) : Prop :=
  match o with
  | ORegister u =>
      match gk_get t u with
      | None => gk_height t + c_duration (cfg t) + c_delta (cfg t) <= U32MAX /\ c_slots (cfg t) <= U32MAX
      | Some ui =>
          u_slots ui + c_slots (cfg t) <= U32MAX ->       (* the renewal is granted, not RegMaxSlots *)
          N.min U32MAX (u_expiry ui + c_duration (cfg t)) + c_delta (cfg t) <= U32MAX /\
          bal t u + c_slots (cfg t) <= U32MAX
      end
  | OConnect _ _ => RETRY <= gk_height t + 1
  | _ => True
  end.

Definition chain_step (t : tower) (o : op) : Prop :=
  match o with OConnect hash _ => ~ In hash (ti_blocks (r_index t)) | _ => True end.

Lemma envb_spec t o : envb t o = true <-> env_step t o.
Proof.
  destruct o as [u| | | |hash txs|]; cbn [envb env_step]; try tauto.
  - destruct (gk_get t u) as [ui|].
    + rewrite orb_true_iff, negb_true_iff, andb_true_iff, N.leb_gt, !N.leb_le. split.
      * intros [H|H] Hs; [lia|exact H].
      * intros H. destruct (N.le_gt_cases (u_slots ui + c_slots (cfg t)) U32MAX) as [Hs|Hs]; [right; exact (H Hs)|left; lia].
    + rewrite andb_true_iff, !N.leb_le. tauto.
  - apply N.leb_le.
Qed.

Lemma chainb_spec t o : chainb t o = true <-> chain_step t o.
Proof.
  destruct o as [u| | | |hash txs|]; cbn [chainb chain_step]; try tauto.
  rewrite negb_true_iff. apply memN_false.
Qed.

(* ------------------------------------------------------------------------------------------ *)
(* 13. the OConnect clause of the envelope is implied by a bootstrap at least 5 blocks above the window
   (teosd: the window is the last 100 blocks and start-up refuses a tip below 100; with a tip >= 105 - or
   no reorg deeper than tip - 5 - no block is ever connected below height 6).  tip - |blocks| of the
   responder's index never decreases. *)

Definition slack (i : txindex N) : Z := (ti_tip i - Z.of_nat (length (ti_blocks i)))%Z.

Lemma slack_update (i : txindex N) b i' : ti_update i b = Some i' -> (slack i <= slack i')%Z.
Proof.
  intros E. unfold slack. destruct (ti_update_blocks i b i' E) as [_ [Ht [[_ [h0 Hb]]|[_ Hb]]]].
  - apply (f_equal (@length N)) in Hb. rewrite app_length in Hb. cbn [length] in Hb. lia.
  - rewrite Hb, app_length. cbn [length]. lia.
Qed.

Lemma slack_disconnect (i : txindex N) hash : (slack i <= slack (ti_disconnect i hash))%Z.
Proof.
  unfold slack, ti_disconnect. destruct (aget (ti_txs i) hash); [|lia].
  destruct (ti_blocks i) as [|b0 r0] eqn:E0; cbn [ti_blocks ti_tip]; [cbn [length]; lia|].
  rewrite removelast_length. cbn [length]. lia.
Qed.

(* how one step moves the responder's index *)
Lemma step_r_index le t o sc :
  BigInv t -> envb t o = true ->
  match o with
  | OConnect hash txs => ti_update (r_index t) (index_block hash txs) = Some (r_index (fst (step le t o sc)))
  | ODisconnect => match last_hash t with
                   | Some hash => r_index (fst (step le t o sc)) = ti_disconnect (r_index t) hash
                   | None => r_index (fst (step le t o sc)) = r_index t
                   end
  | _ => r_index (fst (step le t o sc)) = r_index t
  end.
Proof.
  intros HB Henv. pose proof HB as [HI HC HX HE HS].
  destruct o as [u|signer loc b delay sig|signer loc|signer|hash txs|].
  - cbn [step wrap]. unfold gk_add_update_user.
    destruct (gk_get (set_rpc_log t []) u) as [ui|].
    + destruct (u32_add (u_slots ui) _); reflexivity.
    + destruct (u32_add (gk_height _) _); [|reflexivity]. destruct (amem _ u); reflexivity.
  - cbn [step]. destruct (w_add_appointment sc (set_rpc_log t []) signer loc b delay sig) as [r0 t0|s0 t0] eqn:Ea; cbn [wrap fst].
    + apply add_appointment_indexes in Ea. exact (proj1 Ea).
    + exfalso. pose proof (add_appointment_ok sc (fresh t) signer loc b delay sig
                             (ii_val _ (bi_idx _ (big_fresh t HB)))) as Hok.
      change (fresh t) with (set_rpc_log t []) in Hok. rewrite Ea in Hok. exact Hok.
  - destruct (get_unchanged le t sc signer loc) as [r Hr]. rewrite Hr. reflexivity.
  - destruct (getsub_unchanged le t sc signer) as [r Hr]. rewrite Hr. reflexivity.
  - cbn [envb] in Henv. apply N.leb_le in Henv.
    destruct (connect_phases_ok le t hash txs sc HB Henv) as [tg [tw [t' [Eg [Ew [Er [Es [HIg [HIw _]]]]]]]]].
    rewrite Es. cbn [fst].
    destruct (TowerLedger.gk_block_spec _ _ _ Eg) as [_ [_ [_ [_ [Hig _]]]]].
    destruct (w_block_connected_indexes _ _ _ _ _ Ew) as [_ [Hiw _]].
    destruct (r_block_connected_facts le sc tw _ _ t' HIw Er) as [lim [t5 F]].
    pose proof (rf_index _ _ _ _ _ _ _ F) as Eur. rewrite Hiw, Hig in Eur. exact Eur.
  - destruct (last_hash t) as [hash|] eqn:El.
    + destruct (disconnect_shape le t sc hash El (disconnect_height_pos t hash HC (ii_len _ HX) El)) as [t' [Es [Hi _]]].
      rewrite Es. exact Hi.
    + cbn [step]. change (last_hash (set_rpc_log t [])) with (last_hash t). rewrite El. reflexivity.
Qed.

Lemma step_slack le t o sc :
  BigInv t -> envb t o = true -> (slack (r_index t) <= slack (r_index (fst (step le t o sc))))%Z.
Proof.
  intros HB Henv. pose proof (step_r_index le t o sc HB Henv) as H.
  destruct o as [u|signer loc b delay sig|signer loc|signer|hash txs|]; try (rewrite H; lia).
  - apply slack_update in H. exact H.
  - destruct (last_hash t) as [hash|]; rewrite H; [apply slack_disconnect|lia].
Qed.

(* the envelope without its OConnect clause: only registrations are constrained *)
Definition envb_reg (t : tower) (o : op) : bool := match o with OConnect _ _ => true | _ => envb t o end.

Fixpoint in_envelope_reg (le : bool) (t : tower) (h : list (op * script)) : bool :=
  match h with
  | [] => true
  | (o, sc) :: r => envb_reg t o && in_envelope_reg le (fst (step le t o sc)) r
  end.

Lemma env_reg_env le : forall h t,
  BigInv t -> (5 <= slack (r_index t))%Z -> in_envelope_reg le t h = true -> chain_disciplined le t h = true ->
  in_envelope le t h = true.
Proof.
  induction h as [|[o sc] h IH]; intros t HB Hsl He Hc; [reflexivity|].
  cbn [in_envelope in_envelope_reg chain_disciplined] in *. apply andb_true_iff in He, Hc.
  destruct He as [He1 He2]. destruct Hc as [Hc1 Hc2].
  assert (Henv : envb t o = true).
  { destruct o; try exact He1. cbn [envb]. apply N.leb_le. rewrite RETRY_6.
    pose proof (ci_tip _ (bi_chain _ HB)). unfold slack in Hsl. lia. }
  rewrite Henv. cbn [andb]. apply IH; [exact (step_big le t o sc HB Henv Hc1)| |exact He2|exact Hc2].
  pose proof (step_slack le t o sc HB Henv). lia.
Qed.

(* no_abort_seq for a tower bootstrapped at least 5 blocks above its window: the envelope constrains
   registrations only (the u32 range of expiries and slots) *)
Theorem no_abort_seq_deep le c h0 blocks t0 h :
  init c h0 blocks = Some t0 -> NoDup (map fst blocks) -> N.of_nat (length blocks) + 5 <= h0 ->
  in_envelope_reg le t0 h = true -> chain_disciplined le t0 h = true ->
  Forall not_abort (snd (run le t0 h)).
Proof.
  intros Hi Hnd Hlen He Hc.
  assert (Hlen0 : N.of_nat (length blocks) <= h0) by lia.
  pose proof (big_init c h0 blocks t0 Hi Hnd Hlen0) as HB.
  apply (no_abort_seq le c h0 blocks t0 h Hi Hnd Hlen0); [|exact Hc].
  apply env_reg_env; try assumption.
  unfold init in Hi. destruct (ti_new _ _) as [wc|]; [|discriminate].
  destruct (ti_new (map (fun b => index_block (fst b) (snd b)) blocks) (Z.of_N h0)) as [ri|] eqn:Er; [|discriminate].
  inversion Hi. subst t0. cbn [r_index]. destruct (ti_new_blocks _ _ _ Er) as [Hrb [_ Hrt]].
  unfold slack. rewrite Hrb, Hrt, map_length, rev_length, map_length. lia.
Qed.
