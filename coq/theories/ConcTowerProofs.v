(* ConcTowerProofs.v — proofs about the concurrent tower model (ConcTower.v).
   1. exec_is_step: a thread program run with no interference is Tower.v's sequential step
      (the sequential and the concurrent model cannot drift apart).
   2. generic facts about the interleaving semantics: thread-local residuals, mutual exclusion,
      invariants preserved by every action are invariants of every schedule.
   3. lock_protects_data: in every thread program, an action executed without holding a lock
      leaves the data that lock protects untouched (what Rust's Mutex<T> guarantees by typing).
   Lemmas only; the statements of the property are collected in Properties/C10.v. *)
From TeosModel Require Import Base ListAux TxIndex Tower TowerStable TowerInv TowerProofs TowerBreach Crash ConcTower.
From TeosModel.Gen Require Consts.
From Coq Require Import Lia.
Local Open Scope N_scope.

(* ------------------------------------------------------------------------------------------ *)
(* 1. exec *)

Lemma exec_bind {A C} (p : prog A) (g : A -> prog C) t :
  exec (pbind p g) t = match exec p t with Ok a t' => exec (g a) t' | Abort s t' => Abort s t' end.
Proof.
  revert t. induction p as [a|l k IH|l k IH|B f k IH]; intros t; cbn [pbind exec]; auto.
  destruct (f t) as [b t'|s t']; auto.
Qed.

Lemma exec_act {B} (f : tower -> res B) t : exec (act f) t = f t.
Proof. unfold act. cbn. destruct (f t); reflexivity. Qed.
Lemma exec_rd {B} (f : tower -> B) t : exec (rd f) t = Ok (f t) t.
Proof. reflexivity. Qed.
Lemma exec_wr f t : exec (wr f) t = Ok tt (f t).
Proof. reflexivity. Qed.
Lemma exec_acq l t : exec (acq l) t = Ok tt t.
Proof. reflexivity. Qed.
Lemma exec_rel l t : exec (rel l) t = Ok tt t.
Proof. reflexivity. Qed.
Lemma exec_panic {B} s t : exec (@panic B s) t = Abort s t.
Proof. reflexivity. Qed.
Lemma exec_reach t : exec reach_p t = Ok tt t.
Proof. reflexivity. Qed.

Ltac ex := repeat (rewrite ?exec_bind, ?exec_act, ?exec_rd, ?exec_wr, ?exec_acq, ?exec_rel, ?exec_panic, ?exec_reach; cbn [exec]).

Section Seq.
  Context (le : bool) (sc : script).

  Lemma exec_add_update_user u t : exec (add_update_user_p u) t = gk_add_update_user t u.
  Proof.
    unfold add_update_user_p, gk_add_update_user. ex. unfold reg_decide.
    destruct (gk_get t u) as [ui|].
    - destruct (u32_add (u_slots ui) (c_slots (cfg t))) as [s|]; ex; reflexivity.
    - destruct (u32_add (gk_height t) (c_duration (cfg t))) as [e|]; ex; [|reflexivity].
      unfold store_new_user. destruct (amem (db_users t) u); ex; reflexivity.
  Qed.

  Lemma exec_charge u uuid blen t : exec (charge_p u uuid blen) t = gk_add_update_appointment t u uuid blen.
  Proof.
    unfold charge_p, gk_add_update_appointment. ex.
    destruct (gk_get t u) as [ui|]; ex; [|reflexivity].
    unfold used_slots.
    destruct (N.leb (slots_of blen) (u_slots ui + match find_app (db_apps t) uuid with Some a => slots_of (b_len (a_blob a)) | None => 0 end));
      ex; reflexivity.
  Qed.

  Lemma exec_delete_apps us refund t : exec (delete_apps_p us refund) t = gk_delete_appointments t us refund.
  Proof. unfold delete_apps_p. ex. destruct (gk_delete_appointments t us refund) as [[] t'|s t']; reflexivity. Qed.

  Lemma exec_send tx t : exec (send_p sc tx) t = (let '(s, t1) := send_transaction sc t tx in Ok s t1).
  Proof. unfold send_p. ex. unfold send_act. destruct (send_transaction sc t tx); reflexivity. Qed.

  Lemma exec_handle_breach uuid d p t : exec (handle_breach_p sc uuid d p) t = r_handle_breach sc t uuid d p.
  Proof.
    unfold handle_breach_p, r_handle_breach. ex. unfold index_lookup.
    destruct (ti_get (r_index t) p) as [bh|].
    - destruct (ti_get_height (r_index t) bh) as [h|]; ex; [|reflexivity].
      cbn [bind]. destruct (status_accepted (ConfirmedIn (Z.to_N h))); ex; reflexivity.
    - ex. unfold ask_mempool. destruct (in_mempool sc t p) as [inm t1]. destruct inm; ex.
      + cbn [bind]. destruct (status_accepted (InMempoolSince (car_height t1))); ex; reflexivity.
      + rewrite exec_send. destruct (send_transaction sc t1 p) as [s t2]. cbn [bind].
        destruct (status_accepted s); ex; reflexivity.
  Qed.

  (* the value a store path returns: was the appointment stored (false = UnknownUser) *)
  Definition with_flag (r : res unit) (b : bool) : res bool :=
    match r with Ok _ t' => Ok b t' | Abort s t' => Abort s t' end.

  Lemma exec_store_appointment a t :
    exec (store_appointment_p a) t = with_flag (w_store_appointment t a) (w_store_ok t a).
  Proof. unfold store_appointment_p, store_act. ex. destruct (w_store_appointment t a) as [[] t'|s t']; reflexivity. Qed.

  Lemma exec_store_triggered a d t :
    exec (store_triggered_p sc a d) t =
    with_flag (w_store_triggered sc t a d) (match decrypt (a_blob a) d with Some _ => w_store_ok t a | None => true end).
  Proof.
    unfold store_triggered_p, w_store_triggered.
    destruct (decrypt (a_blob a) d) as [p|].
    - rewrite exec_bind, exec_store_appointment.
      destruct (w_store_ok t a) eqn:Eok.
      + destruct (w_store_appointment t a) as [[] t1|s t1]; [|reflexivity].
        cbn [bind with_flag]. rewrite !exec_bind, exec_handle_breach.
        destruct (r_handle_breach sc t1 (app_uuid a) d p) as [s t2|s t2]; [|reflexivity].
        cbn [bind]. destruct (status_rejected s); [|reflexivity].
        rewrite exec_bind, exec_delete_apps. destruct (gk_delete_appointments t2 [app_uuid a] false) as [[] t3|s3 t3]; reflexivity.
      + assert (Hs : w_store_appointment t a = Ok tt t).
        { unfold w_store_appointment. unfold w_store_ok in Eok.
          destruct (find_app (db_apps t) (app_uuid a)); [discriminate|]. rewrite Eok. reflexivity. }
        rewrite Hs. reflexivity.
    - ex. destruct (find_app (db_apps t) (app_uuid a)); [|reflexivity].
      rewrite exec_delete_apps.
      destruct (gk_delete_appointments t [app_uuid a] false) as [[] t3|s3 t3]; reflexivity.
  Qed.

  Lemma exec_authenticate signer t : exec (authenticate_p signer) t = Ok (authenticate t signer) t.
  Proof. unfold authenticate_p. destruct signer; reflexivity. Qed.

  Lemma exec_expired u t :
    exec (expired_p u) t = Ok (match gk_get t u with
                               | Some ui => Some (N.leb (u_expiry ui) (gk_height t), u_expiry ui)
                               | None => None
                               end) t.
  Proof. unfold expired_p. ex. reflexivity. Qed.

  Lemma exec_cache_section a t :
    exec (cache_section_p sc a) t =
    match ti_get (w_cache t) (a_loc a) with
    | Some dispute => with_flag (w_store_triggered sc t a dispute)
                                (match decrypt (a_blob a) dispute with Some _ => w_store_ok t a | None => true end)
    | None => with_flag (w_store_appointment t a) (w_store_ok t a)
    end.
  Proof.
    unfold cache_section_p. ex. destruct (ti_get (w_cache t) (a_loc a)) as [d|].
    - rewrite exec_store_triggered. destruct (w_store_triggered sc t a d) as [[] t'|s t']; reflexivity.
    - rewrite exec_store_appointment. destruct (w_store_appointment t a) as [[] t'|s t']; reflexivity.
  Qed.

  Lemma exec_add_appointment signer loc b delay sig t :
    exec (add_appointment_p sc signer loc b delay sig) t = w_add_appointment sc t signer loc b delay sig.
  Proof.
    unfold add_appointment_p, add_pre_p, w_add_appointment. rewrite !exec_bind, exec_authenticate.
    destruct (authenticate t signer) as [u|]; [|reflexivity].
    rewrite exec_bind, exec_expired. destruct (gk_get t u) as [ui|]; [|reflexivity].
    cbn [fst snd]. destruct (N.leb (u_expiry ui) (gk_height t)); [reflexivity|].
    ex. unfold has_tracker_p. ex. destruct (find_trk (db_trks t) (loc, u)); ex; [reflexivity|].
    rewrite exec_charge. destruct (gk_add_update_appointment t u (loc, u) (b_len b)) as [ch t1|s t1]; [|reflexivity].
    cbn [bind]. destruct ch as [available|]; [|reflexivity].
    cbn [exec add_finish]. rewrite exec_bind, exec_cache_section. cbn [a_loc a_blob]. cbv zeta.
    destruct (ti_get (w_cache t1) loc) as [d|].
    - destruct (w_store_triggered sc t1 (mk_app loc u b delay sig (w_height t)) d) as [[] t2|s t2]; [|reflexivity].
      cbn [with_flag bind exec]. destruct (decrypt b d); [destruct (w_store_ok t1 _)|]; reflexivity.
    - destruct (w_store_appointment t1 (mk_app loc u b delay sig (w_height t))) as [[] t2|s t2]; [|reflexivity].
      cbn [with_flag bind exec]. destruct (w_store_ok t1 _); reflexivity.
  Qed.

  Lemma exec_get_appointment signer loc t : exec (get_appointment_p signer loc) t = w_get_appointment t signer loc.
  Proof.
    unfold get_appointment_p, w_get_appointment. rewrite exec_bind, exec_authenticate.
    destruct (authenticate t signer) as [u|]; [|reflexivity].
    rewrite exec_bind, exec_expired. destruct (gk_get t u) as [ui|]; [|reflexivity].
    cbn [fst snd]. destruct (N.leb (u_expiry ui) (gk_height t)); [reflexivity|].
    ex. unfold load_for_get. destruct (find_trk (db_trks t) (loc, u)), (find_app (db_apps t) (loc, u)); reflexivity.
  Qed.

  Lemma exec_get_subscription_info signer t : exec (get_subscription_info_p signer) t = w_get_subscription_info t signer.
  Proof.
    unfold get_subscription_info_p, w_get_subscription_info. rewrite exec_bind, exec_authenticate.
    destruct (authenticate t signer) as [u|]; [|reflexivity].
    rewrite exec_bind, exec_expired. destruct (gk_get t u) as [ui|] eqn:Eg; [|reflexivity].
    cbn [fst snd]. destruct (N.leb (u_expiry ui) (gk_height t)); [reflexivity|].
    ex. rewrite Eg. ex. reflexivity.
  Qed.

  Lemma exec_gk_connect h t : exec (gk_connect_p h) t = gk_block_connected t h.
  Proof.
    unfold gk_connect_p, gk_block_connected. ex. unfold find_outdated.
    destruct (outdated_users (c_delta (cfg t)) h (gk_users t)) as [outd|]; ex; [|reflexivity].
    destruct outd; ex; reflexivity.
  Qed.

  Lemma exec_breach_uuid_loop d us : forall invalid t,
    exec (breach_uuid_loop_p sc d us invalid) t = breach_uuid_loop sc d us t invalid.
  Proof.
    induction us as [|uuid us IH]; intros invalid t; cbn [breach_uuid_loop_p breach_uuid_loop]; [reflexivity|].
    ex. destruct (find_app (db_apps t) uuid) as [a|]; ex; [|apply IH].
    destruct (decrypt (a_blob a) d) as [p|]; [|apply IH].
    rewrite exec_bind, exec_handle_breach. destruct (r_handle_breach sc t uuid d p) as [s t1|s t1]; [|reflexivity].
    cbn [bind]. apply IH.
  Qed.

  Lemma exec_breach_loop ds : forall invalid t, exec (breach_loop_p sc ds invalid) t = breach_loop sc ds t invalid.
  Proof.
    induction ds as [|d ds IH]; intros invalid t; cbn [breach_loop_p breach_loop]; [reflexivity|].
    ex. unfold load_uuids. rewrite exec_breach_uuid_loop.
    destruct (breach_uuid_loop sc d (map app_uuid (filter (fun a => N.eqb (a_loc a) d) (db_apps t))) t invalid) as [inv t1|s t1];
      [|reflexivity].
    cbn [bind]. apply IH.
  Qed.

  Lemma exec_w_rest txs h t :
    exec (w_rest_p sc txs h) t =
    (do invalid, t2 <- breach_loop sc (find_breaches txs t) t [];
     do _, t3 <- (match invalid with [] => Ok tt t2 | l => gk_delete_appointments t2 l false end);
     Ok tt (set_w_height t3 h)).
  Proof.
    unfold w_rest_p. ex. rewrite exec_breach_loop.
    destruct (breach_loop sc (find_breaches txs t) t []) as [inv t2|s t2]; [|reflexivity].
    cbn [bind]. destruct inv as [|x inv]; ex; [reflexivity|].
    rewrite exec_delete_apps. destruct (gk_delete_appointments t2 (x :: inv) false) as [[] t3|s t3]; reflexivity.
  Qed.

  Lemma exec_w_connect hash txs h t :
    exec (w_connect_p sc hash txs h) t = w_block_connected sc t (cache_block hash txs) h.
  Proof.
    unfold w_connect_p, w_cache_p, w_block_connected. ex. unfold update_cache.
    destruct (ti_update (w_cache t) (cache_block hash txs)) as [c|]; ex; [|reflexivity].
    rewrite exec_w_rest, keys_of_cache_block. reflexivity.
  Qed.

  Lemma exec_reorged_loop h us : forall rej t, exec (reorged_loop_p sc h us rej) t = reorged_loop sc h us t rej.
  Proof.
    induction us as [|uuid us IH]; intros rej t; cbn [reorged_loop_p reorged_loop]; [reflexivity|].
    ex. destruct (find_trk (db_trks t) uuid) as [k|]; [|apply IH].
    rewrite exec_bind, exec_send. destruct (send_transaction sc t (t_dispute k)) as [s t1].
    destruct s as [hh|hh| |c]; ex; try apply IH; try reflexivity.
    - rewrite exec_send. destruct (send_transaction sc t1 (t_penalty k)) as [s2 t2].
      destruct (status_rejected s2); ex; apply IH.
    - rewrite exec_send. destruct (send_transaction sc t1 (t_penalty k)) as [s2 t2].
      destruct (status_rejected s2); ex; apply IH.
  Qed.

  Lemma exec_stale_loop h us : forall rej t, exec (stale_loop_p sc h us rej) t = stale_loop sc h us t rej.
  Proof.
    induction us as [|uuid us IH]; intros rej t; cbn [stale_loop_p stale_loop]; [reflexivity|].
    ex. unfold load_stale_tracker. destruct (find_trk (db_trks t) uuid) as [k|]; ex; [|reflexivity].
    rewrite exec_send. destruct (send_transaction sc t (t_penalty k)) as [s t1].
    destruct s as [hh|hh| |c]; ex; apply IH.
  Qed.

  Lemma exec_r_connect hash txs h t :
    exec (r_connect_p le sc hash txs h) t = r_block_connected le sc t (index_block hash txs) h.
  Proof.
    unfold r_connect_p, r_block_connected. ex. unfold update_index. cbn [r_index set_car_height].
    destruct (ti_update (r_index t) (index_block hash txs)) as [idx|]; ex; [|reflexivity].
    rewrite keys_of_index_block. cbn [db_trks set_r_index set_car_height].
    match goal with |- context [check_conf_loop le txs h ?snap ?tt []] => destruct (check_conf_loop le txs h snap tt []) as [completed t2|s t2] end;
      ex; [|reflexivity].
    cbn [bind].
    assert (Hdel : forall l t, exec (match l with [] => Ret tt | _ :: _ => delete_apps_p l true end) t =
                               match l with [] => Ok tt t | _ :: _ => gk_delete_appointments t l true end).
    { intros l t'. destruct l; [reflexivity|apply exec_delete_apps]. }
    rewrite Hdel.
    match goal with |- match ?X with Ok _ _ => _ | Abort _ _ => _ end = _ => destruct X as [[] t3|s t3] end; [|reflexivity].
    cbn [bind]. ex.
    assert (Hre : exec (if match reorged t3 with [] => false | _ :: _ => true end then reorged_p sc h else Ret []) t3 =
                  match reorged t3 with [] => Ok [] t3 | us => reorged_loop sc h us (set_reorged t3 []) [] end).
    { destruct (reorged t3) as [|x us] eqn:Er; [reflexivity|].
      unfold reorged_p. ex. unfold take_reorged. rewrite Er. ex. rewrite exec_reorged_loop.
      destruct (reorged_loop sc h (x :: us) (set_reorged t3 []) []) as [rej t4|s t4]; reflexivity. }
    rewrite Hre.
    match goal with |- match ?X with Ok _ _ => _ | Abort _ _ => _ end = _ => destruct X as [rej1 t4|s t4] end; [|reflexivity].
    cbn [bind]. unfold stale_p. ex. unfold find_stale.
    destruct (u32_sub h (Z.to_N Consts.CONFIRMATIONS_BEFORE_RETRY)) as [lim|]; ex; [|reflexivity].
    rewrite exec_stale_loop.
    match goal with |- context [stale_loop sc h ?st t4 []] => destruct (stale_loop sc h st t4 []) as [rej2 t5|s t5] end; [|reflexivity].
    cbn [bind]. ex.
    destruct (rej1 ++ rej2) as [|x l]; ex; [reflexivity|].
    rewrite exec_delete_apps. destruct (gk_delete_appointments t5 (x :: l) false) as [[] t6|s t6]; reflexivity.
  Qed.

  Lemma exec_gk_disconnect h t : exec (gk_disconnect_p h) t = gk_block_disconnected t h.
  Proof. unfold gk_disconnect_p, gk_block_disconnected, store_height. ex. destruct (u32_sub h 1); reflexivity. Qed.

  Lemma exec_w_disconnect hash h t : exec (w_disconnect_p hash h) t = w_block_disconnected t hash h.
  Proof. unfold w_disconnect_p, w_block_disconnected, store_height. ex. destruct (u32_sub h 1); reflexivity. Qed.

  Lemma exec_r_disconnect hash h t : exec (r_disconnect_p hash h) t = r_block_disconnected t hash h.
  Proof. unfold r_disconnect_p, r_block_disconnected, mark_reorged. ex. reflexivity. Qed.

  Lemma exec_run_listeners (fp : Z -> prog unit) (f : Z -> tower -> res unit) order :
    (forall w t, exec (fp w) t = f w t) -> forall t, exec (run_listeners_p fp order) t = run_listeners f order t.
  Proof.
    intros Hf. induction order as [|w order IH]; intros t; cbn [run_listeners_p run_listeners]; [reflexivity|].
    rewrite exec_bind, Hf. destruct (f w t) as [[] t1|s t1]; [apply IH|reflexivity].
  Qed.

  Lemma exec_connect hash txs h t :
    exec (connect_p le sc hash txs h) t = run_listeners (listener_connected le sc hash txs h) Consts.LISTENER_ORDER t.
  Proof.
    apply exec_run_listeners. intros w t'. unfold listener_connected_p, listener_connected.
    destruct (Z.eqb w 0); [apply exec_gk_connect|]. destruct (Z.eqb w 1); [apply exec_w_connect|apply exec_r_connect].
  Qed.

  Lemma exec_disconnect hash h t :
    exec (disconnect_p hash h) t = run_listeners (listener_disconnected hash h) Consts.LISTENER_ORDER t.
  Proof.
    apply exec_run_listeners. intros w t'. unfold listener_disconnected_p, listener_disconnected.
    destruct (Z.eqb w 0); [apply exec_gk_disconnect|]. destruct (Z.eqb w 1); [apply exec_w_disconnect|apply exec_r_disconnect].
  Qed.

  Definition unwrap (r : res out) : tower * out :=
    match r with Ok o t => (t, o) | Abort s t => (t, OAbort s) end.

  Lemma last_hash_stack t : last_hash t = hd_error (rev (ti_blocks (r_index t))).
  Proof.
    unfold last_hash. generalize (ti_blocks (r_index t)). intros l.
    induction l as [|x l IH]; [reflexivity|].
    cbn [map rev]. destruct l as [|y l]; [reflexivity|].
    change (last (Some x :: map Some (y :: l)) None) with (last (map Some (y :: l)) None). rewrite IH.
    destruct (rev (y :: l)) as [|z r] eqn:Er; [|reflexivity].
    exfalso. apply (f_equal (@length N)) in Er. rewrite rev_length in Er. discriminate.
  Qed.

  (* THE tie between the two models: the thread program of an operation, run with nobody else
     around, is the sequential step of Tower.v *)
  Theorem exec_is_step t o :
    unwrap (exec (prog_of_op le sc t o) (set_rpc_log t [])) = step le t o sc.
  Proof.
    destruct o as [u|signer loc b delay sig|signer loc|signer|hash txs|]; cbn [prog_of_op step].
    - unfold register_p. ex. rewrite exec_add_update_user.
      destruct (gk_add_update_user (set_rpc_log t []) u); reflexivity.
    - unfold add_p. ex. rewrite exec_add_appointment.
      destruct (w_add_appointment sc (set_rpc_log t []) signer loc b delay sig); reflexivity.
    - unfold get_p. ex. rewrite exec_get_appointment.
      destruct (w_get_appointment (set_rpc_log t []) signer loc); reflexivity.
    - unfold getsub_p. ex. rewrite exec_get_subscription_info.
      destruct (w_get_subscription_info (set_rpc_log t []) signer); reflexivity.
    - cbn [chain_p]. rewrite !exec_bind. rewrite exec_connect.
      change (gk_height (set_rpc_log t [])) with (gk_height t).
      destruct (run_listeners (listener_connected le sc hash txs (gk_height t + 1)) Consts.LISTENER_ORDER (set_rpc_log t [])) as [[] t1|s t1];
        reflexivity.
    - cbn [chain_p]. rewrite last_hash_stack. change (r_index (set_rpc_log t [])) with (r_index t).
      destruct (rev (ti_blocks (r_index t))) as [|hash st]; cbn [hd_error]; [reflexivity|].
      rewrite !exec_bind. rewrite exec_disconnect.
      change (gk_height (set_rpc_log t [])) with (gk_height t).
      destruct (run_listeners (listener_disconnected hash (gk_height t)) Consts.LISTENER_ORDER (set_rpc_log t [])) as [[] t1|s t1];
        reflexivity.
  Qed.
End Seq.

(* ------------------------------------------------------------------------------------------ *)
(* 2. the interleaving semantics: generic facts *)

Definition state_of {B} (r : res B) : tower := match r with Ok _ t => t | Abort _ t => t end.

(* Every action of p, executed while the thread holds `held`, takes t to a state related by G
   (also when it aborts); K holds of (held locks, value) wherever p returns. *)
Fixpoint guark {A} (G : list lock -> tower -> tower -> Prop) (held : list lock) (p : prog A)
         (K : list lock -> A -> Prop) : Prop :=
  match p with
  | Ret a => K held a
  | Acq l k => guark G (l :: held) k K
  | Rel l k => guark G (remove_lock l held) k K
  | Act B f k => (forall t, G held t (state_of (f t))) /\ forall b, guark G held (k b) K
  end.

Lemma guark_bind {A C} G (p : prog A) (g : A -> prog C) : forall held K,
  guark G held (pbind p g) K <-> guark G held p (fun h a => guark G h (g a) K).
Proof.
  induction p as [a|l k IH|l k IH|B f k IH]; intros held K; cbn [pbind guark]; try apply IH; [tauto|].
  split; intros [H1 H2]; (split; [exact H1|intros b; apply IH; apply H2]).
Qed.

Lemma guark_weaken {A} G (p : prog A) : forall held (K K' : list lock -> A -> Prop),
  (forall h a, K h a -> K' h a) -> guark G held p K -> guark G held p K'.
Proof.
  induction p as [a|l k IH|l k IH|B f k IH]; intros held K K' HK; cbn [guark]; eauto.
  intros [H1 H2]. split; [exact H1|]. intros b. eapply IH; eauto.
Qed.

Lemma guark_mono {A} (G G' : list lock -> tower -> tower -> Prop) (p : prog A) :
  (forall h t t', G h t t' -> G' h t t') -> forall held K, guark G held p K -> guark G' held p K.
Proof.
  intros HG. induction p as [a|l k IH|l k IH|B f k IH]; intros held K; cbn [guark]; eauto.
  intros [H1 H2]. split; [intros t; apply HG, H1|intros b; apply IH, H2].
Qed.

Definition ktrue {A} : list lock -> A -> Prop := fun _ _ => True.

(* ---- lists ---- *)
Lemma nth_error_set_nth_eq {A} (l : list A) i x y : nth_error l i = Some y -> nth_error (set_nth l i x) i = Some x.
Proof. revert i. induction l as [|z l IH]; intros [|i]; cbn; try discriminate; auto. Qed.
Lemma nth_error_set_nth_neq {A} (l : list A) i j x : i <> j -> nth_error (set_nth l i x) j = nth_error l j.
Proof.
  revert i j. induction l as [|z l IH]; intros [|i] [|j] H; cbn; try reflexivity; try congruence.
  apply IH. congruence.
Qed.
Lemma length_set_nth {A} (l : list A) i x : length (set_nth l i x) = length l.
Proof. revert i. induction l as [|z l IH]; intros [|i]; cbn; auto. Qed.
Lemma nth_error_set_nth {A} (l : list A) i j x y :
  nth_error (set_nth l i x) j = Some y -> (i = j /\ y = x) \/ (i <> j /\ nth_error l j = Some y).
Proof.
  intros H. destruct (Nat.eq_dec i j) as [E|E].
  - subst j. destruct (nth_error l i) as [z|] eqn:Ez.
    + rewrite (nth_error_set_nth_eq l i x z Ez) in H. left. split; congruence.
    + exfalso. apply nth_error_None in Ez. assert (nth_error (set_nth l i x) i = None) by (apply nth_error_None; rewrite length_set_nth; exact Ez).
      congruence.
  - right. split; [exact E|]. rewrite nth_error_set_nth_neq in H by exact E. exact H.
Qed.

(* ---- one step of thread i, by cases ---- *)
Lemma step_thread_cases c i c' :
  step_thread c i = Some c' ->
  exists th p, nth_error (cf_threads c) i = Some th /\ ct_st th = Running p /\
  ( (exists l k, p = Acq l k /\ is_held c l = false /\ memN l (cf_poisoned c) = false /\
       c' = mk_conf (cf_tower c) (cf_poisoned c)
                    (set_nth (cf_threads c) i (mk_cthread (Running k) (l :: ct_held th) (l :: ct_trace th))))
 \/ (exists l k, p = Acq l k /\ is_held c l = false /\ memN l (cf_poisoned c) = true /\
       c' = die c i (mk_cthread (ct_st th) (l :: ct_held th) (l :: ct_trace th)) (cf_tower c) (TPoisoned l))
 \/ (exists l k, p = Rel l k /\
       c' = mk_conf (cf_tower c) (cf_poisoned c)
                    (set_nth (cf_threads c) i (mk_cthread (Running k) (remove_lock l (ct_held th)) (ct_trace th))))
 \/ (exists B (f : tower -> res B) k b t', p = Act B f k /\ f (cf_tower c) = Ok b t' /\
       c' = mk_conf t' (cf_poisoned c) (set_nth (cf_threads c) i (mk_cthread (Running (k b)) (ct_held th) (ct_trace th))))
 \/ (exists B (f : tower -> res B) k s t', p = Act B f k /\ f (cf_tower c) = Abort s t' /\
       c' = die c i th t' (TOut (OAbort s))) ).
Proof.
  unfold step_thread. intros H.
  destruct (nth_error (cf_threads c) i) as [th|] eqn:Eth; [|discriminate].
  destruct (ct_st th) as [p|r] eqn:Est; [|discriminate].
  exists th, p. split; [reflexivity|]. split; [exact Est|].
  destruct p as [o|l k|l k|B f k]; [discriminate| | |].
  - destruct (is_held c l) eqn:Eh; [discriminate|].
    destruct (memN l (cf_poisoned c)) eqn:Ep; inversion H; subst.
    + right. left. exists l, k. rewrite Est. auto.
    + left. exists l, k. auto.
  - inversion H; subst. right. right. left. exists l, k. auto.
  - destruct (f (cf_tower c)) as [b t'|s t'] eqn:Ef; inversion H; subst.
    + right. right. right. left. exists B, f, k, b, t'. auto.
    + right. right. right. right. exists B, f, k, s, t'. auto.
Qed.

Lemma run_config_app c s1 s2 : run_config c (s1 ++ s2) = run_config (run_config c s1) s2.
Proof. unfold run_config. apply fold_left_app. Qed.

(* a property of configurations preserved by every step holds along every schedule *)
Lemma run_config_inv (I : conf -> Prop) :
  (forall c i c', I c -> step_thread c i = Some c' -> I c') ->
  forall sched c, I c -> I (run_config c sched).
Proof.
  intros Hstep. induction sched as [|i sched IH]; intros c Hc; cbn; [exact Hc|].
  apply IH. unfold sched_step. destruct (step_thread c i) as [c'|] eqn:E; [eapply Hstep; eauto|exact Hc].
Qed.

(* ---- thread-local guarantees hold of every step of every schedule ---- *)
Definition tguar (G : list lock -> tower -> tower -> Prop) (th : cthread) : Prop :=
  match ct_st th with Running p => guark G (ct_held th) p ktrue | Ended _ => True end.

Lemma tguar_spawn G p : guark G [] p ktrue -> tguar G (spawn p).
Proof. intros H. exact H. Qed.

Lemma Forall_set_nth {A} (P : A -> Prop) l i x : Forall P l -> P x -> Forall P (set_nth l i x).
Proof.
  intros Hl Hx. revert i. induction Hl as [|y l Hy Hl IH]; intros [|i]; cbn; constructor; auto.
Qed.

Lemma Forall_nth_error {A} (P : A -> Prop) l i x : Forall P l -> nth_error l i = Some x -> P x.
Proof. intros Hl Hn. rewrite Forall_forall in Hl. apply Hl. eapply nth_error_In; eauto. Qed.

(* one step: the threads keep their guarantees, and the shared state moved by G under the locks the
   stepping thread held (or did not move) *)
Lemma step_guar G c i c' :
  Forall (tguar G) (cf_threads c) -> step_thread c i = Some c' ->
  Forall (tguar G) (cf_threads c') /\
  (cf_tower c' = cf_tower c \/
   exists th, nth_error (cf_threads c) i = Some th /\ G (ct_held th) (cf_tower c) (cf_tower c')).
Proof.
  intros Hall Hs. destruct (step_thread_cases c i c' Hs) as [th [p [Hn [Hst Hc]]]].
  pose proof (Forall_nth_error _ _ _ _ Hall Hn) as Hth. unfold tguar in Hth. rewrite Hst in Hth.
  destruct Hc as [[l [k [-> [_ [_ ->]]]]]|[[l [k [-> [_ [_ ->]]]]]|[[l [k [-> ->]]]|[[B [f [k [b [t' [-> [Hf ->]]]]]]]|[B [f [k [s [t' [-> [Hf ->]]]]]]]]]]];
    cbn [cf_threads cf_tower die].
  - split; [|left; reflexivity]. apply Forall_set_nth; [exact Hall|]. exact Hth.
  - split; [|left; reflexivity]. apply Forall_set_nth; [exact Hall|exact I].
  - split; [|left; reflexivity]. apply Forall_set_nth; [exact Hall|]. exact Hth.
  - cbn [guark] in Hth. destruct Hth as [H1 H2]. split.
    + apply Forall_set_nth; [exact Hall|]. unfold tguar. cbn. apply H2.
    + right. exists th. split; [exact Hn|]. specialize (H1 (cf_tower c)). rewrite Hf in H1. exact H1.
  - cbn [guark] in Hth. destruct Hth as [H1 _]. split.
    + apply Forall_set_nth; [exact Hall|exact I].
    + right. exists th. split; [exact Hn|]. specialize (H1 (cf_tower c)). rewrite Hf in H1. exact H1.
Qed.

(* THE invariance principle: a predicate on the shared state that every action of every thread
   program preserves (whatever locks are held, also when the action aborts) holds in every state
   of every schedule *)
Theorem invariant_of_all_schedules (P : tower -> Prop) t ps :
  Forall (fun p => guark (fun _ t t' => P t -> P t') [] p ktrue) ps -> P t ->
  forall sched, P (cf_tower (run_config (init_config t ps) sched)).
Proof.
  intros Hps Ht sched.
  set (G := fun (_ : list lock) t t' => P t -> P t').
  assert (H : (fun c => P (cf_tower c) /\ Forall (tguar G) (cf_threads c)) (run_config (init_config t ps) sched)).
  { apply run_config_inv.
    - intros c i c' [HP Hall] Hs. destruct (step_guar G c i c' Hall Hs) as [Hall' Hmove]. split; [|exact Hall'].
      destruct Hmove as [E|[th [_ Hg]]]; [rewrite E; exact HP|apply Hg; exact HP].
    - split; [exact Ht|]. cbn [cf_threads init_config]. apply Forall_forall. intros th Hin.
      apply in_map_iff in Hin. destruct Hin as [p [<- Hp]]. apply tguar_spawn.
      rewrite Forall_forall in Hps. apply Hps. exact Hp. }
  apply H.
Qed.

(* ---- mutual exclusion ---- *)
Definition excl (c : conf) : Prop :=
  forall i j thi thj l, nth_error (cf_threads c) i = Some thi -> nth_error (cf_threads c) j = Some thj ->
                        i <> j -> holds thi l = true -> holds thj l = false.

Lemma holds_remove l l' h : memN l' (remove_lock l h) = true -> memN l' h = true.
Proof.
  unfold remove_lock, memN. rewrite !existsb_exists. intros [x [Hx E]]. apply filter_In in Hx. exists x. tauto.
Qed.

Lemma is_held_false c l j th : is_held c l = false -> nth_error (cf_threads c) j = Some th -> holds th l = false.
Proof.
  unfold is_held. intros H Hn. destruct (holds th l) eqn:E; [|reflexivity].
  assert (existsb (fun th => holds th l) (cf_threads c) = true) by (apply existsb_exists; exists th; split; [eapply nth_error_In; eauto|exact E]).
  congruence.
Qed.

Lemma excl_step c i c' : excl c -> step_thread c i = Some c' -> excl c'.
Proof.
  intros Hex Hs. destruct (step_thread_cases c i c' Hs) as [th [p [Hn [Hst Hc]]]].
  assert (Hgen : forall th', (forall l, holds th' l = true -> holds th l = true \/
                                         (is_held c l = false)) ->
                             excl (mk_conf (cf_tower c') (cf_poisoned c') (set_nth (cf_threads c) i th'))).
  { intros th' Hsub a b tha thb l Ha Hb Hab Hl. cbn [cf_threads] in Ha, Hb.
    apply nth_error_set_nth in Ha. apply nth_error_set_nth in Hb.
    destruct Ha as [[Ea Eta]|[Hia Ha]], Hb as [[Eb Etb]|[Hib Hb]]; try congruence.
    - subst a tha. destruct (Hsub l Hl) as [H|H]; [exact (Hex i b th thb l Hn Hb Hab H)|exact (is_held_false c l b thb H Hb)].
    - subst b thb. destruct (holds th' l) eqn:E; [|reflexivity]. destruct (Hsub l E) as [H|H].
      + rewrite (Hex i a th tha l Hn Ha (not_eq_sym Hab) H) in Hl. discriminate.
      + rewrite (is_held_false c l a tha H Ha) in Hl. discriminate.
    - exact (Hex a b tha thb l Ha Hb Hab Hl). }
  destruct Hc as [[l [k [-> [Hfree [_ ->]]]]]|[[l [k [-> [Hfree [_ ->]]]]]|[[l [k [-> ->]]]|[[B [f [k [b [t' [-> [Hf ->]]]]]]]|[B [f [k [s [t' [-> [Hf ->]]]]]]]]]]];
    cbn [die]; apply Hgen; cbn [holds ct_held]; intros l'.
  - unfold memN. cbn [existsb]. intros H. apply orb_true_iff in H. destruct H as [H|H]; [|left; exact H].
    apply N.eqb_eq in H. subst l'. right. exact Hfree.
  - cbn. discriminate.
  - intros H. left. eapply holds_remove; eauto.
  - intros H. left. exact H.
  - cbn. discriminate.
Qed.

Lemma excl_init t ps : excl (init_config t ps).
Proof.
  intros i j thi thj l Hi _ _ Hl. cbn [cf_threads init_config] in Hi.
  apply nth_error_In, in_map_iff in Hi. destruct Hi as [p [<- _]]. discriminate.
Qed.

Lemma excl_run t ps sched : excl (run_config (init_config t ps) sched).
Proof. apply run_config_inv; [intros; eapply excl_step; eauto|apply excl_init]. Qed.

(* ------------------------------------------------------------------------------------------ *)
(* 3. the structural induction done once: a guarantee G that the primitive actions of the thread
   programs satisfy (under the locks they are executed with) is satisfied by every action of every
   thread program.  Instances: lock_protects_data, referential integrity, ... *)

Definition has (l : lock) (held : list lock) : Prop := memN l held = true.

(* actions shared by requests and block events *)
Record OblCommon (G : list lock -> tower -> tower -> Prop) (sc : script) : Prop := {
  ob_refl : forall h t, G h t t;
  ob_delete : forall h t us refund, has L_users h -> has L_db h -> G h t (state_of (gk_delete_appointments t us refund));
  ob_mempool : forall h t p, has L_carrier h -> G h t (snd (in_mempool sc t p));
  ob_send : forall h t tx, has L_carrier h -> G h t (snd (send_transaction sc t tx));
  ob_add_tracker : forall h t uuid d p s, has L_carrier h -> has L_txindex h -> has L_db h -> G h t (r_add_tracker t uuid d p s)
}.

(* ... of the API requests *)
Record OblApi (G : list lock -> tower -> tower -> Prop) : Prop := {
  ob_set_user : forall h t u ui, has L_users h -> has L_db h -> G h t (p_set_user t u ui);
  ob_new_user : forall h t u ui, has L_users h -> has L_db h -> amem (db_users t) u = false -> G h t (p_new_user t u ui);
  ob_store_app : forall h t a, has L_db h -> G h t (state_of (w_store_appointment t a))
}.

(* ... of the block events *)
Record OblChain (G : list lock -> tower -> tower -> Prop) : Prop := {
  ob_forget : forall h t outd, has L_users h -> G h t (forget_users outd t);
  ob_delete_users : forall h t outd, has L_users h -> has L_db h -> G h t (db_delete_users t outd);
  ob_gk_height : forall h t x, G h t (set_gk_height t x);
  ob_w_height : forall h t x, G h t (set_w_height t x);
  ob_car_height : forall h t x, has L_carrier h -> G h t (set_car_height t x);
  ob_car_memo : forall h t, has L_carrier h -> G h t (set_car_memo t []);
  ob_r_index : forall h t idx, has L_txindex h -> G h t (set_r_index t idx);
  ob_check_conf : forall h le txs x t, has L_reorged h -> has L_db h -> G h t (state_of (check_conf_loop le txs x (db_trks t) t []));
  ob_set_reorged : forall h t r, has L_reorged h -> G h t (set_reorged t r);
  ob_trk_status : forall h t uuid x c, has L_carrier h -> has L_db h -> G h t (set_trk_status t uuid x c)
}.

(* ... of the two critical sections of the locator cache in the block events *)
Definition OblCache (G : list lock -> tower -> tower -> Prop) : Prop :=
  forall h t c, has L_cache h -> G h t (set_w_cache t c).

Ltac has_tac := unfold has; vm_compute; reflexivity.

Ltac norm_held :=
  match goal with
  | |- guark ?G ?h ?p ?K => let h' := eval vm_compute in h in change (guark G h' p K)
  end.

Ltac loop_hook := fail.

Ltac walk_step :=
  match goal with
  | |- guark _ _ (match ?x with _ => _ end) _ => destruct x
  | |- guark _ _ (if ?x then _ else _) _ => destruct x
  | |- _ /\ _ => split
  | |- forall _, _ => intro
  | |- guark _ _ ?p _ =>
      match p with
      | context [match ?x with _ => _ end] => is_var x; destruct x
      | context [if ?x then _ else _] => is_var x; destruct x
      | context [if ?f ?x then _ else _] => is_var x; destruct (f x)
      | context [if ?c then _ else _] => destruct c
      | context [store_triggered_p _ _ _] => unfold store_triggered_p
      | context [match ?x with _ => _ end] => destruct x
      end
  | |- guark _ _ (pbind _ _) _ => apply guark_bind
  | |- _ => loop_hook
  end.

Ltac walk :=
  repeat (cbn [guark pbind acq rel act rd wr panic reach_p add_update_user_p charge_p delete_apps_p authenticate_p expired_p
                 gk_connect_p gk_disconnect_p send_p handle_breach_p reorged_p stale_p r_connect_p r_disconnect_p
                 store_appointment_p store_triggered_p cache_section_p has_tracker_p add_pre_p add_finish add_appointment_p
                 get_appointment_p get_subscription_info_p w_cache_p w_disconnect_p register_p add_p get_p getsub_p fst snd state_of];
          try norm_held; try walk_step).

Ltac kfin H :=
  repeat match goal with b : unit |- _ => destruct b end;
  try match goal with |- ?K ?h ?b => let h' := eval vm_compute in h in change (K h' b) end;
  first [exact H | apply H].

(* actions that only read (or abort without touching anything) *)
Lemma st_reg_decide u bc t : state_of (reg_decide u bc t) = t.
Proof. unfold reg_decide. destruct (gk_get t u); [destruct (u32_add _ _)|destruct (u32_add _ _)]; reflexivity. Qed.
Lemma st_store_act a t : state_of (store_act a t) = state_of (w_store_appointment t a).
Proof. unfold store_act. destruct (w_store_appointment t a); reflexivity. Qed.
Lemma st_find_outdated h t : state_of (find_outdated h t) = t.
Proof. unfold find_outdated. destruct (outdated_users _ _ _); reflexivity. Qed.
Lemma st_index_lookup p t : state_of (index_lookup p t) = t.
Proof. unfold index_lookup. destruct (ti_get _ _); [destruct (ti_get_height _ _)|]; reflexivity. Qed.
Lemma st_load_stale uuid t : state_of (load_stale_tracker uuid t) = t.
Proof. unfold load_stale_tracker. destruct (find_trk _ _); reflexivity. Qed.
Lemma st_find_stale h t : state_of (find_stale h t) = t.
Proof. unfold find_stale. destruct (u32_sub _ _); reflexivity. Qed.
Lemma st_ask_mempool sc p t : state_of (ask_mempool sc p t) = snd (in_mempool sc t p).
Proof. unfold ask_mempool. destruct (in_mempool sc t p); reflexivity. Qed.
Lemma st_send_act sc tx t : state_of (send_act sc tx t) = snd (send_transaction sc t tx).
Proof. unfold send_act. destruct (send_transaction sc t tx); reflexivity. Qed.
Lemma st_store_new_user u ui t :
  state_of (store_new_user u ui t) = if amem (db_users t) u then t else p_new_user t u ui.
Proof. unfold store_new_user. destruct (amem (db_users t) u); reflexivity. Qed.
Lemma st_update_cache b t :
  state_of (update_cache b t) = match ti_update (w_cache t) b with Some c => set_w_cache t c | None => t end.
Proof. unfold update_cache. destruct (ti_update _ _); reflexivity. Qed.
Lemma st_update_index b t :
  state_of (update_index b t) = match ti_update (r_index t) b with Some c => set_r_index t c | None => t end.
Proof. unfold update_index. destruct (ti_update _ _); reflexivity. Qed.
Lemma st_store_height set h s t :
  state_of (store_height set h s t) = match u32_sub h 1 with Some h' => set t h' | None => t end.
Proof. unfold store_height. destruct (u32_sub h 1); reflexivity. Qed.

Section Structural.
  Context (G : list lock -> tower -> tower -> Prop) (le : bool) (sc : script) (HC : OblCommon G sc).

  Ltac leaf :=
    rewrite ?st_reg_decide, ?st_store_act, ?st_find_outdated, ?st_index_lookup, ?st_load_stale, ?st_find_stale,
            ?st_ask_mempool, ?st_send_act;
    first [ apply (ob_refl G sc HC)
          | apply (ob_delete G sc HC); has_tac
          | apply (ob_mempool G sc HC); has_tac
          | apply (ob_send G sc HC); has_tac
          | apply (ob_add_tracker G sc HC); has_tac ].

  Lemma g_breach_uuid_loop d us : forall inv (K : list lock -> list (N * N) -> Prop),
    (forall i, K [] i) -> guark G [] (breach_uuid_loop_p sc d us inv) K.
  Proof.
    induction us as [|uuid us IH]; intros inv K HK; cbn [breach_uuid_loop_p]; [apply HK|].
    walk; try leaf; try (apply IH; exact HK).
  Qed.

  Lemma g_breach_loop ds : forall inv (K : list lock -> list (N * N) -> Prop),
    (forall i, K [] i) -> guark G [] (breach_loop_p sc ds inv) K.
  Proof.
    induction ds as [|d ds IH]; intros inv K HK; cbn [breach_loop_p]; [apply HK|].
    walk; try leaf.
    apply g_breach_uuid_loop. intros i. apply IH. exact HK.
  Qed.

  Section Api.
    Context (HA : OblApi G).

    Lemma g_register u (K : list lock -> out -> Prop) : (forall o, K [] o) -> guark G [] (register_p u) K.
    Proof.
      intros HK. unfold register_p. walk; try leaf; try apply HK.
      - apply (ob_set_user G HA); has_tac.
      - rewrite st_store_new_user. destruct (amem (db_users t) u) eqn:E; [apply (ob_refl G sc HC)|apply (ob_new_user G HA); [has_tac|has_tac|exact E]].
    Qed.

    Lemma g_add signer loc b delay sig (K : list lock -> out -> Prop) :
      (forall o, K [] o) -> guark G [] (add_p sc signer loc b delay sig) K.
    Proof.
      intros HK. unfold add_p, add_appointment_p, add_pre_p, authenticate_p. walk; try leaf; try apply HK;
        try (apply (ob_set_user G HA); has_tac); try (rewrite st_store_act; apply (ob_store_app G HA); has_tac).
    Qed.

    Lemma g_get signer loc (K : list lock -> out -> Prop) : (forall o, K [] o) -> guark G [] (get_p signer loc) K.
    Proof. intros HK. unfold get_p, get_appointment_p, authenticate_p. walk; try leaf; try apply HK. Qed.

    Lemma g_getsub signer (K : list lock -> out -> Prop) : (forall o, K [] o) -> guark G [] (getsub_p signer) K.
    Proof. intros HK. unfold getsub_p, get_subscription_info_p, authenticate_p. walk; try leaf; try apply HK. Qed.
  End Api.

  Section Chain.
    Context (HB : OblChain G).

    Ltac leafc :=
      rewrite ?st_update_cache, ?st_update_index, ?st_store_height;
      first [ leaf
            | apply (ob_forget G HB); has_tac
            | apply (ob_delete_users G HB); has_tac
            | apply (ob_gk_height G HB)
            | apply (ob_w_height G HB)
            | apply (ob_car_height G HB); has_tac
            | apply (ob_car_memo G HB); has_tac
            | apply (ob_r_index G HB); has_tac
            | apply (ob_check_conf G HB); has_tac
            | apply (ob_set_reorged G HB); has_tac
            | apply (ob_trk_status G HB); has_tac ].

    Lemma g_reorged_loop h us : forall rej (K : list lock -> list (N * N) -> Prop),
      (forall r, K [L_db; L_carrier] r) -> guark G [L_db; L_carrier] (reorged_loop_p sc h us rej) K.
    Proof.
      induction us as [|uuid us IH]; intros rej K HK; cbn [reorged_loop_p]; [apply HK|].
      walk; try leafc; try (apply IH; exact HK); try apply HK.
    Qed.

    Lemma g_stale_loop h us : forall rej (K : list lock -> list (N * N) -> Prop),
      (forall r, K [L_db; L_carrier] r) -> guark G [L_db; L_carrier] (stale_loop_p sc h us rej) K.
    Proof.
      induction us as [|uuid us IH]; intros rej K HK; cbn [stale_loop_p]; [apply HK|].
      walk; try leafc; try (apply IH; exact HK); try apply HK.
    Qed.

    Lemma g_gk_connect h (K : list lock -> unit -> Prop) : K [] tt -> guark G [] (gk_connect_p h) K.
    Proof.
      intros HK. unfold gk_connect_p. walk; try leafc; try kfin HK.
    Qed.

    Lemma g_w_rest txs h (K : list lock -> unit -> Prop) : K [] tt -> guark G [] (w_rest_p sc txs h) K.
    Proof.
      intros HK. unfold w_rest_p. walk; try leafc.
      apply g_breach_loop. intros i. walk; try leafc; try kfin HK.
    Qed.

    Context (HW : OblCache G).

    Lemma g_w_connect hash txs h (K : list lock -> unit -> Prop) : K [] tt -> guark G [] (w_connect_p sc hash txs h) K.
    Proof.
      intros HK. unfold w_connect_p. apply guark_bind. unfold w_cache_p. walk.
      - rewrite st_update_cache. destruct (ti_update (w_cache t) (cache_block hash txs)); [apply HW; has_tac|apply (ob_refl G sc HC)].
      - apply g_w_rest. exact HK.
    Qed.

    Ltac loop_hook ::=
      first [ apply g_reorged_loop; intro | apply g_stale_loop; intro | apply g_breach_loop; intro | apply g_breach_uuid_loop; intro ].

    Lemma g_r_connect hash txs h (K : list lock -> unit -> Prop) : K [] tt -> guark G [] (r_connect_p le sc hash txs h) K.
    Proof.
      intros HK. unfold r_connect_p. walk; try leafc; try kfin HK.
      rewrite st_update_index. destruct (ti_update (r_index t) (index_block hash txs)); [apply (ob_r_index G HB); has_tac|apply (ob_refl G sc HC)].
    Qed.

    Lemma g_disconnect hash h (K : list lock -> unit -> Prop) : K [] tt -> guark G [] (disconnect_p hash h) K.
    Proof.
      intros HK. unfold disconnect_p. change Consts.LISTENER_ORDER with [0%Z; 1%Z; 2%Z].
      cbn [run_listeners_p listener_disconnected_p Z.eqb]. unfold gk_disconnect_p, w_disconnect_p, r_disconnect_p, mark_reorged.
      walk; try leafc; try kfin HK; try (apply HW; has_tac);
        rewrite st_store_height; destruct (u32_sub h 1);
        first [apply (ob_gk_height G HB)|apply (ob_w_height G HB)|apply (ob_refl G sc HC)].
    Qed.

    Lemma g_connect hash txs h (K : list lock -> unit -> Prop) : K [] tt -> guark G [] (connect_p le sc hash txs h) K.
    Proof.
      intros HK. unfold connect_p. change Consts.LISTENER_ORDER with [0%Z; 1%Z; 2%Z].
      cbn [run_listeners_p listener_connected_p Z.eqb].
      apply guark_bind. apply g_gk_connect. apply guark_bind. apply g_w_connect. apply guark_bind. apply g_r_connect. exact HK.
    Qed.

    Lemma g_chain evs : forall h stack (K : list lock -> unit -> Prop), K [] tt -> guark G [] (chain_p le sc h stack evs) K.
    Proof.
      induction evs as [|o evs IH]; intros h stack K HK; cbn [chain_p]; [exact HK|].
      destruct o; try (apply IH; exact HK).
      - apply guark_bind. apply g_connect. apply IH. exact HK.
      - destruct stack as [|hash st]; [apply IH; exact HK|]. apply guark_bind. apply g_disconnect. apply IH. exact HK.
    Qed.

    Context (HA : OblApi G).

    (* every action of every thread program of the quantifier satisfies G, and every program
       returns holding no lock *)
    Theorem g_thread t0 ops (K : list lock -> out -> Prop) : (forall o, K [] o) -> guark G [] (prog_of_thread le sc t0 ops) K.
    Proof.
      intros HK.
      assert (Hop : forall o, guark G [] (prog_of_op le sc t0 o) K).
      { intros o. destruct o; cbn [prog_of_op].
        - apply g_register; assumption.
        - apply g_add; assumption.
        - apply g_get; assumption.
        - apply g_getsub; assumption.
        - apply guark_bind. apply g_chain. apply HK.
        - apply guark_bind. apply g_chain. apply HK. }
      unfold prog_of_thread. destruct ops as [|o [|o' r]]; try apply Hop; apply guark_bind; apply g_chain; apply HK.
    Qed.
  End Chain.
End Structural.

(* ------------------------------------------------------------------------------------------ *)
(* 4. every action is a sequence of SQL statements (Crash.v): referential integrity in every
   state of every schedule *)

Definition stmts (t t' : tower) : Prop := exists l, db_of t' = execs (db_of t) l.

Lemma stmts_refl t : stmts t t.
Proof. exists []. reflexivity. Qed.
Lemma stmts_trans a b c : stmts a b -> stmts b c -> stmts a c.
Proof. intros [l1 H1] [l2 H2]. exists (l1 ++ l2). unfold execs in *. rewrite fold_left_app, <- H1. exact H2. Qed.
Lemma stmts_same t t' : db_of t' = db_of t -> stmts t t'.
Proof. intros H. exists []. exact H. Qed.
Lemma stmts_one t t' s : db_of t' = Crash.exec (db_of t) s -> stmts t t'.
Proof. intros H. exists [s]. exact H. Qed.

Lemma stmts_refund_loop us : forall t, stmts t (state_of (refund_loop t us)).
Proof.
  induction us as [|uuid us IH]; intros t; cbn [refund_loop state_of]; [apply stmts_refl|].
  destruct (find_app (db_apps t) uuid) as [a|]; [|apply stmts_refl].
  destruct (gk_get t (a_user a)) as [ui|]; [|apply stmts_refl].
  destruct (u32_add (u_slots ui) (slots_of (b_len (a_blob a)))) as [s|]; [|apply stmts_refl].
  eapply stmts_trans; [|apply IH]. eapply stmts_one. apply prim_refund_is_stmt.
Qed.

Lemma stmts_delete t us refund : stmts t (state_of (gk_delete_appointments t us refund)).
Proof.
  unfold gk_delete_appointments. destruct refund; cbn [state_of].
  - pose proof (stmts_refund_loop us t) as H. destruct (refund_loop t us) as [[] t1|s t1]; cbn [bind state_of] in *; [|exact H].
    eapply stmts_trans; [exact H|]. eapply stmts_one. apply prim_delete_apps_is_stmt.
  - eapply stmts_one. apply prim_delete_apps_is_stmt.
Qed.

Lemma stmts_add_tracker t uuid d p s : stmts t (r_add_tracker t uuid d p s).
Proof.
  unfold r_add_tracker.
  destruct s as [h|h| |c]; try apply stmts_refl;
    destruct (find_trk (db_trks t) uuid) eqn:Et; try apply stmts_refl;
    destruct (find_app (db_apps t) uuid) as [a0|] eqn:Ea; try apply stmts_refl;
    (eapply stmts_one; eapply prim_insert_trk_is_stmt; cbn [trk_uuid t_loc t_user]; destruct uuid; eassumption).
Qed.

Lemma stmts_store_app t a : stmts t (state_of (w_store_appointment t a)).
Proof.
  unfold w_store_appointment. destruct (find_app (db_apps t) (app_uuid a)) eqn:Ef; cbn [state_of].
  - eapply stmts_one. apply prim_update_app_is_stmt.
  - destruct (amem (db_users t) (a_user a)) eqn:Em; cbn [state_of]; [|apply stmts_refl].
    eapply stmts_one. apply prim_insert_app_is_stmt; assumption.
Qed.

Lemma stmts_check_conf le txs h snap : forall t comp, stmts t (state_of (check_conf_loop le txs h snap t comp)).
Proof.
  induction snap as [|k snap IH]; intros t comp; cbn [check_conf_loop state_of]; [apply stmts_refl|].
  destruct (memN (t_penalty k) txs).
  - destruct (find_trk (db_trks t) (trk_uuid k)); [|apply stmts_refl].
    eapply stmts_trans; [|apply IH]. eapply stmts_one. cbn [db_of db_users db_apps db_trks set_reorged]. apply prim_trk_status_is_stmt.
  - destruct (mem_uuid (trk_uuid k) (reorged t)); [apply IH|]. destruct (t_conf k); apply IH.
Qed.

Definition G_stmts : list lock -> tower -> tower -> Prop := fun _ t t' => stmts t t'.

Lemma G_stmts_common sc : OblCommon G_stmts sc.
Proof.
  constructor; unfold G_stmts; intros.
  - apply stmts_refl.
  - apply stmts_delete.
  - apply stmts_same. unfold in_mempool. reflexivity.
  - apply stmts_same. unfold send_transaction. destruct (aget (car_memo t) tx); reflexivity.
  - apply stmts_add_tracker.
Qed.

Lemma G_stmts_api : OblApi G_stmts.
Proof.
  constructor; unfold G_stmts; intros.
  - eapply stmts_one. apply prim_set_user_is_stmt.
  - eapply stmts_one. apply prim_new_user_is_stmt. assumption.
  - apply stmts_store_app.
Qed.

Lemma G_stmts_chain : OblChain G_stmts.
Proof.
  constructor; unfold G_stmts; intros; try (apply stmts_same; reflexivity).
  - eapply stmts_one. instantiate (1 := SDelUsers outd). reflexivity.
  - apply stmts_check_conf.
  - eapply stmts_one. apply prim_trk_status_is_stmt.
Qed.

Lemma G_stmts_cache : OblCache G_stmts.
Proof. intros h t c _. apply stmts_same. reflexivity. Qed.

(* Whatever the schedule, the tables at any moment are the initial tables after a sequence of the
   SQL statements of Crash.v ... *)
Theorem tables_are_statement_sequences le sc t0 t (opss : list (list op)) sched :
  stmts t (cf_tower (run_config (init_config t (map (prog_of_thread le sc t0) opss)) sched)).
Proof.
  apply (invariant_of_all_schedules (fun t' => stmts t t')); [|apply stmts_refl].
  apply Forall_forall. intros p Hp. apply in_map_iff in Hp. destruct Hp as [ops [<- _]].
  eapply guark_mono; [|apply (g_thread G_stmts le sc (G_stmts_common sc) G_stmts_chain G_stmts_cache G_stmts_api t0 ops ktrue); intros; exact I].
  intros h a b Hab Ha. eapply stmts_trans; eauto.
Qed.

(* ... hence key uniqueness and referential integrity (every appointment has its user row, every
   tracker its appointment row) hold in every state of every interleaving, aborts included *)
Theorem no_orphan_records_all_schedules le sc t0 t (opss : list (list op)) sched :
  DbInv (db_of t) -> DbInv (db_of (fst (run_sched t (map (prog_of_thread le sc t0) opss) sched))).
Proof.
  intros HD. unfold run_sched. cbn [fst].
  destruct (tables_are_statement_sequences le sc t0 t opss sched) as [l ->]. apply execs_inv. exact HD.
Qed.

(* ------------------------------------------------------------------------------------------ *)
(* 5. a lock protects its data: an action executed without holding lock L leaves the data inside
   Mutex L untouched (what Rust's typing of Mutex<T> guarantees for the code) *)

Definition G_prot (held : list lock) (t t' : tower) : Prop :=
  cfg t' = cfg t /\
  (memN L_cache held = false -> w_cache t' = w_cache t) /\
  (memN L_users held = false -> gk_users t' = gk_users t) /\
  (memN L_carrier held = false -> car_memo t' = car_memo t /\ car_height t' = car_height t /\ rpc_log t' = rpc_log t) /\
  (memN L_txindex held = false -> r_index t' = r_index t) /\
  (memN L_reorged held = false -> reorged t' = reorged t) /\
  (memN L_db held = false -> db_users t' = db_users t /\ db_apps t' = db_apps t /\ db_trks t' = db_trks t).

(* what the compound procedures may touch *)
Definition touches_users_db (t t' : tower) : Prop :=
  cfg t' = cfg t /\ gk_height t' = gk_height t /\ w_height t' = w_height t /\ w_cache t' = w_cache t /\ r_index t' = r_index t /\
  car_height t' = car_height t /\ car_memo t' = car_memo t /\ reorged t' = reorged t /\ rpc_log t' = rpc_log t.

Lemma touches_refl t : touches_users_db t t.
Proof. repeat split. Qed.
Lemma touches_trans a b c : touches_users_db a b -> touches_users_db b c -> touches_users_db a c.
Proof. unfold touches_users_db. intuition congruence. Qed.

Lemma touches_refund_loop us : forall t, touches_users_db t (state_of (refund_loop t us)).
Proof.
  induction us as [|uuid us IH]; intros t; cbn [refund_loop state_of]; [apply touches_refl|].
  destruct (find_app (db_apps t) uuid) as [a|]; [|apply touches_refl].
  destruct (gk_get t (a_user a)) as [ui|]; [|apply touches_refl].
  destruct (u32_add (u_slots ui) (slots_of (b_len (a_blob a)))) as [s|]; [|apply touches_refl].
  eapply touches_trans; [|apply IH]. repeat split.
Qed.

Lemma touches_delete t us refund : touches_users_db t (state_of (gk_delete_appointments t us refund)).
Proof.
  unfold gk_delete_appointments. destruct refund; cbn [state_of]; [|repeat split].
  pose proof (touches_refund_loop us t) as H. destruct (refund_loop t us) as [[] t1|s t1]; cbn [bind state_of] in *; [|exact H].
  eapply touches_trans; [exact H|]. repeat split.
Qed.

Definition touches_trks_reorged (t t' : tower) : Prop :=
  cfg t' = cfg t /\ gk_users t' = gk_users t /\ gk_height t' = gk_height t /\ db_users t' = db_users t /\ db_apps t' = db_apps t /\
  w_height t' = w_height t /\ w_cache t' = w_cache t /\ r_index t' = r_index t /\
  car_height t' = car_height t /\ car_memo t' = car_memo t /\ rpc_log t' = rpc_log t.

Lemma touches_check_conf le txs h snap : forall t comp, touches_trks_reorged t (state_of (check_conf_loop le txs h snap t comp)).
Proof.
  induction snap as [|k snap IH]; intros t comp; cbn [check_conf_loop state_of]; [repeat split|].
  destruct (memN (t_penalty k) txs).
  - destruct (find_trk (db_trks t) (trk_uuid k)); [|repeat split].
    match goal with |- touches_trks_reorged t (state_of (check_conf_loop _ _ _ _ ?t1 _)) =>
      pose proof (IH t1 comp) as H; unfold touches_trks_reorged in *; cbn in H |- *; intuition congruence end.
  - destruct (mem_uuid (trk_uuid k) (reorged t)); [apply IH|]. destruct (t_conf k); apply IH.
Qed.

Ltac prot := unfold G_prot, has in *; repeat split; intros; try reflexivity; try congruence.

Lemma G_prot_common sc : OblCommon G_prot sc.
Proof.
  constructor; intros.
  - prot.
  - pose proof (touches_delete t us refund) as [? [? [? [? [? [? [? [? ?]]]]]]]]. prot.
  - unfold in_mempool. cbn [snd]. prot.
  - unfold send_transaction. destruct (aget (car_memo t) tx); cbn [snd]; prot.
  - unfold r_add_tracker. destruct s; try prot; destruct (find_trk (db_trks t) uuid); try prot; destruct (find_app (db_apps t) uuid); prot.
Qed.

Lemma G_prot_api : OblApi G_prot.
Proof.
  constructor; intros.
  - prot.
  - prot.
  - unfold w_store_appointment. destruct (find_app (db_apps t) (app_uuid a)); [prot|]. destruct (amem (db_users t) (a_user a)); prot.
Qed.

Lemma G_prot_chain : OblChain G_prot.
Proof.
  constructor; intros; try (prot; fail).
  pose proof (touches_check_conf le txs x (db_trks t) t []) as [? [? [? [? [? [? [? [? [? [? ?]]]]]]]]]]. prot.
Qed.

Lemma G_prot_cache : OblCache G_prot.
Proof. intros h t c H. prot. Qed.

Theorem lock_protects_data le sc t0 ops : guark G_prot [] (prog_of_thread le sc t0 ops) (fun h _ => h = []).
Proof. apply (g_thread G_prot le sc (G_prot_common sc) G_prot_chain G_prot_cache G_prot_api). reflexivity. Qed.

(* ------------------------------------------------------------------------------------------ *)
(* 6. read-modify-write under `users` is atomic: while a thread holds the users lock, no step of
   any other thread changes the gatekeeper's user map (for ANY number of threads running thread
   programs of the quantifier, and any schedule) *)

Definition progs_of le sc t0 (opss : list (list op)) : list (prog out) := map (prog_of_thread le sc t0) opss.

Lemma reachable_guar G le sc t0 t opss sched :
  OblCommon G sc -> OblChain G -> OblCache G -> OblApi G ->
  Forall (tguar G) (cf_threads (run_config (init_config t (progs_of le sc t0 opss)) sched)).
Proof.
  intros HC HB HW HA. apply (run_config_inv (fun c => Forall (tguar G) (cf_threads c))).
  - intros c i c' Hall Hs. apply (step_guar G c i c' Hall Hs).
  - cbn [cf_threads init_config]. apply Forall_forall. intros th Hin. apply in_map_iff in Hin. destruct Hin as [p [<- Hp]].
    apply tguar_spawn. apply in_map_iff in Hp. destruct Hp as [ops [<- _]].
    apply (g_thread G le sc HC HB HW HA t0 ops ktrue). intros; exact I.
Qed.

Theorem users_map_stable_while_locked le sc t0 t opss sched i j thi c' :
  let c := run_config (init_config t (progs_of le sc t0 opss)) sched in
  nth_error (cf_threads c) i = Some thi -> holds thi L_users = true -> i <> j ->
  step_thread c j = Some c' ->
  gk_users (cf_tower c') = gk_users (cf_tower c).
Proof.
  intros c Hi Hh Hij Hs.
  pose proof (reachable_guar G_prot le sc t0 t opss sched (G_prot_common sc) G_prot_chain G_prot_cache G_prot_api) as Hall.
  pose proof (excl_run t (progs_of le sc t0 opss) sched) as Hex. fold c in Hall, Hex.
  destruct (step_guar G_prot c j c' Hall Hs) as [_ [E|[thj [Hj Hg]]]]; [rewrite E; reflexivity|].
  destruct Hg as [_ [_ [Hu _]]]. apply Hu. exact (Hex i j thi thj L_users Hi Hj Hij Hh).
Qed.

(* the same for the three tables under `dbm`, the locator cache under its lock, ... : one statement *)
Theorem data_stable_while_locked le sc t0 t opss sched i j thi c' l :
  let c := run_config (init_config t (progs_of le sc t0 opss)) sched in
  nth_error (cf_threads c) i = Some thi -> holds thi l = true -> i <> j ->
  step_thread c j = Some c' ->
  (l = L_cache -> w_cache (cf_tower c') = w_cache (cf_tower c)) /\
  (l = L_users -> gk_users (cf_tower c') = gk_users (cf_tower c)) /\
  (l = L_db -> db_users (cf_tower c') = db_users (cf_tower c) /\ db_apps (cf_tower c') = db_apps (cf_tower c) /\
               db_trks (cf_tower c') = db_trks (cf_tower c)) /\
  (l = L_carrier -> car_memo (cf_tower c') = car_memo (cf_tower c) /\ car_height (cf_tower c') = car_height (cf_tower c)) /\
  (l = L_txindex -> r_index (cf_tower c') = r_index (cf_tower c)) /\
  (l = L_reorged -> reorged (cf_tower c') = reorged (cf_tower c)).
Proof.
  intros c Hi Hh Hij Hs.
  pose proof (reachable_guar G_prot le sc t0 t opss sched (G_prot_common sc) G_prot_chain G_prot_cache G_prot_api) as Hall.
  pose proof (excl_run t (progs_of le sc t0 opss) sched) as Hex. fold c in Hall, Hex.
  destruct (step_guar G_prot c j c' Hall Hs) as [_ [E|[thj [Hj Hg]]]]; [rewrite E; repeat split; reflexivity|].
  pose proof (Hex i j thi thj l Hi Hj Hij Hh) as Hn. unfold holds in Hn.
  destruct Hg as [_ [H1 [H2 [H3 [H4 [H5 H6]]]]]].
  split; [intros ->; apply H1; exact Hn|]. split; [intros ->; apply H2; exact Hn|].
  split; [intros ->; apply H6; exact Hn|]. split; [intros ->; destruct (H3 Hn) as [? [? ?]]; split; assumption|].
  split; [intros ->; apply H4; exact Hn|intros ->; apply H5; exact Hn].
Qed.
