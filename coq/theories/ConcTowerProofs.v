(* ConcTowerProofs.v — proofs about the concurrent tower model (ConcTower.v).
   1. exec_is_step: a thread program run with no interference is Tower.v's sequential step
      (the sequential and the concurrent model cannot drift apart).
   2. generic facts about the interleaving semantics: thread-local residuals, mutual exclusion,
      invariants preserved by every action are invariants of every schedule.
   3. lock_protects_data: in every thread program, an action executed without holding a lock
      leaves the data that lock protects untouched (what Rust's Mutex<T> guarantees by typing).
   Lemmas only; the statements of the property are collected in Properties/C10.v. *)
From TeosModel Require Import Base ListAux TxIndex Tower TowerStable TowerInv TowerProofs TowerBreach Crash ConcTower.
From TeosModel.Gen Require Consts.
From Coq Require Import Lia.
Local Open Scope N_scope.

(* ------------------------------------------------------------------------------------------ *)
(* 1. exec *)

Lemma exec_bind {A C} (p : prog A) (g : A -> prog C) t :
  exec (pbind p g) t = match exec p t with Ok a t' => exec (g a) t' | Abort s t' => Abort s t' end.
Proof.
  revert t. induction p as [a|l k IH|l k IH|B f k IH]; intros t; cbn [pbind exec]; auto.
  destruct (f t) as [b t'|s t']; auto.
Qed.

Lemma exec_act {B} (f : tower -> res B) t : exec (act f) t = f t.
Proof. unfold act. cbn. destruct (f t); reflexivity. Qed.
Lemma exec_rd {B} (f : tower -> B) t : exec (rd f) t = Ok (f t) t.
Proof. reflexivity. Qed.
Lemma exec_wr f t : exec (wr f) t = Ok tt (f t).
Proof. reflexivity. Qed.
Lemma exec_acq l t : exec (acq l) t = Ok tt t.
Proof. reflexivity. Qed.
Lemma exec_rel l t : exec (rel l) t = Ok tt t.
Proof. reflexivity. Qed.
Lemma exec_panic {B} s t : exec (@panic B s) t = Abort s t.
Proof. reflexivity. Qed.
Lemma exec_reach t : exec reach_p t = Ok tt t.
Proof. reflexivity. Qed.

Ltac ex := repeat (rewrite ?exec_bind, ?exec_act, ?exec_rd, ?exec_wr, ?exec_acq, ?exec_rel, ?exec_panic, ?exec_reach; cbn [exec]).

Section Seq.
  Context (le : bool) (sc : script).

  Lemma exec_add_update_user u t : exec (add_update_user_p u) t = gk_add_update_user t u.
  Proof.
    unfold add_update_user_p, gk_add_update_user. ex. unfold reg_decide.
    destruct (gk_get t u) as [ui|].
    - destruct (u32_add (u_slots ui) (c_slots (cfg t))) as [s|]; ex; reflexivity.
    - destruct (u32_add (gk_height t) (c_duration (cfg t))) as [e|]; ex; [|reflexivity].
      unfold store_new_user. destruct (amem (db_users t) u); ex; reflexivity.
  Qed.

  Lemma exec_charge u uuid blen t : exec (charge_p u uuid blen) t = gk_add_update_appointment t u uuid blen.
  Proof.
    unfold charge_p, gk_add_update_appointment. ex. unfold charge_user.
    destruct (gk_get t u) as [ui|]; ex; [|reflexivity].
    unfold used_slots.
    destruct (N.leb (slots_of blen) (u_slots ui + match find_app (db_apps t) uuid with Some a => slots_of (b_len (a_blob a)) | None => 0 end));
      ex; reflexivity.
  Qed.

  Lemma exec_delete_apps us refund t : exec (delete_apps_p us refund) t = gk_delete_appointments t us refund.
  Proof. unfold delete_apps_p. ex. destruct (gk_delete_appointments t us refund) as [[] t'|s t']; reflexivity. Qed.

  Lemma exec_send tx t : exec (send_p sc tx) t = (let '(s, t1) := send_transaction sc t tx in Ok s t1).
  Proof. unfold send_p. ex. unfold send_act. destruct (send_transaction sc t tx); reflexivity. Qed.

  Lemma exec_handle_breach uuid d p t : exec (handle_breach_p sc uuid d p) t = r_handle_breach sc t uuid d p.
  Proof.
    unfold handle_breach_p, r_handle_breach. ex. unfold index_lookup.
    destruct (ti_get (r_index t) p) as [bh|].
    - destruct (ti_get_height (r_index t) bh) as [h|]; ex; [|reflexivity].
      cbn [bind]. destruct (status_accepted (ConfirmedIn (Z.to_N h))); ex; reflexivity.
    - ex. unfold ask_mempool. destruct (in_mempool sc t p) as [inm t1]. destruct inm; ex.
      + cbn [bind]. destruct (status_accepted (InMempoolSince (car_height t1))); ex; reflexivity.
      + rewrite exec_send. destruct (send_transaction sc t1 p) as [s t2]. cbn [bind].
        destruct (status_accepted s); ex; reflexivity.
  Qed.

  Lemma exec_store_appointment a t : exec (store_appointment_p a) t = w_store_appointment t a.
  Proof. unfold store_appointment_p. ex. destruct (w_store_appointment t a) as [[] t'|s t']; reflexivity. Qed.

  Lemma exec_store_triggered a d t : exec (store_triggered_p sc a d) t = w_store_triggered sc t a d.
  Proof.
    unfold store_triggered_p, w_store_triggered.
    destruct (decrypt (a_blob a) d) as [p|].
    - ex. rewrite exec_store_appointment. destruct (w_store_appointment t a) as [[] t1|s t1]; [|reflexivity].
      cbn [bind]. rewrite exec_bind, exec_handle_breach.
      destruct (r_handle_breach sc t1 (app_uuid a) d p) as [s t2|s t2]; [|reflexivity].
      cbn [bind]. destruct (status_rejected s); [apply exec_delete_apps|reflexivity].
    - ex. destruct (find_app (db_apps t) (app_uuid a)); [apply exec_delete_apps|reflexivity].
  Qed.

  Lemma exec_authenticate signer t : exec (authenticate_p signer) t = Ok (authenticate t signer) t.
  Proof. unfold authenticate_p. destruct signer; reflexivity. Qed.

  Lemma exec_expired u t :
    exec (expired_p u) t = match gk_get t u with
                           | Some ui => Ok (N.leb (u_expiry ui) (gk_height t), u_expiry ui) t
                           | None => Abort S_api_expired_unwrap t
                           end.
  Proof. unfold expired_p. ex. destruct (gk_get t u); reflexivity. Qed.

  Lemma exec_cache_section a t :
    exec (cache_section_p sc a) t =
    match ti_get (w_cache t) (a_loc a) with
    | Some dispute => w_store_triggered sc t a dispute
    | None => w_store_appointment t a
    end.
  Proof.
    unfold cache_section_p. ex. destruct (ti_get (w_cache t) (a_loc a)) as [d|].
    - rewrite exec_store_triggered. destruct (w_store_triggered sc t a d) as [[] t'|s t']; reflexivity.
    - rewrite exec_store_appointment. destruct (w_store_appointment t a) as [[] t'|s t']; reflexivity.
  Qed.

  Lemma exec_add_appointment signer loc b delay sig t :
    exec (add_appointment_p sc signer loc b delay sig) t = w_add_appointment sc t signer loc b delay sig.
  Proof.
    unfold add_appointment_p, add_pre_p, w_add_appointment. rewrite !exec_bind, exec_authenticate.
    destruct (authenticate t signer) as [u|]; [|reflexivity].
    rewrite exec_bind, exec_expired. destruct (gk_get t u) as [ui|]; [|reflexivity].
    cbn [fst snd]. destruct (N.leb (u_expiry ui) (gk_height t)); [reflexivity|].
    ex. unfold has_tracker_p. ex. destruct (find_trk (db_trks t) (loc, u)); ex; [reflexivity|].
    rewrite exec_charge. destruct (gk_add_update_appointment t u (loc, u) (b_len b)) as [ch t1|s t1]; [|reflexivity].
    cbn [bind]. destruct ch as [available|]; [|reflexivity].
    cbn [exec add_finish]. rewrite exec_bind, exec_cache_section. cbn [a_loc].
    destruct (ti_get (w_cache t1) loc) as [d|].
    - destruct (w_store_triggered sc t1 (mk_app loc u b delay sig (w_height t)) d) as [[] t2|s t2]; reflexivity.
    - destruct (w_store_appointment t1 (mk_app loc u b delay sig (w_height t))) as [[] t2|s t2]; reflexivity.
  Qed.

  Lemma exec_get_appointment signer loc t : exec (get_appointment_p signer loc) t = w_get_appointment t signer loc.
  Proof.
    unfold get_appointment_p, w_get_appointment. rewrite exec_bind, exec_authenticate.
    destruct (authenticate t signer) as [u|]; [|reflexivity].
    rewrite exec_bind, exec_expired. destruct (gk_get t u) as [ui|]; [|reflexivity].
    cbn [fst snd]. destruct (N.leb (u_expiry ui) (gk_height t)); [reflexivity|].
    ex. unfold load_for_get. destruct (find_trk (db_trks t) (loc, u)), (find_app (db_apps t) (loc, u)); reflexivity.
  Qed.

  Lemma exec_gk_connect h t : exec (gk_connect_p h) t = gk_block_connected t h.
  Proof.
    unfold gk_connect_p, gk_block_connected. ex. unfold find_outdated.
    destruct (outdated_users (c_delta (cfg t)) h (gk_users t)) as [outd|]; ex; [|reflexivity].
    destruct outd; ex; reflexivity.
  Qed.

  Lemma exec_breach_uuid_loop d us : forall invalid t,
    exec (breach_uuid_loop_p sc d us invalid) t = breach_uuid_loop sc d us t invalid.
  Proof.
    induction us as [|uuid us IH]; intros invalid t; cbn [breach_uuid_loop_p breach_uuid_loop]; [reflexivity|].
    ex. unfold load_breached. destruct (find_app (db_apps t) uuid) as [a|]; ex; [|reflexivity].
    destruct (decrypt (a_blob a) d) as [p|]; [|apply IH].
    rewrite exec_bind, exec_handle_breach. destruct (r_handle_breach sc t uuid d p) as [s t1|s t1]; [|reflexivity].
    cbn [bind]. apply IH.
  Qed.

  Lemma exec_breach_loop ds : forall invalid t, exec (breach_loop_p sc ds invalid) t = breach_loop sc ds t invalid.
  Proof.
    induction ds as [|d ds IH]; intros invalid t; cbn [breach_loop_p breach_loop]; [reflexivity|].
    ex. unfold load_uuids. rewrite exec_breach_uuid_loop.
    destruct (breach_uuid_loop sc d (map app_uuid (filter (fun a => N.eqb (a_loc a) d) (db_apps t))) t invalid) as [inv t1|s t1];
      [|reflexivity].
    cbn [bind]. apply IH.
  Qed.

  Lemma exec_w_connect hash txs h t :
    exec (w_connect_p sc hash txs h) t = w_block_connected sc t (cache_block hash txs) h.
  Proof.
    unfold w_connect_p, w_block_connected. ex. unfold update_cache.
    destruct (ti_update (w_cache t) (cache_block hash txs)) as [c|]; ex; [|reflexivity].
    rewrite keys_of_cache_block. unfold find_breaches. cbn [db_apps set_w_cache].
    rewrite exec_breach_loop.
    match goal with |- context [breach_loop sc ?ds ?tt []] => destruct (breach_loop sc ds tt []) as [inv t2|s t2] end; [|reflexivity].
    cbn [bind]. destruct inv as [|x inv]; ex; [reflexivity|].
    rewrite exec_delete_apps. destruct (gk_delete_appointments t2 (x :: inv) false) as [[] t3|s t3]; reflexivity.
  Qed.

  Lemma exec_reorged_loop h us : forall rej t, exec (reorged_loop_p sc h us rej) t = reorged_loop sc h us t rej.
  Proof.
    induction us as [|uuid us IH]; intros rej t; cbn [reorged_loop_p reorged_loop]; [reflexivity|].
    ex. destruct (find_trk (db_trks t) uuid) as [k|]; [|apply IH].
    rewrite exec_bind, exec_send. destruct (send_transaction sc t (t_dispute k)) as [s t1].
    destruct s as [hh|hh| |c]; ex; try apply IH; try reflexivity.
    - rewrite exec_send. destruct (send_transaction sc t1 (t_penalty k)) as [s2 t2].
      destruct (status_rejected s2); ex; apply IH.
    - rewrite exec_send. destruct (send_transaction sc t1 (t_penalty k)) as [s2 t2].
      destruct (status_rejected s2); ex; apply IH.
  Qed.

  Lemma exec_stale_loop h us : forall rej t, exec (stale_loop_p sc h us rej) t = stale_loop sc h us t rej.
  Proof.
    induction us as [|uuid us IH]; intros rej t; cbn [stale_loop_p stale_loop]; [reflexivity|].
    ex. unfold load_stale_tracker. destruct (find_trk (db_trks t) uuid) as [k|]; ex; [|reflexivity].
    rewrite exec_send. destruct (send_transaction sc t (t_penalty k)) as [s t1].
    destruct s as [hh|hh| |c]; ex; apply IH.
  Qed.

  Lemma exec_r_connect hash txs h t :
    exec (r_connect_p le sc hash txs h) t = r_block_connected le sc t (index_block hash txs) h.
  Proof.
    unfold r_connect_p, r_block_connected. ex. unfold update_index. cbn [r_index set_car_height].
    destruct (ti_update (r_index t) (index_block hash txs)) as [idx|]; ex; [|reflexivity].
    rewrite keys_of_index_block. cbn [db_trks set_r_index set_car_height].
    match goal with |- context [check_conf_loop le txs h ?snap ?tt []] => destruct (check_conf_loop le txs h snap tt []) as [completed t2|s t2] end;
      ex; [|reflexivity].
    cbn [bind].
    assert (Hdel : forall l t, exec (match l with [] => Ret tt | _ :: _ => delete_apps_p l true end) t =
                               match l with [] => Ok tt t | _ :: _ => gk_delete_appointments t l true end).
    { intros l t'. destruct l; [reflexivity|apply exec_delete_apps]. }
    rewrite Hdel.
    match goal with |- match ?X with Ok _ _ => _ | Abort _ _ => _ end = _ => destruct X as [[] t3|s t3] end; [|reflexivity].
    cbn [bind]. ex.
    assert (Hre : exec (if match reorged t3 with [] => false | _ :: _ => true end then reorged_p sc h else Ret []) t3 =
                  match reorged t3 with [] => Ok [] t3 | us => reorged_loop sc h us (set_reorged t3 []) [] end).
    { destruct (reorged t3) as [|x us] eqn:Er; [reflexivity|].
      unfold reorged_p. ex. unfold take_reorged. rewrite Er. ex. rewrite exec_reorged_loop.
      destruct (reorged_loop sc h (x :: us) (set_reorged t3 []) []) as [rej t4|s t4]; reflexivity. }
    rewrite Hre.
    match goal with |- match ?X with Ok _ _ => _ | Abort _ _ => _ end = _ => destruct X as [rej1 t4|s t4] end; [|reflexivity].
    cbn [bind]. unfold stale_p. ex. unfold find_stale.
    destruct (u32_sub h (Z.to_N Consts.CONFIRMATIONS_BEFORE_RETRY)) as [lim|]; ex; [|reflexivity].
    rewrite exec_stale_loop.
    match goal with |- context [stale_loop sc h ?st t4 []] => destruct (stale_loop sc h st t4 []) as [rej2 t5|s t5] end; [|reflexivity].
    cbn [bind]. ex.
    destruct (rej1 ++ rej2) as [|x l]; ex; [reflexivity|].
    rewrite exec_delete_apps. destruct (gk_delete_appointments t5 (x :: l) false) as [[] t6|s t6]; reflexivity.
  Qed.

  Lemma exec_gk_disconnect h t : exec (gk_disconnect_p h) t = gk_block_disconnected t h.
  Proof. unfold gk_disconnect_p, gk_block_disconnected, store_height. ex. destruct (u32_sub h 1); reflexivity. Qed.

  Lemma exec_w_disconnect hash h t : exec (w_disconnect_p hash h) t = w_block_disconnected t hash h.
  Proof. unfold w_disconnect_p, w_block_disconnected, store_height. ex. destruct (u32_sub h 1); reflexivity. Qed.

  Lemma exec_r_disconnect hash h t : exec (r_disconnect_p hash h) t = r_block_disconnected t hash h.
  Proof. unfold r_disconnect_p, r_block_disconnected, mark_reorged. ex. reflexivity. Qed.

  Lemma exec_run_listeners (fp : Z -> prog unit) (f : Z -> tower -> res unit) order :
    (forall w t, exec (fp w) t = f w t) -> forall t, exec (run_listeners_p fp order) t = run_listeners f order t.
  Proof.
    intros Hf. induction order as [|w order IH]; intros t; cbn [run_listeners_p run_listeners]; [reflexivity|].
    rewrite exec_bind, Hf. destruct (f w t) as [[] t1|s t1]; [apply IH|reflexivity].
  Qed.

  Lemma exec_connect hash txs h t :
    exec (connect_p le sc hash txs h) t = run_listeners (listener_connected le sc hash txs h) Consts.LISTENER_ORDER t.
  Proof.
    apply exec_run_listeners. intros w t'. unfold listener_connected_p, listener_connected.
    destruct (Z.eqb w 0); [apply exec_gk_connect|]. destruct (Z.eqb w 1); [apply exec_w_connect|apply exec_r_connect].
  Qed.

  Lemma exec_disconnect hash h t :
    exec (disconnect_p hash h) t = run_listeners (listener_disconnected hash h) Consts.LISTENER_ORDER t.
  Proof.
    apply exec_run_listeners. intros w t'. unfold listener_disconnected_p, listener_disconnected.
    destruct (Z.eqb w 0); [apply exec_gk_disconnect|]. destruct (Z.eqb w 1); [apply exec_w_disconnect|apply exec_r_disconnect].
  Qed.

  Definition unwrap (r : res out) : tower * out :=
    match r with Ok o t => (t, o) | Abort s t => (t, OAbort s) end.

  Lemma last_hash_stack t : last_hash t = hd_error (rev (ti_blocks (r_index t))).
  Proof.
    unfold last_hash. generalize (ti_blocks (r_index t)). intros l.
    induction l as [|x l IH]; [reflexivity|].
    cbn [map rev]. destruct l as [|y l]; [reflexivity|].
    change (last (Some x :: map Some (y :: l)) None) with (last (map Some (y :: l)) None). rewrite IH.
    destruct (rev (y :: l)) as [|z r] eqn:Er; [|reflexivity].
    exfalso. apply (f_equal (@length N)) in Er. rewrite rev_length in Er. discriminate.
  Qed.

  (* THE tie between the two models: the thread program of an operation, run with nobody else
     around, is the sequential step of Tower.v (get_subscription_info has no thread program) *)
  Theorem exec_is_step t o :
    (forall s, o <> OGetSub s) ->
    unwrap (exec (prog_of_op le sc t o) (set_rpc_log t [])) = step le t o sc.
  Proof.
    intros Hns. destruct o as [u|signer loc b delay sig|signer loc|signer|hash txs|]; cbn [prog_of_op step].
    - unfold register_p. ex. rewrite exec_add_update_user.
      destruct (gk_add_update_user (set_rpc_log t []) u); reflexivity.
    - unfold add_p. ex. rewrite exec_add_appointment.
      destruct (w_add_appointment sc (set_rpc_log t []) signer loc b delay sig); reflexivity.
    - unfold get_p. ex. rewrite exec_get_appointment.
      destruct (w_get_appointment (set_rpc_log t []) signer loc); reflexivity.
    - exfalso. apply (Hns signer). reflexivity.
    - cbn [chain_p]. rewrite !exec_bind. rewrite exec_connect.
      change (gk_height (set_rpc_log t [])) with (gk_height t).
      destruct (run_listeners (listener_connected le sc hash txs (gk_height t + 1)) Consts.LISTENER_ORDER (set_rpc_log t [])) as [[] t1|s t1];
        reflexivity.
    - cbn [chain_p]. rewrite last_hash_stack. change (r_index (set_rpc_log t [])) with (r_index t).
      destruct (rev (ti_blocks (r_index t))) as [|hash st]; cbn [hd_error]; [reflexivity|].
      rewrite !exec_bind. rewrite exec_disconnect.
      change (gk_height (set_rpc_log t [])) with (gk_height t).
      destruct (run_listeners (listener_disconnected hash (gk_height t)) Consts.LISTENER_ORDER (set_rpc_log t [])) as [[] t1|s t1];
        reflexivity.
  Qed.
End Seq.
