(* ConcComm.v — C10, linearizability by commutation.
   Two threads whose actions commute pairwise (as functions on the shared state, values included) - except that the
   FIRST action of each may conflict with the other thread (here: the load resp. the store of the gatekeeper's height) -
   are linearizable for ALL schedules: state and replies are those of the order in which the two first actions were
   executed.  After the first of the two conflicting actions has happened, everything that is left commutes, and an
   action of one thread can be moved past the whole remaining run of the other.
   Instance: register || block disconnected (the registration reads the height once, before taking `users`; the
   disconnection stores it once, first thing; everything else touches disjoint fields of the tower). *)
From TeosModel Require Import Base ListAux TxIndex Tower ConcTower ConcTowerProofs ConcLin.
From TeosModel.Gen Require Consts.
From Coq Require Import Lia.
Local Open Scope N_scope.

(* g moved across f: same values, same final state, aborts of f preserved *)
Definition comm {A B} (f : tower -> res A) (g : tower -> res B) : Prop :=
  forall t b tb, g t = Ok b tb ->
    match f t with
    | Ok a ta => exists tab, f tb = Ok a tab /\ g ta = Ok b tab
    | Abort s _ => exists t2, f tb = Abort s t2
    end.

Fixpoint acts_all (q : prog out) (P : forall B, (tower -> res B) -> Prop) : Prop :=
  match q with
  | Ret _ => True
  | Acq _ k | Rel _ k => acts_all k P
  | Act B f k => P B f /\ forall b, acts_all (k b) P
  end.

(* every action of q1 commutes with every action of q2, both ways *)
Definition allcomm (q1 q2 : prog out) : Prop :=
  acts_all q1 (fun A f => acts_all q2 (fun B g => comm f g /\ comm g f)).

Lemma acts_all_weaken q (P Q : forall B, (tower -> res B) -> Prop) :
  (forall B f, P B f -> Q B f) -> acts_all q P -> acts_all q Q.
Proof.
  intros H. induction q as [o|l k IH|l k IH|B f k IH]; cbn [acts_all]; auto.
  intros [H1 H2]. split; [apply H; exact H1|intros b; apply IH; apply H2].
Qed.

Lemma allcomm_sym q1 q2 : allcomm q1 q2 -> allcomm q2 q1.
Proof.
  unfold allcomm. revert q1. induction q2 as [o|l k IH|l k IH|B g k IH]; intros q1 H; cbn [acts_all]; auto.
  split.
    + eapply acts_all_weaken; [|exact H]. cbn. intros A f [[H1 H2] _]. split; assumption.
    + intros b. apply IH. eapply acts_all_weaken; [|exact H]. cbn. intros A f [_ Hk]. apply Hk.
Qed.

(* an action moved past the whole run of a program it commutes with *)
Lemma comm_past_run {B} (g : tower -> res B) (q : prog out) :
  acts_all q (fun A f => comm f g) -> forall t b tb, g t = Ok b tb ->
  match exec q t with
  | Ok a ta => exists tab, exec q tb = Ok a tab /\ g ta = Ok b tab
  | Abort s _ => exists t2, exec q tb = Abort s t2
  end.
Proof.
  induction q as [o|l k IH|l k IH|A f k IH]; cbn [acts_all exec]; intros Hq t b tb Hg.
  - exists tb. split; [reflexivity|exact Hg].
  - apply IH; assumption.
  - apply IH; assumption.
  - destruct Hq as [Hc Hk]. pose proof (Hc t b tb Hg) as H. destruct (f t) as [a ta|s ta].
    + destruct H as [tab [E1 E2]]. rewrite E1. apply (IH a (Hk a) ta b tab E2).
    + destruct H as [t2 E]. rewrite E. exists t2. reflexivity.
Qed.

Definition seq2 (q1 q2 : prog out) (t : tower) : option (out * out * tower) :=
  match exec q1 t with
  | Ok a ta => match exec q2 ta with Ok b tf => Some (a, b, tf) | Abort _ _ => None end
  | Abort _ _ => None
  end.

Lemma seq2_move B (g : tower -> res B) k q b t tb :
  acts_all q (fun A f => comm f g) -> g t = Ok b tb -> seq2 q (Act B g k) t = seq2 q (k b) tb.
Proof.
  intros Hq Hg. unfold seq2. pose proof (comm_past_run g q Hq t b tb Hg) as H.
  destruct (exec q t) as [a ta|s ta].
  - destruct H as [tab [E1 E2]]. rewrite E1. cbn [exec]. rewrite E2. reflexivity.
  - destruct H as [t2 E]. rewrite E. reflexivity.
Qed.

(* the first action of a program (after lock events only) *)
Fixpoint lead (q : prog out) (K : forall B, (tower -> res B) -> (B -> prog out) -> Prop) : Prop :=
  match q with
  | Ret _ => False
  | Acq _ k | Rel _ k => lead k K
  | Act B f k => K B f k
  end.

Section TwoThreads.
  Context (t0 : tower) (PA PB : prog out).

  (* the residual of either thread commutes with the residual of the other once one of the first actions is done *)
  Definition decided_by_first_actions : Prop :=
    lead PA (fun A f kA => lead PB (fun B g kB =>
      (forall a, allcomm (kA a) (Act B g kB)) /\ (forall b, allcomm (Act A f kA) (kB b)))).

  Definition sw (r : option (out * out * tower)) : option (out * out * tower) :=
    match r with Some (b, a, t) => Some (a, b, t) | None => None end.

  Definition Ph (qa qb : prog out) (t : tower) : Prop :=
     (t = t0 /\ (forall t', exec qa t' = exec PA t') /\ (forall t', exec qb t' = exec PB t') /\
      lead qa (fun A f kA => lead qb (fun B g kB =>
        (forall a, allcomm (kA a) (Act B g kB)) /\ (forall b, allcomm (Act A f kA) (kB b)))))
  \/ (allcomm qa qb /\ seq2 qa qb t = seq2 PA PB t0)
  \/ (allcomm qa qb /\ seq2 qb qa t = seq2 PB PA t0).

  Definition J (c : conf) : Prop :=
    exists qa ha tra qb hb trb,
      cf_threads c = [mk_cthread (Running qa) ha tra; mk_cthread (Running qb) hb trb] /\ Ph qa qb (cf_tower c).

  Definition aborted (c : conf) : Prop :=
    exists i th r, nth_error (cf_threads c) i = Some th /\ ct_st th = Ended r /\ ended_by_abort r.

  Lemma aborted_step c i c' : aborted c -> step_thread c i = Some c' -> aborted c'.
  Proof.
    intros [j [th [r [Hn [He Hab]]]]] Hs.
    destruct (step_thread_cases c i c' Hs) as [thi [p [Hni [Hst Hc]]]].
    assert (Hij : i <> j) by (intros ->; rewrite Hn in Hni; inversion Hni; subst; congruence).
    exists j, th, r. split; [|split; [exact He|exact Hab]].
    destruct Hc as [[l [k [_ [_ [_ ->]]]]]|[[l [k [_ [_ [_ ->]]]]]|[[l [k [_ ->]]]|[[B [f [k [bb [t' [_ [_ ->]]]]]]]|[B [f [k [s [t' [_ [_ ->]]]]]]]]]]];
      cbn [die cf_threads]; rewrite nth_error_set_nth_neq by exact Hij; exact Hn.
  Qed.

  Lemma allcomm_actl A f k q a : allcomm (Act A f k) q -> allcomm (k a) q.
  Proof. unfold allcomm. cbn [acts_all]. intros [_ H]. apply H. Qed.
  Lemma allcomm_actr A f k q a : allcomm q (Act A f k) -> allcomm q (k a).
  Proof. intros H. apply allcomm_sym. eapply allcomm_actl. apply allcomm_sym. exact H. Qed.

  Lemma allcomm_head_l A f k q : allcomm (Act A f k) q -> acts_all q (fun B g => comm g f).
  Proof. unfold allcomm. cbn [acts_all]. intros [H _]. eapply acts_all_weaken; [|exact H]. cbn. intros B g [_ X]. exact X. Qed.
  Lemma allcomm_head_r A f k q : allcomm q (Act A f k) -> acts_all q (fun B g => comm g f).
  Proof. intros H. apply allcomm_head_l with (k := k). apply allcomm_sym. exact H. Qed.

  (* lock events *)
  Lemma Ph_skip_a qa qa' qb t : (forall t', exec qa' t' = exec qa t') ->
    (forall K, lead qa K -> lead qa' K) -> (forall q, allcomm qa q -> allcomm qa' q) -> Ph qa qb t -> Ph qa' qb t.
  Proof.
    intros He Hl Hc [[-> [Ha [Hb Hld]]]|[[Hcm Hs]|[Hcm Hs]]].
    - left. split; [reflexivity|]. split; [intros t'; rewrite He; apply Ha|]. split; [exact Hb|apply Hl; exact Hld].
    - right. left. split; [apply Hc; exact Hcm|]. unfold seq2 in *. rewrite He. exact Hs.
    - right. right. split; [apply Hc; exact Hcm|]. unfold seq2 in *.
      destruct (exec qb t) as [b tb|]; [rewrite He|]; exact Hs.
  Qed.

  Lemma lead_inner_skip qa qb qb' :
    (forall K, lead qb K -> lead qb' K) ->
    lead qa (fun A f kA => lead qb (fun B g kB => (forall a, allcomm (kA a) (Act B g kB)) /\ (forall b, allcomm (Act A f kA) (kB b)))) ->
    lead qa (fun A f kA => lead qb' (fun B g kB => (forall a, allcomm (kA a) (Act B g kB)) /\ (forall b, allcomm (Act A f kA) (kB b)))).
  Proof. intros H. induction qa as [o|l k IH|l k IH|A f k IH]; cbn [lead]; auto. Qed.

  Lemma Ph_skip_b qa qb qb' t : (forall t', exec qb' t' = exec qb t') ->
    (forall K, lead qb K -> lead qb' K) -> (forall q, allcomm q qb -> allcomm q qb') -> Ph qa qb t -> Ph qa qb' t.
  Proof.
    intros He Hl Hc [[-> [Ha [Hb Hld]]]|[[Hcm Hs]|[Hcm Hs]]].
    - left. split; [reflexivity|]. split; [exact Ha|]. split; [intros t'; rewrite He; apply Hb|].
      eapply lead_inner_skip; eauto.
    - right. left. split; [apply Hc; exact Hcm|]. unfold seq2 in *.
      destruct (exec qa t) as [a ta|]; [rewrite He|]; exact Hs.
    - right. right. split; [apply Hc; exact Hcm|]. unfold seq2 in *. rewrite He. exact Hs.
  Qed.

  (* thread A acts *)
  Lemma Ph_act_a A f k qb t a t' : Ph (Act A f k) qb t -> f t = Ok a t' -> Ph (k a) qb t'.
  Proof.
    intros [[-> [Ha [Hb Hld]]]|[[Hcm Hs]|[Hcm Hs]]] E.
    - (* the first action of the two: A goes first *)
      right. left. cbn [lead] in Hld. split.
      + clear - Hld. induction qb as [o|l kb IH|l kb IH|B g kb IH]; cbn [lead] in Hld; [destruct Hld|apply IH; exact Hld|apply IH; exact Hld|].
        apply (proj1 Hld a).
      + unfold seq2. rewrite <- (Ha t0). cbn [exec]. rewrite E. destruct (exec (k a) t') as [x tx|]; [rewrite Hb|]; reflexivity.
    - right. left. split; [eapply allcomm_actl; exact Hcm|]. rewrite <- Hs. unfold seq2. cbn [exec]. rewrite E. reflexivity.
    - right. right. split; [eapply allcomm_actl; exact Hcm|]. rewrite <- Hs. symmetry.
      apply seq2_move; [|exact E]. eapply allcomm_head_l. exact Hcm.
  Qed.

  Lemma Ph_act_b qa B g k t b t' : Ph qa (Act B g k) t -> g t = Ok b t' -> Ph qa (k b) t'.
  Proof.
    intros [[-> [Ha [Hb Hld]]]|[[Hcm Hs]|[Hcm Hs]]] E.
    - right. right. split.
      + clear - Hld. induction qa as [o|l ka IH|l ka IH|A f ka IH]; cbn [lead] in Hld; [destruct Hld|apply IH; exact Hld|apply IH; exact Hld|].
        cbn [lead] in Hld. apply (proj2 Hld b).
      + unfold seq2. rewrite <- (Hb t0). cbn [exec]. rewrite E. destruct (exec (k b) t') as [x tx|]; [rewrite Ha|]; reflexivity.
    - right. left. split; [eapply allcomm_actr; exact Hcm|]. rewrite <- Hs. symmetry.
      apply seq2_move; [|exact E]. eapply allcomm_head_r. exact Hcm.
    - right. right. split; [eapply allcomm_actr; exact Hcm|]. rewrite <- Hs. unfold seq2. cbn [exec]. rewrite E. reflexivity.
  Qed.

  Lemma J_step c i c' : J c -> step_thread c i = Some c' -> J c' \/ aborted c'.
  Proof.
    intros [qa [ha [tra [qb [hb [trb [Hth Hph]]]]]]] Hs.
    destruct (step_thread_cases c i c' Hs) as [th [p [Hn [Hst Hc]]]].
    rewrite Hth in Hn.
    destruct i as [|[|i]]; cbn [nth_error] in Hn; [| |destruct i; discriminate].
    - inversion Hn; subst th. cbn [ct_st ct_held ct_trace] in *. inversion Hst; subst p. clear Hst Hn.
      destruct Hc as [[l [k [-> [_ [_ ->]]]]]|[[l [k [-> [_ [_ ->]]]]]|[[l [k [-> ->]]]|[[B [f [k [bb [t' [-> [Hf ->]]]]]]]|[B [f [k [s [t' [-> [Hf ->]]]]]]]]]]].
      + left. exists k, (l :: ha), (l :: tra), qb, hb, trb. rewrite Hth. cbn [set_nth cf_threads cf_tower]. split; [reflexivity|].
        eapply Ph_skip_a; [| | |exact Hph]; auto.
      + right. exists 0%nat. eexists. eexists. unfold die. rewrite Hth. cbn [cf_threads set_nth nth_error]. split; [reflexivity|split; [reflexivity|exact I]].
      + left. exists k, (remove_lock l ha), tra, qb, hb, trb. rewrite Hth. cbn [set_nth cf_threads cf_tower]. split; [reflexivity|].
        eapply Ph_skip_a; [| | |exact Hph]; auto.
      + left. exists (k bb), ha, tra, qb, hb, trb. rewrite Hth. cbn [set_nth cf_threads cf_tower]. split; [reflexivity|].
        eapply Ph_act_a; eauto.
      + right. exists 0%nat. eexists. eexists. unfold die. rewrite Hth. cbn [cf_threads set_nth nth_error]. split; [reflexivity|split; [reflexivity|exact I]].
    - inversion Hn; subst th. cbn [ct_st ct_held ct_trace] in *. inversion Hst; subst p. clear Hst Hn.
      destruct Hc as [[l [k [-> [_ [_ ->]]]]]|[[l [k [-> [_ [_ ->]]]]]|[[l [k [-> ->]]]|[[B [f [k [bb [t' [-> [Hf ->]]]]]]]|[B [f [k [s [t' [-> [Hf ->]]]]]]]]]]].
      + left. exists qa, ha, tra, k, (l :: hb), (l :: trb). rewrite Hth. cbn [set_nth cf_threads cf_tower]. split; [reflexivity|].
        eapply Ph_skip_b; [| | |exact Hph]; auto.
      + right. exists 1%nat. eexists. eexists. unfold die. rewrite Hth. cbn [cf_threads set_nth nth_error]. split; [reflexivity|split; [reflexivity|exact I]].
      + left. exists qa, ha, tra, k, (remove_lock l hb), trb. rewrite Hth. cbn [set_nth cf_threads cf_tower]. split; [reflexivity|].
        eapply Ph_skip_b; [| | |exact Hph]; auto.
      + left. exists qa, ha, tra, (k bb), hb, trb. rewrite Hth. cbn [set_nth cf_threads cf_tower]. split; [reflexivity|].
        eapply Ph_act_b; eauto.
      + right. exists 1%nat. eexists. eexists. unfold die. rewrite Hth. cbn [cf_threads set_nth nth_error]. split; [reflexivity|split; [reflexivity|exact I]].
  Qed.

  (* THE theorem: every schedule in which both return gives state and replies of one of the two sequential orders *)
  Theorem first_actions_decide_the_order sched tf oa ob :
    decided_by_first_actions ->
    run_sched t0 [PA; PB] sched = (tf, [Some (TOut oa); Some (TOut ob)]) ->
    (forall s, oa <> OAbort s) -> (forall s, ob <> OAbort s) ->
    (exists ta, exec PA t0 = Ok oa ta /\ exec PB ta = Ok ob tf) \/
    (exists tb, exec PB t0 = Ok ob tb /\ exec PA tb = Ok oa tf).
  Proof.
    intros Hd Hrun Hna Hnb. unfold run_sched in Hrun. inversion Hrun as [[Ht Hres]]. clear Hrun.
    assert (HJ : J (run_config (init_config t0 [PA; PB]) sched) \/ aborted (run_config (init_config t0 [PA; PB]) sched)).
    { apply (run_config_inv (fun c => J c \/ aborted c)).
      - intros c1 i c2 [HJ|Ha] Hst; [eapply J_step; eauto|right; eapply aborted_step; eauto].
      - left. exists PA, [], [], PB, [], []. split; [reflexivity|]. left. split; [reflexivity|]. split; [reflexivity|]. split; [reflexivity|exact Hd]. }
    destruct HJ as [[qa [ha [tra [qb [hb [trb [Hth Hph]]]]]]]|[i [th [x [Hn [He Hab]]]]]].
    - rewrite Hth in Hres. cbn [map thread_result ct_st] in Hres.
      assert (Ea : qa = Ret oa) by (destruct qa; inversion Hres; reflexivity). subst qa.
      assert (Eb : qb = Ret ob) by (destruct qb; inversion Hres; reflexivity). subst qb.
      rewrite Ht in Hph. destruct Hph as [[_ [_ [_ []]]]|[[_ Hs]|[_ Hs]]]; unfold seq2 in Hs; cbn [exec] in Hs.
      + left. destruct (exec PA t0) as [a ta|] eqn:E1; [|discriminate]. destruct (exec PB ta) as [b tb|] eqn:E2; [|discriminate].
        inversion Hs; subst. exists ta. split; [reflexivity|exact E2].
      + right. destruct (exec PB t0) as [b tb|] eqn:E1; [|discriminate]. destruct (exec PA tb) as [a ta|] eqn:E2; [|discriminate].
        inversion Hs; subst. exists tb. split; [reflexivity|exact E2].
    - exfalso.
      assert (Hx : nth_error (map thread_result (cf_threads (run_config (init_config t0 [PA; PB]) sched))) i = Some (Some x)).
      { rewrite nth_error_map, Hn. cbn [option_map]. unfold thread_result. rewrite He. reflexivity. }
      rewrite Hres in Hx. destruct i as [|[|[|i]]]; cbn [nth_error] in Hx; inversion Hx; subst x; cbn in Hab;
        [destruct oa; try exact Hab; eapply Hna; reflexivity|destruct ob; try exact Hab; eapply Hnb; reflexivity].
  Qed.
End TwoThreads.

(* ------------------------------------------------------------------------------------------ *)
(* register || block disconnected *)

(* an update of the fields the registration never looks at *)
Record bsetter (G : tower -> tower) : Prop := {
  bs_mem : forall t, gk_users (G t) = gk_users t;
  bs_rows : forall t, db_users (G t) = db_users t;
  bs_cfg : forall t, cfg (G t) = cfg t;
  bs_set : forall t u ui, G (p_set_user t u ui) = p_set_user (G t) u ui;
  bs_new : forall t u ui, G (p_new_user t u ui) = p_new_user (G t) u ui
}.

Lemma comm_never {A B} (f : tower -> res A) s : comm f (fun t => @Abort B s t) /\ comm (fun t => @Abort B s t) f.
Proof. split; intros t b tb Hg; [discriminate|]. exists tb. reflexivity. Qed.

Lemma comm_decide G u bc : bsetter G ->
  comm (reg_decide u bc) (fun t => Ok tt (G t)) /\ comm (fun t => Ok tt (G t)) (reg_decide u bc).
Proof.
  intros HG. assert (E : forall t, reg_decide u bc (G t) = match reg_decide u bc t with Ok a _ => Ok a (G t) | Abort s _ => Abort s (G t) end).
  { intros t. unfold reg_decide, gk_get. rewrite (bs_mem G HG), (bs_cfg G HG).
    destruct (aget (gk_users t) u); [destruct (u32_add _ _)|destruct (u32_add _ _)]; reflexivity. }
  assert (St : forall t a t', reg_decide u bc t = Ok a t' -> t' = t).
  { intros t a t' H. pose proof (st_reg_decide u bc t) as X. rewrite H in X. exact X. }
  split; intros t b tb Hg.
  - inversion Hg; subst. rewrite E. destruct (reg_decide u bc t) as [a ta|s ta] eqn:Er.
    + rewrite (St _ _ _ Er). eexists. split; reflexivity.
    + eexists. reflexivity.
  - rewrite (St _ _ _ Hg). exists (G t). split; [reflexivity|]. rewrite E, Hg. reflexivity.
Qed.

Lemma comm_set_user G u ui : bsetter G ->
  comm (fun t => Ok tt (p_set_user t u ui)) (fun t => Ok tt (G t)) /\ comm (fun t => Ok tt (G t)) (fun t => Ok tt (p_set_user t u ui)).
Proof.
  intros HG. split; intros t b tb Hg; inversion Hg; subst; eexists; (split; [reflexivity|]); rewrite (bs_set G HG); reflexivity.
Qed.

Lemma comm_new_user G u ui : bsetter G ->
  comm (store_new_user u ui) (fun t => Ok tt (G t)) /\ comm (fun t => Ok tt (G t)) (store_new_user u ui).
Proof.
  intros HG. split; intros t b tb Hg; unfold store_new_user in *.
  - inversion Hg; subst. rewrite (bs_rows G HG). destruct (amem (db_users t) u); [eexists; reflexivity|].
    eexists. split; [reflexivity|]. rewrite (bs_new G HG). reflexivity.
  - rewrite (bs_rows G HG). destruct (amem (db_users t) u); [discriminate|]. inversion Hg; subst.
    eexists. split; [reflexivity|]. rewrite (bs_new G HG). reflexivity.
Qed.

Lemma comm_read_height G : (forall t, gk_height (G t) = gk_height t) ->
  comm (fun t => Ok (gk_height t) t) (fun t => Ok tt (G t)) /\ comm (fun t => Ok tt (G t)) (fun t => Ok (gk_height t) t).
Proof.
  intros HG. split; intros t b tb Hg; inversion Hg; subst.
  - exists (G t). split; [rewrite HG; reflexivity|reflexivity].
  - exists (G tb). split; [reflexivity|rewrite HG; reflexivity].
Qed.

Ltac bset := constructor; (let x := fresh "x" in intros x; intros; destruct x; reflexivity).
Lemma bs_gk_height x : bsetter (fun t => set_gk_height t x). Proof. bset. Qed.
Lemma bs_w_height x : bsetter (fun t => set_w_height t x). Proof. bset. Qed.
Lemma bs_car_height x : bsetter (fun t => set_car_height t x). Proof. bset. Qed.
Lemma bs_w_cache hash : bsetter (fun t => set_w_cache t (ti_disconnect (w_cache t) hash)). Proof. bset. Qed.
Lemma bs_r_index hash : bsetter (fun t => set_r_index t (ti_disconnect (r_index t) hash)). Proof. bset. Qed.
Lemma bs_mark h : bsetter (mark_reorged h). Proof. bset. Qed.

Ltac comm_tac :=
  unfold store_height, u32_sub;
  try match goal with |- context [N.leb ?x ?y] => destruct (N.leb x y) end;
  first [ apply comm_never
        | apply comm_decide; first [apply bs_gk_height|apply bs_w_height|apply bs_car_height|apply bs_w_cache|apply bs_r_index|apply bs_mark]
        | apply comm_set_user; first [apply bs_gk_height|apply bs_w_height|apply bs_car_height|apply bs_w_cache|apply bs_r_index|apply bs_mark]
        | apply comm_new_user; first [apply bs_gk_height|apply bs_w_height|apply bs_car_height|apply bs_w_cache|apply bs_r_index|apply bs_mark]
        | apply comm_read_height; (let x := fresh "x" in intros x; destruct x; reflexivity) ].

Lemma register_disconnect_decided u hash h :
  decided_by_first_actions (register_p u) ((disconnect_p hash h ;;; Ret tt) ;;; Ret OBlockRes).
Proof.
  unfold decided_by_first_actions, register_p, add_update_user_p, reach_p, disconnect_p.
  change Consts.LISTENER_ORDER with [0%Z; 1%Z; 2%Z].
  cbn [run_listeners_p listener_disconnected_p Z.eqb Pos.eqb]. unfold gk_disconnect_p, w_disconnect_p, r_disconnect_p.
  cbn [pbind acq rel act rd wr lead]. split.
  - intros bc. unfold allcomm. cbn [acts_all]. split.
    + repeat (cbn [pbind acq rel act rd wr acts_all]; match goal with |- comm _ _ /\ comm _ _ => comm_tac | |- _ /\ _ => split | |- forall _, _ => intro | |- True => exact I end).
    + intros plan. destruct plan as [|ui'|ui]; cbn [pbind acq rel act wr acts_all]; repeat (cbn [pbind acq rel act rd wr acts_all]; match goal with |- comm _ _ /\ comm _ _ => comm_tac | |- _ /\ _ => split | |- forall _, _ => intro | |- True => exact I end).
  - intros bb. unfold allcomm. cbn [acts_all]. split.
    + repeat (cbn [pbind acq rel act rd wr acts_all]; match goal with |- comm _ _ /\ comm _ _ => comm_tac | |- _ /\ _ => split | |- forall _, _ => intro | |- True => exact I end).
    + intros bc. split.
      * repeat (cbn [pbind acq rel act rd wr acts_all]; match goal with |- comm _ _ /\ comm _ _ => comm_tac | |- _ /\ _ => split | |- forall _, _ => intro | |- True => exact I end).
      * intros plan. destruct plan as [|ui'|ui]; cbn [pbind acq rel act wr acts_all]; repeat (cbn [pbind acq rel act rd wr acts_all]; match goal with |- comm _ _ /\ comm _ _ => comm_tac | |- _ /\ _ => split | |- forall _, _ => intro | |- True => exact I end).
Qed.
