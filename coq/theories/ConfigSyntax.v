(* ConfigSyntax.v — the vocabulary in which tools/translate_config.py writes down what
   teos/src/config.rs (and cli_config.rs) says: field descriptors, option descriptors, the statements
   of patch_with_options and of verify, the get_auth_method table.  Gen/Config.v contains only values
   of these types; Config.v interprets them.  Definitions only. *)
From Coq Require Export Ascii String List NArith Bool.
Export ListNotations.

(* Text is a list of characters (not Coq's `string`: its extraction would be an OCaml type named
   `string`).  Literals are written `T "..."` and normalised where they are defined
   (`Eval vm_compute in`), so that no `string` is left in the extracted code. *)
Definition text := list ascii.
Definition T (s : string) : text := list_ascii_of_string s.

(* Rust types occurring in `struct Config` / `Option<T>` of `struct Opt` *)
Inductive cty := TStr | TU8 | TU16 | TU32 | TU64 | TBool.

(* a value of a setting *)
Inductive cval := VStr (s : text) | VNum (n : N) | VBool (b : bool).

(* one field of `struct Config`: name, type, its value in `Config::default()`, and whether serde never
   reads it from the file (#[serde(skip)] / #[serde(skip_deserializing)]) *)
Record fieldd := mk_field { f_name : text; f_ty : cty; f_default : cval; f_skip : bool }.

(* one field of `struct Opt`: `Option<T>` given with a value (OValue T), a `bool` flag (OFlag), or a
   field that always has a value and that no Config field is patched from (data_dir, the subcommand) *)
Inductive okind := OValue (t : cty) | OFlag | OOther.
Record optd := mk_opt { o_name : text; o_kind : okind }.

(* the statements of `patch_with_options`, first argument the Config field written, second the Opt
   field read:
     PIfSome c o   : if options.o.is_some() { self.c = options.o.unwrap(); }   (or `if let Some(x) = ..`)
     POrAssign c o : self.c |= options.o;
     PAssign c o   : self.c = options.o;                                                             *)
Inductive pstmt := PIfSome (c o : text) | POrAssign (c o : text) | PAssign (c o : text).

(* everything the precedence part needs about one binary (teosd, teos-cli); d_serde_default is the
   struct-level #[serde(default)] (a key missing from the file takes the value of Default::default()) *)
Record descr := mk_descr {
  d_fields : list fieldd;
  d_serde_default : bool;
  d_opts : list optd;
  d_patch : list pstmt
}.

Inductive auth := UserPass | CookieFile | Multiple | Invalid.

(* the statements of `verify`, in order:
     VRejectAuth a msg           : if auth_method == AuthMethod::a { return Err(ConfigError(msg)) }
     VNormalize f names suffix   : if names.contains(self.f) { self.f = self.f.trim_end_matches(suffix) }
     VPortMatch f rows msg       : let default_rpc_port = match self.f { rows.., _ => return Err(msg) }
     VPortIfUnset p unset        : if self.p == unset { self.p = default_rpc_port }                    *)
Inductive vstmt :=
| VRejectAuth (a : auth) (msg : text)
| VNormalize (fld : text) (names : list text) (suffix : text)
| VPortMatch (fld : text) (rows : list (text * N)) (msg : text)
| VPortIfUnset (fld : text) (unset : N).

(* get_auth_method: `match (self.a.is_empty(), self.b.is_empty(), self.c.is_empty())` with the arms in
   order (None = `_`); and the body of verify *)
Record vdescr := mk_vdescr {
  v_scrutinee : list text;
  v_auth_rows : list (list (option bool) * auth);
  v_stmts : list vstmt
}.
