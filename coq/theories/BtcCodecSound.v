(* BtcCodecSound.v — the converse of BtcCodecProofs.v: the decoder accepts ONLY canonical
   serialisations.  If parse_tx inp = ROk t rest on a byte string inp (all values < 256) then
   inp = tx_encode t ++ rest and t is well formed.  Hence deserialize p = Ok t implies
   p = serialize t: a transaction has exactly one accepted byte string. *)
From TeosModel Require Import Base ListAux BtcCodec BtcCodecProofs.
Local Open Scope N_scope.

Lemma bytesb_app a b : bytes_wf (a ++ b) = true <-> bytes_wf a = true /\ bytes_wf b = true.
Proof. unfold bytes_wf. rewrite forallb_app, andb_true_iff. reflexivity. Qed.

Lemma bytesb_cons_iff x l : bytes_wf (x :: l) = true <-> x < 256 /\ bytes_wf l = true.
Proof. unfold bytes_wf, byte_wf. cbn [forallb]. rewrite andb_true_iff, N.ltb_lt. reflexivity. Qed.

(* ---------- fixed-width integers ---------- *)
Lemma le_bytes_le_val bs :
  bytes_wf bs = true -> le_bytes (length bs) (le_val bs) = bs /\ le_val bs < 256 ^ N.of_nat (length bs).
Proof.
  induction bs as [|b r IH]; intros Hb.
  - split; [reflexivity|cbn; lia].
  - apply bytesb_cons_iff in Hb as [Hb Hr]. destruct (IH Hr) as [IH1 IH2].
    cbn [length le_val le_bytes]. split.
    + replace (b + 256 * le_val r) with (b + le_val r * 256) by lia. f_equal.
      * rewrite N.mod_add by lia. apply N.mod_small. exact Hb.
      * rewrite N.div_add by lia. rewrite (N.div_small b 256) by exact Hb.
        rewrite N.add_0_l. exact IH1.
    + rewrite Nat2N.inj_succ, N.pow_succ_r'. lia.
Qed.

Lemma take_inv n inp a rest :
  btc_take n inp = ROk a rest -> inp = a ++ rest /\ N.of_nat (length a) = n.
Proof.
  unfold btc_take. destruct (n <=? N.of_nat (length inp)) eqn:Hle; [|discriminate].
  apply N.leb_le in Hle. intros He. inversion He; subst. split.
  - symmetry. apply firstn_skipn.
  - rewrite firstn_length. lia.
Qed.

Lemma read_le_inv n inp v rest :
  btc_read_le n inp = ROk v rest -> bytes_wf inp = true ->
  inp = le_bytes n v ++ rest /\ v < 256 ^ N.of_nat n /\ bytes_wf rest = true.
Proof.
  unfold btc_read_le. destruct (btc_take (N.of_nat n) inp) as [a r|e] eqn:Ht; [|discriminate].
  cbn [btc_rbind]. intros He Hb. inversion He; subst. apply take_inv in Ht as [-> Hl].
  apply Nat2N.inj in Hl. apply bytesb_app in Hb as [Ha Hr].
  destruct (le_bytes_le_val a Ha) as [H1 H2]. rewrite Hl in *. rewrite H1. repeat split; assumption.
Qed.

Lemma u32_i32_roundtrip v : v < 4294967296 -> u32_of_i32 (i32_of_u32 v) = v.
Proof.
  intros Hv. unfold u32_of_i32, i32_of_u32. destruct (v <? 2147483648) eqn:Hlt.
  - apply N.ltb_lt in Hlt. rewrite Z.mod_small by lia. apply N2Z.id.
  - apply N.ltb_ge in Hlt.
    replace ((Z.of_N v - 4294967296) mod 4294967296)%Z with (Z.of_N v).
    + apply N2Z.id.
    + apply (Z.mod_unique_pos _ _ (-1)); lia.
Qed.

Lemma i32_of_u32_range v : v < 4294967296 -> (-2147483648 <= i32_of_u32 v < 2147483648)%Z.
Proof.
  intros Hv. unfold i32_of_u32. destruct (v <? 2147483648) eqn:Hlt.
  - apply N.ltb_lt in Hlt. lia.
  - apply N.ltb_ge in Hlt. lia.
Qed.

(* ---------- compact size ---------- *)
Lemma csize_dec_inv inp n rest :
  csize_dec inp = ROk n rest -> bytes_wf inp = true ->
  inp = csize_enc n ++ rest /\ n < BTC_U64LIM /\ bytes_wf rest = true.
Proof.
  unfold BTC_U64LIM. destruct inp as [|b r]; [discriminate|]. cbn [csize_dec]. intros He Hb.
  apply bytesb_cons_iff in Hb as [Hb Hr].
  destruct (b =? 255) eqn:E255.
  { apply N.eqb_eq in E255. subst b.
    destruct (btc_read_le 8 r) as [x r'|e] eqn:Hrd; [|discriminate]. cbn [btc_rbind] in He.
    destruct (x <? 4294967296) eqn:Hx; [discriminate|]. inversion He; subst. apply N.ltb_ge in Hx.
    apply read_le_inv in Hrd as (-> & Hlt & Hr'); [|exact Hr].
    change (256 ^ N.of_nat 8) with 18446744073709551616 in Hlt.
    unfold csize_enc.
    replace (n <=? 252) with false by (symmetry; apply N.leb_gt; lia).
    replace (n <=? 65535) with false by (symmetry; apply N.leb_gt; lia).
    replace (n <=? 4294967295) with false by (symmetry; apply N.leb_gt; lia).
    repeat split; assumption. }
  destruct (b =? 254) eqn:E254.
  { apply N.eqb_eq in E254. subst b.
    destruct (btc_read_le 4 r) as [x r'|e] eqn:Hrd; [|discriminate]. cbn [btc_rbind] in He.
    destruct (x <? 65536) eqn:Hx; [discriminate|]. inversion He; subst. apply N.ltb_ge in Hx.
    apply read_le_inv in Hrd as (-> & Hlt & Hr'); [|exact Hr].
    change (256 ^ N.of_nat 4) with 4294967296 in Hlt.
    unfold csize_enc.
    replace (n <=? 252) with false by (symmetry; apply N.leb_gt; lia).
    replace (n <=? 65535) with false by (symmetry; apply N.leb_gt; lia).
    replace (n <=? 4294967295) with true by (symmetry; apply N.leb_le; lia).
    repeat split; try assumption. lia. }
  destruct (b =? 253) eqn:E253.
  { apply N.eqb_eq in E253. subst b.
    destruct (btc_read_le 2 r) as [x r'|e] eqn:Hrd; [|discriminate]. cbn [btc_rbind] in He.
    destruct (x <? 253) eqn:Hx; [discriminate|]. inversion He; subst. apply N.ltb_ge in Hx.
    apply read_le_inv in Hrd as (-> & Hlt & Hr'); [|exact Hr].
    change (256 ^ N.of_nat 2) with 65536 in Hlt.
    unfold csize_enc.
    replace (n <=? 252) with false by (symmetry; apply N.leb_gt; lia).
    replace (n <=? 65535) with true by (symmetry; apply N.leb_le; lia).
    repeat split; try assumption. lia. }
  inversion He; subst. apply N.eqb_neq in E255, E254, E253.
  unfold csize_enc. replace (n <=? 252) with true by (symmetry; apply N.leb_le; lia).
  repeat split; try assumption. lia.
Qed.

(* ---------- byte strings, inputs, outputs ---------- *)
Lemma dec_bytes_inv inp b rest :
  btc_dec_bytes inp = ROk b rest -> bytes_wf inp = true ->
  inp = btc_enc_bytes b ++ rest /\ len_wf (length b) = true /\ bytes_wf b = true /\ bytes_wf rest = true.
Proof.
  unfold btc_dec_bytes. destruct (csize_dec inp) as [n r|e] eqn:Hc; [|discriminate]. cbn [btc_rbind].
  intros Ht Hb. apply csize_dec_inv in Hc as (-> & Hn & Hr); [|exact Hb].
  apply take_inv in Ht as [-> Hl]. apply bytesb_app in Hr as [Hbb Hrest].
  unfold btc_enc_bytes. rewrite Hl, <- app_assoc. repeat split; try assumption.
  unfold len_wf. rewrite Hl. apply N.ltb_lt. exact Hn.
Qed.

Lemma dec_txin_inv inp i rest :
  dec_txin inp = ROk i rest -> bytes_wf inp = true ->
  inp = enc_txin i ++ rest /\ txin_wf i = true /\ txi_witness i = [] /\ bytes_wf rest = true.
Proof.
  unfold dec_txin. intros He Hb.
  destruct (btc_take BTC_TXID_LEN inp) as [txid r1|e] eqn:H1; [|discriminate]. cbn [btc_rbind] in He.
  destruct (btc_read_le 4 r1) as [vout r2|e] eqn:H2; [|discriminate]. cbn [btc_rbind] in He.
  destruct (btc_dec_bytes r2) as [script r3|e] eqn:H3; [|discriminate]. cbn [btc_rbind] in He.
  destruct (btc_read_le 4 r3) as [sq r4|e] eqn:H4; [|discriminate]. cbn [btc_rbind] in He.
  inversion He; subst; clear He.
  apply take_inv in H1 as [-> Hl1]. apply bytesb_app in Hb as [Hbid Hb1].
  apply read_le_inv in H2 as (-> & Hvout & Hb2); [|exact Hb1].
  apply dec_bytes_inv in H3 as (-> & Hsl & Hsb & Hb3); [|exact Hb2].
  apply read_le_inv in H4 as (-> & Hseq & Hb4); [|exact Hb3].
  change (256 ^ N.of_nat 4) with 4294967296 in *.
  unfold enc_txin. cbn [txi_txid txi_vout txi_script txi_seq txi_witness]. rewrite <- !app_assoc.
  split; [reflexivity|]. split; [|split; [reflexivity|exact Hb4]].
  unfold txin_wf, BTC_U32LIM. cbn [txi_txid txi_vout txi_script txi_seq txi_witness].
  rewrite Hl1, N.eqb_refl, Hbid, Hsb, Hsl.
  replace (vout <? 4294967296) with true by (symmetry; apply N.ltb_lt; exact Hvout).
  replace (sq <? 4294967296) with true by (symmetry; apply N.ltb_lt; exact Hseq).
  reflexivity.
Qed.

Lemma dec_txout_inv inp o rest :
  dec_txout inp = ROk o rest -> bytes_wf inp = true ->
  inp = enc_txout o ++ rest /\ txout_wf o = true /\ bytes_wf rest = true.
Proof.
  unfold dec_txout. intros He Hb.
  destruct (btc_read_le 8 inp) as [v r1|e] eqn:H1; [|discriminate]. cbn [btc_rbind] in He.
  destruct (btc_dec_bytes r1) as [script r2|e] eqn:H2; [|discriminate]. cbn [btc_rbind] in He.
  inversion He; subst; clear He.
  apply read_le_inv in H1 as (-> & Hv & Hb1); [|exact Hb].
  apply dec_bytes_inv in H2 as (-> & Hsl & Hsb & Hb2); [|exact Hb1].
  change (256 ^ N.of_nat 8) with 18446744073709551616 in Hv.
  unfold enc_txout. cbn [txo_value txo_script]. rewrite <- !app_assoc.
  split; [reflexivity|]. split; [|exact Hb2].
  unfold txout_wf, BTC_U64LIM. cbn [txo_value txo_script]. rewrite Hsb, Hsl.
  replace (v <? 18446744073709551616) with true by (symmetry; apply N.ltb_lt; exact Hv). reflexivity.
Qed.

(* ---------- vectors ---------- *)
Lemma dec_items_inv {A} (item : bytes -> dres A) (enc : A -> bytes) (P : A -> Prop) :
  (forall inp a r, item inp = ROk a r -> bytes_wf inp = true -> inp = enc a ++ r /\ P a /\ bytes_wf r = true) ->
  forall fuel n inp l rest,
  btc_dec_items item fuel n inp = ROk l rest -> bytes_wf inp = true ->
  inp = flat_map enc l ++ rest /\ N.of_nat (length l) = n /\ Forall P l /\ bytes_wf rest = true.
Proof.
  intros Hitem. induction fuel as [|f IH]; intros n inp l rest He Hb.
  - cbn [btc_dec_items] in He. destruct (n =? 0) eqn:En.
    + apply N.eqb_eq in En. inversion He; subst. repeat split; [constructor|exact Hb].
    + destruct (item inp); discriminate.
  - cbn [btc_dec_items] in He. destruct (n =? 0) eqn:En.
    + apply N.eqb_eq in En. inversion He; subst. repeat split; [constructor|exact Hb].
    + apply N.eqb_neq in En.
      destruct (item inp) as [a r|e] eqn:Hi; [|discriminate]. cbn [btc_rbind] in He.
      destruct (btc_dec_items item f (n - 1) r) as [l' r'|e] eqn:Hrec; [|discriminate]. cbn [btc_rbind] in He.
      inversion He; subst; clear He.
      destruct (Hitem _ _ _ Hi Hb) as (-> & HP & Hbr).
      destruct (IH _ _ _ _ Hrec Hbr) as (-> & Hlen & HPl & Hbrest).
      cbn [flat_map length]. rewrite <- app_assoc. repeat split; try assumption; [lia|constructor; assumption].
Qed.

Lemma dec_vec_inv {A} (item : bytes -> dres A) (enc : A -> bytes) (P : A -> Prop) :
  (forall inp a r, item inp = ROk a r -> bytes_wf inp = true -> inp = enc a ++ r /\ P a /\ bytes_wf r = true) ->
  forall inp l rest,
  btc_dec_vec item inp = ROk l rest -> bytes_wf inp = true ->
  inp = btc_enc_vec enc l ++ rest /\ len_wf (length l) = true /\ Forall P l /\ bytes_wf rest = true.
Proof.
  intros Hitem inp l rest He Hb. unfold btc_dec_vec in He.
  destruct (csize_dec inp) as [n r|e] eqn:Hc; [|discriminate]. cbn [btc_rbind] in He.
  apply csize_dec_inv in Hc as (-> & Hn & Hr); [|exact Hb].
  destruct (dec_items_inv item enc P Hitem _ _ _ _ _ He Hr) as (-> & Hlen & HP & Hbrest).
  unfold btc_enc_vec. rewrite Hlen, <- app_assoc. repeat split; try assumption.
  unfold len_wf. rewrite Hlen. apply N.ltb_lt. exact Hn.
Qed.

(* ---------- witnesses ---------- *)
Lemma dec_wit_items_inv fuel :
  forall n acc inp ws rest,
  dec_wit_items fuel n acc inp = ROk ws rest -> bytes_wf inp = true ->
  inp = flat_map btc_enc_bytes ws ++ rest /\ N.of_nat (length ws) = n /\
  (ws = [] \/ acc + wit_size ws <= MAX_VEC_SIZE) /\ Forall (fun e => bytes_wf e = true) ws /\
  bytes_wf rest = true.
Proof.
  induction fuel as [|f IH]; intros n acc inp ws rest He Hb.
  - cbn [dec_wit_items] in He. destruct (n =? 0) eqn:En.
    + apply N.eqb_eq in En. inversion He; subst. repeat split; [left; reflexivity|constructor|exact Hb].
    + unfold wit_step in He. destruct (csize_dec inp) as [sz r|e]; [|discriminate]. cbn [btc_rbind] in He.
      destruct (MAX_VEC_SIZE <? acc + sz + csize_len sz); [discriminate|].
      destruct (btc_take sz r); discriminate.
  - cbn [dec_wit_items] in He. destruct (n =? 0) eqn:En.
    + apply N.eqb_eq in En. inversion He; subst. repeat split; [left; reflexivity|constructor|exact Hb].
    + apply N.eqb_neq in En. unfold wit_step in He.
      destruct (csize_dec inp) as [sz r|e] eqn:Hc; [|discriminate]. cbn [btc_rbind] in He.
      destruct (MAX_VEC_SIZE <? acc + sz + csize_len sz) eqn:Hmax; [discriminate|].
      apply N.ltb_ge in Hmax.
      destruct (btc_take sz r) as [e r'|e] eqn:Ht; [|discriminate]. cbn [btc_rbind] in He.
      destruct (dec_wit_items f (n - 1) (acc + sz + csize_len sz) r') as [l r''|e'] eqn:Hrec; [|discriminate].
      cbn [btc_rbind] in He. inversion He; subst; clear He.
      apply csize_dec_inv in Hc as (-> & Hsz & Hbr); [|exact Hb].
      apply take_inv in Ht as [-> Hl]. apply bytesb_app in Hbr as [Hbe Hbr'].
      destruct (IH _ _ _ _ _ Hrec Hbr') as (-> & Hlen & Hacc & Hall & Hbrest).
      cbn [flat_map length]. change (btc_enc_bytes e) with (csize_enc (N.of_nat (length e)) ++ e). rewrite Hl, <- !app_assoc.
      repeat split; try assumption; [lia| |constructor; assumption].
      right. cbn [wit_size fold_right]. fold (wit_size l). rewrite Hl.
      destruct Hacc as [->|Hacc]; [cbn; lia|lia].
Qed.

Lemma dec_witness_inv inp w rest :
  dec_witness inp = ROk w rest -> bytes_wf inp = true ->
  inp = enc_witness w ++ rest /\ witness_wf w = true /\ bytes_wf rest = true.
Proof.
  unfold dec_witness. intros He Hb.
  destruct (csize_dec inp) as [n r|e] eqn:Hc; [|discriminate]. cbn [btc_rbind] in He.
  destruct (MAX_VEC_SIZE <? n) eqn:Hn; [discriminate|]. apply N.ltb_ge in Hn.
  apply csize_dec_inv in Hc as (-> & _ & Hbr); [|exact Hb].
  destruct (dec_wit_items_inv _ _ _ _ _ _ He Hbr) as (-> & Hlen & Hacc & Hall & Hbrest).
  unfold enc_witness, btc_enc_vec. rewrite Hlen, <- app_assoc. split; [reflexivity|]. split; [|exact Hbrest].
  unfold witness_wf. rewrite Hlen.
  replace (n <=? MAX_VEC_SIZE) with true by (symmetry; apply N.leb_le; exact Hn).
  replace (wit_size w <=? MAX_VEC_SIZE) with true
    by (symmetry; apply N.leb_le; destruct Hacc as [->|Hacc]; [cbn; unfold MAX_VEC_SIZE; lia|lia]).
  rewrite andb_true_r, andb_true_r. apply forallb_forall. intros e He'.
  rewrite Forall_forall in Hall. exact (Hall e He').
Qed.

Definition same_but_witness (a b : txin) : Prop :=
  txi_txid a = txi_txid b /\ txi_vout a = txi_vout b /\ txi_script a = txi_script b /\ txi_seq a = txi_seq b.

Lemma dec_witnesses_inv ins :
  forall inp ins' rest,
  dec_witnesses ins inp = ROk ins' rest -> bytes_wf inp = true ->
  inp = flat_map (fun i => enc_witness (txi_witness i)) ins' ++ rest /\
  Forall2 same_but_witness ins' ins /\
  Forall (fun i => witness_wf (txi_witness i) = true) ins' /\ bytes_wf rest = true.
Proof.
  induction ins as [|i ins IH]; intros inp ins' rest He Hb.
  - cbn in He. inversion He; subst. repeat split; [constructor|constructor|exact Hb].
  - cbn [dec_witnesses] in He.
    destruct (dec_witness inp) as [w r|e] eqn:Hw; [|discriminate]. cbn [btc_rbind] in He.
    destruct (dec_witnesses ins r) as [l r'|e] eqn:Hrec; [|discriminate]. cbn [btc_rbind] in He.
    inversion He; subst; clear He.
    apply dec_witness_inv in Hw as (-> & Hwf & Hbr); [|exact Hb].
    destruct (IH _ _ _ Hrec Hbr) as (-> & Hsame & Hall & Hbrest).
    cbn [flat_map txi_witness]. rewrite <- app_assoc. repeat split; try assumption.
    + constructor; [repeat split|exact Hsame].
    + constructor; [exact Hwf|exact Hall].
Qed.

Lemma enc_txin_same ins' ins :
  Forall2 same_but_witness ins' ins -> flat_map enc_txin ins' = flat_map enc_txin ins /\ length ins' = length ins.
Proof.
  induction 1 as [|a b la lb (H1 & H2 & H3 & H4) _ [IH1 IH2]]; [split; reflexivity|].
  cbn [flat_map length]. unfold enc_txin at 1 3. rewrite H1, H2, H3, H4, IH1, IH2. split; reflexivity.
Qed.

Lemma txin_wf_same_one a b :
  same_but_witness a b -> txin_wf b = true -> witness_wf (txi_witness a) = true -> txin_wf a = true.
Proof.
  intros (H1 & H2 & H3 & H4) Hb Hw. unfold txin_wf in *. rewrite H1, H2, H3, H4, Hw.
  repeat (apply andb_true_iff in Hb as [Hb ?]).
  repeat (apply andb_true_iff; split); try assumption; reflexivity.
Qed.

Lemma txin_wf_same ins' ins :
  Forall2 same_but_witness ins' ins -> Forall (fun i => txin_wf i = true) ins ->
  Forall (fun i => witness_wf (txi_witness i) = true) ins' -> forallb txin_wf ins' = true.
Proof.
  induction 1 as [|a b la lb Hab _ IH]; intros Hwf Hw; [reflexivity|].
  inversion Hwf; subst. inversion Hw; subst. cbn [forallb].
  rewrite IH by assumption. rewrite (txin_wf_same_one a b) by assumption. reflexivity.
Qed.

(* ---------- the transaction ---------- *)
Theorem parse_tx_sound inp t rest :
  parse_tx inp = ROk t rest -> bytes_wf inp = true ->
  inp = tx_encode t ++ rest /\ tx_wf t = true /\ bytes_wf rest = true.
Proof.
  unfold parse_tx. intros He Hb.
  destruct (btc_read_le 4 inp) as [v r0|e] eqn:Hv; [|discriminate]. cbn [btc_rbind] in He.
  apply read_le_inv in Hv as (-> & Hvr & Hb0); [|exact Hb].
  change (256 ^ N.of_nat 4) with 4294967296 in Hvr.
  destruct (btc_dec_vec dec_txin r0) as [ins r1|e] eqn:Hins; [|discriminate]. cbn [btc_rbind] in He.
  pose proof (dec_vec_inv dec_txin enc_txin (fun i => txin_wf i = true /\ txi_witness i = [])) as Hvi.
  assert (Hitem_in : forall inp a r, dec_txin inp = ROk a r -> bytes_wf inp = true ->
            inp = enc_txin a ++ r /\ (txin_wf a = true /\ txi_witness a = []) /\ bytes_wf r = true).
  { intros i0 a r H1 H2. destruct (dec_txin_inv _ _ _ H1 H2) as (A & B & C & D). repeat split; assumption. }
  assert (Hitem_out : forall inp a r, dec_txout inp = ROk a r -> bytes_wf inp = true ->
            inp = enc_txout a ++ r /\ txout_wf a = true /\ bytes_wf r = true).
  { intros i0 a r H1 H2. exact (dec_txout_inv _ _ _ H1 H2). }
  destruct (Hvi Hitem_in _ _ _ Hins Hb0) as (-> & Hlin & Hallin & Hb1).
  pose proof (i32_of_u32_range v Hvr) as Hrange.
  destruct ins as [|i0 ins0].
  - (* marker 0 then flag *)
    destruct (btc_read_le 1 r1) as [flag r2|e] eqn:Hflag; [|discriminate]. cbn [btc_rbind] in He.
    destruct (flag =? 1) eqn:Ef; [|discriminate]. apply N.eqb_eq in Ef. subst flag.
    apply read_le_inv in Hflag as (-> & _ & Hb2); [|exact Hb1].
    destruct (btc_dec_vec dec_txin r2) as [ins r3|e] eqn:Hins2; [|discriminate]. cbn [btc_rbind] in He.
    destruct (Hvi Hitem_in _ _ _ Hins2 Hb2) as (-> & Hlin2 & Hallin2 & Hb3).
    destruct (btc_dec_vec dec_txout r3) as [outs r4|e] eqn:Houts; [|discriminate]. cbn [btc_rbind] in He.
    destruct (dec_vec_inv dec_txout enc_txout (fun o => txout_wf o = true) Hitem_out _ _ _ Houts Hb3)
      as (-> & Hlout & Hallout & Hb4).
    destruct (dec_witnesses ins r4) as [ins' r5|e] eqn:Hwit; [|discriminate]. cbn [btc_rbind] in He.
    destruct (dec_witnesses_inv _ _ _ _ Hwit Hb4) as (-> & Hsame & Hwwf & Hb5).
    destruct (negb (btc_is_nil ins') && forallb (fun i => btc_is_nil (txi_witness i)) ins') eqn:Hchk; [discriminate|].
    destruct (btc_read_le 4 r5) as [lock r6|e] eqn:Hlock; [|discriminate]. cbn [btc_rbind] in He.
    inversion He; subst; clear He.
    apply read_le_inv in Hlock as (-> & Hlk & Hb6); [|exact Hb5].
    change (256 ^ N.of_nat 4) with 4294967296 in Hlk.
    destruct (enc_txin_same _ _ Hsame) as [Hflat Hlen].
    assert (Hseg : uses_segwit {| btx_version := i32_of_u32 v; btx_in := ins'; btx_out := outs; btx_lock := lock |} = true).
    { unfold uses_segwit. cbn [btx_in]. rewrite existsb_negb_forallb.
      destruct (btc_is_nil ins'); destruct (forallb (fun i => btc_is_nil (txi_witness i)) ins'); cbn in *; congruence. }
    split; [|split; [|exact Hb6]].
    + unfold tx_encode. rewrite Hseg. cbn [btx_version btx_in btx_out btx_lock].
      rewrite u32_i32_roundtrip by exact Hvr. unfold SEGWIT_MARKER, SEGWIT_FLAG.
      assert (Hev : btc_enc_vec enc_txin ins' = btc_enc_vec enc_txin ins)
        by (unfold btc_enc_vec; rewrite Hflat, Hlen; reflexivity).
      rewrite Hev, <- !app_assoc. reflexivity.
    + unfold tx_wf. cbn [btx_version btx_in btx_out btx_lock].
      replace (-2147483648 <=? i32_of_u32 v)%Z with true by (symmetry; apply Z.leb_le; lia).
      replace (i32_of_u32 v <? 2147483648)%Z with true by (symmetry; apply Z.ltb_lt; lia).
      rewrite (txin_wf_same _ _ Hsame); [|apply Forall_impl with (2 := Hallin2); intros a [A _]; exact A|exact Hwwf].
      rewrite Hlen, Hlin2, Hlout.
      replace (forallb txout_wf outs) with true by (symmetry; apply forallb_forall; rewrite Forall_forall in Hallout; exact Hallout).
      replace (lock <? BTC_U32LIM) with true by (symmetry; apply N.ltb_lt; exact Hlk). reflexivity.
  - (* legacy form *)
    destruct (btc_dec_vec dec_txout r1) as [outs r2|e] eqn:Houts; [|discriminate]. cbn [btc_rbind] in He.
    destruct (dec_vec_inv dec_txout enc_txout (fun o => txout_wf o = true) Hitem_out _ _ _ Houts Hb1)
      as (-> & Hlout & Hallout & Hb2).
    destruct (btc_read_le 4 r2) as [lock r3|e] eqn:Hlock; [|discriminate]. cbn [btc_rbind] in He.
    inversion He; subst; clear He.
    apply read_le_inv in Hlock as (-> & Hlk & Hb3); [|exact Hb2].
    change (256 ^ N.of_nat 4) with 4294967296 in Hlk.
    assert (Hnw : forallb (fun i => btc_is_nil (txi_witness i)) (i0 :: ins0) = true).
    { apply forallb_forall. intros i Hi. rewrite Forall_forall in Hallin. destruct (Hallin i Hi) as [_ ->]. reflexivity. }
    assert (Hseg : uses_segwit {| btx_version := i32_of_u32 v; btx_in := i0 :: ins0; btx_out := outs; btx_lock := lock |} = false).
    { unfold uses_segwit. cbn [btx_in]. rewrite existsb_negb_forallb, Hnw. reflexivity. }
    split; [|split; [|exact Hb3]].
    + unfold tx_encode. rewrite Hseg. cbn [btx_version btx_in btx_out btx_lock].
      rewrite u32_i32_roundtrip by exact Hvr. rewrite <- !app_assoc. reflexivity.
    + unfold tx_wf. cbn [btx_version btx_in btx_out btx_lock].
      replace (-2147483648 <=? i32_of_u32 v)%Z with true by (symmetry; apply Z.leb_le; lia).
      replace (i32_of_u32 v <? 2147483648)%Z with true by (symmetry; apply Z.ltb_lt; lia).
      replace (forallb txin_wf (i0 :: ins0)) with true
        by (symmetry; apply forallb_forall; intros i Hi; rewrite Forall_forall in Hallin; apply (Hallin i Hi)).
      rewrite Hlin, Hlout.
      replace (forallb txout_wf outs) with true by (symmetry; apply forallb_forall; rewrite Forall_forall in Hallout; exact Hallout).
      replace (lock <? BTC_U32LIM) with true by (symmetry; apply N.ltb_lt; exact Hlk). reflexivity.
Qed.

(* deserialize p = Ok t  ==>  p = serialize t  (and t is well formed) *)
Theorem tx_decode_canonical p t :
  tx_decode p = Some t -> bytes_wf p = true -> p = tx_encode t /\ tx_wf t = true.
Proof.
  unfold tx_decode, tx_deserialize. destruct (parse_tx p) as [t' rest|e] eqn:Hp; [|discriminate].
  destruct rest as [|x rest]; [|discriminate]. intros He Hb. inversion He; subst.
  destruct (parse_tx_sound _ _ _ Hp Hb) as (Hi & Hwf & _). rewrite app_nil_r in Hi. split; assumption.
Qed.
