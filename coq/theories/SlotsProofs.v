(* SlotsProofs.v — the f32 code of compute_appointment_slots (Slots.v) against exact arithmetic.

   Main result (slots_exact_pow2): for every divisor d = 2^k (0 <= k <= 24) and EVERY integer
   0 <= n <= 2^24, the binary32 computation returns exactly ceil(n / d).  The proof goes through
   the real-number semantics of each operation given by Flocq's correctness theorems
   (binary_normalize_correct, Bdiv_correct, Bnearbyint_correct, Btrunc_correct):
     1. an integer of magnitude <= 2^24 is a binary32 number, so `n as f32` is n    (f32_of_Z_exact)
     2. n * 2^-k is again a binary32 number (same significand, exponent >= -149),
        so the correctly rounded quotient is the exact quotient                      (f32_div_exact)
     3. ceil() returns the integer Zceil(q) of the real q it is applied to           (f32_ceil_exact)
     4. truncating an integer-valued float gives that integer                        (f32_trunc_int)
     5. Zceil(n / d) = (n + d - 1) / d (Euclidean division), which is below 2^32     (Zceil_div_pow2)
   No kernel computation over samples is involved: n and k are universally quantified. *)
From Coq Require Import ZArith NArith Reals Lia Lra.
From Flocq Require Import Core.Core IEEE754.BinarySingleNaN.
From TeosModel Require Import Slots Tower.
From TeosModel.Gen Require Consts.

Local Open Scope Z_scope.

Notation fexp32 := (SpecFloat.fexp f32_prec f32_emax).

(* ---------------------------------------------------------------------------------------- *)
(* 1. which reals are binary32 numbers: m * 2^e with |m| <= 2^24 and e >= emin = -149 *)

Lemma format_small m e :
  Z.abs m <= 2 ^ 24 -> -149 <= e ->
  generic_format radix2 fexp32 (F2R (Float radix2 m e)).
Proof.
  intros Hm He.
  apply (generic_format_FLT radix2 (-149) 24).
  destruct (Z_lt_le_dec (Z.abs m) (2 ^ 24)) as [Hlt | Hge].
  - exact (FLT_spec radix2 (-149) 24 _ (Float radix2 m e) eq_refl Hlt He).
  - assert (Hm' : m = 2 ^ 24 \/ m = - 2 ^ 24) by lia.
    apply (FLT_spec radix2 (-149) 24 _ (Float radix2 (m / 2) (e + 1))).
    + assert (Hm2 : m = m / 2 * 2) by (destruct Hm' as [-> | ->]; vm_compute; reflexivity).
      unfold F2R; simpl Fnum; simpl Fexp. rewrite bpow_plus_1.
      rewrite Hm2 at 1. rewrite mult_IZR. change (IZR radix2) with 2%R. ring.
    + simpl Fnum. destruct Hm' as [-> | ->]; vm_compute; reflexivity.
    + simpl Fexp. lia.
Qed.

Lemma F2R_int m : F2R (Float radix2 m 0) = IZR m.
Proof. unfold F2R; simpl. apply Rmult_1_r. Qed.

Lemma small_lt_emax m e :
  Z.abs m <= 2 ^ 24 -> e <= 0 ->
  (Rabs (F2R (Float radix2 m e)) < bpow radix2 f32_emax)%R.
Proof.
  intros Hm He.
  apply Rlt_le_trans with (bpow radix2 25).
  - apply F2R_lt_bpow. simpl Fnum; simpl Fexp.
    apply Z.le_lt_trans with (1 := Hm).
    change (Zpower radix2 (25 - e)) with (2 ^ (25 - e)).
    apply Z.lt_le_trans with (2 ^ 25); [reflexivity|].
    apply Z.pow_le_mono_r; lia.
  - apply bpow_le. unfold f32_emax. lia.
Qed.

(* ---------------------------------------------------------------------------------------- *)
(* 2. `n as f32` is exact up to 2^24 *)

Lemma f32_of_Z_exact n :
  Z.abs n <= 2 ^ 24 ->
  B2R (f32_of_Z n) = IZR n /\ is_finite (f32_of_Z n) = true.
Proof.
  intros Hn. unfold f32_of_Z.
  generalize (binary_normalize_correct f32_prec f32_emax f32_prec_gt_0 f32_prec_lt_emax
                mode_NE n 0 false).
  cbv zeta.
  rewrite round_generic; [| apply valid_rnd_round_mode | apply format_small; [exact Hn | lia]].
  rewrite Rlt_bool_true by (apply small_lt_emax; [exact Hn | lia]).
  rewrite F2R_int. intros [H1 [H2 _]]. split; assumption.
Qed.

(* ---------------------------------------------------------------------------------------- *)
(* 3. dividing by a power of two is exact there *)

Lemma f32_div_exact n k :
  Z.abs n <= 2 ^ 24 -> 0 <= k <= 24 ->
  let q := f32_div (f32_of_Z n) (f32_of_Z (2 ^ k)) in
  B2R q = (IZR n / IZR (2 ^ k))%R /\ is_finite q = true.
Proof.
  intros Hn Hk q.
  assert (Hd : Z.abs (2 ^ k) <= 2 ^ 24).
  { rewrite Z.abs_eq by (apply Z.pow_nonneg; lia). apply Z.pow_le_mono_r; lia. }
  destruct (f32_of_Z_exact n Hn) as [Hx Fx].
  destruct (f32_of_Z_exact (2 ^ k) Hd) as [Hy _].
  assert (Hpow : IZR (2 ^ k) = bpow radix2 k) by (apply (IZR_Zpower radix2); lia).
  assert (Hy0 : B2R (f32_of_Z (2 ^ k)) <> 0%R).
  { rewrite Hy, Hpow. apply Rgt_not_eq, bpow_gt_0. }
  generalize (Bdiv_correct f32_prec f32_emax f32_prec_gt_0 f32_prec_lt_emax mode_NE
                (f32_of_Z n) (f32_of_Z (2 ^ k)) Hy0).
  fold (f32_div (f32_of_Z n) (f32_of_Z (2 ^ k))). fold q.
  rewrite Hx, Hy.
  assert (Hq : (IZR n / IZR (2 ^ k))%R = F2R (Float radix2 n (- k))).
  { unfold F2R; simpl Fnum; simpl Fexp. rewrite bpow_opp, Hpow. reflexivity. }
  rewrite Hq.
  rewrite round_generic; [| apply valid_rnd_round_mode | apply format_small; [exact Hn | lia]].
  rewrite Rlt_bool_true by (apply small_lt_emax; [exact Hn | lia]).
  intros [H1 [H2 _]]. split; [exact H1 | rewrite H2; exact Fx].
Qed.

(* ---------------------------------------------------------------------------------------- *)
(* 4. ceil, then the cast *)

Lemma f32_ceil_exact (x : f32) :
  B2R (f32_ceil x) = IZR (Zceil (B2R x)) /\ is_finite (f32_ceil x) = is_finite x.
Proof.
  destruct (Bnearbyint_correct f32_prec f32_emax f32_prec_lt_emax mode_UP x) as [H1 [H2 _]].
  unfold f32_ceil. split; [| exact H2].
  rewrite H1. apply round_FIX_IZR.
Qed.

Lemma f32_trunc_int (x : f32) z : B2R x = IZR z -> Btrunc x = z.
Proof.
  intros Hx. apply eq_IZR.
  rewrite (Btrunc_correct f32_prec f32_emax f32_prec_lt_emax x), round_FIX_IZR, Hx.
  rewrite Ztrunc_IZR. reflexivity.
Qed.

Lemma f32_to_u32_finite (x : f32) :
  is_finite x = true -> f32_to_u32 x = Z.max 0 (Z.min U32_MAX (Btrunc x)).
Proof. destruct x as [s | s | | s m e H]; simpl; intros Hf; try discriminate Hf; reflexivity. Qed.

(* ---------------------------------------------------------------------------------------- *)
(* 5. the ceiling of an integer quotient *)

Lemma Zceil_div n d : 0 < d -> Zceil (IZR n / IZR d) = ceil_div n d.
Proof.
  intros Hd. unfold Zceil, ceil_div.
  replace (- (IZR n / IZR d))%R with (IZR (- n) / IZR d)%R
    by (rewrite opp_IZR; unfold Rdiv; ring).
  rewrite Zfloor_div by lia.
  pose proof (Z.div_mod (n + (d - 1)) d ltac:(lia)) as E.
  pose proof (Z.mod_pos_bound (n + (d - 1)) d Hd) as B.
  set (q := (n + (d - 1)) / d) in *. set (r := (n + (d - 1)) mod d) in *.
  rewrite <- (Z.div_unique_pos (- n) d (- q) (d - 1 - r)); lia.
Qed.

Lemma ceil_div_bounds n d : 0 <= n -> 0 < d -> 0 <= ceil_div n d <= n + (d - 1).
Proof.
  intros Hn Hd. unfold ceil_div. split.
  - apply Z.div_pos; lia.
  - rewrite <- (Z.div_1_r (n + (d - 1))) at 2. apply Z.div_le_compat_l; lia.
Qed.

Lemma ceil_div_ge_one n d : 1 <= n -> 0 < d -> 1 <= ceil_div n d.
Proof. intros Hn Hd. unfold ceil_div. apply Z.div_le_lower_bound; lia. Qed.

(* ---------------------------------------------------------------------------------------- *)
(* the theorem: all n up to 2^24, all power-of-two slot sizes up to 2^24 *)

Theorem slots_exact_pow2 k n :
  0 <= k <= 24 -> 0 <= n <= 2 ^ 24 ->
  compute_appointment_slots_f32 n (2 ^ k) = Z.to_N (ceil_div n (2 ^ k)).
Proof.
  intros Hk Hn.
  assert (Hn' : Z.abs n <= 2 ^ 24) by lia.
  assert (Hd : 0 < 2 ^ k) by (apply Z.pow_pos_nonneg; lia).
  assert (Hd' : 2 ^ k <= 2 ^ 24) by (apply Z.pow_le_mono_r; lia).
  destruct (f32_div_exact n k Hn' Hk) as [Hq Fq].
  set (q := f32_div (f32_of_Z n) (f32_of_Z (2 ^ k))) in *.
  destruct (f32_ceil_exact q) as [Hc Fc]. rewrite Fq in Fc.
  rewrite Hq, (Zceil_div n (2 ^ k) Hd) in Hc.
  unfold compute_appointment_slots_f32. fold q.
  rewrite (f32_to_u32_finite _ Fc), (f32_trunc_int _ _ Hc).
  pose proof (ceil_div_bounds n (2 ^ k) ltac:(lia) Hd) as B.
  f_equal. unfold U32_MAX. change (2 ^ 32 - 1) with 4294967295.
  change (2 ^ 24) with 16777216 in *. lia.
Qed.

(* ---------------------------------------------------------------------------------------- *)
(* the bridge to the tower model: Tower.slots_of is ceil_div at the generated constant *)

Lemma slots_of_ceil_div n :
  0 <= n -> 1 <= Consts.ENCRYPTED_BLOB_MAX_SIZE ->
  slots_of (Z.to_N n) = Z.to_N (ceil_div n Consts.ENCRYPTED_BLOB_MAX_SIZE).
Proof.
  intros Hn Hd. unfold slots_of, BLOB_SLOT, ceil_div.
  rewrite Z2N.inj_div, Z2N.inj_add, Z2N.inj_sub by lia. reflexivity.
Qed.

(* the generated constant is a power of two in range: decided by evaluating the constant *)
Definition blob_max_log2 : Z := Z.log2 Consts.ENCRYPTED_BLOB_MAX_SIZE.

Lemma blob_max_is_pow2 :
  Consts.ENCRYPTED_BLOB_MAX_SIZE = 2 ^ blob_max_log2 /\ 0 <= blob_max_log2 <= 24.
Proof. vm_compute. split; [reflexivity | split; discriminate]. Qed.

Theorem slots_exact_tower n :
  0 <= n <= 2 ^ 24 ->
  compute_appointment_slots_f32 n Consts.ENCRYPTED_BLOB_MAX_SIZE = slots_of (Z.to_N n).
Proof.
  intros Hn. destruct blob_max_is_pow2 as [E Hk].
  rewrite slots_of_ceil_div; [| lia | rewrite E; pose proof (Z.pow_pos_nonneg 2 blob_max_log2); lia].
  rewrite E. apply slots_exact_pow2; assumption.
Qed.

Theorem slots_exact_2048 n :
  0 <= n <= 2 ^ 24 ->
  compute_appointment_slots_f32 n 2048 = Z.to_N ((n + 2047) / 2048).
Proof. intros Hn. exact (slots_exact_pow2 11 n ltac:(lia) Hn). Qed.

Theorem slots_ge_one_nonempty n :
  1 <= n <= 2 ^ 24 ->
  (1 <= compute_appointment_slots_f32 n Consts.ENCRYPTED_BLOB_MAX_SIZE)%N.
Proof.
  intros Hn. destruct blob_max_is_pow2 as [E Hk].
  rewrite E, slots_exact_pow2 by lia.
  pose proof (ceil_div_ge_one n (2 ^ blob_max_log2) ltac:(lia)
                ltac:(apply Z.pow_pos_nonneg; lia)).
  lia.
Qed.

(* every blob that fits a transport the tower listens on is in the exact range *)
Theorem transport_below_bound :
  Consts.ADD_APPOINTMENT_BODY_LEN <= F32_EXACT_INT_BOUND /\
  TONIC_DEFAULT_MAX_RECV_MESSAGE_SIZE <= F32_EXACT_INT_BOUND /\
  forall n, 0 <= n <= Z.max Consts.ADD_APPOINTMENT_BODY_LEN TONIC_DEFAULT_MAX_RECV_MESSAGE_SIZE ->
            compute_appointment_slots_f32 n Consts.ENCRYPTED_BLOB_MAX_SIZE = slots_of (Z.to_N n).
Proof.
  assert (H1 : Consts.ADD_APPOINTMENT_BODY_LEN <= F32_EXACT_INT_BOUND) by (vm_compute; discriminate).
  assert (H2 : TONIC_DEFAULT_MAX_RECV_MESSAGE_SIZE <= F32_EXACT_INT_BOUND) by (vm_compute; discriminate).
  split; [exact H1 | split; [exact H2 |]].
  intros n Hn. apply slots_exact_tower. unfold F32_EXACT_INT_BOUND in *. lia.
Qed.

(* ---------------------------------------------------------------------------------------- *)
(* kernel computations on the model (single points) *)

(* the first integer that is not a binary32 number: 2^24+1 rounds to 2^24, the quotient is
   exactly 8192 and the extra byte is lost *)
Lemma slots_wrong_above :
  compute_appointment_slots_f32 (2 ^ 24 + 1) Consts.ENCRYPTED_BLOB_MAX_SIZE = 8192%N /\
  slots_of (Z.to_N (2 ^ 24 + 1)) = 8193%N.
Proof. split; vm_compute; reflexivity. Qed.

Lemma slots_zero_blob : compute_appointment_slots_f32 0 Consts.ENCRYPTED_BLOB_MAX_SIZE = 0%N.
Proof. vm_compute. reflexivity. Qed.
