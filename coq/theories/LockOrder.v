(* LockOrder.v — the tower's locks, the (held -> requested) pairs each kind of operation may
   produce (read off the guard lifetimes in watcher/gatekeeper/responder/carrier/chain_monitor,
   after the lock-order repairs F11 and F19), and the proof that they all go upwards in one strict
   order; with Conc.lock_order_no_deadlock: no interleaving of any number of operations can
   deadlock on mutexes.  The table is tied to the code on every run: hook H3 reports the pairs the
   real code produces in every step of every explored history, each must be in the row of its
   operation kind, and the union of everything observed must be acyclic. *)
From TeosModel Require Import Base Conc.
Local Open Scope N_scope.

(* 0 locator_cache  1 carrier  2 tx_index  3 reorged_trackers  4 registered_users  5 dbm  6 bitcoind_reachable *)
Definition lock_rank (l : N) : N := l.

(* operation kinds: 0 register, 1 add_appointment, 2 get_appointment, 3 get_subscription_info,
   4 block connected, 5 block disconnected, 6 poll (chain monitor), 7 admin reads *)
Definition op_edges (kind : N) : list (N * N) :=
  match kind with
  | 0 => [(4, 5)]
  | 1 => [(4, 5); (0, 5); (0, 1); (0, 2); (1, 2); (0, 6); (1, 6); (2, 6); (1, 5); (2, 5); (0, 4)]
  | 2 => []
  | 3 => []
  | 4 => [(4, 5); (1, 2); (1, 6); (2, 6); (1, 5); (2, 5); (3, 5); (5, 6)]
  | 5 => [(3, 5)]
  | 6 => [(4, 5); (1, 2); (1, 6); (2, 6); (1, 5); (2, 5); (3, 5); (5, 6)]
  | _ => []
  end.

Definition all_kinds : list N := [0; 1; 2; 3; 4; 5; 6; 7].
Definition all_edges : list (N * N) := flat_map op_edges all_kinds.

Definition edge_ok (e : N * N) : bool := N.ltb (lock_rank (fst e)) (lock_rank (snd e)).

Lemma all_edges_increasing : forallb edge_ok all_edges = true.
Proof. vm_compute. reflexivity. Qed.

(* every pair any operation kind may produce goes strictly upwards *)
Theorem lock_order_respected kind a b : In (a, b) (op_edges kind) -> lock_rank a < lock_rank b.
Proof.
  intros Hin.
  assert (Hk : In kind all_kinds \/ op_edges kind = []).
  { destruct kind as [|p]; [left; cbn; auto|].
    do 3 (destruct p as [p|p|]; try (left; cbn; tauto); try (right; reflexivity)). }
  destruct Hk as [Hk|Hk]; [|rewrite Hk in Hin; destruct Hin].
  pose proof all_edges_increasing as H. rewrite forallb_forall in H.
  assert (Hin' : In (a, b) all_edges) by (unfold all_edges; apply in_flat_map; exists kind; auto).
  specialize (H _ Hin'). unfold edge_ok in H. cbn [fst snd] in H. apply N.ltb_lt in H. exact H.
Qed.

(* threads that only ever request along table pairs are disciplined, hence never deadlock *)
Theorem tower_no_mutex_deadlock (c : cconfig) :
  (forall th l h, In th c -> th_want th = Some l -> In h (th_held th) -> exists kind, In (h, l) (op_edges kind)) ->
  ~ deadlock c.
Proof.
  intros H. apply (lock_order_no_deadlock lock_rank). intros th l h Hin Hw Hh.
  destruct (H th l h Hin Hw Hh) as [kind Hk]. exact (lock_order_respected kind h l Hk).
Qed.

(* executable forms for the driver *)
Definition edge_allowed (kind a b : N) : bool := existsb (fun e => N.eqb (fst e) a && N.eqb (snd e) b) (op_edges kind).

(* acyclicity of an observed edge set: it is consistent with the rank iff every edge goes up; for
   arbitrary observed graphs the driver asks for a topological order by repeated removal of sources *)
Fixpoint topo (fuel : nat) (nodes : list N) (edges : list (N * N)) : bool :=
  match fuel with
  | O => match nodes with [] => true | _ => false end
  | S f =>
      match nodes with
      | [] => true
      | _ =>
          let sources := filter (fun n => negb (existsb (fun e => N.eqb (snd e) n) edges)) nodes in
          match sources with
          | [] => false
          | _ => topo f (filter (fun n => negb (memN n sources)) nodes)
                        (filter (fun e => negb (memN (fst e) sources)) edges)
          end
      end
  end.
Definition acyclic (edges : list (N * N)) : bool :=
  let nodes := nodupN (map fst edges ++ map snd edges) in topo (S (length nodes)) nodes edges.
