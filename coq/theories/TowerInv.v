(* TowerInv.v — the structural invariant of the tower's tables and its preservation by every
   operation: unique keys, referential integrity (the model of the SQL foreign keys), and
   gatekeeper memory = table users.  Used by C03 (no dangling records), C07 (memory = disk),
   C09, C11 (unwrap sites). *)
From TeosModel Require Import Base ListAux TxIndex TxIndexProofs Tower TowerStable.
From TeosModel.Gen Require Consts.
From Coq Require Import Lia.
Local Open Scope N_scope.

(* ---------- helpers ---------- *)
Lemma uuid_eqb_eq a b : uuid_eqb a b = true <-> a = b.
Proof.
  unfold uuid_eqb. destruct a as [a1 a2], b as [b1 b2]. cbn [fst snd].
  rewrite andb_true_iff, !N.eqb_eq. split; [intros [? ?]; congruence|intros H; inversion H; auto].
Qed.

Lemma uuid_eqb_refl a : uuid_eqb a a = true.
Proof. apply uuid_eqb_eq. reflexivity. Qed.

Lemma find_app_Some apps u a : find_app apps u = Some a -> In a apps /\ app_uuid a = u.
Proof.
  unfold find_app. intros H. apply find_some in H. destruct H as [Hi He].
  apply uuid_eqb_eq in He. auto.
Qed.

Lemma find_app_None apps u : find_app apps u = None -> ~ In u (map app_uuid apps).
Proof.
  unfold find_app. intros H Hin. apply in_map_iff in Hin. destruct Hin as [a [He Hi]].
  pose proof (find_none _ _ H a Hi) as Hn. cbn in Hn. rewrite He, uuid_eqb_refl in Hn. discriminate.
Qed.

Lemma find_app_In apps a : In a apps -> exists a', find_app apps (app_uuid a) = Some a'.
Proof.
  intros Hi. destruct (find_app apps (app_uuid a)) as [a'|] eqn:E; [eauto|].
  exfalso. apply (find_app_None _ _ E). apply in_map. exact Hi.
Qed.

Lemma find_trk_Some trks u k : find_trk trks u = Some k -> In k trks /\ trk_uuid k = u.
Proof.
  unfold find_trk. intros H. apply find_some in H. destruct H as [Hi He].
  apply uuid_eqb_eq in He. auto.
Qed.

Lemma find_trk_None trks u : find_trk trks u = None -> ~ In u (map trk_uuid trks).
Proof.
  unfold find_trk. intros H Hin. apply in_map_iff in Hin. destruct Hin as [a [He Hi]].
  pose proof (find_none _ _ H a Hi) as Hn. cbn in Hn. rewrite He, uuid_eqb_refl in Hn. discriminate.
Qed.

Lemma NoDup_map_filter {A B} (f : A -> B) (p : A -> bool) l : NoDup (map f l) -> NoDup (map f (filter p l)).
Proof.
  induction l as [|x l IH]; cbn [map filter]; intros H; [constructor|].
  apply NoDup_cons_iff in H. destruct H as [Hx Hl].
  destruct (p x); cbn [map]; [|apply IH; exact Hl].
  constructor; [|apply IH; exact Hl].
  intros Hin. apply Hx. apply in_map_iff in Hin. destruct Hin as [y [Hy Hi]].
  apply filter_In in Hi. apply in_map_iff. exists y. tauto.
Qed.

Lemma mem_uuid_In u l : mem_uuid u l = true <-> In u l.
Proof.
  unfold mem_uuid. rewrite existsb_exists. split.
  - intros [x [Hx He]]. apply uuid_eqb_eq in He. subst. exact Hx.
  - intros H. exists u. split; [exact H|apply uuid_eqb_refl].
Qed.

(* association-list facts for the users table *)
Lemma aget_filter_key {V} (p : N -> bool) (m : amap V) k :
  aget (filter (fun r => p (fst r)) m) k = if p k then aget m k else None.
Proof. exact (aget_retain p m k). Qed.

Lemma aget_app_single {V} (m : amap V) u (v : V) k :
  aget (m ++ [(u, v)]) k = match aget m k with Some x => Some x | None => if N.eqb k u then Some v else None end.
Proof. rewrite aget_app. destruct (aget m k); reflexivity. Qed.

Lemma aget_map_update {V} (m : amap V) u (v : V) k :
  aget (map (fun r => if N.eqb (fst r) u then (u, v) else r) m) k =
  if N.eqb k u then (match aget m k with Some _ => Some v | None => None end) else aget m k.
Proof.
  induction m as [|[k' v'] m IH]; cbn [map aget fst]; [destruct (N.eqb k u); reflexivity|].
  destruct (N.eqb k' u) eqn:E1; cbn [aget].
  - apply N.eqb_eq in E1. subst k'. destruct (N.eqb k u) eqn:E2; [reflexivity|exact IH].
  - destruct (N.eqb k k') eqn:E2.
    + apply N.eqb_eq in E2. subst k'. rewrite E1. reflexivity.
    + exact IH.
Qed.

Lemma map_fst_update {V} (m : amap V) u (v : V) :
  map fst (map (fun r => if N.eqb (fst r) u then (u, v) else r) m) = map fst m.
Proof.
  induction m as [|[k' v'] m IH]; cbn [map fst]; [reflexivity|].
  destruct (N.eqb k' u) eqn:E; cbn [fst]; [apply N.eqb_eq in E; subst|]; f_equal; exact IH.
Qed.

Lemma amem_true_In {V} (m : amap V) k : amem m k = true <-> In k (map fst m).
Proof.
  unfold amem. destruct (aget m k) eqn:E.
  - split; [intros _; eapply aget_Some_in; exact E|reflexivity].
  - split; [discriminate|intros H; apply aget_None_notin in E; contradiction].
Qed.

(* ---------- the invariant ---------- *)
Record Inv (t : tower) : Prop := {
  inv_users_nodup : NoDup (map fst (db_users t));
  inv_mem_nodup : NoDup (map fst (gk_users t));
  inv_sync : forall u, aget (gk_users t) u = aget (db_users t) u;
  inv_apps_nodup : NoDup (map app_uuid (db_apps t));
  inv_trks_nodup : NoDup (map trk_uuid (db_trks t));
  inv_fk_app : forall a, In a (db_apps t) -> amem (db_users t) (a_user a) = true;
  inv_fk_trk : forall k, In k (db_trks t) -> exists a, In a (db_apps t) /\ app_uuid a = trk_uuid k
}.

(* every user the gatekeeper knows has its row (memory = table users) *)
Lemma inv_user_rows t : Inv t -> forall u, user_row_ok t u.
Proof. intros HI u H. unfold amem in *. rewrite <- (inv_sync t HI). exact H. Qed.

Lemma inv_frame t t' : same_tables t t' -> Inv t -> Inv t'.
Proof.
  intros [Hc [Hg [Hu [Ha Hk]]]] [I1 I2 I3 I4 I5 I6 I7].
  constructor; rewrite <- ?Hg, <- ?Hu, <- ?Ha, <- ?Hk; auto.
Qed.

Lemma inv_delete t us : Inv t -> Inv (db_delete_apps t us).
Proof.
  intros [I1 I2 I3 I4 I5 I6 I7]. unfold db_delete_apps.
  constructor; cbn [db_users gk_users db_apps db_trks set_db_apps set_db_trks]; auto.
  - apply NoDup_map_filter. exact I4.
  - apply NoDup_map_filter. exact I5.
  - intros a Ha. apply filter_In in Ha. apply I6. tauto.
  - intros k Hk. apply filter_In in Hk. destruct Hk as [Hk Hp].
    destruct (I7 k Hk) as [a [Ha He]]. exists a. split; [|exact He].
    apply filter_In. split; [exact Ha|]. rewrite He. exact Hp.
Qed.

Lemma inv_insert_trk t k :
  Inv t -> find_trk (db_trks t) (trk_uuid k) = None ->
  (exists a, find_app (db_apps t) (trk_uuid k) = Some a) -> Inv (p_insert_trk t k).
Proof.
  intros [I1 I2 I3 I4 I5 I6 I7] Hn [a Ha]. unfold p_insert_trk.
  constructor; cbn [db_users gk_users db_apps db_trks set_db_trks]; auto.
  - rewrite map_app. cbn [map]. apply NoDup_app_iff. repeat split; [exact I5|repeat constructor; intros []|].
    intros x Hx [Hx'|[]]. subst x. exact (find_trk_None _ _ Hn Hx).
  - intros k' Hk'. apply in_app_or in Hk'. destruct Hk' as [Hk'|[Hk'|[]]]; [apply I7; exact Hk'|].
    subst k'. apply find_app_Some in Ha. exists a. exact Ha.
Qed.

Lemma inv_trk_status t uuid h c : Inv t -> Inv (set_trk_status t uuid h c).
Proof.
  intros [I1 I2 I3 I4 I5 I6 I7]. unfold set_trk_status.
  assert (Hm : map trk_uuid (map (fun k => if uuid_eqb (trk_uuid k) uuid
                 then mk_trk (t_loc k) (t_user k) (t_dispute k) (t_penalty k) h c else k) (db_trks t))
               = map trk_uuid (db_trks t)).
  { rewrite map_map. apply map_ext. intros k. destruct (uuid_eqb (trk_uuid k) uuid); reflexivity. }
  constructor; cbn [db_users gk_users db_apps db_trks set_db_trks]; auto.
  - rewrite Hm. exact I5.
  - intros k Hk. apply in_map_iff in Hk. destruct Hk as [k0 [He Hk0]].
    destruct (I7 k0 Hk0) as [a [Ha Hu]]. exists a. split; [exact Ha|].
    rewrite Hu. subst k. destruct (uuid_eqb (trk_uuid k0) uuid); reflexivity.
Qed.

Lemma inv_purge t out : Inv t -> Inv (p_purge t out).
Proof.
  intros [I1 I2 I3 I4 I5 I6 I7]. unfold p_purge, db_delete_users.
  constructor; cbn [db_users gk_users db_apps db_trks set_db_users set_db_apps set_db_trks set_gk_users].
  - apply NoDup_map_filter. exact I1.
  - unfold aretain. apply NoDup_map_filter. exact I2.
  - intros u. rewrite aget_retain. rewrite (aget_filter_key (fun k => negb (memN k out))). rewrite I3. reflexivity.
  - apply NoDup_map_filter. exact I4.
  - apply NoDup_map_filter. exact I5.
  - intros a Ha. apply filter_In in Ha. destruct Ha as [Ha Hp].
    specialize (I6 a Ha). unfold amem in *. rewrite (aget_filter_key (fun k => negb (memN k out))). rewrite Hp. exact I6.
  - intros k Hk. apply filter_In in Hk. destruct Hk as [Hk Hp].
    destruct (I7 k Hk) as [a [Ha He]]. exists a. split; [|exact He].
    apply filter_In. split; [exact Ha|].
    assert (Hu : a_user a = t_user k) by (unfold app_uuid, trk_uuid in He; congruence).
    rewrite Hu. exact Hp.
Qed.

Lemma inv_new_user t u ui :
  Inv t -> gk_get t u = None -> amem (db_users t) u = false -> Inv (p_new_user t u ui).
Proof.
  intros [I1 I2 I3 I4 I5 I6 I7] Hg Hm. unfold p_new_user, gk_put.
  constructor; cbn [db_users gk_users db_apps db_trks set_db_users set_gk_users]; auto.
  - rewrite map_app. cbn [map fst]. apply NoDup_app_iff. repeat split; [exact I1|repeat constructor; intros []|].
    intros x Hx [Hx'|[]]. subst x. apply amem_true_In in Hx. congruence.
  - cbn [map fst]. constructor.
    + intros Hin. apply in_map_iff in Hin. destruct Hin as [[k v] [Hk Hi]]. cbn in Hk. subst k.
      unfold aremove, aretain in Hi. apply filter_In in Hi. cbn in Hi. rewrite N.eqb_refl in Hi. destruct Hi; discriminate.
    + unfold aremove, aretain. apply NoDup_map_filter. exact I2.
  - intros k. cbn [aget]. rewrite aget_remove, aget_app_single, <- I3.
    destruct (N.eqb k u) eqn:E.
    + apply N.eqb_eq in E. subst k. unfold gk_get in Hg. rewrite Hg. reflexivity.
    + destruct (aget (gk_users t) k); reflexivity.
  - intros a Ha. specialize (I6 a Ha). unfold amem in *. rewrite aget_app_single.
    destruct (aget (db_users t) (a_user a)); [reflexivity|discriminate].
Qed.

Lemma inv_set_user t u ui ui' : Inv t -> gk_get t u = Some ui -> Inv (p_set_user t u ui').
Proof.
  intros [I1 I2 I3 I4 I5 I6 I7] Hg. unfold p_set_user, db_update_user, gk_put.
  constructor; cbn [db_users gk_users db_apps db_trks set_db_users set_gk_users]; auto.
  - rewrite map_fst_update. exact I1.
  - cbn [map fst]. constructor.
    + intros Hin. apply in_map_iff in Hin. destruct Hin as [[k v] [Hk Hi]]. cbn in Hk. subst k.
      unfold aremove, aretain in Hi. apply filter_In in Hi. cbn in Hi. rewrite N.eqb_refl in Hi. destruct Hi; discriminate.
    + unfold aremove, aretain. apply NoDup_map_filter. exact I2.
  - intros k. cbn [aget]. rewrite aget_remove, aget_map_update, <- I3.
    destruct (N.eqb k u) eqn:E; [|reflexivity].
    apply N.eqb_eq in E. subst k. unfold gk_get in Hg. rewrite Hg. reflexivity.
  - intros a Ha. specialize (I6 a Ha). unfold amem in *. rewrite aget_map_update.
    destruct (N.eqb (a_user a) u); [|exact I6]. destruct (aget (db_users t) (a_user a)); [reflexivity|discriminate].
Qed.

Lemma inv_insert_app t a :
  Inv t -> find_app (db_apps t) (app_uuid a) = None -> amem (db_users t) (a_user a) = true -> Inv (p_insert_app t a).
Proof.
  intros [I1 I2 I3 I4 I5 I6 I7] Hn Hm. unfold p_insert_app.
  constructor; cbn [db_users gk_users db_apps db_trks set_db_apps]; auto.
  - rewrite map_app. cbn [map]. apply NoDup_app_iff. repeat split; [exact I4|repeat constructor; intros []|].
    intros x Hx [Hx'|[]]. subst x. exact (find_app_None _ _ Hn Hx).
  - intros a' Ha'. apply in_app_or in Ha'. destruct Ha' as [Ha'|[Ha'|[]]]; [apply I6; exact Ha'|subst; exact Hm].
  - intros k Hk. destruct (I7 k Hk) as [a' [Ha' He]]. exists a'. split; [apply in_or_app; left; exact Ha'|exact He].
Qed.

Lemma inv_update_app t a a0 : Inv t -> find_app (db_apps t) (app_uuid a) = Some a0 -> Inv (p_update_app t a).
Proof.
  intros [I1 I2 I3 I4 I5 I6 I7] Hf. unfold p_update_app.
  apply find_app_Some in Hf. destruct Hf as [Hi0 He0].
  assert (Hm : map app_uuid (map (fun x => if uuid_eqb (app_uuid x) (app_uuid a) then a else x) (db_apps t))
               = map app_uuid (db_apps t)).
  { rewrite map_map. apply map_ext. intros x. destruct (uuid_eqb (app_uuid x) (app_uuid a)) eqn:E; [|reflexivity].
    apply uuid_eqb_eq in E. congruence. }
  constructor; cbn [db_users gk_users db_apps db_trks set_db_apps]; auto.
  - rewrite Hm. exact I4.
  - intros a' Ha'. apply in_map_iff in Ha'. destruct Ha' as [x [Hx Hix]].
    destruct (uuid_eqb (app_uuid x) (app_uuid a)) eqn:E; [|subst; apply I6; exact Hix].
    subst a'. assert (Hu : a_user a = a_user a0) by (unfold app_uuid in He0; congruence).
    rewrite Hu. apply I6. exact Hi0.
  - intros k Hk. destruct (I7 k Hk) as [a' [Ha' He]].
    exists (if uuid_eqb (app_uuid a') (app_uuid a) then a else a'). split.
    + apply in_map_iff. exists a'. split; [reflexivity|exact Ha'].
    + destruct (uuid_eqb (app_uuid a') (app_uuid a)) eqn:E; [apply uuid_eqb_eq in E; congruence|exact He].
Qed.

Lemma aget_map_slots (m : amap uinfo) u s k :
  aget (map (fun r => if N.eqb (fst r) u then (u, mk_uinfo s (u_start (snd r)) (u_expiry (snd r))) else r) m) k =
  if N.eqb k u then option_map (fun ui => mk_uinfo s (u_start ui) (u_expiry ui)) (aget m k) else aget m k.
Proof.
  induction m as [|[k' v'] m IH]; cbn [map aget fst snd]; [destruct (N.eqb k u); reflexivity|].
  destruct (N.eqb k' u) eqn:E1; cbn [aget].
  - apply N.eqb_eq in E1. subst k'. destruct (N.eqb k u) eqn:E2; [reflexivity|exact IH].
  - destruct (N.eqb k k') eqn:E2.
    + apply N.eqb_eq in E2. subst k'. rewrite E1. reflexivity.
    + exact IH.
Qed.

Lemma map_fst_slots (m : amap uinfo) u s :
  map fst (map (fun r => if N.eqb (fst r) u then (u, mk_uinfo s (u_start (snd r)) (u_expiry (snd r))) else r) m) = map fst m.
Proof.
  induction m as [|[k' v'] m IH]; cbn [map fst]; [reflexivity|].
  destruct (N.eqb k' u) eqn:E; cbn [fst]; [apply N.eqb_eq in E; subst|]; f_equal; exact IH.
Qed.

Lemma inv_refund t u ui s : Inv t -> gk_get t u = Some ui -> Inv (p_refund_user t u ui s).
Proof.
  intros [I1 I2 I3 I4 I5 I6 I7] Hg. unfold p_refund_user, db_update_user_slots, gk_put.
  constructor; cbn [db_users gk_users db_apps db_trks set_db_users set_gk_users]; auto.
  - rewrite map_fst_slots. exact I1.
  - cbn [map fst]. constructor.
    + intros Hin. apply in_map_iff in Hin. destruct Hin as [[k v] [Hk Hi]]. cbn in Hk. subst k.
      unfold aremove, aretain in Hi. apply filter_In in Hi. cbn in Hi. rewrite N.eqb_refl in Hi. destruct Hi; discriminate.
    + unfold aremove, aretain. apply NoDup_map_filter. exact I2.
  - intros k. cbn [aget]. rewrite aget_remove, aget_map_slots, <- I3.
    destruct (N.eqb k u) eqn:E; [|reflexivity].
    apply N.eqb_eq in E. subst k. unfold gk_get in Hg. rewrite Hg. reflexivity.
  - intros a Ha. specialize (I6 a Ha). unfold amem in *. rewrite aget_map_slots.
    destruct (N.eqb (a_user a) u); [|exact I6]. destruct (aget (db_users t) (a_user a)); [reflexivity|discriminate].
Qed.

Theorem inv_stable : StableAll Inv.
Proof.
  constructor; [constructor; [constructor|]|..].
  - exact inv_frame.
  - exact inv_delete.
  - exact inv_refund.
  - exact inv_insert_trk.
  - exact inv_trk_status.
  - exact inv_purge.
  - exact inv_new_user.
  - exact inv_set_user.
  - exact inv_insert_app.
  - exact inv_update_app.
Qed.

Lemma inv_init c h0 blocks t : init c h0 blocks = Some t -> Inv t.
Proof.
  unfold init. destruct (ti_new _ _); [|discriminate]. destruct (ti_new _ _); [|discriminate].
  intros H. inversion H. subst. constructor; cbn; try constructor; try tauto; try reflexivity.
Qed.

(* Every state the tower reaches from its bootstrap, by any history of requests, blocks and node
   answers in which no handler aborted, satisfies the structural invariant. *)
Theorem inv_reachable le c h0 blocks t0 h :
  init c h0 blocks = Some t0 -> Forall (not_abort) (snd (run le t0 h)) -> Inv (fst (run le t0 h)).
Proof.
  intros Hi Hn. apply (run_pres Inv inv_stable); [eapply inv_init; exact Hi|exact Hn].
Qed.
