(* ListAux.v — small list lemmas missing from the 8.16 standard library. *)
From Coq Require Import List Lia Arith.
Import ListNotations.

Lemma NoDup_app_iff {A} (a b : list A) :
  NoDup (a ++ b) <-> NoDup a /\ NoDup b /\ (forall x, In x a -> ~ In x b).
Proof.
  induction a as [|x a IH]; cbn [app].
  - split; [intros H; repeat split; [constructor|exact H|intros ? []]|tauto].
  - rewrite !NoDup_cons_iff, IH, in_app_iff. split.
    + intros [Hx [Ha [Hb Hd]]]. repeat split; try tauto.
      intros y [Hy|Hy]; [subst; tauto|apply Hd; exact Hy].
    + intros [[Hx Ha] [Hb Hd]]. repeat split; try tauto.
      * intros [H|H]; [tauto|]. apply (Hd x); [left; reflexivity|exact H].
      * intros y Hy. apply Hd. right. exact Hy.
Qed.

Lemma skipn_app_le {A} n (a b : list A) : n <= length a -> skipn n (a ++ b) = skipn n a ++ b.
Proof.
  intros H. rewrite skipn_app. replace (n - length a) with 0 by lia. reflexivity.
Qed.

Lemma removelast_length {A} (l : list A) : length (removelast l) = length l - 1.
Proof.
  induction l as [|x l IH]; [reflexivity|].
  destruct l as [|y l]; [reflexivity|].
  cbn [removelast length] in *. lia.
Qed.
