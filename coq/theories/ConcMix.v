(* ConcMix.v — C10, a reader against ANY single thread: linearizability reduced to a sequential statement.
   R only reads; W is arbitrary (a request or the chain monitor).  Nobody but W changes the state, so W runs as if alone
   and the shared state passes through the states of W's solo run, in order (`states_of`).  Each action of R reads one
   of them, later actions never an earlier state: R's reply is the reply of a MIX run (`mix`).  If every mix run of R
   over W's solo states answers like R on the initial or on the final state, the pair is linearizable for ALL schedules.
   (ConcRW and ConcDisc are the special cases "W writes once" / "W changes one field the reader looks at once".) *)
From TeosModel Require Import Base ListAux TxIndex TxIndexProofs Tower ConcTower ConcTowerProofs ConcReg ConcLin ConcDisc.
From Coq Require Import Lia.
Local Open Scope N_scope.

(* the states after each action of the solo run of q from t *)
Fixpoint states_of {A} (q : prog A) (t : tower) : list tower :=
  match q with
  | Ret _ => []
  | Acq _ k | Rel _ k => states_of k t
  | Act B f k => match f t with Ok b t' => t' :: states_of (k b) t' | Abort _ t' => [t'] end
  end.

(* move forward along the sequence of states (or stay) *)
Inductive adv : tower -> list tower -> tower -> list tower -> Prop :=
| adv_stay c r : adv c r c r
| adv_next c c' r c'' r'' : adv c' r c'' r'' -> adv c (c' :: r) c'' r''.

Lemma adv_trans a ra b rb c rc : adv a ra b rb -> adv b rb c rc -> adv a ra c rc.
Proof. induction 1; intros H2; [exact H2|]. apply adv_next. apply IHadv. exact H2. Qed.

(* every action of q reads the current state or a later one; o is what q then returns *)
Fixpoint mix (q : prog out) (cur : tower) (rest : list tower) (o : out) : Prop :=
  match q with
  | Ret o' => o = o'
  | Acq _ k | Rel _ k => mix k cur rest o
  | Act B f k => exists c' r' b, adv cur rest c' r' /\ val (f c') = Some b /\ mix (k b) c' r' o
  end.

Lemma mix_advance q : forall cur rest c' r' o, adv cur rest c' r' -> mix q c' r' o -> mix q cur rest o.
Proof.
  induction q as [o'|l k IH|l k IH|B f k IH]; intros cur rest c' r' o Ha; cbn [mix]; eauto.
  intros [c'' [r'' [b [Ha2 [Hv Hm]]]]]. exists c'', r'', b. split; [eapply adv_trans; eauto|]. split; assumption.
Qed.

Section Mix.
  Context (t0 : tower) (PR PW : prog out).
  Let t1 : tower := state_of (exec PW t0).

  Definition goodm (o : out) : Prop := Some o = val (exec PR t0) \/ Some o = val (exec PR t1).

  Definition Ph (qr qw : prog out) (t : tower) : Prop :=
    readonly qr /\ exec qw t = exec PW t0 /\ forall o, mix qr t (states_of qw t) o -> goodm o.

  Definition J (c : conf) : Prop :=
    exists qr hr trr qw hw trw,
      cf_threads c = [mk_cthread (Running qr) hr trr; mk_cthread (Running qw) hw trw] /\ Ph qr qw (cf_tower c).

  Definition aborted (c : conf) : Prop :=
    exists i th r, nth_error (cf_threads c) i = Some th /\ ct_st th = Ended r /\ ended_by_abort r.

  Lemma aborted_step c i c' : aborted c -> step_thread c i = Some c' -> aborted c'.
  Proof.
    intros [j [th [r [Hn [He Hab]]]]] Hs.
    destruct (step_thread_cases c i c' Hs) as [thi [p [Hni [Hst Hc]]]].
    assert (Hij : i <> j) by (intros ->; rewrite Hn in Hni; inversion Hni; subst; congruence).
    exists j, th, r. split; [|split; [exact He|exact Hab]].
    destruct Hc as [[l [k [_ [_ [_ ->]]]]]|[[l [k [_ [_ [_ ->]]]]]|[[l [k [_ ->]]]|[[B [f [k [bb [t' [_ [_ ->]]]]]]]|[B [f [k [s [t' [_ [_ ->]]]]]]]]]]];
      cbn [die cf_threads]; rewrite nth_error_set_nth_neq by exact Hij; exact Hn.
  Qed.

  Lemma Ph_act_r B (f : tower -> res B) k qw t b t' : Ph (Act B f k) qw t -> f t = Ok b t' -> t' = t /\ Ph (k b) qw t.
  Proof.
    intros [Hro [He Hm]] E. cbn [readonly] in Hro. destruct Hro as [Hst Hk].
    assert (Et : t' = t) by (pose proof (Hst t) as X; rewrite E in X; exact X). subst t'. split; [reflexivity|].
    split; [apply Hk|]. split; [exact He|]. intros o Ho. apply Hm. cbn [mix].
    exists t, (states_of qw t), b. split; [apply adv_stay|]. split; [rewrite E; reflexivity|exact Ho].
  Qed.

  Lemma Ph_act_w qr B (g : tower -> res B) k t b t' : Ph qr (Act B g k) t -> g t = Ok b t' -> Ph qr (k b) t'.
  Proof.
    intros [Hro [He Hm]] E. split; [exact Hro|]. split; [rewrite <- He; cbn [exec]; rewrite E; reflexivity|].
    intros o Ho. apply Hm. cbn [states_of]. rewrite E. eapply mix_advance; [|exact Ho]. apply adv_next, adv_stay.
  Qed.

  Lemma J_step c i c' : J c -> step_thread c i = Some c' -> J c' \/ aborted c'.
  Proof.
    intros [qr [hr [trr [qw [hw [trw [Hth Hph]]]]]]] Hs.
    destruct (step_thread_cases c i c' Hs) as [th [p [Hn [Hst Hc]]]].
    rewrite Hth in Hn.
    destruct i as [|[|i]]; cbn [nth_error] in Hn; [| |destruct i; discriminate].
    - inversion Hn; subst th. cbn [ct_st ct_held ct_trace] in *. inversion Hst; subst p. clear Hst Hn.
      destruct Hc as [[l [k [-> [_ [_ ->]]]]]|[[l [k [-> [_ [_ ->]]]]]|[[l [k [-> ->]]]|[[B [f [k [bb [t' [-> [Hf ->]]]]]]]|[B [f [k [s [t' [-> [Hf ->]]]]]]]]]]].
      + left. exists k, (l :: hr), (l :: trr), qw, hw, trw. rewrite Hth. cbn [set_nth cf_threads cf_tower]. split; [reflexivity|exact Hph].
      + right. exists 0%nat. eexists. eexists. unfold die. rewrite Hth. cbn [cf_threads set_nth nth_error]. split; [reflexivity|split; [reflexivity|exact I]].
      + left. exists k, (remove_lock l hr), trr, qw, hw, trw. rewrite Hth. cbn [set_nth cf_threads cf_tower]. split; [reflexivity|exact Hph].
      + destruct (Ph_act_r B f k qw (cf_tower c) bb t' Hph Hf) as [-> Hph'].
        left. exists (k bb), hr, trr, qw, hw, trw. rewrite Hth. cbn [set_nth cf_threads cf_tower]. split; [reflexivity|exact Hph'].
      + right. exists 0%nat. eexists. eexists. unfold die. rewrite Hth. cbn [cf_threads set_nth nth_error]. split; [reflexivity|split; [reflexivity|exact I]].
    - inversion Hn; subst th. cbn [ct_st ct_held ct_trace] in *. inversion Hst; subst p. clear Hst Hn.
      destruct Hc as [[l [k [-> [_ [_ ->]]]]]|[[l [k [-> [_ [_ ->]]]]]|[[l [k [-> ->]]]|[[B [f [k [bb [t' [-> [Hf ->]]]]]]]|[B [f [k [s [t' [-> [Hf ->]]]]]]]]]]].
      + left. exists qr, hr, trr, k, (l :: hw), (l :: trw). rewrite Hth. cbn [set_nth cf_threads cf_tower]. split; [reflexivity|exact Hph].
      + right. exists 1%nat. eexists. eexists. unfold die. rewrite Hth. cbn [cf_threads set_nth nth_error]. split; [reflexivity|split; [reflexivity|exact I]].
      + left. exists qr, hr, trr, k, (remove_lock l hw), trw. rewrite Hth. cbn [set_nth cf_threads cf_tower]. split; [reflexivity|exact Hph].
      + left. exists qr, hr, trr, (k bb), hw, trw. rewrite Hth. cbn [set_nth cf_threads cf_tower]. split; [reflexivity|].
        eapply Ph_act_w; eauto.
      + right. exists 1%nat. eexists. eexists. unfold die. rewrite Hth. cbn [cf_threads set_nth nth_error]. split; [reflexivity|split; [reflexivity|exact I]].
  Qed.

  (* THE reduction *)
  Theorem reader_against_one_thread sched tf o ow :
    readonly PR -> (forall o', mix PR t0 (states_of PW t0) o' -> goodm o') ->
    run_sched t0 [PR; PW] sched = (tf, [Some (TOut o); Some (TOut ow)]) ->
    (forall s, o <> OAbort s) -> (forall s, ow <> OAbort s) ->
    exec PW t0 = Ok ow tf /\ (exec PR t0 = Ok o t0 \/ exec PR tf = Ok o tf).
  Proof.
    intros Hro Hmix Hrun Hna Hnw.
    assert (HW : exec PW t0 = Ok ow tf).
    { pose proof (writer_among_readers_runs_alone t0 [PR; PW] sched 1 PW ow eq_refl) as Hal.
      rewrite Hrun in Hal. cbn [fst snd nth_error] in Hal. apply Hal; [|reflexivity|exact Hnw].
      intros i q Hi Hq. destruct i as [|[|i]]; cbn [nth_error] in Hq; [inversion Hq; subst; exact Hro|congruence|destruct i; discriminate]. }
    split; [exact HW|].
    assert (Et1 : t1 = tf) by (unfold t1; rewrite HW; reflexivity).
    unfold run_sched in Hrun. inversion Hrun as [[Ht Hres]]. clear Hrun.
    assert (HJ : J (run_config (init_config t0 [PR; PW]) sched) \/ aborted (run_config (init_config t0 [PR; PW]) sched)).
    { apply (run_config_inv (fun c => J c \/ aborted c)).
      - intros c1 i c2 [HJ|Ha] Hst; [eapply J_step; eauto|right; eapply aborted_step; eauto].
      - left. exists PR, [], [], PW, [], []. split; [reflexivity|]. split; [exact Hro|]. split; [reflexivity|exact Hmix]. }
    destruct HJ as [[qr [hr [trr [qw [hw [trw [Hth [_ [_ Hm]]]]]]]]]|[i [th [x [Hn [He Hab]]]]]].
    - rewrite Hth in Hres. cbn [map thread_result ct_st] in Hres.
      assert (Er : qr = Ret o) by (destruct qr; inversion Hres; reflexivity). subst qr.
      rewrite ?Ht. destruct (Hm o eq_refl) as [Hg|Hg]; [left|right; rewrite <- Et1]; (apply ro_exec; [exact Hro|symmetry; exact Hg]).
    - exfalso.
      assert (Hx : nth_error (map thread_result (cf_threads (run_config (init_config t0 [PR; PW]) sched))) i = Some (Some x)).
      { rewrite nth_error_map, Hn. cbn [option_map]. unfold thread_result. rewrite He. reflexivity. }
      rewrite Hres in Hx. destruct i as [|[|[|i]]]; cbn [nth_error] in Hx; inversion Hx; subst x; cbn in Hab;
        [destruct o; try exact Hab; eapply Hna; reflexivity|destruct ow; try exact Hab; eapply Hnw; reflexivity].
  Qed.
End Mix.

(* ------------------------------------------------------------------------------------------ *)
(* get_appointment over a sequence of states *)

Lemma adv_in c r c' r' : adv c r c' r' -> forall (P : tower -> Prop), P c -> (forall x, In x r -> P x) -> P c' /\ (forall x, In x r' -> P x).
Proof.
  induction 1; intros P Hc Hr; [split; assumption|].
  apply IHadv; [apply Hr; left; reflexivity|intros x Hx; apply Hr; right; exact Hx].
Qed.

Definition uview (u : N) (t : tower) : option N * N := (option_map u_expiry (gk_get t u), gk_height t).

Definition greply (v : option N * N) (g : get_result) : out :=
  match fst v with
  | None => OGetRes GetAuth
  | Some e => if N.leb e (snd v) then OGetRes (GetExpired e) else OGetRes g
  end.

Lemma get_exec_reply u loc t : val (exec (get_p (Some u) loc) t) = Some (greply (uview u t) (load_for_get (loc, u) t)).
Proof.
  unfold get_p, get_appointment_p, authenticate_p, expired_p, reach_p, authenticate, amem, greply, uview, gk_get.
  cbn [pbind acq rel rd exec val fst snd]. destruct (aget (gk_users t) u) as [ui|] eqn:E; cbn [pbind exec val option_map fst snd]; [|reflexivity].
  rewrite ?E. cbn [pbind exec val option_map fst snd].
  destruct (N.leb (u_expiry ui) (gk_height t)); cbn [pbind exec val]; reflexivity.
Qed.

(* a mix run of get_appointment: the three reads see three states of the sequence *)
Lemma get_mix_reply u loc cur rest o (P : tower -> Prop) :
  P cur -> (forall x, In x rest -> P x) ->
  mix (get_p (Some u) loc) cur rest o ->
  exists c1 c2 c3, P c1 /\ P c2 /\ P c3 /\
    o = match fst (uview u c1) with
        | None => OGetRes GetAuth
        | Some _ => greply (uview u c2) (load_for_get (loc, u) c3)
        end.
Proof.
  intros Hc Hr. unfold get_p, get_appointment_p, authenticate_p, expired_p, reach_p.
  cbn [pbind acq rel rd mix]. intros [c1 [r1 [b1 [A1 [V1 M1]]]]].
  destruct (adv_in _ _ _ _ A1 P Hc Hr) as [Hc1 Hr1]. cbn [val] in V1. inversion V1; subst b1. clear V1.
  unfold authenticate, amem in M1. unfold uview, greply, gk_get. cbn [fst snd].
  destruct (aget (gk_users c1) u) as [ui1|] eqn:E1; cbn [pbind mix] in M1.
  2:{ exists c1, c1, c1. repeat split; try assumption. rewrite E1. exact M1. }
  destruct M1 as [c2 [r2 [b2 [A2 [V2 M2]]]]].
  destruct (adv_in _ _ _ _ A2 P Hc1 Hr1) as [Hc2 Hr2]. cbn [val] in V2. inversion V2; subst b2. clear V2.
  unfold gk_get in M2.
  destruct (aget (gk_users c2) u) as [ui2|] eqn:E2; cbn [pbind mix fst snd] in M2.
  2:{ exists c1, c2, c2. repeat split; try assumption. rewrite E1, E2. exact M2. }
  destruct (N.leb (u_expiry ui2) (gk_height c2)) eqn:Ex; cbn [pbind mix] in M2.
  { exists c1, c2, c2. repeat split; try assumption. rewrite E1, E2. cbn [option_map]. rewrite Ex. exact M2. }
  destruct M2 as [c3 [r3 [b3 [A3 [V3 M3]]]]].
  destruct (adv_in _ _ _ _ A3 P Hc2 Hr2) as [Hc3 _]. cbn [val] in V3. inversion V3; subst b3. clear V3.
  exists c1, c2, c3. repeat split; try assumption. rewrite E1, E2. cbn [option_map]. rewrite Ex. exact M3.
Qed.

Lemma get_mix_good u loc t0 S tl o :
  (forall t, In t S -> uview u t = uview u t0 /\ (load_for_get (loc, u) t = load_for_get (loc, u) t0 \/
                                                   load_for_get (loc, u) t = load_for_get (loc, u) tl)) ->
  uview u tl = uview u t0 ->
  mix (get_p (Some u) loc) t0 S o ->
  Some o = val (exec (get_p (Some u) loc) t0) \/ Some o = val (exec (get_p (Some u) loc) tl).
Proof.
  intros HS Hl Hm.
  destruct (get_mix_reply u loc t0 S o
              (fun t => uview u t = uview u t0 /\ (load_for_get (loc, u) t = load_for_get (loc, u) t0 \/
                                                    load_for_get (loc, u) t = load_for_get (loc, u) tl))
              (conj eq_refl (or_introl eq_refl)) HS Hm) as [c1 [c2 [c3 [[V1 _] [[V2 _] [[_ L3] Ho]]]]]].
  rewrite V1, V2 in Ho. rewrite !get_exec_reply, Hl.
  assert (Ho' : o = greply (uview u t0) (load_for_get (loc, u) c3)).
  { rewrite Ho. unfold greply. destruct (fst (uview u t0)); reflexivity. }
  destruct L3 as [L3|L3]; rewrite L3 in Ho'; [left|right]; rewrite Ho'; reflexivity.
Qed.

Lemma last_cons_default {A} (l : list A) : forall x d d', last (x :: l) d = last (x :: l) d'.
Proof. induction l as [|y l IH]; intros x d d'; [reflexivity|]. change (last (y :: l) d = last (y :: l) d'). apply IH. Qed.

Lemma state_of_exec_last {A} (q : prog A) : forall t, state_of (exec q t) = last (states_of q t) t.
Proof.
  induction q as [o|l k IH|l k IH|B f k IH]; intros t; cbn [exec states_of state_of]; auto.
  destruct (f t) as [b t'|s t'] eqn:E; [|reflexivity]. rewrite IH.
  destruct (states_of (k b) t') as [|x l] eqn:Es; [reflexivity|]. change (last (x :: l) t' = last (x :: l) t). apply last_cons_default.
Qed.

(* ------------------------------------------------------------------------------------------ *)
(* the solo states of composed programs; states of a program all of whose actions satisfy a guarantee *)

Lemma states_of_bind {A C} (p : prog A) (g : A -> prog C) : forall t,
  states_of (pbind p g) t = states_of p t ++ match exec p t with Ok a t' => states_of (g a) t' | Abort _ _ => [] end.
Proof.
  induction p as [a|l k IH|l k IH|B f k IH]; intros t; cbn [pbind states_of exec List.app]; auto.
  destruct (f t) as [b t'|s t']; [rewrite IH; reflexivity|reflexivity].
Qed.

Lemma guark_states {A} (G : list lock -> tower -> tower -> Prop) (R : tower -> tower -> Prop) :
  (forall h t t', G h t t' -> R t t') -> (forall t, R t t) -> (forall a b c, R a b -> R b c -> R a c) ->
  forall (q : prog A) held K t, guark G held q K ->
  Forall (R t) (states_of q t) /\ R t (state_of (exec q t)).
Proof.
  intros HG Hrefl Htrans. induction q as [a|l k IH|l k IH|B f k IH]; intros held K t Hg; cbn [guark states_of exec state_of] in *.
  - split; [constructor|apply Hrefl].
  - eapply IH; eauto.
  - eapply IH; eauto.
  - destruct Hg as [H1 H2]. pose proof (HG _ _ _ (H1 t)) as Hr. destruct (f t) as [b t'|s t']; cbn [state_of] in *.
    + destruct (IH b held K t' (H2 b)) as [Hf Hl]. split; [constructor; [exact Hr|]|eapply Htrans; eauto].
      eapply Forall_impl; [|exact Hf]. intros x Hx. eapply Htrans; eauto.
    + split; [constructor; [exact Hr|constructor]|exact Hr].
Qed.

(* ------------------------------------------------------------------------------------------ *)
(* get_appointment || add_appointment off the trigger path (the locator is not in the cache) *)

Lemma add_states_off_trigger sc u loc b delay sig t0 (u' loc' : N) :
  ti_get (w_cache t0) loc = None ->
  let tl := state_of (exec (add_p sc (Some u) loc b delay sig) t0) in
  Forall (fun t => uview u' t = uview u' t0 /\ (load_for_get (loc', u') t = load_for_get (loc', u') t0 \/
                                                load_for_get (loc', u') t = load_for_get (loc', u') tl))
         (states_of (add_p sc (Some u) loc b delay sig) t0) /\ uview u' tl = uview u' t0.
Proof.
  intros Hmiss. cbn zeta.
  unfold add_p, add_appointment_p, add_pre_p, authenticate_p, expired_p, has_tracker_p, charge_p, add_finish, cache_section_p, store_appointment_p, reach_p, authenticate.
  cbn [pbind acq rel act rd wr states_of exec state_of].
  destruct (amem (gk_users t0) u) eqn:Em; cbn [pbind acq rel act rd wr states_of exec state_of].
  2:{ split; [repeat constructor; auto|reflexivity]. }
  destruct (gk_get t0 u) as [ui|] eqn:Eg; cbn [pbind acq rel act rd wr states_of exec state_of fst snd].
  2:{ split; [repeat constructor; auto|reflexivity]. }
  destruct (N.leb (u_expiry ui) (gk_height t0)) eqn:Ex; cbn [pbind acq rel act rd wr states_of exec state_of fst snd].
  { split; [repeat constructor; auto|reflexivity]. }
  destruct (find_trk (db_trks t0) (loc, u)) eqn:Et; cbn [pbind acq rel act rd wr states_of exec state_of fst snd].
  { split; [repeat constructor; auto|reflexivity]. }
  rewrite Eg. cbn [pbind acq rel act rd wr states_of exec state_of fst snd].
  destruct (N.leb (slots_of (b_len b)) (u_slots ui + used_slots (loc, u) t0)) eqn:Es; cbn [pbind acq rel act rd wr states_of exec state_of fst snd a_loc].
  2:{ split; [repeat constructor; auto|reflexivity]. }
  set (t1 := p_set_user t0 u _).
  assert (Hc1 : w_cache t1 = w_cache t0) by reflexivity. rewrite Hc1, Hmiss.
  cbn [pbind acq rel act rd wr states_of exec state_of fst snd].
  assert (Q1 : uview u' t1 = uview u' t0 /\ load_for_get (loc', u') t1 = load_for_get (loc', u') t0).
  { split; [|reflexivity]. unfold uview, t1, p_set_user, db_update_user, gk_put, gk_get in *. cbn [gk_users gk_height set_gk_users set_db_users aget].
    destruct (N.eqb u' u) eqn:E; [apply N.eqb_eq in E; subst u'; rewrite Eg; reflexivity|]. rewrite aget_remove, E. reflexivity. }
  assert (Q2 : forall r t2, store_act (mk_app loc u b delay sig (w_height t0)) t1 = r -> state_of r = t2 -> uview u' t2 = uview u' t1).
  { intros r t2 <- <-. unfold store_act, w_store_appointment.
    destruct (find_app (db_apps t1) _); [reflexivity|]. destruct (amem (db_users t1) _); reflexivity. }
  destruct Q1 as [Q1a Q1b].
  destruct (store_act _ t1) as [ok t2|s t2] eqn:Est; cbn [state_of];
    pose proof (Q2 _ t2 eq_refl eq_refl) as Q2'; (split; [|congruence]);
    repeat (constructor; [first [split; [congruence|left; congruence] | split; [congruence|right; reflexivity] | split; [reflexivity|left; reflexivity]]|]); constructor.
Qed.

Theorem get_add_off_trigger_linearizable sc signer' loc' u loc b delay sig t0 sched tf o ow :
  ti_get (w_cache t0) loc = None ->
  run_sched t0 [get_p signer' loc'; add_p sc (Some u) loc b delay sig] sched = (tf, [Some (TOut o); Some (TOut ow)]) ->
  (forall s, o <> OAbort s) -> (forall s, ow <> OAbort s) ->
  exec (add_p sc (Some u) loc b delay sig) t0 = Ok ow tf /\
  (exec (get_p signer' loc') t0 = Ok o t0 \/ exec (get_p signer' loc') tf = Ok o tf).
Proof.
  intros Hmiss. apply reader_against_one_thread; [apply get_readonly|].
  intros o' Hm. unfold goodm. destruct signer' as [u'|].
  - destruct (add_states_off_trigger sc u loc b delay sig t0 u' loc' Hmiss) as [HS Hl]. cbn zeta in *.
    apply (get_mix_good u' loc' t0 (states_of (add_p sc (Some u) loc b delay sig) t0) (state_of (exec (add_p sc (Some u) loc b delay sig) t0)) o'); [|exact Hl|exact Hm].
    intros t Ht. rewrite Forall_forall in HS. apply HS. exact Ht.
  - left. cbn in Hm. subst o'. reflexivity.
Qed.
