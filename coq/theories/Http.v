(* Http.v — the public HTTP API of the tower (teos/src/api/http.rs) as a decision function over the
   tables generated from the source on every run (Gen/Http.v):

     respond : request -> internal-API oracle -> (status, error code of the JSON error body if any, forwarded?)

   following   router (routes tried in `.or` order: method filter, path filter, content_length_limit,
   warp::body::json [content-type, then serde], the handler's field checks, the gRPC call to the internal
   API, parse_grpc_response / match_status)   and, when every route rejected,   `.recover(handle_rejection)`
   and warp's own rendering of the rejections handle_rejection hands back.

   What the libraries decide is an INPUT CLASS of the model, observed on the implementation for every
   concrete request by the harness: the method class, the Content-Length the server sees, the content-type
   class, and for each route's request type the result of serde_json::from_slice on the body (the error
   message text, or the lengths of the fields of the parsed message).  warp's rejection statuses and its
   rule for picking one rejection out of several (reject.rs: Rejections::preferred) are modelled below.
   Definitions only. *)
From Coq Require Import ZArith NArith List Bool.
From TeosModel Require Import HttpBase.
From TeosModel.Gen Require Import Http.
Import ListNotations.
Local Open Scope Z_scope.

(* ---------------- bytes ---------------- *)
Fixpoint hbytes_eqb (a b : hbytes) : bool :=
  match a, b with
  | [], [] => true
  | x :: a', y :: b' => N.eqb x y && hbytes_eqb a' b'
  | _, _ => false
  end.

Fixpoint hprefixb (p s : hbytes) : bool :=
  match p, s with
  | [], _ => true
  | x :: p', y :: s' => N.eqb x y && hprefixb p' s'
  | _ :: _, [] => false
  end.

(* str::contains *)
Fixpoint hcontainsb (p s : hbytes) : bool :=
  hprefixb p s || match s with [] => false | _ :: s' => hcontainsb p s' end.

(* ---------------- the request, as far as the router looks at it ---------------- *)
Inductive hctype := CtAbsent | CtJson | CtOther.      (* no content-type header | application/json | anything else *)

(* serde_json::from_slice::<T>(body) for the request type T of one route *)
Inductive hbody :=
| BodyErr (msg : hbytes)                  (* Err(e): e.to_string() *)
| BodyOk (fields : list (hfield * Z)).    (* Ok(req): the byte/char length of every field present in req *)

Record hrequest := mk_hrequest {
  rq_method : hmethod;
  rq_target : hbytes;          (* the request target (origin form: starts with '/') *)
  rq_clen : option Z;          (* the content-length header as the server sees it *)
  rq_ctype : hctype;
  rq_bodies : list hbody       (* the body decoded as the request type of the i-th route (routes without a body: anything) *)
}.

Record hreply := mk_hreply {
  rp_status : Z;
  rp_code : option Z;          (* Some c: the body is the JSON object ApiError { error, error_code = c } *)
  rp_forwarded : bool          (* the request reached the internal API *)
}.

(* ---------------- path: Route::path / filters::path::segment ---------------- *)
(* uri.path(): the target up to the first '?' *)
Fixpoint hpath_of (t : hbytes) : hbytes :=
  match t with
  | [] => []
  | c :: r => if N.eqb c 63 then [] else c :: hpath_of r
  end.
Fixpoint hupto_slash (p : hbytes) : hbytes :=
  match p with
  | [] => []
  | c :: r => if N.eqb c 47 then [] else c :: hupto_slash r
  end.
(* segments_index starts after a leading '/'; the first segment is what precedes the next '/' *)
Definition hfirst_segment (target : hbytes) : hbytes :=
  match hpath_of target with
  | c :: r => if N.eqb c 47 then hupto_slash r else hupto_slash (c :: r)
  | [] => []
  end.

(* ---------------- handler field checks ---------------- *)
Fixpoint hfield_get (fs : list (hfield * Z)) (f : hfield) : option Z :=
  match fs with
  | [] => None
  | (g, l) :: r => if hfield_eqb g f then Some l else hfield_get r f
  end.
Definition hfield_len (fs : list (hfield * Z)) (f : hfield) : Z := match hfield_get fs f with Some l => l | None => 0 end.

(* does the condition hold of the parsed request? *)
Definition hcond_holds (fs : list (hfield * Z)) (f : hfield) (c : hcond) : bool :=
  match c with
  | CkPresent => match hfield_get fs f with Some _ => true | None => false end
  | CkNonEmpty => negb (Z.eqb (hfield_len fs f) 0)
  | CkSize n => Z.eqb (hfield_len fs f) n
  end.

(* the first failing check decides the error code; None: the handler forwards *)
Fixpoint hrun_checks (cs : list hcheck) (fs : list (hfield * Z)) : option Z :=
  match cs with
  | [] => None
  | c :: r => if hcond_holds fs (ck_field c) (ck_cond c) then hrun_checks r fs else Some (ck_code c)
  end.

(* ---------------- the internal API behind the gRPC hop ---------------- *)
(* an unwrap() whose requirement does not hold aborts the handler task; what the HTTP layer then gets
   back from tonic's client is part of the oracle (GAbort c), Unknown when the oracle does not say *)
Definition H_TONIC_UNKNOWN : Z := 2.
Definition habort_code (g : hgrpc) : Z := match g with GAbort c => c | _ => H_TONIC_UNKNOWN end.
Definition hinternal_call (ia : hinternal) (fs : list (hfield * Z)) (g : hgrpc) : hgrpc :=
  if forallb (fun r => hcond_holds fs (fst r) (snd r)) (ia_requires ia) then g else GAbort (habort_code g).

(* ---------------- parse_grpc_response / match_status ---------------- *)
Fixpoint hassoc (k : Z) (l : list (Z * (Z * Z))) : option (Z * Z) :=
  match l with
  | [] => None
  | (k', v) :: r => if Z.eqb k k' then Some v else hassoc k r
  end.
Definition hmatch_status (c : Z) : Z * Z := match hassoc c H_MATCH_STATUS with Some r => r | None => H_MATCH_STATUS_DEFAULT end.
Definition hgrpc_reply (g : hgrpc) : hreply :=
  match g with
  | GOk => mk_hreply H_OK_STATUS None true
  | GErr c | GAbort c => let (st, code) := hmatch_status c in mk_hreply st (Some code) true
  end.

(* ---------------- one route ---------------- *)
Inductive hrej :=
| RjNotFound | RjMethod | RjLengthRequired | RjTooLarge | RjMediaType      (* warp's own *)
| RjBody (msg : hbytes)                                                     (* BodyDeserializeError *)
| RjApi (code : Z).                                                         (* reject::custom(ApiError) from a handler *)
Inductive houtcome := OReply (r : hreply) | ORej (j : hrej).

Definition hroute_outcome (rq : hrequest) (g : hgrpc) (rt : hroute) (body : hbody) : houtcome :=
  if negb (hmethod_eqb (rq_method rq) (rt_method rt)) then ORej RjMethod                 (* warp::post() / warp::get() *)
  else if negb (hbytes_eqb (hfirst_segment (rq_target rq)) (rt_name rt)) then ORej RjNotFound   (* warp::path(name) *)
  else match rt_cap rt with
       | None => OReply (mk_hreply H_OK_STATUS None false)                                (* ping: reply::reply() *)
       | Some cap =>
         match rq_clen rq with
         | None => ORej RjLengthRequired                                                  (* content_length_limit *)
         | Some len =>
           if cap <? len then ORej RjTooLarge
           else match rq_ctype rq with
                | CtOther => ORej RjMediaType                                             (* body::json: is_content_type *)
                | _ =>
                  match body with
                  | BodyErr m => ORej (RjBody m)                                          (* body::json: serde *)
                  | BodyOk fs =>
                    match hrun_checks (rt_checks rt) fs with
                    | Some c => ORej (RjApi c)
                    | None =>
                      match rt_internal rt with
                      | Some ia => OReply (hgrpc_reply (hinternal_call ia fs g))
                      | None => OReply (mk_hreply H_OK_STATUS None false)
                      end
                    end
                  end
                end
         end
       end.

(* ---------------- .or(..).or(..)   .recover(handle_rejection)   warp's default ---------------- *)
Fixpoint houtcomes (rq : hrequest) (g : hgrpc) (rts : list hroute) (bodies : list hbody) : list houtcome :=
  match rts with
  | [] => []
  | rt :: r => hroute_outcome rq g rt (hd (BodyErr []) bodies) :: houtcomes rq g r (tl bodies)
  end.

(* the first route that does not reject answers; otherwise all rejections, in route order *)
Fixpoint hfirst_reply (os : list houtcome) : option hreply :=
  match os with
  | [] => None
  | OReply r :: _ => Some r
  | ORej _ :: r => hfirst_reply r
  end.
Fixpoint hrejections (os : list houtcome) : list hrej :=
  match os with
  | [] => []
  | OReply _ :: r => hrejections r
  | ORej j :: r => j :: hrejections r
  end.

(* err.find::<T>(): leftmost in the combined rejection *)
Fixpoint hfind_body (js : list hrej) : option hbytes :=
  match js with [] => None | RjBody m :: _ => Some m | _ :: r => hfind_body r end.
Fixpoint hfind_api (js : list hrej) : option Z :=
  match js with [] => None | RjApi c :: _ => Some c | _ :: r => hfind_api r end.

(* the if / else-if chain of handle_rejection over the message of the BodyDeserializeError *)
Fixpoint hclassify (rows : list (list hbytes * Z)) (dflt : Z) (msg : hbytes) : Z :=
  match rows with
  | [] => dflt
  | (subs, c) :: r => if existsb (fun p => hcontainsb p msg) subs then c else hclassify r dflt msg
  end.

(* warp 0.3 reject.rs: status of a rejection, and Rejections::preferred over `a.combine(b)` (NotFound
   disappears when combined with anything else) *)
Definition hrej_status (j : hrej) : Z :=
  match j with
  | RjNotFound => 404 | RjMethod => 405 | RjLengthRequired => 411 | RjTooLarge => 413 | RjMediaType => 415
  | RjBody _ => 400
  | RjApi _ => 500     (* an unhandled custom rejection *)
  end.
Definition hprefer (a b : hrej) : hrej :=
  let sa := hrej_status a in let sb := hrej_status b in
  if Z.eqb sb 404 then a else if Z.eqb sa 404 then b
  else if Z.eqb sb 405 then a else if Z.eqb sa 405 then b
  else if sa <? sb then b else a.
Definition his_not_found (j : hrej) : bool := match j with RjNotFound => true | _ => false end.
Definition hwarp_default_status (js : list hrej) : Z :=
  match filter (fun j => negb (his_not_found j)) js with
  | [] => 404
  | j :: r => hrej_status (fold_left hprefer r j)
  end.

(* err.find::<warp::reject::K>().is_some(): is a rejection of that kind anywhere in the combined rejection? *)
Definition hrej_kind (j : hrej) : option hwarpkind :=
  match j with
  | RjMethod => Some WMethodNotAllowed | RjLengthRequired => Some WLengthRequired | RjTooLarge => Some WPayloadTooLarge
  | RjMediaType => Some WUnsupportedMediaType
  | RjNotFound | RjBody _ | RjApi _ => None
  end.
Definition hhas_kind (k : hwarpkind) (js : list hrej) : bool :=
  existsb (fun j => match hrej_kind j with Some k' => hwarpkind_eqb k k' | None => false end) js.
(* the if / else-if chain over warp's own rejections: the first row whose kind is present *)
Fixpoint hfind_warp (rows : list (hwarpkind * (Z * Z))) (js : list hrej) : option (Z * Z) :=
  match rows with
  | [] => None
  | (k, r) :: rest => if hhas_kind k js then Some r else hfind_warp rest js
  end.

Definition hrecover (js : list hrej) : hreply :=
  match hfind_body js with
  | Some m => mk_hreply H_REJ_BODY_STATUS (Some (hclassify H_REJ_BODY_ROWS H_REJ_BODY_DEFAULT m)) false
  | None =>
    match hfind_api js with
    | Some c => mk_hreply H_REJ_API_STATUS (Some c) false
    | None =>
      match hfind_warp H_REJ_WARP_ROWS js with
      | Some (st, c) => mk_hreply st (Some c) false
      | None => mk_hreply (hwarp_default_status js) None false      (* Err(err): warp renders it, text/plain *)
      end
    end
  end.

Definition hrespond_with (rts : list hroute) (rq : hrequest) (g : hgrpc) : hreply :=
  let os := houtcomes rq g rts (rq_bodies rq) in
  match hfirst_reply os with
  | Some r => r
  | None => hrecover (hrejections os)
  end.

Definition respond (rq : hrequest) (g : hgrpc) : hreply := hrespond_with H_ROUTES rq g.

(* ---------------- the documented API (pinned by hand; the monitor of the check judges the
   implementation's answers against THIS, and C15_tables_as_documented states that the tables
   generated from the code say the same) ---------------- *)
(* the error codes the property names: missing, empty, wrong-type, wrong-size, wrong-format field, invalid
   request, authentication/subscription error, service unavailable, already triggered, not found,
   resource exhausted *)
Definition HDoc_CODES : list Z := [1; 2; 3; 4; 5; 6; 7; 32; 35; 36; 65].
Definition HDoc_UNEXPECTED : Z := 255.
(* endpoint, method, body cap *)
Definition HDoc_register : hbytes := [114%N; 101%N; 103%N; 105%N; 115%N; 116%N; 101%N; 114%N].
Definition HDoc_add_appointment : hbytes := [97%N; 100%N; 100%N; 95%N; 97%N; 112%N; 112%N; 111%N; 105%N; 110%N; 116%N; 109%N; 101%N; 110%N; 116%N].
Definition HDoc_get_appointment : hbytes := [103%N; 101%N; 116%N; 95%N; 97%N; 112%N; 112%N; 111%N; 105%N; 110%N; 116%N; 109%N; 101%N; 110%N; 116%N].
Definition HDoc_get_subscription_info : hbytes :=
  [103%N; 101%N; 116%N; 95%N; 115%N; 117%N; 98%N; 115%N; 99%N; 114%N; 105%N; 112%N; 116%N; 105%N; 111%N; 110%N; 95%N; 105%N; 110%N; 102%N; 111%N].
Definition HDoc_ping : hbytes := [112%N; 105%N; 110%N; 103%N].
Definition HDoc_ENDPOINTS : list (hbytes * hmethod * option Z) :=
  [(HDoc_register, MPost, Some 87); (HDoc_add_appointment, MPost, Some 2048); (HDoc_get_appointment, MPost, Some 178);
   (HDoc_get_subscription_info, MPost, Some 127); (HDoc_ping, MGet, None)].
(* what the tower's verdict on a well-formed request (a tonic code of the internal API) is answered with *)
Definition HDoc_ANSWERS : list (Z * (Z * Z)) :=
  [(3, (400, 5));      (* invalid argument (a user id that is not a public key): wrong field format *)
   (5, (404, 36));     (* appointment not found *)
   (6, (400, 35));     (* appointment already triggered *)
   (8, (400, 65));     (* registration: resource exhausted *)
   (16, (401, 7));     (* invalid signature or subscription error *)
   (14, (503, 32))].   (* service unavailable *)
(* the field checks of the handlers: field, condition, code *)
Definition HDoc_CHECKS : list (hbytes * list hcheck) :=
  [(HDoc_register, [mk_hcheck FUserId CkNonEmpty 2; mk_hcheck FUserId (CkSize 33) 4]);
   (HDoc_add_appointment, [mk_hcheck FAppointment CkPresent 1; mk_hcheck FAppLocator CkNonEmpty 2; mk_hcheck FAppLocator (CkSize 16) 4;
                           mk_hcheck FAppBlob CkNonEmpty 2; mk_hcheck FSignature CkNonEmpty 2]);
   (HDoc_get_appointment, [mk_hcheck FLocator CkNonEmpty 2; mk_hcheck FLocator (CkSize 16) 4; mk_hcheck FSignature CkNonEmpty 2]);
   (HDoc_get_subscription_info, [mk_hcheck FSignature CkNonEmpty 2]);
   (HDoc_ping, [])].

(* warp rejections answered with a JSON error of their own: an unsupported content-type is 415 + invalid request format *)
Definition HDoc_WARP_ROWS : list (hwarpkind * (Z * Z)) := [(WUnsupportedMediaType, (415, 6))].

(* the monitor's reading of "a documented status" *)
Definition hstatus_okb (s : Z) : bool := Z.eqb s 200 || ((400 <=? s) && (s <? 500)) || Z.eqb s 503.
Definition hcode_documentedb (c : Z) : bool := existsb (Z.eqb c) HDoc_CODES && negb (Z.eqb c HDoc_UNEXPECTED).
Definition hdoc_answer (tonic : Z) : option (Z * Z) := hassoc tonic HDoc_ANSWERS.
Definition hdoc_endpoint (seg : hbytes) : option (hmethod * option Z) :=
  match find (fun e => hbytes_eqb (fst (fst e)) seg) HDoc_ENDPOINTS with
  | Some e => Some (snd (fst e), snd e)
  | None => None
  end.

(* ---------------- entry points of the OCaml driver (coq/extraction/drv_http.ml) ---------------- *)
Definition http_respond : hrequest -> hgrpc -> hreply := respond.
Definition http_routes : list hroute := H_ROUTES.
Definition http_first_segment : hbytes -> hbytes := hfirst_segment.
Definition http_status_ok : Z -> bool := hstatus_okb.
Definition http_code_documented : Z -> bool := hcode_documentedb.
Definition http_doc_answer : Z -> option (Z * Z) := hdoc_answer.
Definition http_doc_endpoint : hbytes -> option (hmethod * option Z) := hdoc_endpoint.
