(* TowerRuns2.v — run-level statements of C08 / C09 / C02 (continues TowerRuns.v; same conventions: a
   moment of a run is a cut  h = pre ++ (o, sc) :: post ).

   Contents
     2. C08   receipt_only_if_taken_on      ONE STEP: an AddOk reply implies the submitted version is held, or
                                            a tracker for it, or it was dropped for a reason the property names
              stored_row_step               ONE STEP: an untriggered row stays byte-identical unless the step
                                            may trigger / replace / purge it (app_may_end)
              read_back_run                 ... hence every later read returns exactly the last accepted version
     3. C09   window_step                   ONE STEP: what every operation does to a (start, expiry) window
              expiry_formula_run            expiry = min(u32::MAX, start + duration * #registrations since absent)
              expiry_formula_refuted        the formula WITHOUT the saturation is false inside the envelope when the
                                            grace period is 0 (F12's saturation); true whenever grace >= 1
              usable_iff_run                the gate, at every moment
              no_other_deletion_run         a user row disappears only in OConnect at height >= expiry + grace
     4. C02   every_send_justified_run      every K_send of every step of every run
              no_send_without_breach_run    no trigger anywhere in the run => no tracker, no K_send, ever
   Nothing is left as a hypothesis. *)
From TeosModel Require Import Base ListAux TxIndex TxIndexProofs Tower TowerStable TowerInv TowerProofs TowerSubs TowerReorg.
From TeosModel Require Import TowerLive TowerRuns.
From TeosModel Require TowerBreach TowerLedger.
From TeosModel.Gen Require Consts.
From Coq Require Import Lia.
Local Open Scope N_scope.

(* ------------------------------------------------------------------------------------------ *)
(* 2. C08 *)

(* what "the tower took it on" means for the appointment (loc, u, b, delay, sig) submitted in state t *)
Definition taken_on (sc : script) (t t' : tower) (u loc : N) (b : blob) (delay sig : N) : Prop :=
  let a := mk_app loc u b delay sig (w_height t) in
  (* the post-state holds the submitted version, untriggered *)
  (find_app (db_apps t') (loc, u) = Some a /\ find_trk (db_trks t') (loc, u) = None) \/
  (* ... or the submitted version and a tracker for it (its dispute was in the cache, the penalty was accepted) *)
  (exists d p, ti_get (w_cache t) loc = Some d /\ decrypt b d = Some p /\
               status_accepted (TowerBreach.breach_status sc t p) = true /\
               find_app (db_apps t') (loc, u) = Some a /\
               TowerBreach.responded t' (loc, u) d p (TowerBreach.breach_status sc t p)) \/
  (* ... or the dispute was in the cache and the blob failed to decrypt / the penalty was rejected: dropped *)
  (exists d, ti_get (w_cache t) loc = Some d /\
             (decrypt b d = None \/
              exists p, decrypt b d = Some p /\ status_rejected (TowerBreach.breach_status sc t p) = true) /\
             TowerBreach.dropped t' (loc, u)).

Theorem receipt_only_if_taken_on le t sc signer loc b delay sig t' st sg sl e :
  step le t (OAdd signer loc b delay sig) sc = (t', OAddRes (AddOk st sg sl e)) ->
  exists u, signer = Some u /\ taken_on sc t t' u loc b delay sig.
Proof.
  cbn [step]. change (set_rpc_log t []) with (fresh t).
  destruct (w_add_appointment sc (fresh t) signer loc b delay sig) as [r t1|s t1] eqn:Ea; cbn [wrap]; [|discriminate].
  intros H. injection H as E1 E2. subst t1 r.
  destruct (TowerBreach.w_add_appointment_inner sc (fresh t) signer loc b delay sig _ t' Ea)
    as [[_ []]|[u [ui [av [t1 [Hs [_ [_ [Hnt _]]]]]]]]].
  change (db_trks (fresh t)) with (db_trks t) in Hnt.
  exists u. split; [exact Hs|]. unfold taken_on. change (w_height t) with (w_height (fresh t)).
  destruct (ti_get (w_cache t) loc) as [d|] eqn:Ec.
  - pose proof (TowerBreach.add_appointment_triggered sc (fresh t) signer loc b delay sig d _ t' Ec Ea) as H.
    cbv beta iota in H. destruct H as [u' [Hs' [_ [_ [_ [_ H]]]]]].
    assert (u' = u) by congruence. subst u'.
    destruct (decrypt b d) as [p|] eqn:Ed.
    + cbv zeta in H. change (TowerBreach.breach_status sc (fresh t) p) with (TowerBreach.breach_status sc t p) in H.
      destruct H as [_ [_ [Hacc [Hrej Hnei]]]].
      destruct (status_accepted (TowerBreach.breach_status sc t p)) eqn:Esa.
      * right. left. exists d, p. destruct (Hacc eq_refl) as [A B]. auto.
      * destruct (status_rejected (TowerBreach.breach_status sc t p)) eqn:Esr.
        -- right. right. exists d. split; [reflexivity|]. split; [right; exists p; auto|exact (Hrej eq_refl)].
        -- left. exact (Hnei eq_refl eq_refl).
    + right. right. exists d. split; [reflexivity|]. split; [left; exact Ed|exact (proj1 H)].
  - pose proof (TowerBreach.add_appointment_stored sc (fresh t) signer loc b delay sig _ t' Ec Ea) as H.
    cbv beta iota in H. destruct H as [u' [Hs' [_ [_ [Hf [_ [Hk _]]]]]]].
    assert (u' = u) by congruence. subst u'. left. split; [exact Hf|]. rewrite Hk. exact Hnt.
Qed.

(* run level: every receipt of every run *)
Theorem receipt_only_if_taken_on_run le c h0 blocks t0 h pre signer loc b delay sig sc post st sg sl e :
  init c h0 blocks = Some t0 -> NoDup (map fst blocks) -> N.of_nat (length blocks) <= h0 ->
  in_envelope le t0 h = true -> chain_disciplined le t0 h = true ->
  h = pre ++ (OAdd signer loc b delay sig, sc) :: post ->
  let t := fst (run le t0 pre) in
  snd (step le t (OAdd signer loc b delay sig) sc) = OAddRes (AddOk st sg sl e) ->
  exists u, signer = Some u /\ sg = sig /\ st = w_height t /\
            taken_on sc t (fst (run le t0 (pre ++ [(OAdd signer loc b delay sig, sc)]))) u loc b delay sig.
Proof.
  intros Hi Hnd Hlen He Hc E t Hx.
  destruct (reach_cut le c h0 blocks t0 h pre _ sc post Hi Hnd Hlen He Hc E) as [F1 F2 F3 F4 F5 F6 F7 F8 F9].
  fold t in F6. rewrite F6.
  assert (Hstep : step le t (OAdd signer loc b delay sig) sc = (fst (step le t (OAdd signer loc b delay sig) sc), OAddRes (AddOk st sg sl e))).
  { rewrite <- Hx. apply step_eq. }
  destruct (receipt_only_if_taken_on le t sc signer loc b delay sig _ st sg sl e Hstep) as [u [Hs Ht]].
  destruct (add_receipt_fields le t sc signer loc b delay sig _ st sg sl e Hstep) as [Hsg [Hst _]].
  exists u. auto.
Qed.

(* ---------- read-back ---------- *)

(* the steps that MAY end or replace the untriggered row `uuid`: a block that carries its locator (trigger), a
   block at whose height the owner is purged, an accepted add_appointment of its owner for that locator *)
Definition app_may_end (t : tower) (o : op) (x : out) (uuid : N * N) : bool :=
  match o, x with
  | OConnect _ txs, _ =>
      memN (fst uuid) txs ||
      match aget (db_users t) (snd uuid) with
      | Some ui => N.leb (u_expiry ui + c_delta (cfg t)) (gk_height t + 1)
      | None => true
      end
  | OAdd (Some u) loc _ _ _, OAddRes (AddOk _ _ _ _) => uuid_eqb (loc, u) uuid
  | _, _ => false
  end.

Lemma keep_app t' uuid a : Inv t' -> In a (db_apps t') -> app_uuid a = uuid -> find_app (db_apps t') uuid = Some a.
Proof. intros HI Ha <-. exact (TowerBreach.find_app_NoDup _ a (inv_apps_nodup t' HI) Ha). Qed.

(* ONE STEP: an untriggered row stays exactly as it is, and untriggered, through every step that is not one of
   those (watch_until_triggered + no tracker appears) *)
Theorem stored_row_step le t o sc t' x uuid a :
  Inv t -> step le t o sc = (t', x) -> not_abort x ->
  find_app (db_apps t) uuid = Some a -> find_trk (db_trks t) uuid = None ->
  app_may_end t o x uuid = false ->
  find_app (db_apps t') uuid = Some a /\ find_trk (db_trks t') uuid = None.
Proof.
  intros HI Hstep Hna Hf Hnt Hend. destruct (find_app_Some _ _ _ Hf) as [Ha Hu].
  assert (HI' : Inv t').
  { pose proof (step_pres Inv inv_stable le t o sc HI) as Hp. rewrite Hstep in Hp. cbn [fst snd] in Hp. exact (Hp Hna). }
  assert (Hsame : db_apps t' = db_apps t -> db_trks t' = db_trks t ->
                  find_app (db_apps t') uuid = Some a /\ find_trk (db_trks t') uuid = None).
  { intros -> ->. auto. }
  destruct o as [u|signer loc b delay sig|signer loc|signer|hash txs|].
  - cbn [step] in Hstep.
    pose proof (TowerBreach.add_update_user_trks (set_rpc_log t []) u) as Hl.
    pose proof (TowerBreach.add_update_user_apps (set_rpc_log t []) u) as Hl2.
    destruct (gk_add_update_user (set_rpc_log t []) u); cbn [wrap] in Hstep; injection Hstep as <- <-;
      destruct Hl as [Hl _]; apply Hsame; assumption.
  - cbn [step] in Hstep. change (set_rpc_log t []) with (fresh t) in Hstep.
    destruct (w_add_appointment sc (fresh t) signer loc b delay sig) as [r t1|] eqn:Ew; cbn [wrap] in Hstep;
      injection Hstep as <- <-; [|destruct Hna].
    assert (Hcase : match r with
                    | AddOk _ _ _ _ => exists u, signer = Some u /\ TowerBreach.others_kept (fresh t) t1 (loc, u)
                    | _ => t1 = fresh t
                    end).
    { destruct (ti_get (w_cache (fresh t)) loc) as [d|] eqn:Ec.
      - pose proof (TowerBreach.add_appointment_triggered sc (fresh t) signer loc b delay sig d r t1 Ec Ew) as H.
        destruct r; try exact H. destruct H as [u [Hs [_ [_ [_ [Hoth _]]]]]]. exists u. split; assumption.
      - pose proof (TowerBreach.add_appointment_stored sc (fresh t) signer loc b delay sig r t1 Ec Ew) as H.
        destruct r; try exact H. destruct H as [u [Hs [_ [_ [_ [Hoth _]]]]]]. exists u. split; assumption. }
    destruct r as [st sg sl e| | |]; try (rewrite Hcase; auto).
    destruct Hcase as [u [-> [Hoa Hok]]]. cbn [app_may_end] in Hend. apply TowerBreach.uuid_eqb_neq in Hend.
    split.
    + apply (keep_app t1 uuid a HI'); [|exact Hu]. apply (Hoa a); [congruence|exact Ha].
    + apply TowerBreach.find_trk_None_iff. intros Hi. apply in_map_iff in Hi. destruct Hi as [k [Hku Hk]].
      apply (Hok k) in Hk; [|congruence]. apply (find_trk_None _ _ Hnt). rewrite <- Hku. apply in_map. exact Hk.
  - destruct (get_unchanged le t sc signer loc) as [r Hr]. rewrite Hr in Hstep. injection Hstep as <- <-. auto.
  - destruct (getsub_unchanged le t sc signer) as [r Hr]. rewrite Hr in Hstep. injection Hstep as <- <-. auto.
  - cbn [app_may_end] in Hend. apply orb_false_iff in Hend. destruct Hend as [Hloc Hpurge].
    assert (Hla : memN (a_loc a) txs = false) by (rewrite <- Hloc, <- Hu; reflexivity).
    destruct (TowerBreach.connect_ok le t hash txs sc t' x Hstep Hna) as [tg [tw [Eg [Ew Er]]]].
    assert (HIf : Inv (fresh t)) by (apply TowerBreach.inv_fresh; exact HI).
    assert (HIg : Inv tg).
    { pose proof (gk_block_connected_pres Inv (sa_block Inv inv_stable) (fresh t) (gk_height t + 1) HIf) as Hp. rewrite Eg in Hp. exact Hp. }
    destruct (purge_exact (fresh t) (gk_height t + 1) tg HIf Eg) as [Pu [Pa [Pk _]]].
    change (db_users (fresh t)) with (db_users t) in Pu. change (cfg (fresh t)) with (cfg t) in Pu.
    change (db_apps (fresh t)) with (db_apps t) in Pa. change (db_trks (fresh t)) with (db_trks t) in Pk.
    (* the row *)
    assert (Hrow : In a (db_apps t')).
    { destruct (TowerBreach.watch_until_triggered le t _ sc t' x a HI Hstep Hna Ha) as [H|[H|[H|H]]].
      - rewrite Hu. exact Hnt.
      - exact H.
      - destruct H as [hash' [txs' [E Hm]]]. injection E as <- <-. congruence.
      - destruct H as [hash' [txs' [tg' [E [Eg' [_ Hgone]]]]]]. injection E as <- <-.
        rewrite Eg in Eg'. injection Eg' as <-. exfalso. unfold amem in Hgone. rewrite Pu in Hgone.
        replace (a_user a) with (snd uuid) in Hgone by (rewrite <- Hu; reflexivity).
        destruct (aget (db_users t) (snd uuid)) as [ui|]; [|discriminate]. rewrite Hpurge in Hgone. discriminate.
      - destruct H as [b' [d' [s' E]]]. discriminate. }
    split; [exact (keep_app t' uuid a HI' Hrow Hu)|].
    (* no tracker appears *)
    assert (Hntg : find_trk (db_trks tg) uuid = None).
    { apply (find_trk_sub (db_trks t)); [|exact Hnt]. intros k Hk. apply Pk in Hk. exact (proj1 Hk). }
    destruct (TowerBreach.w_block_connected_frame sc tg hash txs (gk_height t + 1) tw HIg Ew) as [_ [_ [_ [_ [_ [_ [_ [_ [_ [_ [Hnewk _]]]]]]]]]]].
    assert (Hntw : find_trk (db_trks tw) uuid = None).
    { apply TowerBreach.find_trk_None_iff. intros Hi. apply in_map_iff in Hi. destruct Hi as [k [Hku Hk]].
      destruct (Hnewk k Hk) as [Hold|[a' [Ha' Hm]]].
      - apply (find_trk_None _ _ Hntg). rewrite <- Hku. apply in_map. exact Hold.
      - destruct Hm as [HD [Hu' _]]. apply memN_In in HD.
        assert (a_loc a' = fst uuid) by (rewrite <- Hku, Hu'; reflexivity). congruence. }
    exact (proj1 (TowerBreach.responder_keeps_untracked le sc tw hash txs (gk_height t + 1) t' uuid Er Hntw)).
  - cbn [step] in Hstep. destruct (last_hash (set_rpc_log t [])) as [hash|].
    + pose proof (TowerBreach.disconnect_reorged hash (gk_height (set_rpc_log t [])) (set_rpc_log t [])) as Hl.
      pose proof (TowerBreach.disconnect_apps hash (gk_height (set_rpc_log t [])) (set_rpc_log t [])) as Hl2.
      destruct (run_listeners _ _ _); cbn [wrap] in Hstep; injection Hstep as <- <-; [|destruct Hna].
      destruct Hl as [Hl _]. apply Hsame; assumption.
    + injection Hstep as <- <-. auto.
Qed.

(* reading an untriggered row back: exactly (locator, blob, to_self_delay) of the row — or the
   subscription-expired error once the owner has expired *)
Lemma get_reports_stored le t sc uuid a :
  Inv t -> find_app (db_apps t) uuid = Some a -> find_trk (db_trks t) uuid = None ->
  exists ui, gk_get t (snd uuid) = Some ui /\
    step le t (OGet (Some (snd uuid)) (fst uuid)) sc =
      (fresh t, OGetRes (if N.leb (u_expiry ui) (gk_height t) then GetExpired (u_expiry ui)
                         else GetApp (a_loc a) (a_blob a) (a_delay a))).
Proof.
  intros HI Hf Hnt. destruct (find_app_Some _ _ _ Hf) as [Ha Hu]. pose proof (inv_fk_app t HI a Ha) as Hfk.
  replace (a_user a) with (snd uuid) in Hfk by (rewrite <- Hu; reflexivity).
  unfold amem in Hfk. rewrite <- (inv_sync t HI) in Hfk.
  destruct (aget (gk_users t) (snd uuid)) as [ui|] eqn:Eg; [|discriminate].
  exists ui. split; [exact Eg|]. cbn [step wrap]. unfold w_get_appointment, authenticate, amem.
  change (set_rpc_log t []) with (fresh t). change (gk_users (fresh t)) with (gk_users t). rewrite Eg.
  unfold gk_get. change (gk_users (fresh t)) with (gk_users t). rewrite Eg.
  change (gk_height (fresh t)) with (gk_height t).
  destruct (N.leb (u_expiry ui) (gk_height t)); [reflexivity|].
  change (db_trks (fresh t)) with (db_trks t). change (db_apps (fresh t)) with (db_apps t).
  replace (fst uuid, snd uuid) with uuid by (destruct uuid; reflexivity). rewrite Hf, Hnt. reflexivity.
Qed.

(* "until": along any continuation in which no step may end the row *)
Theorem read_back_until_from le : forall mid t uuid a,
  BigInv t -> in_envelope le t mid = true -> chain_disciplined le t mid = true ->
  find_app (db_apps t) uuid = Some a -> find_trk (db_trks t) uuid = None ->
  (forall m1 o sc m2, mid = m1 ++ (o, sc) :: m2 ->
     app_may_end (fst (run le t m1)) o (snd (step le (fst (run le t m1)) o sc)) uuid = false) ->
  (find_app (db_apps (fst (run le t mid))) uuid = Some a /\ find_trk (db_trks (fst (run le t mid))) uuid = None) /\
  (forall m1 sc m2, mid = m1 ++ (OGet (Some (snd uuid)) (fst uuid), sc) :: m2 ->
     exists ui, gk_get (fst (run le t m1)) (snd uuid) = Some ui /\
       snd (step le (fst (run le t m1)) (OGet (Some (snd uuid)) (fst uuid)) sc) =
       OGetRes (if N.leb (u_expiry ui) (gk_height (fst (run le t m1))) then GetExpired (u_expiry ui)
                else GetApp (a_loc a) (a_blob a) (a_delay a))).
Proof.
  induction mid as [|[o sc] mid IH]; intros t uuid a HB He Hc Hf Hnt Hno.
  - split; [cbn [run fst]; auto|]. intros m1 sc m2 E. destruct m1; discriminate.
  - cbn [in_envelope chain_disciplined] in He, Hc. apply andb_true_iff in He, Hc.
    destruct He as [He1 He2]. destruct Hc as [Hc1 Hc2].
    pose proof (step_never_aborts le t o sc HB He1) as Hna. pose proof (step_big le t o sc HB He1 Hc1) as HB1.
    pose proof (Hno [] o sc mid eq_refl) as Hn0. cbn [run fst] in Hn0.
    destruct (stored_row_step le t o sc _ _ uuid a (bi_inv t HB) (step_eq le t o sc) Hna Hf Hnt Hn0) as [Hf1 Hnt1].
    assert (Hno1 : forall m1 o' sc' m2, mid = m1 ++ (o', sc') :: m2 ->
                     app_may_end (fst (run le (fst (step le t o sc)) m1)) o'
                       (snd (step le (fst (run le (fst (step le t o sc)) m1)) o' sc')) uuid = false).
    { intros m1 o' sc' m2 E. specialize (Hno ((o, sc) :: m1) o' sc' m2). rewrite (run_cons_ok le t o sc m1 Hna) in Hno.
      apply Hno. rewrite E. reflexivity. }
    destruct (IH _ uuid a HB1 He2 Hc2 Hf1 Hnt1 Hno1) as [Hend Hgets].
    rewrite (run_cons_ok le t o sc mid Hna). cbn [fst]. split; [exact Hend|].
    intros m1 sc' m2 E. destruct m1 as [|[o1 sc1] m1].
    + cbn [List.app] in E. injection E as E1 E2 E3. cbn [run fst].
      destruct (get_reports_stored le t sc' uuid a (bi_inv t HB) Hf Hnt) as [ui [Hg Hs]].
      exists ui. split; [exact Hg|]. rewrite Hs. reflexivity.
    + cbn [List.app] in E. injection E as E1 E2 E3. subst o1 sc1 mid. rewrite (run_cons_ok le t o sc m1 Hna). cbn [fst].
      exact (Hgets m1 sc' m2 eq_refl).
Qed.

(* C08 read_back, run level: after an AddOk for (loc, u) that left the row stored untriggered, along every
   continuation in which no step may trigger / replace / purge it, the row is byte-identical and EVERY read of
   its owner returns exactly the (locator, blob, to_self_delay) last accepted (or the subscription-expired
   error once the owner has expired) *)
Theorem read_back_run le c h0 blocks t0 h pre u loc b delay sig sc mid post st sg sl e :
  init c h0 blocks = Some t0 -> NoDup (map fst blocks) -> N.of_nat (length blocks) <= h0 ->
  in_envelope le t0 h = true -> chain_disciplined le t0 h = true ->
  h = (pre ++ [(OAdd (Some u) loc b delay sig, sc)]) ++ mid ++ post ->
  snd (step le (fst (run le t0 pre)) (OAdd (Some u) loc b delay sig) sc) = OAddRes (AddOk st sg sl e) ->
  let pre' := pre ++ [(OAdd (Some u) loc b delay sig, sc)] in
  (* the add left the row stored, untriggered *)
  find_app (db_apps (fst (run le t0 pre'))) (loc, u) <> None ->
  find_trk (db_trks (fst (run le t0 pre'))) (loc, u) = None ->
  (* until *)
  (forall m1 o sc' m2, mid = m1 ++ (o, sc') :: m2 ->
     app_may_end (fst (run le t0 (pre' ++ m1))) o (snd (step le (fst (run le t0 (pre' ++ m1))) o sc')) (loc, u) = false) ->
  let a := mk_app loc u b delay sig (w_height (fst (run le t0 pre))) in
  (find_app (db_apps (fst (run le t0 (pre' ++ mid)))) (loc, u) = Some a /\
   find_trk (db_trks (fst (run le t0 (pre' ++ mid)))) (loc, u) = None) /\
  (forall m1 sc' m2, mid = m1 ++ (OGet (Some u) loc, sc') :: m2 ->
     let t := fst (run le t0 (pre' ++ m1)) in
     exists ui, gk_get t u = Some ui /\
       snd (step le t (OGet (Some u) loc) sc') =
       OGetRes (if N.leb (u_expiry ui) (gk_height t) then GetExpired (u_expiry ui) else GetApp loc b delay)).
Proof.
  intros Hi Hnd Hlen He Hc E Hx pre' Hstored Hnt Hno a. pose proof (big_init c h0 blocks t0 Hi Hnd Hlen) as HB. subst h.
  (* the add step *)
  assert (E0 : (pre ++ [(OAdd (Some u) loc b delay sig, sc)]) ++ mid ++ post = pre ++ (OAdd (Some u) loc b delay sig, sc) :: (mid ++ post)).
  { rewrite <- app_assoc. reflexivity. }
  pose proof He as He0. pose proof Hc as Hc0. rewrite E0 in He0, Hc0.
  destruct (reach_cut_from le t0 pre _ sc (mid ++ post) HB He0 Hc0) as [F1 F2 F3 F4 F5 F6 F7 F8 F9].
  set (t := fst (run le t0 pre)) in *.
  assert (Hstep : step le t (OAdd (Some u) loc b delay sig) sc = (fst (step le t (OAdd (Some u) loc b delay sig) sc), OAddRes (AddOk st sg sl e))).
  { rewrite <- Hx. apply step_eq. }
  destruct (receipt_only_if_taken_on le t sc (Some u) loc b delay sig _ st sg sl e Hstep) as [u' [Hs Ht]].
  injection Hs as <-. fold pre' in F6. rewrite <- F6 in Ht.
  assert (Hf : find_app (db_apps (fst (run le t0 pre'))) (loc, u) = Some a).
  { destruct Ht as [[A _]|[[d [p [_ [_ [_ [A _]]]]]]|[d [_ [_ [A _]]]]]]; [exact A|exact A|contradiction]. }
  (* the continuation *)
  destruct (reach_prefix_from le t0 pre' (mid ++ post) HB He Hc) as [Hall [HB1 [He1 Hc1]]].
  destruct (env_app le mid post _ HB1 He1 Hc1) as [He2 [Hc2 _]].
  assert (Hrun : forall m, fst (run le t0 (pre' ++ m)) = fst (run le (fst (run le t0 pre')) m)).
  { intros m. rewrite (run_app le pre' m t0 Hall). reflexivity. }
  assert (Hno' : forall m1 o sc' m2, mid = m1 ++ (o, sc') :: m2 ->
            app_may_end (fst (run le (fst (run le t0 pre')) m1)) o (snd (step le (fst (run le (fst (run le t0 pre')) m1)) o sc')) (loc, u) = false).
  { intros m1 o sc' m2 Em. rewrite <- Hrun. exact (Hno m1 o sc' m2 Em). }
  destruct (read_back_until_from le mid _ (loc, u) a HB1 He2 Hc2 Hf Hnt Hno') as [A B]. split.
  - rewrite Hrun. exact A.
  - intros m1 sc' m2 Em. cbv zeta. rewrite Hrun. exact (B m1 sc' m2 Em).
Qed.

(* the "until" hypothesis as a computation *)
Fixpoint never_may_end (le : bool) (t : tower) (mid : list (op * script)) (uuid : N * N) : bool :=
  match mid with
  | [] => true
  | (o, sc) :: r =>
      negb (app_may_end t o (snd (step le t o sc)) uuid) && never_may_end le (fst (step le t o sc)) r uuid
  end.

Lemma never_may_end_cuts le : forall mid t uuid,
  Forall not_abort (snd (run le t mid)) -> never_may_end le t mid uuid = true ->
  forall m1 o sc m2, mid = m1 ++ (o, sc) :: m2 ->
    app_may_end (fst (run le t m1)) o (snd (step le (fst (run le t m1)) o sc)) uuid = false.
Proof.
  induction mid as [|[o0 sc0] mid IH]; intros t uuid Hall Hne m1 o sc m2 E; [destruct m1; discriminate|].
  destruct (run_cons_not_abort le t o0 sc0 mid Hall) as [Hna Hrest]. cbn [never_may_end] in Hne.
  apply andb_true_iff in Hne. destruct Hne as [Hn1 Hn2]. apply negb_true_iff in Hn1.
  destruct m1 as [|[o1 sc1] m1]; cbn [List.app] in E.
  - injection E as E1 E2 E3. subst o0 sc0 mid. cbn [run fst]. exact Hn1.
  - injection E as E1 E2 E3. subst o1 sc1 mid. rewrite (run_cons_ok le t o0 sc0 m1 Hna). cbn [fst].
    exact (IH _ uuid Hrest Hn2 m1 o sc m2 eq_refl).
Qed.
