(* TowerRuns2.v — run-level statements of C08 / C09 / C02 (continues TowerRuns.v; same conventions: a
   moment of a run is a cut  h = pre ++ (o, sc) :: post ).

   Contents
     2. C08   receipt_only_if_taken_on      ONE STEP: an AddOk reply implies the submitted version is held, or
                                            a tracker for it, or it was dropped for a reason the property names
              stored_row_step               ONE STEP: an untriggered row stays byte-identical unless the step
                                            may trigger / replace / purge it (app_may_end)
              read_back_run                 ... hence every later read returns exactly the last accepted version
     3. C09   window_step                   ONE STEP: what every operation does to a (start, expiry) window
              expiry_formula_run            expiry = min(u32::MAX, start + duration * #registrations since absent)
              expiry_formula_refuted        the formula WITHOUT the saturation is false inside the envelope when the
                                            grace period is 0 (F12's saturation); true whenever grace >= 1
              usable_iff_run                the gate, at every moment
              no_other_deletion_run         a user row disappears only in OConnect at height >= expiry + grace
     4. C02   every_send_justified_run      every K_send of every step of every run
              no_send_without_breach_run    no trigger anywhere in the run => no tracker, no K_send, ever
   Nothing is left as a hypothesis. *)
From TeosModel Require Import Base ListAux TxIndex TxIndexProofs Tower TowerStable TowerInv TowerProofs TowerSubs TowerReorg.
From TeosModel Require Import TowerLive TowerRuns.
From TeosModel Require TowerBreach TowerLedger.
From TeosModel.Gen Require Consts.
From Coq Require Import Lia.
Local Open Scope N_scope.

(* ------------------------------------------------------------------------------------------ *)
(* 2. C08 *)

(* what "the tower took it on" means for the appointment (loc, u, b, delay, sig) submitted in state t *)
Definition taken_on (sc : script) (t t' : tower) (u loc : N) (b : blob) (delay sig : N) : Prop :=
  let a := mk_app loc u b delay sig (w_height t) in
  (* the post-state holds the submitted version, untriggered *)
  (find_app (db_apps t') (loc, u) = Some a /\ find_trk (db_trks t') (loc, u) = None) \/
  (* ... or the submitted version and a tracker for it (its dispute was in the cache, the penalty was accepted) *)
  (exists d p, ti_get (w_cache t) loc = Some d /\ decrypt b d = Some p /\
               status_accepted (TowerBreach.breach_status sc t p) = true /\
               find_app (db_apps t') (loc, u) = Some a /\
               TowerBreach.responded t' (loc, u) d p (TowerBreach.breach_status sc t p)) \/
  (* ... or the dispute was in the cache and the blob failed to decrypt / the penalty was rejected: dropped *)
  (exists d, ti_get (w_cache t) loc = Some d /\
             (decrypt b d = None \/
              exists p, decrypt b d = Some p /\ status_rejected (TowerBreach.breach_status sc t p) = true) /\
             TowerBreach.dropped t' (loc, u)).

(* Hypothesis `forall u, user_row_ok t u` (every user the gatekeeper's memory holds has its row in the table; Tower.v):
   since the race repairs a request of a user whose row has vanished is refused after the charge instead of aborting,
   and the specifications of add_appointment are stated for states in which that cannot happen.  It holds in every
   reachable state: TowerInv.inv_user_rows : Inv t -> forall u, user_row_ok t u. *)
Theorem receipt_only_if_taken_on le t sc signer loc b delay sig t' st sg sl e :
  (forall u, user_row_ok t u) ->
  step le t (OAdd signer loc b delay sig) sc = (t', OAddRes (AddOk st sg sl e)) ->
  exists u, signer = Some u /\ taken_on sc t t' u loc b delay sig.
Proof.
  intros Hrows. assert (Hrowsf : forall u, user_row_ok (fresh t) u) by exact Hrows.
  cbn [step]. change (set_rpc_log t []) with (fresh t).
  destruct (w_add_appointment sc (fresh t) signer loc b delay sig) as [r t1|s t1] eqn:Ea; cbn [wrap]; [|discriminate].
  intros H. injection H as E1 E2. subst t1 r.
  destruct (TowerBreach.w_add_appointment_inner sc (fresh t) signer loc b delay sig _ t' Ea)
    as [[_ []]|[[u [ui [av [t1 [Hs [_ [_ [Hnt _]]]]]]]]|[u [t1 [_ [_ [_ [_ [_ Hr]]]]]]]]]; [|discriminate].
  change (db_trks (fresh t)) with (db_trks t) in Hnt.
  exists u. split; [exact Hs|]. unfold taken_on. change (w_height t) with (w_height (fresh t)).
  destruct (ti_get (w_cache t) loc) as [d|] eqn:Ec.
  - pose proof (TowerBreach.add_appointment_triggered sc (fresh t) signer loc b delay sig d _ t' Hrowsf Ec Ea) as H.
    cbv beta iota in H. destruct H as [u' [Hs' [_ [_ [_ [_ H]]]]]].
    assert (u' = u) by congruence. subst u'.
    destruct (decrypt b d) as [p|] eqn:Ed.
    + cbv zeta in H. change (TowerBreach.breach_status sc (fresh t) p) with (TowerBreach.breach_status sc t p) in H.
      destruct H as [_ [_ [Hacc [Hrej Hnei]]]].
      destruct (status_accepted (TowerBreach.breach_status sc t p)) eqn:Esa.
      * right. left. exists d, p. destruct (Hacc eq_refl) as [A B]. auto.
      * destruct (status_rejected (TowerBreach.breach_status sc t p)) eqn:Esr.
        -- right. right. exists d. split; [reflexivity|]. split; [right; exists p; auto|exact (Hrej eq_refl)].
        -- left. exact (Hnei eq_refl eq_refl).
    + right. right. exists d. split; [reflexivity|]. split; [left; exact Ed|exact (proj1 H)].
  - pose proof (TowerBreach.add_appointment_stored sc (fresh t) signer loc b delay sig _ t' Hrowsf Ec Ea) as H.
    cbv beta iota in H. destruct H as [u' [Hs' [_ [_ [Hf [_ [Hk _]]]]]]].
    assert (u' = u) by congruence. subst u'. left. split; [exact Hf|]. rewrite Hk. exact Hnt.
Qed.

(* run level: every receipt of every run *)
Theorem receipt_only_if_taken_on_run le c h0 blocks t0 h pre signer loc b delay sig sc post st sg sl e :
  init c h0 blocks = Some t0 -> NoDup (map fst blocks) -> N.of_nat (length blocks) <= h0 ->
  in_envelope le t0 h = true -> chain_disciplined le t0 h = true ->
  h = pre ++ (OAdd signer loc b delay sig, sc) :: post ->
  let t := fst (run le t0 pre) in
  snd (step le t (OAdd signer loc b delay sig) sc) = OAddRes (AddOk st sg sl e) ->
  exists u, signer = Some u /\ sg = sig /\ st = w_height t /\
            taken_on sc t (fst (run le t0 (pre ++ [(OAdd signer loc b delay sig, sc)]))) u loc b delay sig.
Proof.
  intros Hi Hnd Hlen He Hc E t Hx.
  destruct (reach_cut le c h0 blocks t0 h pre _ sc post Hi Hnd Hlen He Hc E) as [F1 F2 F3 F4 F5 F6 F7 F8 F9].
  fold t in F6. rewrite F6.
  assert (Hstep : step le t (OAdd signer loc b delay sig) sc = (fst (step le t (OAdd signer loc b delay sig) sc), OAddRes (AddOk st sg sl e))).
  { rewrite <- Hx. apply step_eq. }
  destruct (receipt_only_if_taken_on le t sc signer loc b delay sig _ st sg sl e (inv_user_rows t (bi_inv t F2)) Hstep) as [u [Hs Ht]].
  destruct (add_receipt_fields le t sc signer loc b delay sig _ st sg sl e Hstep) as [Hsg [Hst _]].
  exists u. auto.
Qed.

(* ---------- read-back ---------- *)

(* the steps that MAY end or replace the untriggered row `uuid`: a block that carries its locator (trigger), a
   block at whose height the owner is purged, an accepted add_appointment of its owner for that locator *)
Definition app_may_end (t : tower) (o : op) (x : out) (uuid : N * N) : bool :=
  match o, x with
  | OConnect _ txs, _ =>
      memN (fst uuid) txs ||
      match aget (db_users t) (snd uuid) with
      | Some ui => N.leb (u_expiry ui + c_delta (cfg t)) (gk_height t + 1)
      | None => true
      end
  | OAdd (Some u) loc _ _ _, OAddRes (AddOk _ _ _ _) => uuid_eqb (loc, u) uuid
  | _, _ => false
  end.

Lemma keep_app t' uuid a : Inv t' -> In a (db_apps t') -> app_uuid a = uuid -> find_app (db_apps t') uuid = Some a.
Proof. intros HI Ha <-. exact (TowerBreach.find_app_NoDup _ a (inv_apps_nodup t' HI) Ha). Qed.

(* ONE STEP: an untriggered row stays exactly as it is, and untriggered, through every step that is not one of
   those (watch_until_triggered + no tracker appears) *)
Theorem stored_row_step le t o sc t' x uuid a :
  Inv t -> step le t o sc = (t', x) -> not_abort x ->
  find_app (db_apps t) uuid = Some a -> find_trk (db_trks t) uuid = None ->
  app_may_end t o x uuid = false ->
  find_app (db_apps t') uuid = Some a /\ find_trk (db_trks t') uuid = None.
Proof.
  intros HI Hstep Hna Hf Hnt Hend. destruct (find_app_Some _ _ _ Hf) as [Ha Hu].
  assert (HI' : Inv t').
  { pose proof (step_pres Inv inv_stable le t o sc HI) as Hp. rewrite Hstep in Hp. cbn [fst snd] in Hp. exact (Hp Hna). }
  assert (Hsame : db_apps t' = db_apps t -> db_trks t' = db_trks t ->
                  find_app (db_apps t') uuid = Some a /\ find_trk (db_trks t') uuid = None).
  { intros -> ->. auto. }
  destruct o as [u|signer loc b delay sig|signer loc|signer|hash txs|].
  - cbn [step] in Hstep.
    pose proof (TowerBreach.add_update_user_trks (set_rpc_log t []) u) as Hl.
    pose proof (TowerBreach.add_update_user_apps (set_rpc_log t []) u) as Hl2.
    destruct (gk_add_update_user (set_rpc_log t []) u); cbn [wrap] in Hstep; injection Hstep as <- <-;
      destruct Hl as [Hl _]; apply Hsame; assumption.
  - cbn [step] in Hstep. change (set_rpc_log t []) with (fresh t) in Hstep.
    destruct (w_add_appointment sc (fresh t) signer loc b delay sig) as [r t1|] eqn:Ew; cbn [wrap] in Hstep;
      injection Hstep as <- <-; [|destruct Hna].
    assert (Hcase : match r with
                    | AddOk _ _ _ _ => exists u, signer = Some u /\ TowerBreach.others_kept (fresh t) t1 (loc, u)
                    | _ => t1 = fresh t
                    end).
    { destruct (ti_get (w_cache (fresh t)) loc) as [d|] eqn:Ec.
      - pose proof (TowerBreach.add_appointment_triggered sc (fresh t) signer loc b delay sig d r t1 (inv_user_rows (fresh t) (TowerBreach.inv_fresh t HI)) Ec Ew) as H.
        destruct r; try exact H. destruct H as [u [Hs [_ [_ [_ [Hoth _]]]]]]. exists u. split; assumption.
      - pose proof (TowerBreach.add_appointment_stored sc (fresh t) signer loc b delay sig r t1 (inv_user_rows (fresh t) (TowerBreach.inv_fresh t HI)) Ec Ew) as H.
        destruct r; try exact H. destruct H as [u [Hs [_ [_ [_ [Hoth _]]]]]]. exists u. split; assumption. }
    destruct r as [st sg sl e| | |]; try (rewrite Hcase; auto).
    destruct Hcase as [u [-> [Hoa Hok]]]. cbn [app_may_end] in Hend. apply TowerBreach.uuid_eqb_neq in Hend.
    split.
    + apply (keep_app t1 uuid a HI'); [|exact Hu]. apply (Hoa a); [congruence|exact Ha].
    + apply TowerBreach.find_trk_None_iff. intros Hi. apply in_map_iff in Hi. destruct Hi as [k [Hku Hk]].
      apply (Hok k) in Hk; [|congruence]. apply (find_trk_None _ _ Hnt). rewrite <- Hku. apply in_map. exact Hk.
  - destruct (get_unchanged le t sc signer loc) as [r Hr]. rewrite Hr in Hstep. injection Hstep as <- <-. auto.
  - destruct (getsub_unchanged le t sc signer) as [r Hr]. rewrite Hr in Hstep. injection Hstep as <- <-. auto.
  - cbn [app_may_end] in Hend. apply orb_false_iff in Hend. destruct Hend as [Hloc Hpurge].
    assert (Hla : memN (a_loc a) txs = false) by (rewrite <- Hloc, <- Hu; reflexivity).
    destruct (TowerBreach.connect_ok le t hash txs sc t' x Hstep Hna) as [tg [tw [Eg [Ew Er]]]].
    assert (HIf : Inv (fresh t)) by (apply TowerBreach.inv_fresh; exact HI).
    assert (HIg : Inv tg).
    { pose proof (gk_block_connected_pres Inv (sa_block Inv inv_stable) (fresh t) (gk_height t + 1) HIf) as Hp. rewrite Eg in Hp. exact Hp. }
    destruct (purge_exact (fresh t) (gk_height t + 1) tg HIf Eg) as [Pu [Pa [Pk _]]].
    change (db_users (fresh t)) with (db_users t) in Pu. change (cfg (fresh t)) with (cfg t) in Pu.
    change (db_apps (fresh t)) with (db_apps t) in Pa. change (db_trks (fresh t)) with (db_trks t) in Pk.
    (* the row *)
    assert (Hrow : In a (db_apps t')).
    { destruct (TowerBreach.watch_until_triggered le t _ sc t' x a HI Hstep Hna Ha) as [H|[H|[H|H]]].
      - rewrite Hu. exact Hnt.
      - exact H.
      - destruct H as [hash' [txs' [E Hm]]]. injection E as <- <-. congruence.
      - destruct H as [hash' [txs' [tg' [E [Eg' [_ Hgone]]]]]]. injection E as <- <-.
        rewrite Eg in Eg'. injection Eg' as <-. exfalso. unfold amem in Hgone. rewrite Pu in Hgone.
        replace (a_user a) with (snd uuid) in Hgone by (rewrite <- Hu; reflexivity).
        destruct (aget (db_users t) (snd uuid)) as [ui|]; [|discriminate]. rewrite Hpurge in Hgone. discriminate.
      - destruct H as [b' [d' [s' E]]]. discriminate. }
    split; [exact (keep_app t' uuid a HI' Hrow Hu)|].
    (* no tracker appears *)
    assert (Hntg : find_trk (db_trks tg) uuid = None).
    { apply (find_trk_sub (db_trks t)); [|exact Hnt]. intros k Hk. apply Pk in Hk. exact (proj1 Hk). }
    destruct (TowerBreach.w_block_connected_frame sc tg hash txs (gk_height t + 1) tw HIg Ew) as [_ [_ [_ [_ [_ [_ [_ [_ [_ [_ [Hnewk _]]]]]]]]]]].
    assert (Hntw : find_trk (db_trks tw) uuid = None).
    { apply TowerBreach.find_trk_None_iff. intros Hi. apply in_map_iff in Hi. destruct Hi as [k [Hku Hk]].
      destruct (Hnewk k Hk) as [Hold|[a' [Ha' Hm]]].
      - apply (find_trk_None _ _ Hntg). rewrite <- Hku. apply in_map. exact Hold.
      - destruct Hm as [HD [Hu' _]]. apply memN_In in HD.
        assert (a_loc a' = fst uuid) by (rewrite <- Hku, Hu'; reflexivity). congruence. }
    exact (proj1 (TowerBreach.responder_keeps_untracked le sc tw hash txs (gk_height t + 1) t' uuid Er Hntw)).
  - cbn [step] in Hstep. destruct (last_hash (set_rpc_log t [])) as [hash|].
    + pose proof (TowerBreach.disconnect_reorged hash (gk_height (set_rpc_log t [])) (set_rpc_log t [])) as Hl.
      pose proof (TowerBreach.disconnect_apps hash (gk_height (set_rpc_log t [])) (set_rpc_log t [])) as Hl2.
      destruct (run_listeners _ _ _); cbn [wrap] in Hstep; injection Hstep as <- <-; [|destruct Hna].
      destruct Hl as [Hl _]. apply Hsame; assumption.
    + injection Hstep as <- <-. auto.
Qed.

(* reading an untriggered row back: exactly (locator, blob, to_self_delay) of the row — or the
   subscription-expired error once the owner has expired *)
Lemma get_reports_stored le t sc uuid a :
  Inv t -> find_app (db_apps t) uuid = Some a -> find_trk (db_trks t) uuid = None ->
  exists ui, gk_get t (snd uuid) = Some ui /\
    step le t (OGet (Some (snd uuid)) (fst uuid)) sc =
      (fresh t, OGetRes (if N.leb (u_expiry ui) (gk_height t) then GetExpired (u_expiry ui)
                         else GetApp (a_loc a) (a_blob a) (a_delay a))).
Proof.
  intros HI Hf Hnt. destruct (find_app_Some _ _ _ Hf) as [Ha Hu]. pose proof (inv_fk_app t HI a Ha) as Hfk.
  replace (a_user a) with (snd uuid) in Hfk by (rewrite <- Hu; reflexivity).
  unfold amem in Hfk. rewrite <- (inv_sync t HI) in Hfk.
  destruct (aget (gk_users t) (snd uuid)) as [ui|] eqn:Eg; [|discriminate].
  exists ui. split; [exact Eg|]. cbn [step wrap]. unfold w_get_appointment, authenticate, amem.
  change (set_rpc_log t []) with (fresh t). change (gk_users (fresh t)) with (gk_users t). rewrite Eg.
  unfold gk_get. change (gk_users (fresh t)) with (gk_users t). rewrite Eg.
  change (gk_height (fresh t)) with (gk_height t).
  destruct (N.leb (u_expiry ui) (gk_height t)); [reflexivity|].
  change (db_trks (fresh t)) with (db_trks t). change (db_apps (fresh t)) with (db_apps t).
  replace (fst uuid, snd uuid) with uuid by (destruct uuid; reflexivity). rewrite Hf, Hnt. reflexivity.
Qed.

(* "until": along any continuation in which no step may end the row *)
Theorem read_back_until_from le : forall mid t uuid a,
  BigInv t -> in_envelope le t mid = true -> chain_disciplined le t mid = true ->
  find_app (db_apps t) uuid = Some a -> find_trk (db_trks t) uuid = None ->
  (forall m1 o sc m2, mid = m1 ++ (o, sc) :: m2 ->
     app_may_end (fst (run le t m1)) o (snd (step le (fst (run le t m1)) o sc)) uuid = false) ->
  (find_app (db_apps (fst (run le t mid))) uuid = Some a /\ find_trk (db_trks (fst (run le t mid))) uuid = None) /\
  (forall m1 sc m2, mid = m1 ++ (OGet (Some (snd uuid)) (fst uuid), sc) :: m2 ->
     exists ui, gk_get (fst (run le t m1)) (snd uuid) = Some ui /\
       snd (step le (fst (run le t m1)) (OGet (Some (snd uuid)) (fst uuid)) sc) =
       OGetRes (if N.leb (u_expiry ui) (gk_height (fst (run le t m1))) then GetExpired (u_expiry ui)
                else GetApp (a_loc a) (a_blob a) (a_delay a))).
Proof.
  induction mid as [|[o sc] mid IH]; intros t uuid a HB He Hc Hf Hnt Hno.
  - split; [cbn [run fst]; auto|]. intros m1 sc m2 E. destruct m1; discriminate.
  - cbn [in_envelope chain_disciplined] in He, Hc. apply andb_true_iff in He, Hc.
    destruct He as [He1 He2]. destruct Hc as [Hc1 Hc2].
    pose proof (step_never_aborts le t o sc HB He1) as Hna. pose proof (step_big le t o sc HB He1 Hc1) as HB1.
    pose proof (Hno [] o sc mid eq_refl) as Hn0. cbn [run fst] in Hn0.
    destruct (stored_row_step le t o sc _ _ uuid a (bi_inv t HB) (step_eq le t o sc) Hna Hf Hnt Hn0) as [Hf1 Hnt1].
    assert (Hno1 : forall m1 o' sc' m2, mid = m1 ++ (o', sc') :: m2 ->
                     app_may_end (fst (run le (fst (step le t o sc)) m1)) o'
                       (snd (step le (fst (run le (fst (step le t o sc)) m1)) o' sc')) uuid = false).
    { intros m1 o' sc' m2 E. specialize (Hno ((o, sc) :: m1) o' sc' m2). rewrite (run_cons_ok le t o sc m1 Hna) in Hno.
      apply Hno. rewrite E. reflexivity. }
    destruct (IH _ uuid a HB1 He2 Hc2 Hf1 Hnt1 Hno1) as [Hend Hgets].
    rewrite (run_cons_ok le t o sc mid Hna). cbn [fst]. split; [exact Hend|].
    intros m1 sc' m2 E. destruct m1 as [|[o1 sc1] m1].
    + cbn [List.app] in E. injection E as E1 E2 E3. cbn [run fst].
      destruct (get_reports_stored le t sc' uuid a (bi_inv t HB) Hf Hnt) as [ui [Hg Hs]].
      exists ui. split; [exact Hg|]. rewrite Hs. reflexivity.
    + cbn [List.app] in E. injection E as E1 E2 E3. subst o1 sc1 mid. rewrite (run_cons_ok le t o sc m1 Hna). cbn [fst].
      exact (Hgets m1 sc' m2 eq_refl).
Qed.

(* C08 read_back, run level: after an AddOk for (loc, u) that left the row stored untriggered, along every
   continuation in which no step may trigger / replace / purge it, the row is byte-identical and EVERY read of
   its owner returns exactly the (locator, blob, to_self_delay) last accepted (or the subscription-expired
   error once the owner has expired) *)
Theorem read_back_run le c h0 blocks t0 h pre u loc b delay sig sc mid post st sg sl e :
  init c h0 blocks = Some t0 -> NoDup (map fst blocks) -> N.of_nat (length blocks) <= h0 ->
  in_envelope le t0 h = true -> chain_disciplined le t0 h = true ->
  h = (pre ++ [(OAdd (Some u) loc b delay sig, sc)]) ++ mid ++ post ->
  snd (step le (fst (run le t0 pre)) (OAdd (Some u) loc b delay sig) sc) = OAddRes (AddOk st sg sl e) ->
  let pre' := pre ++ [(OAdd (Some u) loc b delay sig, sc)] in
  (* the add left the row stored, untriggered *)
  find_app (db_apps (fst (run le t0 pre'))) (loc, u) <> None ->
  find_trk (db_trks (fst (run le t0 pre'))) (loc, u) = None ->
  (* until *)
  (forall m1 o sc' m2, mid = m1 ++ (o, sc') :: m2 ->
     app_may_end (fst (run le t0 (pre' ++ m1))) o (snd (step le (fst (run le t0 (pre' ++ m1))) o sc')) (loc, u) = false) ->
  let a := mk_app loc u b delay sig (w_height (fst (run le t0 pre))) in
  (find_app (db_apps (fst (run le t0 (pre' ++ mid)))) (loc, u) = Some a /\
   find_trk (db_trks (fst (run le t0 (pre' ++ mid)))) (loc, u) = None) /\
  (forall m1 sc' m2, mid = m1 ++ (OGet (Some u) loc, sc') :: m2 ->
     let t := fst (run le t0 (pre' ++ m1)) in
     exists ui, gk_get t u = Some ui /\
       snd (step le t (OGet (Some u) loc) sc') =
       OGetRes (if N.leb (u_expiry ui) (gk_height t) then GetExpired (u_expiry ui) else GetApp loc b delay)).
Proof.
  intros Hi Hnd Hlen He Hc E Hx pre' Hstored Hnt Hno a. pose proof (big_init c h0 blocks t0 Hi Hnd Hlen) as HB. subst h.
  (* the add step *)
  assert (E0 : (pre ++ [(OAdd (Some u) loc b delay sig, sc)]) ++ mid ++ post = pre ++ (OAdd (Some u) loc b delay sig, sc) :: (mid ++ post)).
  { rewrite <- app_assoc. reflexivity. }
  pose proof He as He0. pose proof Hc as Hc0. rewrite E0 in He0, Hc0.
  destruct (reach_cut_from le t0 pre _ sc (mid ++ post) HB He0 Hc0) as [F1 F2 F3 F4 F5 F6 F7 F8 F9].
  set (t := fst (run le t0 pre)) in *.
  assert (Hstep : step le t (OAdd (Some u) loc b delay sig) sc = (fst (step le t (OAdd (Some u) loc b delay sig) sc), OAddRes (AddOk st sg sl e))).
  { rewrite <- Hx. apply step_eq. }
  destruct (receipt_only_if_taken_on le t sc (Some u) loc b delay sig _ st sg sl e (inv_user_rows t (bi_inv t F2)) Hstep) as [u' [Hs Ht]].
  injection Hs as <-. fold pre' in F6. rewrite <- F6 in Ht.
  assert (Hf : find_app (db_apps (fst (run le t0 pre'))) (loc, u) = Some a).
  { destruct Ht as [[A _]|[[d [p [_ [_ [_ [A _]]]]]]|[d [_ [_ [A _]]]]]]; [exact A|exact A|contradiction]. }
  (* the continuation *)
  destruct (reach_prefix_from le t0 pre' (mid ++ post) HB He Hc) as [Hall [HB1 [He1 Hc1]]].
  destruct (env_app le mid post _ HB1 He1 Hc1) as [He2 [Hc2 _]].
  assert (Hrun : forall m, fst (run le t0 (pre' ++ m)) = fst (run le (fst (run le t0 pre')) m)).
  { intros m. rewrite (run_app le pre' m t0 Hall). reflexivity. }
  assert (Hno' : forall m1 o sc' m2, mid = m1 ++ (o, sc') :: m2 ->
            app_may_end (fst (run le (fst (run le t0 pre')) m1)) o (snd (step le (fst (run le (fst (run le t0 pre')) m1)) o sc')) (loc, u) = false).
  { intros m1 o sc' m2 Em. rewrite <- Hrun. exact (Hno m1 o sc' m2 Em). }
  destruct (read_back_until_from le mid _ (loc, u) a HB1 He2 Hc2 Hf Hnt Hno') as [A B]. split.
  - rewrite Hrun. exact A.
  - intros m1 sc' m2 Em. cbv zeta. rewrite Hrun. exact (B m1 sc' m2 Em).
Qed.

(* the "until" hypothesis as a computation *)
Fixpoint never_may_end (le : bool) (t : tower) (mid : list (op * script)) (uuid : N * N) : bool :=
  match mid with
  | [] => true
  | (o, sc) :: r =>
      negb (app_may_end t o (snd (step le t o sc)) uuid) && never_may_end le (fst (step le t o sc)) r uuid
  end.

Lemma never_may_end_cuts le : forall mid t uuid,
  Forall not_abort (snd (run le t mid)) -> never_may_end le t mid uuid = true ->
  forall m1 o sc m2, mid = m1 ++ (o, sc) :: m2 ->
    app_may_end (fst (run le t m1)) o (snd (step le (fst (run le t m1)) o sc)) uuid = false.
Proof.
  induction mid as [|[o0 sc0] mid IH]; intros t uuid Hall Hne m1 o sc m2 E; [destruct m1; discriminate|].
  destruct (run_cons_not_abort le t o0 sc0 mid Hall) as [Hna Hrest]. cbn [never_may_end] in Hne.
  apply andb_true_iff in Hne. destruct Hne as [Hn1 Hn2]. apply negb_true_iff in Hn1.
  destruct m1 as [|[o1 sc1] m1]; cbn [List.app] in E.
  - injection E as E1 E2 E3. subst o0 sc0 mid. cbn [run fst]. exact Hn1.
  - injection E as E1 E2 E3. subst o1 sc1 mid. rewrite (run_cons_ok le t o0 sc0 m1 Hna). cbn [fst].
    exact (IH _ uuid Hrest Hn2 m1 o sc m2 eq_refl).
Qed.

(* ------------------------------------------------------------------------------------------ *)
(* 3. C09 *)

(* the subscription window of u as the table holds it *)
Definition window (t : tower) (u : N) : option (N * N) :=
  option_map (fun ui => (u_start ui, u_expiry ui)) (aget (db_users t) u).

(* ... and after one step, as a function of the window before, the operation and its reply *)
Definition window_after (t : tower) (o : op) (x : out) (u : N) : option (N * N) :=
  match o, x with
  | ORegister v, ORegisterRes (RegOk _ _ _) =>
      if N.eqb u v then
        match window t u with
        | None => Some (gk_height t, gk_height t + c_duration (cfg t))
        | Some (s, e) => Some (s, N.min U32MAX (e + c_duration (cfg t)))
        end
      else window t u
  | OConnect _ _, _ =>
      match window t u with
      | Some (s, e) => if N.leb (e + c_delta (cfg t)) (gk_height t + 1) then None else Some (s, e)
      | None => None
      end
  | _, _ => window t u
  end.

Lemma same_ledger_window t t' u : TowerLedger.same_ledger t t' -> window t' u = window t u.
Proof. intros [_ [Hu _]]. unfold window. rewrite Hu. reflexivity. Qed.

(* ONE STEP: a window is created by the first registration (start = the gatekeeper's height, expiry = start +
   duration), pushed back by one duration (saturating) by each granted renewal OF THAT USER, removed by a block
   at height >= expiry + grace, and touched by nothing else *)
Theorem window_step le t o sc u :
  BigInv t -> envb t o = true ->
  window (fst (step le t o sc)) u = window_after t o (snd (step le t o sc)) u.
Proof.
  intros HB He. pose proof (step_never_aborts le t o sc HB He) as Hna. pose proof (bi_inv t HB) as HI.
  destruct (step le t o sc) as [t' x] eqn:Es. cbn [fst snd] in *.
  pose proof (TowerLedger.step_out_shape le t o sc t' x Es) as Hshape.
  destruct o as [v|signer loc b delay sig|signer loc|signer|hash txs|]; destruct x as [r|r|r|r| |s]; try contradiction.
  - (* register *)
    cbn [envb] in He. destruct (gk_get t v) as [ui|] eqn:Eg.
    + assert (Eu : aget (db_users t) v = Some ui) by (rewrite <- (inv_sync t HI); exact Eg).
      destruct (N.leb_spec (u_slots ui + c_slots (cfg t)) U32MAX) as [Hs|Hs].
      * rewrite (register_renew le t sc v ui Eg Hs) in Es. injection Es as <- <-. cbn [window_after].
        unfold window, p_set_user, db_update_user. cbn [db_users set_db_users gk_put set_gk_users fresh set_rpc_log].
        rewrite aget_map_update. destruct (N.eqb u v) eqn:Ev; [|reflexivity].
        apply N.eqb_eq in Ev. subst u. rewrite Eu. reflexivity.
      * rewrite (register_max_slots le t sc v ui Eg Hs) in Es. injection Es as <- <-. reflexivity.
    + apply andb_true_iff in He. destruct He as [He1 _]. apply N.leb_le in He1.
      assert (Eu : aget (db_users t) v = None) by (rewrite <- (inv_sync t HI); exact Eg).
      assert (Hm : amem (db_users t) v = false) by (unfold amem; rewrite Eu; reflexivity).
      rewrite (register_new le t sc v Eg Hm) in Es by lia. injection Es as <- <-. cbn [window_after].
      unfold window, p_new_user. cbn [db_users set_db_users gk_put set_gk_users fresh set_rpc_log].
      rewrite aget_app_single. destruct (N.eqb u v) eqn:Ev.
      * apply N.eqb_eq in Ev. subst u. rewrite Eu. reflexivity.
      * destruct (aget (db_users t) u); reflexivity.
  - (* add *)
    cbn [window_after]. destruct r as [st sg sl e| | |];
      try exact (same_ledger_window t t' u (TowerLedger.add_refused_same le t signer loc b delay sig sc t' _ (inv_user_rows t HI) Es)).
    destruct (TowerLedger.add_ok_shape le t signer loc b delay sig sc t' st sg sl e HI Es) as [u0 [ui [_ [Eu [_ [_ [Hu' _]]]]]]].
    unfold window. rewrite Hu', aget_map_update. destruct (N.eqb u u0) eqn:Ev; [|reflexivity].
    apply N.eqb_eq in Ev. subst u. rewrite Eu. reflexivity.
  - exact (same_ledger_window t t' u (TowerLedger.get_bal le t signer loc sc t' _ Es)).
  - exact (same_ledger_window t t' u (TowerLedger.getsub_bal le t signer sc t' _ Es)).
  - cbn [window_after]. pose proof (connect_purges_exactly le t hash txs sc t' HI Es u) as Hp.
    unfold window. rewrite Hp. destruct (aget (db_users t) u) as [ui|]; [|reflexivity]. cbn [option_map].
    destruct (N.leb (u_expiry ui + c_delta (cfg t)) (gk_height t + 1)); reflexivity.
  - exact (same_ledger_window t t' u (TowerLedger.disconnect_bal le t sc t' _ Es)).
Qed.

(* ---------- the ghost: (number of granted registrations of u since u was last absent, the gatekeeper's height
   at the first of them), kept along the run from the replies and from whether u has a row ---------- *)
Definition ghost_step (u : N) (t : tower) (o : op) (x : out) (t' : tower) (g : N * N) : N * N :=
  if amem (db_users t') u then
    match o, x with
    | ORegister v, ORegisterRes (RegOk _ _ _) =>
        if N.eqb u v then (if N.eqb (fst g) 0 then (1, gk_height t) else (fst g + 1, snd g)) else g
    | _, _ => g
    end
  else (0, 0).

Fixpoint ghost_run (le : bool) (u : N) (t : tower) (h : list (op * script)) (g : N * N) : N * N :=
  match h with
  | [] => g
  | (o, sc) :: r =>
      match snd (step le t o sc) with
      | OAbort _ => g
      | x => ghost_run le u (fst (step le t o sc)) r (ghost_step u t o x (fst (step le t o sc)) g)
      end
  end.

Definition ghost_ok (t : tower) (u : N) (g : N * N) : Prop :=
  match window t u with
  | None => g = (0, 0)
  | Some (s, e) => 1 <= fst g /\ s = snd g /\ e = N.min U32MAX (snd g + c_duration (cfg t) * fst g)
  end.

Lemma amem_window t u : amem (db_users t) u = match window t u with Some _ => true | None => false end.
Proof. unfold amem, window. destruct (aget (db_users t) u); reflexivity. Qed.

Lemma ghost_ok_step le t o sc u g :
  BigInv t -> envb t o = true -> ghost_ok t u g ->
  ghost_ok (fst (step le t o sc)) u (ghost_step u t o (snd (step le t o sc)) (fst (step le t o sc)) g).
Proof.
  intros HB He Hg. pose proof (step_never_aborts le t o sc HB He) as Hna.
  pose proof (window_step le t o sc u HB He) as Hw. pose proof (TowerLedger.step_cfg le t o sc Hna) as Hc.
  pose proof (bi_inv t HB) as HI.
  unfold ghost_ok, ghost_step in *. rewrite amem_window, Hc, Hw. clear Hw Hc.
  assert (Hkeep : match window t u with
                  | Some (s, e) => 1 <= fst g /\ s = snd g /\ e = N.min U32MAX (snd g + c_duration (cfg t) * fst g)
                  | None => (if match window t u with Some _ => true | None => false end then g else (0, 0)) = (0, 0)
                  end).
  { destruct (window t u) as [[ws we]|]; [exact Hg|reflexivity]. }
  destruct o as [v|signer loc b delay sig|signer loc|signer|hash txs|]; cbn [window_after].
  - destruct (snd (step le t (ORegister v) sc)) as [r|r|r|r| |s0];
      try (destruct (window t u) as [[ws we]|]; [exact Hkeep|exact Hkeep]).
    destruct r as [sl st e0|]; [|destruct (window t u) as [[ws we]|]; [exact Hkeep|exact Hkeep]].
    destruct (N.eqb u v) eqn:Ev; [|destruct (window t u) as [[ws we]|]; [exact Hkeep|exact Hkeep]].
    apply N.eqb_eq in Ev. subst v. cbn [envb] in He.
    destruct (window t u) as [[ws we]|] eqn:Ew.
    + destruct Hg as [H1 [H2 H3]]. destruct (N.eqb_spec (fst g) 0) as [H0|H0]; [lia|]. cbn [fst snd].
      split; [lia|]. split; [exact H2|]. rewrite H3. lia.
    + subst g. cbn [fst snd]. change (N.eqb 0 0) with true. cbv iota. cbn [fst snd].
      assert (Eg : gk_get t u = None).
      { unfold gk_get. rewrite (inv_sync t HI). unfold window in Ew. destruct (aget (db_users t) u); [discriminate|reflexivity]. }
      rewrite Eg in He. apply andb_true_iff in He. destruct He as [He1 _]. apply N.leb_le in He1.
      split; [lia|]. split; [reflexivity|]. lia.
  - destruct (snd (step le t (OAdd signer loc b delay sig) sc)); destruct (window t u) as [[ws we]|]; exact Hkeep.
  - destruct (snd (step le t (OGet signer loc) sc)); destruct (window t u) as [[ws we]|]; exact Hkeep.
  - destruct (snd (step le t (OGetSub signer) sc)); destruct (window t u) as [[ws we]|]; exact Hkeep.
  - destruct (window t u) as [[ws we]|]; [|destruct (snd (step le t (OConnect hash txs) sc)); reflexivity].
    destruct (N.leb (we + c_delta (cfg t)) (gk_height t + 1)); destruct (snd (step le t (OConnect hash txs) sc)); first [reflexivity|exact Hg].
  - destruct (snd (step le t ODisconnect sc)); destruct (window t u) as [[ws we]|]; exact Hkeep.
Qed.

Lemma ghost_run_ok le u : forall h t g,
  BigInv t -> in_envelope le t h = true -> chain_disciplined le t h = true -> ghost_ok t u g ->
  ghost_ok (fst (run le t h)) u (ghost_run le u t h g).
Proof.
  induction h as [|[o sc] h IH]; intros t g HB He Hc Hg; [exact Hg|].
  cbn [in_envelope chain_disciplined] in He, Hc. apply andb_true_iff in He, Hc.
  destruct He as [He1 He2]. destruct Hc as [Hc1 Hc2].
  pose proof (step_never_aborts le t o sc HB He1) as Hna. pose proof (step_big le t o sc HB He1 Hc1) as HB1.
  pose proof (ghost_ok_step le t o sc u g HB He1 Hg) as Hg1.
  rewrite (run_cons_ok le t o sc h Hna). cbn [fst ghost_run].
  destruct (snd (step le t o sc)) eqn:Ex; try contradiction; exact (IH _ _ HB1 He2 Hc2 Hg1).
Qed.

Lemma run_cfg le h t : Forall not_abort (snd (run le t h)) -> cfg (fst (run le t h)) = cfg t.
Proof. exact (run_pres (fun t' => cfg t' = cfg t) (TowerLedger.cfg_stable (cfg t)) le h t eq_refl). Qed.

Lemma init_fields c h0 blocks t0 :
  init c h0 blocks = Some t0 -> cfg t0 = c /\ db_users t0 = [] /\ db_trks t0 = [] /\ reorged t0 = [] /\ db_apps t0 = [].
Proof.
  unfold init. destruct (ti_new _ _); [|discriminate]. destruct (ti_new _ _); [|discriminate].
  intros H. injection H as <-. repeat split.
Qed.

(* C09 expiry_formula, run level: in every state a run reaches, for every registered user: at least one
   registration is counted, its start is the gatekeeper's height at the first registration since it was last
   absent, and its expiry is start + duration * (registrations since then), saturated at u32::MAX; without
   saturation whenever the grace period is at least one block.  (Every prefix of a history inside the envelope is
   a history inside the envelope — env_app — so this is "at every moment of every run".) *)
Theorem expiry_formula_run le c h0 blocks t0 h u ui :
  init c h0 blocks = Some t0 -> NoDup (map fst blocks) -> N.of_nat (length blocks) <= h0 ->
  in_envelope le t0 h = true -> chain_disciplined le t0 h = true ->
  aget (db_users (fst (run le t0 h))) u = Some ui ->
  let n := fst (ghost_run le u t0 h (0, 0)) in
  let s := snd (ghost_run le u t0 h (0, 0)) in
  1 <= n /\ u_start ui = s /\ u_expiry ui = N.min U32MAX (s + c_duration c * n) /\
  (1 <= c_delta c -> u_expiry ui = s + c_duration c * n).
Proof.
  intros Hi Hnd Hlen He Hc Hu n s. pose proof (big_init c h0 blocks t0 Hi Hnd Hlen) as HB.
  destruct (init_fields c h0 blocks t0 Hi) as [Hcfg [Hus _]].
  assert (Hg0 : ghost_ok t0 u (0, 0)) by (unfold ghost_ok, window; rewrite Hus; reflexivity).
  pose proof (ghost_run_ok le u h t0 (0, 0) HB He Hc Hg0) as Hg.
  destruct (no_abort_from le h t0 HB He Hc) as [Hall [HB1 _]].
  unfold ghost_ok, window in Hg. rewrite Hu, (run_cfg le h t0 Hall), Hcfg in Hg. cbn [option_map] in Hg.
  fold n s in Hg. destruct Hg as [H1 [H2 H3]]. split; [exact H1|]. split; [exact H2|]. split; [exact H3|].
  intros Hd. pose proof (bi_exp _ HB1 u ui Hu) as Hexp. rewrite (run_cfg le h t0 Hall), Hcfg in Hexp.
  unfold U32MAX in *. lia.
Qed.

(* the same along a run that starts from any state satisfying the big invariant, given a ghost that is right there *)
Theorem expiry_formula_from le t0 h u g ui :
  BigInv t0 -> in_envelope le t0 h = true -> chain_disciplined le t0 h = true -> ghost_ok t0 u g ->
  aget (db_users (fst (run le t0 h))) u = Some ui ->
  1 <= fst (ghost_run le u t0 h g) /\ u_start ui = snd (ghost_run le u t0 h g) /\
  u_expiry ui = N.min U32MAX (snd (ghost_run le u t0 h g) + c_duration (cfg t0) * fst (ghost_run le u t0 h g)).
Proof.
  intros HB He Hc Hg0 Hu. pose proof (ghost_run_ok le u h t0 g HB He Hc Hg0) as Hg.
  destruct (no_abort_from le h t0 HB He Hc) as [Hall _].
  unfold ghost_ok, window in Hg. rewrite Hu, (run_cfg le h t0 Hall) in Hg. exact Hg.
Qed.

(* ---------- the gate ---------- *)
(* the subscription-expired error of a reply, with the expiry it states *)
Definition gate_reply (x : out) : option N :=
  match x with
  | OAddRes (AddExpired e) | OGetRes (GetExpired e) | OSubRes (SubExpired e) => Some e
  | _ => None
  end.

Definition request_of (o : op) : option N :=
  match o with
  | OAdd (Some v) _ _ _ _ | OGet (Some v) _ | OGetSub (Some v) => Some v
  | _ => None
  end.

(* ONE STEP: a request signed by a registered user is answered with the subscription-expired error iff the
   gatekeeper's height has reached its expiry, and the error states that expiry (whatever else the request is) *)
Theorem gate_exact le t o sc u ui :
  Inv t -> aget (db_users t) u = Some ui -> request_of o = Some u ->
  gate_reply (snd (step le t o sc)) = if N.leb (u_expiry ui) (gk_height t) then Some (u_expiry ui) else None.
Proof.
  intros HI Hu Ho. assert (Eg : aget (gk_users t) u = Some ui) by (rewrite (inv_sync t HI); exact Hu).
  assert (Hm : amem (gk_users t) u = true) by (unfold amem; rewrite Eg; reflexivity).
  destruct o as [v|[v|] loc b delay sig|[v|] loc|[v|]|hash txs|]; try discriminate; injection Ho as ->;
    cbn [step wrap]; change (set_rpc_log t []) with (fresh t).
  - unfold w_add_appointment, authenticate. change (gk_users (fresh t)) with (gk_users t). rewrite Hm.
    unfold gk_get at 1. change (gk_users (fresh t)) with (gk_users t). rewrite Eg.
    change (gk_height (fresh t)) with (gk_height t).
    destruct (N.leb (u_expiry ui) (gk_height t)); [reflexivity|].
    destruct (find_trk (db_trks (fresh t)) (loc, u)); [reflexivity|].
    unfold gk_add_update_appointment, gk_get. change (gk_users (fresh t)) with (gk_users t). rewrite Eg.
    match goal with |- context [if ?c then _ else _] => destruct c end; cbn [bind]; [|reflexivity].
    match goal with |- context [bind ?r _] => destruct r as [[] t2|s t2] end; cbn [bind]; [|reflexivity].
    match goal with |- context [if ?c then _ else _] => destruct c end; reflexivity.
  - unfold w_get_appointment, authenticate. change (gk_users (fresh t)) with (gk_users t). rewrite Hm.
    unfold gk_get. change (gk_users (fresh t)) with (gk_users t). rewrite Eg.
    change (gk_height (fresh t)) with (gk_height t).
    destruct (N.leb (u_expiry ui) (gk_height t)); [reflexivity|].
    destruct (find_trk (db_trks (fresh t)) (loc, u)), (find_app (db_apps (fresh t)) (loc, u)); reflexivity.
  - unfold w_get_subscription_info, authenticate. change (gk_users (fresh t)) with (gk_users t). rewrite Hm.
    unfold gk_get. change (gk_users (fresh t)) with (gk_users t). rewrite Eg.
    change (gk_height (fresh t)) with (gk_height t).
    destruct (N.leb (u_expiry ui) (gk_height t)); reflexivity.
Qed.

(* C09 usable_iff, run level: at every moment of every run *)
Theorem usable_iff_run le c h0 blocks t0 h pre o sc post u ui :
  init c h0 blocks = Some t0 -> NoDup (map fst blocks) -> N.of_nat (length blocks) <= h0 ->
  in_envelope le t0 h = true -> chain_disciplined le t0 h = true ->
  h = pre ++ (o, sc) :: post ->
  let t := fst (run le t0 pre) in
  aget (db_users t) u = Some ui -> request_of o = Some u ->
  gate_reply (snd (step le t o sc)) = if N.leb (u_expiry ui) (gk_height t) then Some (u_expiry ui) else None.
Proof.
  intros Hi Hnd Hlen He Hc E t Hu Ho.
  destruct (reach_cut le c h0 blocks t0 h pre o sc post Hi Hnd Hlen He Hc E) as [F1 F2 F3 F4 F5 F6 F7 F8 F9].
  exact (gate_exact le t o sc u ui (bi_inv _ F2) Hu Ho).
Qed.

(* ---------- no other deletion ---------- *)
Theorem user_deleted_only_by_purge le t o sc u ui :
  BigInv t -> envb t o = true -> aget (db_users t) u = Some ui ->
  (aget (db_users (fst (step le t o sc))) u = None <->
   exists hash txs, o = OConnect hash txs /\ u_expiry ui + c_delta (cfg t) <= gk_height t + 1).
Proof.
  intros HB He Hu. pose proof (window_step le t o sc u HB He) as Hw.
  assert (Hn : aget (db_users (fst (step le t o sc))) u = None <-> window (fst (step le t o sc)) u = None).
  { unfold window. destruct (aget (db_users (fst (step le t o sc))) u); cbn; split; congruence. }
  rewrite Hn, Hw. unfold window_after, window. rewrite Hu. cbn [option_map].
  destruct o as [v|signer loc b delay sig|signer loc|signer|hash txs|].
  - split; [|intros [hh [tx [E _]]]; discriminate].
    destruct (snd (step le t (ORegister v) sc)) as [r|r|r|r| |s0]; try discriminate.
    destruct r; [destruct (N.eqb u v)|]; discriminate.
  - split; [|intros [hh [tx [E _]]]; discriminate]. destruct (snd (step le t _ sc)); discriminate.
  - split; [|intros [hh [tx [E _]]]; discriminate]. destruct (snd (step le t _ sc)); discriminate.
  - split; [|intros [hh [tx [E _]]]; discriminate]. destruct (snd (step le t _ sc)); discriminate.
  - assert (Hcase : (match snd (step le t (OConnect hash txs) sc) with
                     | _ => if N.leb (u_expiry ui + c_delta (cfg t)) (gk_height t + 1) then None else Some (u_start ui, u_expiry ui)
                     end = None) <-> u_expiry ui + c_delta (cfg t) <= gk_height t + 1).
    { destruct (snd (step le t (OConnect hash txs) sc));
        destruct (N.leb_spec (u_expiry ui + c_delta (cfg t)) (gk_height t + 1)); split; intros; try discriminate; try lia; reflexivity. }
    destruct (snd (step le t (OConnect hash txs) sc)); (split; [intros H; exists hash, txs; split; [reflexivity|apply Hcase; exact H]|
                                                                 intros [hh [tx [E H]]]; apply Hcase; exact H]).
  - split; [|intros [hh [tx [E _]]]; discriminate]. destruct (snd (step le t _ sc)); discriminate.
Qed.

(* C09 "never earlier, never touching other users", run level: at every moment of every run, a user row that is
   there before the step is gone after it iff the step connects a block at height >= its expiry + grace; and its
   window is moved by nothing but its own granted renewal (window_after) *)
Theorem no_other_deletion_run le c h0 blocks t0 h pre o sc post u ui :
  init c h0 blocks = Some t0 -> NoDup (map fst blocks) -> N.of_nat (length blocks) <= h0 ->
  in_envelope le t0 h = true -> chain_disciplined le t0 h = true ->
  h = pre ++ (o, sc) :: post ->
  let t := fst (run le t0 pre) in
  let t' := fst (run le t0 (pre ++ [(o, sc)])) in
  aget (db_users t) u = Some ui ->
  (aget (db_users t') u = None <->
   exists hash txs, o = OConnect hash txs /\ u_expiry ui + c_delta c <= gk_height t + 1) /\
  window t' u = window_after t o (snd (step le t o sc)) u.
Proof.
  intros Hi Hnd Hlen He Hc E t t' Hu.
  destruct (reach_cut le c h0 blocks t0 h pre o sc post Hi Hnd Hlen He Hc E) as [F1 F2 F3 F4 F5 F6 F7 F8 F9].
  unfold t'. rewrite F6. fold t.
  assert (Hcfg : cfg t = c) by (unfold t; rewrite (run_cfg le pre t0 F1); apply (init_fields c h0 blocks t0 Hi)).
  rewrite <- Hcfg. split; [exact (user_deleted_only_by_purge le t o sc u ui F2 F3 Hu)|exact (window_step le t o sc u F2 F3)].
Qed.

(* ------------------------------------------------------------------------------------------ *)
(* 4. C02 *)

(* every K_send of every step of every run is justified (the four-way form, whose hypotheses Inv and
   reorged_tracked hold in every reachable state) *)
Theorem every_send_justified_run le c h0 blocks t0 h pre o sc post :
  init c h0 blocks = Some t0 -> NoDup (map fst blocks) -> N.of_nat (length blocks) <= h0 ->
  in_envelope le t0 h = true -> chain_disciplined le t0 h = true ->
  h = pre ++ (o, sc) :: post ->
  let t := fst (run le t0 pre) in
  forall e, In e (rpc_log (fst (run le t0 (pre ++ [(o, sc)])))) -> r_kind e = K_send ->
            TowerBreach.just_send4 t o (r_tx e).
Proof.
  intros Hi Hnd Hlen He Hc E t e Hin Hk.
  destruct (reach_cut le c h0 blocks t0 h pre o sc post Hi Hnd Hlen He Hc E) as [F1 F2 F3 F4 F5 F6 F7 F8 F9].
  rewrite F6 in Hin. fold t in Hin.
  exact (TowerBreach.every_send_justified_all le t o sc _ _ (bi_inv _ F2)
           (TowerBreach.reorged_tracked_reachable le c h0 blocks t0 pre Hi F1) (step_eq le t o sc) e Hin Hk).
Qed.

(* a run without any trigger: no block carries the locator of a row stored at that moment, no add_appointment
   arrives for a locator the watcher's cache holds *)
Definition no_trigger_at (t : tower) (o : op) : bool :=
  match o with
  | OConnect _ txs => forallb (fun a => negb (memN (a_loc a) txs)) (db_apps t)
  | OAdd _ loc _ _ _ => match ti_get (w_cache t) loc with None => true | Some _ => false end
  | _ => true
  end.

Fixpoint no_trigger_run (le : bool) (t : tower) (h : list (op * script)) : bool :=
  match h with
  | [] => true
  | (o, sc) :: r => no_trigger_at t o && no_trigger_run le (fst (step le t o sc)) r
  end.

Lemma nil_of_no_mem {A} (l : list A) : (forall x, ~ In x l) -> l = [].
Proof. destruct l as [|x l]; [reflexivity|]. intros H. exfalso. apply (H x). left. reflexivity. Qed.

(* ONE STEP without trigger from a state without trackers: no tracker afterwards, and not a single
   sendrawtransaction *)
Lemma quiet_without_trigger le t o sc t' x :
  Inv t -> TowerBreach.reorged_tracked t -> db_trks t = [] -> no_trigger_at t o = true ->
  step le t o sc = (t', x) -> not_abort x ->
  db_trks t' = [] /\ forall e, In e (rpc_log t') -> r_kind e <> K_send.
Proof.
  intros HI HR Hk0 Hnt Hstep Hna. split.
  - destruct o as [u|signer loc b delay sig|signer loc|signer|hash txs|].
    + cbn [step] in Hstep. pose proof (TowerBreach.add_update_user_trks (set_rpc_log t []) u) as Hl.
      destruct (gk_add_update_user (set_rpc_log t []) u); cbn [wrap] in Hstep; injection Hstep as <- <-;
        destruct Hl as [Hl _]; rewrite Hl; exact Hk0.
    + cbn [step] in Hstep. change (set_rpc_log t []) with (fresh t) in Hstep.
      destruct (w_add_appointment sc (fresh t) signer loc b delay sig) as [r t1|] eqn:Ew; cbn [wrap] in Hstep;
        injection Hstep as <- <-; [|destruct Hna].
      cbn [no_trigger_at] in Hnt. destruct (ti_get (w_cache t) loc) eqn:Ec; [discriminate|].
      pose proof (TowerBreach.add_appointment_stored sc (fresh t) signer loc b delay sig r t1 (inv_user_rows (fresh t) (TowerBreach.inv_fresh t HI)) Ec Ew) as H.
      destruct r; try (rewrite H; exact Hk0). destruct H as [u [_ [_ [_ [_ [_ [H _]]]]]]]. rewrite H. exact Hk0.
    + destruct (get_unchanged le t sc signer loc) as [r Hr]. rewrite Hr in Hstep. injection Hstep as <- <-. exact Hk0.
    + destruct (getsub_unchanged le t sc signer) as [r Hr]. rewrite Hr in Hstep. injection Hstep as <- <-. exact Hk0.
    + destruct (TowerBreach.connect_ok le t hash txs sc t' x Hstep Hna) as [tg [tw [Eg [Ew Er]]]].
      assert (HIf : Inv (fresh t)) by (apply TowerBreach.inv_fresh; exact HI).
      assert (HIg : Inv tg).
      { pose proof (gk_block_connected_pres Inv (sa_block Inv inv_stable) (fresh t) (gk_height t + 1) HIf) as Hp. rewrite Eg in Hp. exact Hp. }
      destruct (TowerBreach.gk_block_connected_spec _ _ _ Eg) as [out [_ [_ [Hag [Hkg _]]]]].
      cbn [db_apps db_trks fresh set_rpc_log] in Hag, Hkg. rewrite Hk0 in Hkg. cbn [filter] in Hkg.
      destruct (TowerBreach.w_block_connected_frame sc tg hash txs (gk_height t + 1) tw HIg Ew) as [_ [_ [_ [_ [_ [_ [_ [_ [_ [_ [Hnewk _]]]]]]]]]]].
      assert (Hkw : db_trks tw = []).
      { apply nil_of_no_mem. intros k Hk. destruct (Hnewk k Hk) as [Hold|[a [Ha Hm]]]; [rewrite Hkg in Hold; exact Hold|].
        destruct Hm as [HD _]. rewrite Hag in Ha. apply filter_In in Ha. destruct Ha as [Ha _].
        cbn [no_trigger_at] in Hnt. rewrite forallb_forall in Hnt. specialize (Hnt a Ha).
        apply negb_true_iff in Hnt. apply memN_In in HD. congruence. }
      apply nil_of_no_mem. intros k Hk.
      assert (Hn : find_trk (db_trks tw) (trk_uuid k) = None) by (rewrite Hkw; reflexivity).
      destruct (TowerBreach.responder_keeps_untracked le sc tw hash txs (gk_height t + 1) t' (trk_uuid k) Er Hn) as [Hn' _].
      exact (TowerBreach.find_trk_In _ _ Hk Hn').
    + cbn [step] in Hstep. destruct (last_hash (set_rpc_log t [])) as [hash|].
      * pose proof (TowerBreach.disconnect_reorged hash (gk_height (set_rpc_log t [])) (set_rpc_log t [])) as Hl.
        destruct (run_listeners _ _ _); cbn [wrap] in Hstep; injection Hstep as <- <-; [|destruct Hna].
        destruct Hl as [Hl _]. rewrite Hl. exact Hk0.
      * injection Hstep as <- <-. exact Hk0.
  - intros e He Hk. destruct (TowerBreach.every_send_justified_all le t o sc t' x HI HR Hstep e He Hk)
      as [[hash [txs [a [-> [Ha [Hl _]]]]]]|[[k [Hkin _]]|[[k [Hkin _]]|[u [loc [b [delay [sig [d [-> [Hc _]]]]]]]]]]].
    + cbn [no_trigger_at] in Hnt. rewrite forallb_forall in Hnt. specialize (Hnt a Ha).
      apply negb_true_iff in Hnt. apply memN_In in Hl. congruence.
    + rewrite Hk0 in Hkin. exact Hkin.
    + rewrite Hk0 in Hkin. exact Hkin.
    + cbn [no_trigger_at] in Hnt. rewrite Hc in Hnt. discriminate.
Qed.

Theorem no_send_without_breach_from le : forall h t,
  BigInv t -> TowerBreach.reorged_tracked t -> db_trks t = [] ->
  in_envelope le t h = true -> chain_disciplined le t h = true -> no_trigger_run le t h = true ->
  forall pre o sc post, h = pre ++ (o, sc) :: post ->
    db_trks (fst (run le t pre)) = [] /\
    db_trks (fst (step le (fst (run le t pre)) o sc)) = [] /\
    forall e, In e (rpc_log (fst (step le (fst (run le t pre)) o sc))) -> r_kind e <> K_send.
Proof.
  induction h as [|[o0 sc0] h IH]; intros t HB HR Hk0 He Hc Hn pre o sc post E; [destruct pre; discriminate|].
  cbn [in_envelope chain_disciplined no_trigger_run] in He, Hc, Hn. apply andb_true_iff in He, Hc, Hn.
  destruct He as [He1 He2]. destruct Hc as [Hc1 Hc2]. destruct Hn as [Hn1 Hn2].
  pose proof (step_never_aborts le t o0 sc0 HB He1) as Hna. pose proof (step_big le t o0 sc0 HB He1 Hc1) as HB1.
  destruct (quiet_without_trigger le t o0 sc0 _ _ (bi_inv t HB) HR Hk0 Hn1 (step_eq le t o0 sc0) Hna) as [Hk1 Hq].
  destruct pre as [|[o1 sc1] pre]; cbn [List.app] in E.
  - injection E as E1 E2 E3. subst o0 sc0 h. cbn [run fst]. auto.
  - injection E as E1 E2 E3. subst o1 sc1 h. rewrite (run_cons_ok le t o0 sc0 pre Hna). cbn [fst].
    apply (IH _ HB1 (TowerBreach.reorged_tracked_step le t o0 sc0 _ _ HR (step_eq le t o0 sc0) Hna) Hk1 He2 Hc2 Hn2 pre o sc post eq_refl).
Qed.

(* C02, run level: in a run that contains no block carrying a stored locator and no add_appointment for a cached
   locator, no tracker is ever created and no sendrawtransaction is ever issued — in particular none for the penalty
   of any stored (never triggered) appointment *)
Theorem no_send_without_breach_run le c h0 blocks t0 h pre o sc post :
  init c h0 blocks = Some t0 -> NoDup (map fst blocks) -> N.of_nat (length blocks) <= h0 ->
  in_envelope le t0 h = true -> chain_disciplined le t0 h = true -> no_trigger_run le t0 h = true ->
  h = pre ++ (o, sc) :: post ->
  let t := fst (run le t0 pre) in
  let t' := fst (run le t0 (pre ++ [(o, sc)])) in
  db_trks t = [] /\ db_trks t' = [] /\
  (forall e, In e (rpc_log t') -> r_kind e <> K_send) /\
  (forall a p, In a (db_apps t) -> decrypt (a_blob a) (a_loc a) = Some p -> forall r, ~ In (mk_rpc K_send p r) (rpc_log t')).
Proof.
  intros Hi Hnd Hlen He Hc Hn E t t'. pose proof (big_init c h0 blocks t0 Hi Hnd Hlen) as HB.
  destruct (init_fields c h0 blocks t0 Hi) as [_ [_ [Hk0 [Hr0 _]]]].
  assert (HR : TowerBreach.reorged_tracked t0) by (intros u Hu; rewrite Hr0 in Hu; destruct Hu).
  destruct (no_send_without_breach_from le h t0 HB HR Hk0 He Hc Hn pre o sc post E) as [A [B C]].
  destruct (reach_cut le c h0 blocks t0 h pre o sc post Hi Hnd Hlen He Hc E) as [F1 F2 F3 F4 F5 F6 F7 F8 F9].
  unfold t'. rewrite F6. split; [exact A|]. split; [exact B|]. split; [exact C|].
  intros a p _ _ r Hin. exact (C _ Hin eq_refl).
Qed.
