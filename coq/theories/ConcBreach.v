(* ConcBreach.v — C10, no missed breach:  add_appointment  ||  the block that carries its dispute.
   For ALL schedules of the two thread programs (event granularity): if the request is accepted and
   both threads return, the final state has a tracker for the appointment, or its row is gone
   (dropped as undecryptable / rejected, or deleted with its owner), or the node said 'already in
   chain' (-27) for its penalty.  Never "stored and unwatched".

   The proof is an Owicki-Gries style invariant over the two residual programs.  It USES that in
   add_appointment the locator-cache guard spans the look-up AND the store:
     - `alook` describes the residual right after `Acq locator_cache`: the look-up, and then, still
       under the lock, either the triggered path (which resolves the appointment itself: `estab`)
       or the store (`amiss`: the lock is released only after the row is in the table);
     - while the request is on the miss path it holds the cache lock, so the block's cache update
       (`csec`, executed under the same lock) cannot happen (mutual exclusion, `excl`): when it
       does happen the request has either not looked up yet (it will hit) or is done — and then the
       rest of the block runs alone and the sequential argument (`solo`) applies.
   With a guard that is dropped between look-up and store, `apre add_p` (lemma add_outline) is
   not provable: the miss path would not satisfy `amiss`. *)
From TeosModel Require Import Base ListAux TxIndex TxIndexProofs Tower TowerStable TowerInv TowerProofs TowerBreach Crash ConcTower ConcTowerProofs.
From TeosModel.Gen Require Consts.
From Coq Require Import Lia.
Local Open Scope N_scope.

(* ------------------------------------------------------------------------------------------ *)
(* table look-ups under the primitive updates *)

Lemma find_app_filter_uuid' (D : list (N * N)) l u :
  find_app (filter (fun a => negb (mem_uuid (app_uuid a) D)) l) u = if mem_uuid u D then None else find_app l u.
Proof.
  unfold find_app. induction l as [|k l IH]; [destruct (mem_uuid u D); reflexivity|]. cbn [filter find].
  destruct (uuid_eqb (app_uuid k) u) eqn:E.
  - apply uuid_eqb_eq in E. rewrite E. destruct (mem_uuid u D) eqn:Em; cbn [negb]; [exact IH|].
    cbn [find]. rewrite E, uuid_eqb_refl. reflexivity.
  - destruct (mem_uuid (app_uuid k) D); cbn [negb]; [exact IH|]. cbn [find]. rewrite E. exact IH.
Qed.

Lemma find_trk_filter_uuid' (D : list (N * N)) l u :
  find_trk (filter (fun k => negb (mem_uuid (trk_uuid k) D)) l) u = if mem_uuid u D then None else find_trk l u.
Proof.
  unfold find_trk. induction l as [|k l IH]; [destruct (mem_uuid u D); reflexivity|]. cbn [filter find].
  destruct (uuid_eqb (trk_uuid k) u) eqn:E.
  - apply uuid_eqb_eq in E. rewrite E. destruct (mem_uuid u D) eqn:Em; cbn [negb]; [exact IH|].
    cbn [find]. rewrite E, uuid_eqb_refl. reflexivity.
  - destruct (mem_uuid (trk_uuid k) D); cbn [negb]; [exact IH|]. cbn [find]. rewrite E. exact IH.
Qed.

Lemma find_app_filter_user' (out : list N) l u :
  find_app (filter (fun a => negb (memN (a_user a) out)) l) u = if memN (snd u) out then None else find_app l u.
Proof.
  unfold find_app. induction l as [|k l IH]; [destruct (memN (snd u) out); reflexivity|]. cbn [filter find].
  destruct (uuid_eqb (app_uuid k) u) eqn:E.
  - apply uuid_eqb_eq in E. assert (Hu : a_user k = snd u) by (rewrite <- E; reflexivity). rewrite Hu.
    destruct (memN (snd u) out) eqn:Em; cbn [negb]; [exact IH|].
    cbn [find]. rewrite E, uuid_eqb_refl. reflexivity.
  - destruct (memN (a_user k) out); cbn [negb]; [exact IH|]. cbn [find]. rewrite E. exact IH.
Qed.

Lemma find_trk_filter_user' (out : list N) l u :
  find_trk (filter (fun k => negb (memN (t_user k) out)) l) u = if memN (snd u) out then None else find_trk l u.
Proof.
  unfold find_trk. induction l as [|k l IH]; [destruct (memN (snd u) out); reflexivity|]. cbn [filter find].
  destruct (uuid_eqb (trk_uuid k) u) eqn:E.
  - apply uuid_eqb_eq in E. assert (Hu : t_user k = snd u) by (rewrite <- E; reflexivity). rewrite Hu.
    destruct (memN (snd u) out) eqn:Em; cbn [negb]; [exact IH|].
    cbn [find]. rewrite E, uuid_eqb_refl. reflexivity.
  - destruct (memN (t_user k) out); cbn [negb]; [exact IH|]. cbn [find]. rewrite E. exact IH.
Qed.

Lemma find_trk_map' (f : trk -> trk) l u :
  (forall k, trk_uuid (f k) = trk_uuid k) -> find_trk (map f l) u = option_map f (find_trk l u).
Proof.
  intros Hf. unfold find_trk. induction l as [|k l IH]; [reflexivity|]. cbn [map find].
  rewrite Hf. destruct (uuid_eqb (trk_uuid k) u); [reflexivity|exact IH].
Qed.

Lemma find_trk_snoc l k u :
  find_trk (l ++ [k]) u = match find_trk l u with Some x => Some x | None => if uuid_eqb (trk_uuid k) u then Some k else None end.
Proof.
  unfold find_trk. induction l as [|x l IH]; cbn [List.app find]; [reflexivity|].
  destruct (uuid_eqb (trk_uuid x) u); [reflexivity|exact IH].
Qed.

Lemma find_trk_status trks uuid h c u :
  find_trk (map (fun k => if uuid_eqb (trk_uuid k) uuid
                          then mk_trk (t_loc k) (t_user k) (t_dispute k) (t_penalty k) h c else k) trks) u <> None <->
  find_trk trks u <> None.
Proof.
  rewrite find_trk_map'.
  - destruct (find_trk trks u); cbn; split; congruence.
  - intros k. destruct (uuid_eqb (trk_uuid k) uuid); reflexivity.
Qed.

(* ------------------------------------------------------------------------------------------ *)

Section Breach.
  Context (le : bool) (sc : script) (t0 : tower).
  Context (u loc : N) (b : blob).
  Let uuid : N * N := (loc, u).

  (* the node answered 'already in chain' (or such a verdict is memoised from before) *)
  Definition irrev (p : N) : Prop :=
    snd (script_get sc p) = A_code Consts.RPC_VERIFY_ALREADY_IN_CHAIN \/ aget (car_memo t0) p = Some IrrevocablyResolved.
  Definition exc : Prop := exists p, b_pay b = Some p /\ irrev p.

  Definition good (t : tower) : Prop := find_app (db_apps t) uuid = None \/ find_trk (db_trks t) uuid <> None.
  Definition ge (t : tower) : Prop := good t \/ exc.
  Definition memo_ok (t : tower) : Prop := forall p, aget (car_memo t) p = Some IrrevocablyResolved -> irrev p.
  Definition rowA (t : tower) : Prop :=
    find_app (db_apps t) uuid = None \/ exists a', find_app (db_apps t) uuid = Some a' /\ a_blob a' = b.

  Lemma memo_ok_init : memo_ok t0.
  Proof. intros p H. right. exact H. Qed.

  (* ---- the three predicates under the primitive updates ---- *)
  Definition same_rows (t t' : tower) : Prop := db_apps t' = db_apps t /\ db_trks t' = db_trks t.

  Lemma good_same t t' : same_rows t t' -> good t -> good t'.
  Proof. intros [Ha Ht]. unfold good. rewrite Ha, Ht. tauto. Qed.
  Lemma rowA_same t t' : db_apps t' = db_apps t -> rowA t -> rowA t'.
  Proof. intros Ha. unfold rowA. rewrite Ha. tauto. Qed.
  Lemma memo_same t t' : car_memo t' = car_memo t -> memo_ok t -> memo_ok t'.
  Proof. intros Hm H p. rewrite Hm. apply H. Qed.

  Lemma good_delete t us : good t -> good (db_delete_apps t us).
  Proof.
    unfold good, db_delete_apps. cbn [db_apps db_trks set_db_apps set_db_trks].
    rewrite find_app_filter_uuid', find_trk_filter_uuid'. destruct (mem_uuid uuid us); [left; reflexivity|tauto].
  Qed.
  Lemma rowA_delete t us : rowA t -> rowA (db_delete_apps t us).
  Proof.
    unfold rowA, db_delete_apps. cbn [db_apps db_trks set_db_apps set_db_trks].
    rewrite find_app_filter_uuid'. destruct (mem_uuid uuid us); [left; reflexivity|tauto].
  Qed.
  Lemma good_deleted t us : mem_uuid uuid us = true -> good (db_delete_apps t us).
  Proof.
    intros H. left. unfold db_delete_apps. cbn [db_apps db_trks set_db_apps set_db_trks].
    rewrite find_app_filter_uuid', H. reflexivity.
  Qed.
  Lemma good_purge t out : good t -> good (db_delete_users t out).
  Proof.
    unfold good, db_delete_users. cbn [db_apps db_trks set_db_apps set_db_trks set_db_users].
    rewrite find_app_filter_user', find_trk_filter_user'. destruct (memN (snd uuid) out); [left; reflexivity|tauto].
  Qed.
  Lemma rowA_purge t out : rowA t -> rowA (db_delete_users t out).
  Proof.
    unfold rowA, db_delete_users. cbn [db_apps db_trks set_db_apps set_db_trks set_db_users].
    rewrite find_app_filter_user'. destruct (memN (snd uuid) out); [left; reflexivity|tauto].
  Qed.
  Lemma good_add_tracker t x d p s : good t -> good (r_add_tracker t x d p s).
  Proof.
    unfold good, r_add_tracker. intros H.
    destruct s as [hh|hh| |c]; try exact H;
      destruct (find_trk (db_trks t) x) eqn:Et; try exact H;
      destruct (find_app (db_apps t) x) eqn:Ea; try exact H;
      cbn [p_insert_trk db_apps db_trks set_db_trks]; (destruct H as [H|H]; [left; exact H|right]);
      rewrite find_trk_snoc; destruct (find_trk (db_trks t) uuid); congruence.
  Qed.
  (* the tracker of an accepted breach of OUR row: afterwards the appointment is watched (or gone) *)
  Lemma good_after_add_tracker t d p s : status_accepted s = true -> good (r_add_tracker t uuid d p s).
  Proof.
    intros Hs. unfold good, r_add_tracker.
    destruct s as [hh|hh| |c]; try discriminate;
      (destruct (find_trk (db_trks t) uuid) eqn:Et; [right; congruence|]);
      (destruct (find_app (db_apps t) uuid) eqn:Ea; [|left; exact Ea]);
      right; cbn [p_insert_trk db_trks set_db_trks]; rewrite find_trk_snoc, Et;
      cbn [trk_uuid t_loc t_user fst snd uuid]; unfold uuid_eqb; cbn [fst snd]; rewrite !N.eqb_refl; discriminate.
  Qed.
  Lemma good_trk_status t x hh c : good t -> good (set_trk_status t x hh c).
  Proof.
    unfold good, set_trk_status. cbn [db_apps db_trks set_db_trks]. intros [H|H]; [left; exact H|right].
    apply find_trk_status. exact H.
  Qed.

  Lemma refund_loop_rows us : forall t, same_rows t (state_of (refund_loop t us)).
  Proof.
    induction us as [|x us IH]; intros t; cbn [refund_loop state_of]; [split; reflexivity|].
    destruct (find_app (db_apps t) x) as [a|]; [|split; reflexivity].
    destruct (gk_get t (a_user a)) as [ui|]; [|split; reflexivity].
    destruct (u32_add (u_slots ui) (slots_of (b_len (a_blob a)))) as [s|]; [|split; reflexivity].
    destruct (IH (p_refund_user t (a_user a) ui s)) as [H1 H2]. split; [rewrite H1|rewrite H2]; reflexivity.
  Qed.

  Lemma good_gk_delete t us refund : good t -> good (state_of (gk_delete_appointments t us refund)).
  Proof.
    intros H. unfold gk_delete_appointments. destruct refund; cbn [state_of]; [|apply good_delete; exact H].
    pose proof (refund_loop_rows us t) as Hr. destruct (refund_loop t us) as [[] t1|s t1]; cbn [bind state_of] in *.
    - apply good_delete. eapply good_same; eauto.
    - eapply good_same; eauto.
  Qed.
  Lemma rowA_gk_delete t us refund : rowA t -> rowA (state_of (gk_delete_appointments t us refund)).
  Proof.
    intros H. unfold gk_delete_appointments. destruct refund; cbn [state_of]; [|apply rowA_delete; exact H].
    pose proof (refund_loop_rows us t) as [Hr _]. destruct (refund_loop t us) as [[] t1|s t1]; cbn [bind state_of] in *.
    - apply rowA_delete. eapply rowA_same; eauto.
    - eapply rowA_same; eauto.
  Qed.

  Lemma check_conf_rows le' txs' h' snap : forall t comp,
    let t' := state_of (check_conf_loop le' txs' h' snap t comp) in
    db_apps t' = db_apps t /\ (forall x, find_trk (db_trks t) x <> None -> find_trk (db_trks t') x <> None).
  Proof.
    induction snap as [|k snap IH]; intros t comp; cbn [check_conf_loop state_of]; [split; auto|].
    destruct (memN (t_penalty k) txs').
    - destruct (find_trk (db_trks t) (trk_uuid k)); [|split; auto].
      match goal with |- context [check_conf_loop _ _ _ _ ?t1 _] => destruct (IH t1 comp) as [H1 H2] end.
      split; [rewrite H1; reflexivity|]. intros x Hx. apply H2. cbn [db_trks set_reorged set_trk_status set_db_trks].
      apply find_trk_status. exact Hx.
    - destruct (mem_uuid (trk_uuid k) (reorged t)); [apply IH|]. destruct (t_conf k); apply IH.
  Qed.

  (* the carrier: an IrrevocablyResolved verdict comes from the node's -27 or from the memo *)
  Lemma send_status_irrev t p : send_status t (snd (script_get sc p)) = IrrevocablyResolved ->
                                snd (script_get sc p) = A_code Consts.RPC_VERIFY_ALREADY_IN_CHAIN.
  Proof.
    unfold send_status. destruct (snd (script_get sc p)) as [|c]; [discriminate|].
    destruct (Z.eqb c Consts.RPC_VERIFY_REJECTED); [discriminate|].
    destruct (Z.eqb c Consts.RPC_VERIFY_ERROR); [discriminate|].
    destruct (Z.eqb c Consts.RPC_VERIFY_ALREADY_IN_CHAIN) eqn:E; [|destruct (Z.eqb c Consts.RPC_DESERIALIZATION_ERROR); discriminate].
    apply Z.eqb_eq in E. subst c. reflexivity.
  Qed.

  Lemma memo_send t tx : memo_ok t -> memo_ok (snd (send_transaction sc t tx)).
  Proof.
    intros H. unfold send_transaction. destruct (aget (car_memo t) tx) eqn:E; cbn [snd]; [exact H|].
    intros p. cbn [car_memo set_car_memo log_rpc set_rpc_log aget].
    destruct (N.eqb p tx) eqn:Ep; [|apply H].
    apply N.eqb_eq in Ep. subst p. intros Hs. inversion Hs as [Hs']. left. eapply send_status_irrev. exact Hs'.
  Qed.

  Lemma send_irrev t tx : memo_ok t -> fst (send_transaction sc t tx) = IrrevocablyResolved -> irrev tx.
  Proof.
    intros H. unfold send_transaction. destruct (aget (car_memo t) tx) eqn:E; cbn [fst].
    - intros ->. apply H. exact E.
    - intros Hs. left. eapply send_status_irrev. exact Hs.
  Qed.

  (* ---- the guarantee of every action of the block event (and of the carrier/responder actions a
          request shares with it) ---- *)
  Definition G_keep : list lock -> tower -> tower -> Prop :=
    fun _ t t' => (good t -> good t') /\ (rowA t -> rowA t') /\ (memo_ok t -> memo_ok t').

  Ltac keep_same :=
    let Hq := fresh "Hq" in
    split; [intros Hq; eapply good_same; [split; reflexivity|exact Hq]
           |split; [intros Hq; eapply rowA_same; [reflexivity|exact Hq]|intros Hq; eapply memo_same; [reflexivity|exact Hq]]].

  Lemma G_keep_common : OblCommon G_keep sc.
  Proof.
    constructor; unfold G_keep; intros.
    - tauto.
    - split; [apply good_gk_delete|split; [apply rowA_gk_delete|]].
      intros Hm. eapply memo_same; [|exact Hm]. destruct (touches_delete t us refund) as [_ [_ [_ [_ [_ [_ [E _]]]]]]]. exact E.
    - unfold in_mempool. cbn [snd]. keep_same.
    - split; [|split; [|apply memo_send]].
      + intros Hg. eapply good_same; [|exact Hg]. unfold send_transaction. destruct (aget (car_memo t) tx); split; reflexivity.
      + intros Hg. eapply rowA_same; [|exact Hg]. unfold send_transaction. destruct (aget (car_memo t) tx); reflexivity.
    - split; [apply good_add_tracker|split].
      + intros Hr. eapply rowA_same; [|exact Hr]. unfold r_add_tracker.
        destruct s; try reflexivity; destruct (find_trk (db_trks t) uuid0); try reflexivity; destruct (find_app (db_apps t) uuid0); reflexivity.
      + intros Hm. eapply memo_same; [|exact Hm]. unfold r_add_tracker.
        destruct s; try reflexivity; destruct (find_trk (db_trks t) uuid0); try reflexivity; destruct (find_app (db_apps t) uuid0); reflexivity.
  Qed.

  Lemma G_keep_chain : OblChain G_keep.
  Proof.
    constructor; unfold G_keep; intros; try keep_same.
    - split; [apply good_purge|split; [apply rowA_purge|]]. intros Hm. eapply memo_same; [reflexivity|exact Hm].
    - split; [|split]; intros Hm; [eapply good_same; [split; reflexivity|exact Hm]|eapply rowA_same; [reflexivity|exact Hm]|].
      intros p. cbn. discriminate.
    - destruct (check_conf_rows le0 txs x (db_trks t) t []) as [Ha Ht].
      destruct (touches_check_conf le0 txs x (db_trks t) t []) as [_ [_ [_ [_ [_ [_ [_ [_ [_ [Em _]]]]]]]]]].
      split; [|split].
      + intros [Hg|Hg]; [left; rewrite Ha; exact Hg|right; apply Ht; exact Hg].
      + intros Hr. eapply rowA_same; [exact Ha|exact Hr].
      + intros Hm. eapply memo_same; [exact Em|exact Hm].
    - split; [apply good_trk_status|split]; intros Hm; [eapply rowA_same; [reflexivity|exact Hm]|eapply memo_same; [reflexivity|exact Hm]].
  Qed.

  (* ---- the sequential argument: the block's breach handling, run alone, resolves our row ---- *)

  Definition trk_mono (t t' : tower) : Prop := forall y, find_trk (db_trks t) y <> None -> find_trk (db_trks t') y <> None.

  Lemma add_tracker_apps t x d p s : db_apps (r_add_tracker t x d p s) = db_apps t.
  Proof. unfold r_add_tracker. destruct s; try reflexivity; destruct (find_trk (db_trks t) x); try reflexivity; destruct (find_app (db_apps t) x); reflexivity. Qed.
  Lemma add_tracker_memo t x d p s : car_memo (r_add_tracker t x d p s) = car_memo t.
  Proof. unfold r_add_tracker. destruct s; try reflexivity; destruct (find_trk (db_trks t) x); try reflexivity; destruct (find_app (db_apps t) x); reflexivity. Qed.
  Lemma add_tracker_mono t x d p s : trk_mono t (r_add_tracker t x d p s).
  Proof.
    intros y Hy. unfold r_add_tracker. destruct s; try exact Hy; destruct (find_trk (db_trks t) x); try exact Hy;
      destruct (find_app (db_apps t) x); try exact Hy; cbn [p_insert_trk db_trks set_db_trks];
      rewrite find_trk_snoc; destruct (find_trk (db_trks t) y); congruence.
  Qed.

  Lemma handle_breach_outcome t x d p s t' :
    r_handle_breach sc t x d p = Ok s t' -> memo_ok t ->
    db_apps t' = db_apps t /\ trk_mono t t' /\ memo_ok t' /\
    (x = uuid -> find_app (db_apps t) uuid <> None ->
     (status_accepted s = true /\ find_trk (db_trks t') uuid <> None) \/ status_rejected s = true \/ irrev p).
  Proof.
    unfold r_handle_breach. intros H Hm.
    assert (Hst : exists t1, (match ti_get (r_index t) p with
                              | Some bh => match ti_get_height (r_index t) bh with Some hh => Ok (ConfirmedIn (Z.to_N hh)) t | None => Abort S_r_get_height_unwrap t end
                              | None => let '(inm, t1) := in_mempool sc t p in
                                        if inm then Ok (InMempoolSince (car_height t1)) t1
                                        else let '(s, t2) := send_transaction sc t1 p in Ok s t2
                              end) = Ok s t1 /\
                       t' = (if status_accepted s then r_add_tracker t1 x d p s else t1) /\
                       db_apps t1 = db_apps t /\ db_trks t1 = db_trks t /\ memo_ok t1 /\
                       (status_accepted s = false -> status_rejected s = false -> irrev p)).
    { destruct (ti_get (r_index t) p) as [bh|].
      - destruct (ti_get_height (r_index t) bh) as [hh|]; [|discriminate]. cbn [bind] in H. inversion H; subst.
        exists t. repeat split; auto. discriminate.
      - destruct (in_mempool sc t p) as [inm t1] eqn:Ei.
        assert (E1 : db_apps t1 = db_apps t /\ db_trks t1 = db_trks t /\ car_memo t1 = car_memo t).
        { unfold in_mempool in Ei. inversion Ei. repeat split. }
        destruct E1 as [Ea [Et Em]].
        destruct inm.
        + cbn [bind] in H. inversion H; subst. exists t1. repeat split; auto; [eapply memo_same; eauto|discriminate].
        + destruct (send_transaction sc t1 p) as [s2 t2] eqn:Es. cbn [bind] in H. inversion H; subst.
          assert (Hm1 : memo_ok t1) by (eapply memo_same; eauto).
          exists t2. split; [reflexivity|]. split; [reflexivity|].
          assert (E2 : db_apps t2 = db_apps t1 /\ db_trks t2 = db_trks t1).
          { unfold send_transaction in Es. destruct (aget (car_memo t1) p); inversion Es; split; reflexivity. }
          destruct E2 as [Ea2 Et2]. split; [congruence|]. split; [congruence|]. split.
          * pose proof (memo_send t1 p Hm1) as Hx. rewrite Es in Hx. exact Hx.
          * intros Hna Hnr. apply (send_irrev t1 p Hm1). rewrite Es. cbn [fst].
            destruct s; try discriminate. reflexivity. }
    destruct Hst as [t1 [_ [-> [Ea [Et [Hm1 Hir]]]]]].
    destruct (status_accepted s) eqn:Eacc.
    - split; [rewrite add_tracker_apps; exact Ea|]. split.
      { intros y Hy. apply add_tracker_mono. rewrite Et. exact Hy. }
      split; [eapply memo_same; [apply add_tracker_memo|exact Hm1]|].
      intros -> Hrow. left. split; [reflexivity|].
      destruct (good_after_add_tracker t1 d p s Eacc) as [Hg|Hg]; [|exact Hg].
      rewrite add_tracker_apps, Ea in Hg. contradiction.
    - split; [exact Ea|]. split; [intros y Hy; rewrite Et; exact Hy|]. split; [exact Hm1|].
      intros _ _. destruct (status_rejected s) eqn:Erej; [right; left; reflexivity|right; right; apply Hir; reflexivity].
  Qed.

  Lemma decrypt_pay d p : decrypt b d = Some p -> b_pay b = Some p.
  Proof. unfold decrypt. destruct (N.eqb (b_key b) d); [auto|discriminate]. Qed.

  Lemma breach_uuid_loop_outcome d us : forall t inv inv' t',
    breach_uuid_loop sc d us t inv = Ok inv' t' -> memo_ok t ->
    db_apps t' = db_apps t /\ trk_mono t t' /\ memo_ok t' /\ incl inv inv' /\
    (In uuid us -> forall a', find_app (db_apps t) uuid = Some a' -> a_blob a' = b ->
                   find_trk (db_trks t') uuid <> None \/ In uuid inv' \/ exc).
  Proof.
    induction us as [|x us IH]; intros t inv inv' t' H Hm; cbn [breach_uuid_loop] in H.
    - inversion H; subst. split; [reflexivity|]. split; [intros y Hy; exact Hy|]. split; [exact Hm|]. split; [apply incl_refl|intros []].
    - destruct (find_app (db_apps t) x) as [a|] eqn:Ea.
      2:{ (* the row is gone when it is loaded: skipped *)
          destruct (IH t inv inv' t' H Hm) as [Ha2 [Hmono2 [Hm2 [Hincl Hrest]]]].
          split; [exact Ha2|]. split; [exact Hmono2|]. split; [exact Hm2|]. split; [exact Hincl|].
          intros [Hx|Hin] a' Hf Hb; [subst x; congruence|apply (Hrest Hin a' Hf Hb)]. }
      destruct (decrypt (a_blob a) d) as [p|] eqn:Ed.
      + destruct (r_handle_breach sc t x d p) as [s t1|s t1] eqn:Eh; [|discriminate]. cbn [bind] in H.
        destruct (handle_breach_outcome t x d p s t1 Eh Hm) as [Ha1 [Hmono1 [Hm1 Hout]]].
        destruct (IH t1 _ inv' t' H Hm1) as [Ha2 [Hmono2 [Hm2 [Hincl Hrest]]]].
        split; [congruence|]. split; [intros y Hy; apply Hmono2, Hmono1, Hy|]. split; [exact Hm2|].
        split; [intros z Hz; apply Hincl; destruct (status_rejected s); [apply in_or_app; left; exact Hz|exact Hz]|].
        intros [Hx|Hin] a' Hf Hb.
        * subst x. assert (a = a') by congruence. subst a'. rewrite Hb in Ed.
          destruct (Hout eq_refl) as [[_ Ht]|[Hr|Hi]]; [rewrite Hf; discriminate| | |].
          -- left. apply Hmono2. exact Ht.
          -- right. left. apply Hincl. rewrite Hr. apply in_or_app. right. left. reflexivity.
          -- right. right. exists p. split; [eapply decrypt_pay; eauto|exact Hi].
        * apply (Hrest Hin a'); [rewrite Ha1; exact Hf|exact Hb].
      + destruct (IH t _ inv' t' H Hm) as [Ha2 [Hmono2 [Hm2 [Hincl Hrest]]]].
        split; [exact Ha2|]. split; [exact Hmono2|]. split; [exact Hm2|].
        split; [intros z Hz; apply Hincl, in_or_app; left; exact Hz|].
        intros [Hx|Hin] a' Hf Hb.
        * subst x. right. left. apply Hincl, in_or_app. right. left. reflexivity.
        * apply (Hrest Hin a' Hf Hb).
  Qed.

  Lemma breach_loop_outcome ds : forall t inv inv' t',
    breach_loop sc ds t inv = Ok inv' t' -> memo_ok t ->
    db_apps t' = db_apps t /\ trk_mono t t' /\ memo_ok t' /\ incl inv inv' /\
    (In loc ds -> forall a', find_app (db_apps t) uuid = Some a' -> a_blob a' = b ->
                  find_trk (db_trks t') uuid <> None \/ In uuid inv' \/ exc).
  Proof.
    induction ds as [|d ds IH]; intros t inv inv' t' H Hm; cbn [breach_loop] in H.
    - inversion H; subst. split; [reflexivity|]. split; [intros y Hy; exact Hy|]. split; [exact Hm|]. split; [apply incl_refl|intros []].
    - destruct (breach_uuid_loop sc d (map app_uuid (filter (fun a => N.eqb (a_loc a) d) (db_apps t))) t inv) as [inv1 t1|s t1] eqn:Eu; [|discriminate].
      cbn [bind] in H.
      destruct (breach_uuid_loop_outcome d _ t inv inv1 t1 Eu Hm) as [Ha1 [Hmono1 [Hm1 [Hincl1 Hout1]]]].
      destruct (IH t1 inv1 inv' t' H Hm1) as [Ha2 [Hmono2 [Hm2 [Hincl2 Hout2]]]].
      split; [congruence|]. split; [intros y Hy; apply Hmono2, Hmono1, Hy|]. split; [exact Hm2|].
      split; [intros z Hz; apply Hincl2, Hincl1, Hz|].
      intros [Hd|Hin] a' Hf Hb.
      + subst d.
        assert (Hus : In uuid (map app_uuid (filter (fun a => N.eqb (a_loc a) loc) (db_apps t)))).
        { destruct (find_app_Some _ _ _ Hf) as [Hi Hu]. apply in_map_iff. exists a'. split; [exact Hu|].
          apply filter_In. split; [exact Hi|]. apply N.eqb_eq. unfold app_uuid in Hu. inversion Hu. reflexivity. }
        destruct (Hout1 Hus a' Hf Hb) as [Ht|[Hi|He]].
        * left. apply Hmono2. exact Ht.
        * right. left. apply Hincl2. exact Hi.
        * right. right. exact He.
      + apply (Hout2 Hin a'); [rewrite Ha1; exact Hf|exact Hb].
  Qed.

  Context (txs : list N) (Hloc : In loc txs).

  Lemma w_rest_outcome t h' :
    rowA t -> memo_ok t ->
    match exec (w_rest_p sc txs h') t with Ok _ t' => ge t' | Abort _ _ => True end.
  Proof.
    intros Hr Hm. rewrite exec_w_rest.
    destruct (breach_loop sc (find_breaches txs t) t []) as [inv t2|s t2] eqn:Eb; [|exact I]. cbn [bind].
    destruct (breach_loop_outcome _ t [] inv t2 Eb Hm) as [Ha [Hmono [Hm2 [_ Hout]]]].
    assert (Hres : find_app (db_apps t2) uuid = None \/ find_trk (db_trks t2) uuid <> None \/ mem_uuid uuid inv = true \/ exc).
    { destruct Hr as [Hn|[a' [Hf Hb]]]; [left; rewrite Ha; exact Hn|].
      assert (Hin : In loc (find_breaches txs t)).
      { unfold find_breaches. apply filter_In. split; [exact Hloc|]. apply existsb_exists.
        destruct (find_app_Some _ _ _ Hf) as [Hi Hu]. exists a'. split; [exact Hi|]. apply N.eqb_eq.
        unfold app_uuid in Hu. inversion Hu. reflexivity. }
      destruct (Hout Hin a' Hf Hb) as [Ht|[Hi|He]]; [right; left; exact Ht|right; right; left; apply mem_uuid_In; exact Hi|right; right; right; exact He]. }
    assert (Hfinal : forall t3, (match inv with [] => Ok tt t2 | l => gk_delete_appointments t2 l false end) = Ok tt t3 -> ge t3).
    { intros t3 E. destruct inv as [|x inv].
      - inversion E; subst. destruct Hres as [Hn|[Ht|[Hi|He]]]; [left; left; exact Hn|left; right; exact Ht|discriminate|right; exact He].
      - unfold gk_delete_appointments in E. inversion E; subst.
        destruct Hres as [Hn|[Ht|[Hi|He]]].
        + left. apply good_delete. left. exact Hn.
        + left. apply good_delete. right. exact Ht.
        + left. apply good_deleted. exact Hi.
        + right. exact He. }
    destruct (match inv with [] => Ok tt t2 | l => gk_delete_appointments t2 l false end) as [[] t3|s t3] eqn:Ed; [|exact I].
    cbn [bind]. specialize (Hfinal t3 eq_refl). destruct Hfinal as [Hg|He]; [left|right; exact He].
    eapply good_same; [|exact Hg]. split; reflexivity.
  Qed.

  (* the responder's pass keeps the row resolved *)
  Lemma ge_stable_wr : StableWR ge.
  Proof.
    constructor.
    - intros t t' [_ [_ [_ [Ha Ht]]]] [Hg|He]; [left|right; exact He]. eapply good_same; [|exact Hg]. split; congruence.
    - intros t us [Hg|He]; [left; apply good_delete; exact Hg|right; exact He].
    - intros t v ui s [Hg|He] _; [left|right; exact He]. eapply good_same; [|exact Hg]. split; reflexivity.
    - intros t k [Hg|He] _ _; [left|right; exact He]. unfold p_insert_trk, good in *. cbn [db_apps db_trks set_db_trks].
      destruct Hg as [Hg|Hg]; [left; exact Hg|right]. rewrite find_trk_snoc. destruct (find_trk (db_trks t) uuid); congruence.
    - intros t x hh c [Hg|He]; [left; apply good_trk_status; exact Hg|right; exact He].
  Qed.

  Lemma r_connect_keeps_ge hash h' t :
    ge t -> match exec (r_connect_p le sc hash txs h') t with Ok _ t' => ge t' | Abort _ _ => True end.
  Proof.
    intros Hg. rewrite exec_r_connect.
    exact (r_block_connected_pres ge ge_stable_wr le sc t (index_block hash txs) h' Hg).
  Qed.

  (* ---------------------------------------------------------------------------------------- *)
  (* proof outlines as predicates on residual programs *)

  Fixpoint acts_rel {A} (R : tower -> tower -> Prop) (q : prog A) : Prop :=
    match q with
    | Ret _ => True
    | Acq _ k | Rel _ k => acts_rel R k
    | Act B f k => (forall t bb t', f t = Ok bb t' -> R t t') /\ forall bb, acts_rel R (k bb)
    end.

  Lemma guark_acts_rel (G : list lock -> tower -> tower -> Prop) (R : tower -> tower -> Prop) (q : prog out) :
    (forall hh t t', G hh t t' -> R t t') -> forall held K, guark G held q K -> acts_rel R q.
  Proof.
    intros HG. induction q as [o|l k IH|l k IH|B f k IH]; intros held K; cbn [guark acts_rel]; eauto.
    intros [H1 H2]. split.
    - intros t bb t' E. apply (HG held). specialize (H1 t). rewrite E in H1. exact H1.
    - intros bb. eapply IH. apply H2.
  Qed.

  Definition keeps {A} (P : tower -> Prop) : prog A -> Prop := acts_rel (fun t t' => P t -> P t').

  (* q will establish P by one of its actions (I holds whenever it acts) and keep it afterwards *)
  Fixpoint estab {A} (I P : tower -> Prop) (q : prog A) : Prop :=
    match q with
    | Ret _ => False
    | Acq _ k | Rel _ k => estab I P k
    | Act B f k => forall t, I t -> match f t with
                                    | Ok bb t' => (P t' /\ keeps P (k bb)) \/ estab I P (k bb)
                                    | Abort _ _ => True
                                    end
    end.
  Definition will (I P : tower -> Prop) (q : prog out) (t : tower) : Prop := estab I P q \/ (P t /\ keeps P q).

  Lemma keeps_bind {A C} (P : tower -> Prop) (p : prog A) (g : A -> prog C) :
    keeps P p -> (forall a, keeps P (g a)) -> keeps P (pbind p g).
  Proof.
    unfold keeps. induction p as [a|l k IH|l k IH|B f k IH]; intros Hp Hg; cbn [pbind acts_rel] in *; auto.
    destruct Hp as [H1 H2]. split; [exact H1|intros bb; apply IH; [apply H2|exact Hg]].
  Qed.
  Lemma estab_bind {A C} (I P : tower -> Prop) (p : prog A) (g : A -> prog C) :
    estab I P p -> (forall a, keeps P (g a)) -> estab I P (pbind p g).
  Proof.
    induction p as [a|l k IH|l k IH|B f k IH]; intros Hp Hg; cbn [pbind estab] in *; auto; [destruct Hp|].
    intros t Ht. specialize (Hp t Ht). destruct (f t) as [bb t'|]; [|exact Hp].
    destruct Hp as [[HP Hk]|He]; [left; split; [exact HP|apply keeps_bind; assumption]|right; apply IH; assumption].
  Qed.

  Lemma will_acq I P l k t : will I P (Acq l k) t -> will I P k t.
  Proof. intros H. exact H. Qed.
  Lemma will_rel I P l k t : will I P (Rel l k) t -> will I P k t.
  Proof. intros H. exact H. Qed.
  Lemma will_act I P B (f : tower -> res B) k t bb t' : will I P (Act B f k) t -> I t -> f t = Ok bb t' -> will I P (k bb) t'.
  Proof.
    intros [H|[HP [H1 H2]]] HI E.
    - cbn [estab] in H. specialize (H t HI). rewrite E in H. destruct H as [H|H]; [right; exact H|left; exact H].
    - right. split; [eapply H1; eauto|apply H2].
  Qed.
  Lemma will_env I P q t t' : will I P q t -> (P t -> P t') -> will I P q t'.
  Proof. intros [H|[HP Hk]] HPP; [left; exact H|right; split; [apply HPP; exact HP|exact Hk]]. Qed.
  Lemma will_ret I P o t : will I P (Ret o) t -> P t.
  Proof. intros [[]|[H _]]. exact H. Qed.

  Definition has_loc (t : tower) : Prop := ti_get (w_cache t) loc <> None.
  Definition same_cache (t t' : tower) : Prop := w_cache t' = w_cache t.

  (* ---- the request ---- *)
  Definition RA (t t' : tower) : Prop := w_cache t' = w_cache t /\ (memo_ok t -> memo_ok t').

  (* the miss path: the cache lock is released last, just before returning *)
  Fixpoint amiss (q : prog out) : Prop :=
    match q with
    | Ret _ => True
    | Acq l k => N.eqb l L_cache = false /\ amiss k
    | Rel l k => if N.eqb l L_cache then exists o, k = Ret o else amiss k
    | Act B f k => forall bb, amiss (k bb)
    end.

  (* right after `Acq locator_cache`: the look-up; a hit leads to a path that resolves the appointment
     by itself, a miss to a path that stores the row and only then releases the lock *)
  Definition alook (k : prog out) : Prop :=
    match k with
    | Act B f k' => forall t, exists bb, f t = Ok bb t /\
                      (has_loc t -> estab memo_ok ge (k' bb)) /\
                      (~ has_loc t -> estab (fun _ => True) rowA (k' bb) /\ amiss (k' bb))
    | _ => False
    end.

  (* before the cache section (a reply other than "accepted" may be returned from here) *)
  Fixpoint apre (q : prog out) : Prop :=
    match q with
    | Ret o => match o with OAddRes (AddOk _ _ _ _) => False | _ => True end
    | Acq l k => if N.eqb l L_cache then alook k else apre k
    | Rel _ k => apre k
    | Act B f k => forall t bb t', f t = Ok bb t' -> apre (k bb)
    end.

  (* ---- the block ---- *)
  Context (hash h : N).
  Context (Hcache : forall c, ti_update (w_cache t0) (cache_block hash txs) = Some c -> ti_get c loc <> None).

  Definition RC (t t' : tower) : Prop := (good t -> good t') /\ (rowA t -> rowA t') /\ (memo_ok t -> memo_ok t').

  Definition solo (q : prog out) (t : tower) : Prop := match exec q t with Ok _ tf => ge tf | Abort _ _ => True end.

  Definition crel (q : prog out) : Prop :=
    match q with Rel l k => l = L_cache /\ acts_rel same_cache k | _ => False end.

  (* holding the cache lock, about to update it *)
  Definition csec (q : prog out) : Prop :=
    match q with
    | Act B f k' => forall t, w_cache t = w_cache t0 ->
                      match f t with
                      | Ok bb t' => has_loc t' /\ crel (k' bb) /\ (rowA t' -> memo_ok t' -> solo (k' bb) t')
                      | Abort _ _ => True
                      end
    | _ => False
    end.

  Fixpoint cpre (q : prog out) : Prop :=
    match q with
    | Ret _ => False
    | Acq l k => if N.eqb l L_cache then csec k else cpre k
    | Rel _ k => cpre k
    | Act B f k => (forall t bb t', f t = Ok bb t' -> same_cache t t') /\ forall bb, cpre (k bb)
    end.

  (* ---- the joint invariant ---- *)
  Definition holdsc (hh : list lock) : Prop := memN L_cache hh = true.
  Definition isret (q : prog out) : Prop := exists o, q = Ret o.

  Definition A4 (qa : prog out) (ha : list lock) (t : tower) : Prop :=
    will (fun _ => True) rowA qa t /\ ((holdsc ha /\ amiss qa) \/ isret qa).

  Definition Jph (qa : prog out) (ha : list lock) (qc : prog out) (hc : list lock) (t : tower) : Prop :=
     (cpre qc /\ w_cache t = w_cache t0 /\
        (apre qa \/ (alook qa /\ holdsc ha) \/ will memo_ok ge qa t \/ A4 qa ha t))
  \/ (csec qc /\ holdsc hc /\ w_cache t = w_cache t0 /\
        (apre qa \/ will memo_ok ge qa t \/ (isret qa /\ rowA t)))
  \/ (((crel qc /\ holdsc hc) \/ acts_rel same_cache qc) /\ has_loc t /\
        (apre qa \/ (alook qa /\ holdsc ha) \/ will memo_ok ge qa t \/ (isret qa /\ solo qc t))).

  Definition J (c : conf) : Prop :=
    exists qa ha tra qc hc trc,
      cf_threads c = [mk_cthread (Running qa) ha tra; mk_cthread (Running qc) hc trc] /\
      excl c /\ memo_ok (cf_tower c) /\ acts_rel RA qa /\ acts_rel RC qc /\
      Jph qa ha qc hc (cf_tower c).

  Definition is_abort (r : tout) : Prop :=
    match r with TPoisoned _ => True | TOut (OAbort _) => True | TOut _ => False end.
  Definition aborted (c : conf) : Prop :=
    exists i th r, nth_error (cf_threads c) i = Some th /\ ct_st th = Ended r /\ is_abort r.

  Lemma aborted_step c i c' : aborted c -> step_thread c i = Some c' -> aborted c'.
  Proof.
    intros [j [th [r [Hn [He Hab]]]]] Hs.
    destruct (step_thread_cases c i c' Hs) as [thi [p [Hni [Hst Hc]]]].
    assert (Hij : i <> j) by (intros ->; rewrite Hn in Hni; inversion Hni; subst; congruence).
    exists j, th, r. split; [|split; [exact He|exact Hab]].
    destruct Hc as [[l [k [_ [_ [_ ->]]]]]|[[l [k [_ [_ [_ ->]]]]]|[[l [k [_ ->]]]|[[B [f [k [bb [t' [_ [_ ->]]]]]]]|[B [f [k [s [t' [_ [_ ->]]]]]]]]]]];
      cbn [die cf_threads]; rewrite nth_error_set_nth_neq by exact Hij; exact Hn.
  Qed.

  Lemma holdsc_cons l hh : holdsc (l :: hh) <-> (l = L_cache \/ holdsc hh).
  Proof.
    unfold holdsc, memN. cbn [existsb]. rewrite orb_true_iff, N.eqb_eq. split; intros [H|H]; auto.
  Qed.
  Lemma holdsc_remove l hh : N.eqb l L_cache = false -> holdsc hh -> holdsc (remove_lock l hh).
  Proof.
    unfold holdsc, memN, remove_lock. intros Hl H. apply existsb_exists in H. destruct H as [x [Hx E]].
    apply existsb_exists. exists x. split; [|exact E]. apply filter_In. split; [exact Hx|].
    apply N.eqb_eq in E. subst x. rewrite N.eqb_sym, Hl. reflexivity.
  Qed.

  Lemma eqb_cache_dec l : (N.eqb l L_cache = true /\ l = L_cache) \/ N.eqb l L_cache = false.
  Proof. destruct (N.eqb l L_cache) eqn:E; [left; split; [reflexivity|apply N.eqb_eq; exact E]|right; reflexivity]. Qed.

  (* ---- the request moves ---- *)
  Lemma J_A_acq l k ha qc hc t :
    Jph (Acq l k) ha qc hc t -> (l = L_cache -> ~ holdsc hc) -> Jph k (l :: ha) qc hc t.
  Proof.
    intros H Hfree.
    assert (Hpre : apre (Acq l k) -> (l = L_cache -> ~ holdsc hc) -> apre k \/ (alook k /\ holdsc (l :: ha))).
    { cbn [apre]. intros Ha _. destruct (eqb_cache_dec l) as [[E ->]|E]; rewrite E in Ha; [right; split; [exact Ha|apply holdsc_cons; left; reflexivity]|left; exact Ha]. }
    assert (H4 : A4 (Acq l k) ha t -> A4 k (l :: ha) t).
    { intros [Hw [[Hh [Hl Hm]]|[o Ho]]]; [|discriminate]. split; [exact Hw|left; split; [apply holdsc_cons; right; exact Hh|exact Hm]]. }
    destruct H as [[Hc [Hw Ha]]|[[Hc [Hh [Hw Ha]]]|[Hc [Hl Ha]]]].
    - left. split; [exact Hc|]. split; [exact Hw|].
      destruct Ha as [Ha|[[[] _]|[Ha|Ha]]]; [destruct (Hpre Ha Hfree) as [X|X]; [left; exact X|right; left; exact X]|right; right; left; exact Ha|right; right; right; apply H4; exact Ha].
    - right. left. split; [exact Hc|]. split; [exact Hh|]. split; [exact Hw|].
      destruct Ha as [Ha|[Ha|[[o Ho] _]]]; [|right; left; exact Ha|discriminate].
      cbn [apre] in Ha. destruct (eqb_cache_dec l) as [[E ->]|E]; [exfalso; apply (Hfree eq_refl Hh)|rewrite E in Ha; left; exact Ha].
    - right. right. split; [exact Hc|]. split; [exact Hl|].
      destruct Ha as [Ha|[[[] _]|[Ha|[[o Ho] _]]]]; [|right; right; left; exact Ha|discriminate].
      destruct (Hpre Ha Hfree) as [X|X]; [left; exact X|right; left; exact X].
  Qed.

  Lemma J_A_rel l k ha qc hc t : Jph (Rel l k) ha qc hc t -> Jph k (remove_lock l ha) qc hc t.
  Proof.
    intros H.
    assert (H4 : A4 (Rel l k) ha t -> A4 k (remove_lock l ha) t).
    { intros [Hw [[Hh Hm]|[o Ho]]]; [|discriminate]. split; [exact Hw|]. cbn [amiss] in Hm.
      destruct (eqb_cache_dec l) as [[E ->]|E]; rewrite E in Hm; [right; exact Hm|left; split; [apply holdsc_remove; assumption|exact Hm]]. }
    destruct H as [[Hc [Hw Ha]]|[[Hc [Hh [Hw Ha]]]|[Hc [Hl Ha]]]].
    - left. split; [exact Hc|]. split; [exact Hw|].
      destruct Ha as [Ha|[[[] _]|[Ha|Ha]]]; [left; exact Ha|right; right; left; exact Ha|right; right; right; apply H4; exact Ha].
    - right. left. split; [exact Hc|]. split; [exact Hh|]. split; [exact Hw|].
      destruct Ha as [Ha|[Ha|[[o Ho] _]]]; [left; exact Ha|right; left; exact Ha|discriminate].
    - right. right. split; [exact Hc|]. split; [exact Hl|].
      destruct Ha as [Ha|[[[] _]|[Ha|[[o Ho] _]]]]; [left; exact Ha|right; right; left; exact Ha|discriminate].
  Qed.

  Lemma has_loc_dec t : has_loc t \/ ~ has_loc t.
  Proof. unfold has_loc. destruct (ti_get (w_cache t) loc); [left; discriminate|right; intros H; apply H; reflexivity]. Qed.

  Lemma J_A_act B (f : tower -> res B) k' ha qc hc t bb t' :
    Jph (Act B f k') ha qc hc t -> memo_ok t -> f t = Ok bb t' -> RA t t' -> Jph (k' bb) ha qc hc t'.
  Proof.
    intros H Hm E [Hcache' _].
    assert (Hlook : alook (Act B f k') -> holdsc ha -> t' = t /\ ((has_loc t /\ will memo_ok ge (k' bb) t) \/ (~ has_loc t /\ A4 (k' bb) ha t))).
    { intros Hl Hh. cbn [alook] in Hl. destruct (Hl t) as [b0 [E0 [Hhit Hmiss]]]. rewrite E in E0. inversion E0; subst b0 t'.
      split; [reflexivity|]. destruct (has_loc_dec t) as [Hy|Hn].
      - left. split; [exact Hy|left; apply Hhit; exact Hy].
      - right. split; [exact Hn|]. destruct (Hmiss Hn) as [He Ha]. split; [left; exact He|left; split; [exact Hh|exact Ha]]. }
    assert (H4 : A4 (Act B f k') ha t -> A4 (k' bb) ha t').
    { intros [Hw [[Hh Hmi]|[o Ho]]]; [|discriminate]. split; [eapply will_act; eauto|left; split; [exact Hh|apply Hmi]]. }
    assert (Hhl : has_loc t -> has_loc t') by (unfold has_loc; rewrite Hcache'; auto).
    destruct H as [[Hc [Hw Ha]]|[[Hc [Hh [Hw Ha]]]|[Hc [Hl Ha]]]].
    - left. split; [exact Hc|]. split; [congruence|].
      destruct Ha as [Ha|[[Ha Hh]|[Ha|Ha]]].
      + left. eapply Ha. exact E.
      + destruct (Hlook Ha Hh) as [-> [[_ X]|[_ X]]]; [right; right; left; exact X|right; right; right; exact X].
      + right. right. left. eapply will_act; eauto.
      + right. right. right. apply H4. exact Ha.
    - right. left. split; [exact Hc|]. split; [exact Hh|]. split; [congruence|].
      destruct Ha as [Ha|[Ha|[[o Ho] _]]]; [left; eapply Ha; exact E|right; left; eapply will_act; eauto|discriminate].
    - right. right. split; [exact Hc|]. split; [apply Hhl; exact Hl|].
      destruct Ha as [Ha|[[Ha Hh]|[Ha|[[o Ho] _]]]]; [left; eapply Ha; exact E| |right; right; left; eapply will_act; eauto|discriminate].
      destruct (Hlook Ha Hh) as [-> [[_ X]|[Hn _]]]; [right; right; left; exact X|contradiction].
  Qed.

  (* ---- the block moves ---- *)
  Lemma solo_acq l k t : solo (Acq l k) t -> solo k t.
  Proof. intros H. exact H. Qed.
  Lemma solo_rel l k t : solo (Rel l k) t -> solo k t.
  Proof. intros H. exact H. Qed.
  Lemma solo_act B (f : tower -> res B) k' t bb t' : solo (Act B f k') t -> f t = Ok bb t' -> solo (k' bb) t'.
  Proof. unfold solo. cbn [exec]. intros H E. rewrite E in H. exact H. Qed.

  Lemma J_C_acq qa ha l k hc t :
    Jph qa ha (Acq l k) hc t -> (l = L_cache -> ~ holdsc ha) -> Jph qa ha k (l :: hc) t.
  Proof.
    intros H Hfree.
    destruct H as [[Hc [Hw Ha]]|[[[] _]|[[[[] _]|Hc] [Hl Ha]]]].
    - cbn [cpre] in Hc. destruct (eqb_cache_dec l) as [[E ->]|E]; rewrite E in Hc.
      + right. left. split; [exact Hc|]. split; [apply holdsc_cons; left; reflexivity|]. split; [exact Hw|].
        destruct Ha as [Ha|[[_ Hh]|[Ha|[Hw4 [[Hh _]|Hr]]]]];
          [left; exact Ha|exfalso; apply (Hfree eq_refl Hh)|right; left; exact Ha|exfalso; apply (Hfree eq_refl Hh)|].
        right. right. split; [exact Hr|]. destruct Hr as [o ->]. eapply will_ret; eauto.
      + left. split; [exact Hc|]. split; [exact Hw|exact Ha].
    - right. right. split; [right; exact Hc|]. split; [exact Hl|].
      destruct Ha as [Ha|[Ha|[Ha|[Hr Hs]]]]; [left; exact Ha|right; left; exact Ha|right; right; left; exact Ha|right; right; right; split; [exact Hr|exact Hs]].
  Qed.

  Lemma J_C_rel qa ha l k hc t : Jph qa ha (Rel l k) hc t -> Jph qa ha k (remove_lock l hc) t.
  Proof.
    intros H.
    destruct H as [[Hc [Hw Ha]]|[[[] _]|[Hc [Hl Ha]]]].
    - left. split; [exact Hc|]. split; [exact Hw|exact Ha].
    - right. right. split; [right; destruct Hc as [[[_ Hc] _]|Hc]; exact Hc|]. split; [exact Hl|].
      destruct Ha as [Ha|[Ha|[Ha|[Hr Hs]]]]; [left; exact Ha|right; left; exact Ha|right; right; left; exact Ha|right; right; right; split; [exact Hr|exact Hs]].
  Qed.

  Lemma J_C_act qa ha B (f : tower -> res B) k' hc t bb t' :
    Jph qa ha (Act B f k') hc t -> f t = Ok bb t' -> RC t t' -> memo_ok t' -> Jph qa ha (k' bb) hc t'.
  Proof.
    intros H E [Hg [Hr Hmm]] Hm'.
    assert (Hge : ge t -> ge t') by (intros [X|X]; [left; apply Hg; exact X|right; exact X]).
    destruct H as [[Hc [Hw Ha]]|[[Hc [Hh [Hw Ha]]]|[[[[] _]|Hc] [Hl Ha]]]].
    - destruct Hc as [Hsame Hc]. left. split; [apply Hc|]. split; [rewrite (Hsame t bb t' E); exact Hw|].
      destruct Ha as [Ha|[Ha|[Ha|[Hw4 Hrest]]]]; [left; exact Ha|right; left; exact Ha|right; right; left; eapply will_env; eauto|].
      right. right. right. split; [eapply will_env; eauto|exact Hrest].
    - cbn [csec] in Hc. specialize (Hc t Hw). rewrite E in Hc. destruct Hc as [Hl [Hcr Hsolo]].
      right. right. split; [left; split; [exact Hcr|exact Hh]|]. split; [exact Hl|].
      destruct Ha as [Ha|[Ha|[Hret Hrow]]]; [left; exact Ha|right; right; left; eapply will_env; eauto|].
      right. right. right. split; [exact Hret|]. apply Hsolo; [apply Hr; exact Hrow|exact Hm'].
    - destruct Hc as [Hsame Hc]. right. right. split; [right; apply Hc|]. split; [unfold has_loc; rewrite (Hsame t bb t' E); exact Hl|].
      destruct Ha as [Ha|[Ha|[Ha|[Hret Hs]]]]; [left; exact Ha|right; left; exact Ha|right; right; left; eapply will_env; eauto|].
      right. right. right. split; [exact Hret|eapply solo_act; eauto].
  Qed.

  (* ---- every step of either thread keeps the invariant (or somebody has panicked) ---- *)
  Lemma J_step c i c' : J c -> step_thread c i = Some c' -> J c' \/ aborted c'.
  Proof.
    intros [qa [ha [tra [qc [hc [trc [Hth [Hex [Hm [HRA [HRC Hph]]]]]]]]]]] Hs.
    pose proof (excl_step c i c' Hex Hs) as Hex'.
    destruct (step_thread_cases c i c' Hs) as [th [p [Hn [Hst Hc]]]].
    rewrite Hth in Hn.
    assert (Hheld : forall l, is_held c l = false -> (l = L_cache -> ~ holdsc ha) /\ (l = L_cache -> ~ holdsc hc)).
    { intros l Hf. unfold is_held in Hf. rewrite Hth in Hf. cbn [existsb holds ct_held] in Hf.
      apply orb_false_iff in Hf. destruct Hf as [H1 H2]. apply orb_false_iff in H2. destruct H2 as [H2 _].
      unfold holds in H1, H2. cbn [ct_held] in H1, H2. split; intros -> Hh; unfold holdsc in Hh; congruence. }
    destruct i as [|[|i]]; cbn [nth_error] in Hn; [| |destruct i; discriminate].
    - (* the request moves *)
      inversion Hn; subst th. cbn [ct_st ct_held ct_trace] in *. inversion Hst; subst p. clear Hst Hn.
      destruct Hc as [[l [k [-> [Hfree [_ ->]]]]]|[[l [k [-> [_ [_ ->]]]]]|[[l [k [-> ->]]]|[[B [f [k [bb [t' [-> [Hf ->]]]]]]]|[B [f [k [s [t' [-> [Hf ->]]]]]]]]]]].
      all: try (unfold die in Hex'; rewrite Hth in Hex'; cbn [set_nth] in Hex').
      + left. exists k, (l :: ha), (l :: tra), qc, hc, trc. rewrite Hth. cbn [set_nth cf_threads cf_tower].
        split; [reflexivity|]. split; [exact Hex'|]. split; [exact Hm|]. split; [exact HRA|]. split; [exact HRC|].
        apply J_A_acq; [exact Hph|]. apply (Hheld l Hfree).
      + right. exists 0%nat. eexists. eexists. unfold die. rewrite Hth. cbn [cf_threads set_nth nth_error]. split; [reflexivity|split; [reflexivity|exact I]].
      + left. exists k, (remove_lock l ha), tra, qc, hc, trc. rewrite Hth. cbn [set_nth cf_threads cf_tower].
        split; [reflexivity|]. split; [exact Hex'|]. split; [exact Hm|]. split; [exact HRA|]. split; [exact HRC|].
        apply J_A_rel. exact Hph.
      + destruct HRA as [HR1 HR2]. pose proof (HR1 _ _ _ Hf) as HR.
        left. exists (k bb), ha, tra, qc, hc, trc. rewrite Hth. cbn [set_nth cf_threads cf_tower].
        split; [reflexivity|]. split; [exact Hex'|]. split; [apply HR; exact Hm|]. split; [apply HR2|]. split; [exact HRC|].
        eapply J_A_act; eauto.
      + right. exists 0%nat. eexists. eexists. unfold die. rewrite Hth. cbn [cf_threads set_nth nth_error]. split; [reflexivity|split; [reflexivity|exact I]].
    - (* the block moves *)
      inversion Hn; subst th. cbn [ct_st ct_held ct_trace] in *. inversion Hst; subst p. clear Hst Hn.
      destruct Hc as [[l [k [-> [Hfree [_ ->]]]]]|[[l [k [-> [_ [_ ->]]]]]|[[l [k [-> ->]]]|[[B [f [k [bb [t' [-> [Hf ->]]]]]]]|[B [f [k [s [t' [-> [Hf ->]]]]]]]]]]].
      all: try (unfold die in Hex'; rewrite Hth in Hex'; cbn [set_nth] in Hex').
      + left. exists qa, ha, tra, k, (l :: hc), (l :: trc). rewrite Hth. cbn [set_nth cf_threads cf_tower].
        split; [reflexivity|]. split; [exact Hex'|]. split; [exact Hm|]. split; [exact HRA|]. split; [exact HRC|].
        apply J_C_acq; [exact Hph|]. apply (Hheld l Hfree).
      + right. exists 1%nat. eexists. eexists. unfold die. rewrite Hth. cbn [cf_threads set_nth nth_error]. split; [reflexivity|split; [reflexivity|exact I]].
      + left. exists qa, ha, tra, k, (remove_lock l hc), trc. rewrite Hth. cbn [set_nth cf_threads cf_tower].
        split; [reflexivity|]. split; [exact Hex'|]. split; [exact Hm|]. split; [exact HRA|]. split; [exact HRC|].
        apply J_C_rel. exact Hph.
      + destruct HRC as [HR1 HR2]. pose proof (HR1 _ _ _ Hf) as HR.
        assert (Hm' : memo_ok t') by (apply HR; exact Hm).
        left. exists qa, ha, tra, (k bb), hc, trc. rewrite Hth. cbn [set_nth cf_threads cf_tower].
        split; [reflexivity|]. split; [exact Hex'|]. split; [exact Hm'|]. split; [exact HRA|]. split; [apply HR2|].
        eapply J_C_act; eauto.
      + right. exists 1%nat. eexists. eexists. unfold die. rewrite Hth. cbn [cf_threads set_nth nth_error]. split; [reflexivity|split; [reflexivity|exact I]].
  Qed.

  Lemma J_run c sched : J c \/ aborted c -> J (run_config c sched) \/ aborted (run_config c sched).
  Proof.
    intros H. apply (run_config_inv (fun c => J c \/ aborted c)); [|exact H].
    intros c1 i c2 [HJ|Ha] Hs; [eapply J_step; eauto|right; eapply aborted_step; eauto].
  Qed.

  (* when both have returned: the accepted appointment is watched, gone, or excused by a -27 verdict *)
  Lemma J_final c r o2 :
    J c -> map thread_result (cf_threads c) = [Some (TOut (OAddRes r)); Some (TOut o2)] ->
    match r with AddOk _ _ _ _ => ge (cf_tower c) | _ => True end.
  Proof.
    intros [qa [ha [tra [qc [hc [trc [Hth [_ [_ [_ [_ Hph]]]]]]]]]]] Hres. rewrite Hth in Hres.
    cbn [map thread_result ct_st] in Hres.
    assert (Ea : qa = Ret (OAddRes r)).
    { destruct qa; inversion Hres; reflexivity. }
    assert (Ec : qc = Ret o2).
    { destruct qc; inversion Hres; try reflexivity; destruct qa; discriminate. }
    subst qa qc. destruct r; try exact I.
    destruct Hph as [[[] _]|[[[] _]|[_ [_ Ha]]]].
    destruct Ha as [[]|[[[] _]|[Ha|[_ Hs]]]]; [eapply will_ret; eauto|exact Hs].
  Qed.

  (* ---------------------------------------------------------------------------------------- *)
  (* the two thread programs satisfy their outlines *)

  Context (delay sig : N).
  Definition PA : prog out := add_p sc (Some u) loc b delay sig.
  (* = prog_of_op (OConnect hash txs) for a tower at height h - 1 *)
  Definition PC : prog out := (connect_p le sc hash txs h ;;; Ret tt) ;;; Ret OBlockRes.

  (* static guarantees, from the structural theorem *)
  Definition G_A : list lock -> tower -> tower -> Prop := fun _ t t' => same_cache t t' /\ (memo_ok t -> memo_ok t').

  Lemma G_A_common : OblCommon G_A sc.
  Proof.
    constructor; unfold G_A, same_cache; intros.
    - tauto.
    - destruct (touches_delete t us refund) as [_ [_ [_ [E1 [_ [_ [E2 _]]]]]]]. split; [exact E1|intros Hm; eapply memo_same; eauto].
    - unfold in_mempool. cbn [snd]. split; [reflexivity|intros Hm; eapply memo_same; [reflexivity|exact Hm]].
    - split; [unfold send_transaction; destruct (aget (car_memo t) tx); reflexivity|apply memo_send].
    - split; [|intros Hm; eapply memo_same; [apply add_tracker_memo|exact Hm]].
      unfold r_add_tracker. destruct s; try reflexivity; destruct (find_trk (db_trks t) uuid0); try reflexivity; destruct (find_app (db_apps t) uuid0); reflexivity.
  Qed.

  Lemma G_A_api : OblApi G_A.
  Proof.
    constructor; unfold G_A, same_cache; intros; (split; [|intros Hm; eapply memo_same; [|exact Hm]]); try reflexivity.
    - unfold w_store_appointment. destruct (find_app (db_apps t) (app_uuid a)); [reflexivity|]. destruct (amem (db_users t) (a_user a)); reflexivity.
    - unfold w_store_appointment. destruct (find_app (db_apps t) (app_uuid a)); [reflexivity|]. destruct (amem (db_users t) (a_user a)); reflexivity.
  Qed.

  Lemma PA_guar : acts_rel RA PA.
  Proof.
    apply (guark_acts_rel G_A RA PA (fun _ _ _ H => H) [] ktrue).
    apply (g_add G_A sc G_A_common G_A_api (Some u) loc b delay sig ktrue). intros; exact I.
  Qed.

  Lemma G_keep_cache : OblCache G_keep.
  Proof.
    intros hh t c _. unfold G_keep. split; [intros Hq; eapply good_same; [split; reflexivity|exact Hq]|].
    split; intros Hq; [eapply rowA_same; [reflexivity|exact Hq]|eapply memo_same; [reflexivity|exact Hq]].
  Qed.

  Lemma PC_guar : acts_rel RC PC.
  Proof.
    apply (guark_acts_rel G_keep RC PC (fun _ _ _ H => H) [] ktrue).
    unfold PC. apply guark_bind. apply guark_bind. apply (g_connect G_keep le sc G_keep_common G_keep_chain G_keep_cache hash txs h). exact I.
  Qed.

  (* after its cache section the block never touches the cache again *)
  Definition G_sc : list lock -> tower -> tower -> Prop := fun _ t t' => same_cache t t'.
  Lemma G_sc_common : OblCommon G_sc sc.
  Proof.
    constructor; unfold G_sc, same_cache; intros; try reflexivity.
    - destruct (touches_delete t us refund) as [_ [_ [_ [E1 _]]]]. exact E1.
    - unfold send_transaction. destruct (aget (car_memo t) tx); reflexivity.
    - unfold r_add_tracker. destruct s; try reflexivity; destruct (find_trk (db_trks t) uuid0); try reflexivity; destruct (find_app (db_apps t) uuid0); reflexivity.
  Qed.
  Lemma G_sc_chain : OblChain G_sc.
  Proof.
    constructor; unfold G_sc, same_cache; intros; try reflexivity.
    destruct (touches_check_conf le0 txs0 x (db_trks t) t []) as [_ [_ [_ [_ [_ [_ [E _]]]]]]]. exact E.
  Qed.

  Definition REST : prog out := ((w_rest_p sc txs h ;;; (r_connect_p le sc hash txs h ;;; Ret tt)) ;;; Ret tt) ;;; Ret OBlockRes.

  Lemma REST_same_cache : acts_rel same_cache REST.
  Proof.
    apply (guark_acts_rel G_sc same_cache REST (fun _ _ _ H => H) [] ktrue).
    unfold REST. apply guark_bind. apply guark_bind. apply guark_bind. apply (g_w_rest G_sc sc G_sc_common G_sc_chain).
    apply guark_bind. apply (g_r_connect G_sc le sc G_sc_common G_sc_chain). exact I.
  Qed.

  Lemma REST_solo t : rowA t -> memo_ok t -> solo REST t.
  Proof.
    intros Hr Hm. unfold solo, REST. rewrite exec_bind, exec_bind, exec_bind.
    pose proof (w_rest_outcome t h Hr Hm) as H1.
    destruct (exec (w_rest_p sc txs h) t) as [[] t1|s t1]; [|exact I].
    rewrite exec_bind.
    pose proof (r_connect_keeps_ge hash h t1 H1) as H2.
    destruct (exec (r_connect_p le sc hash txs h) t1) as [[] t2|s t2]; [|exact I].
    cbn [exec]. exact H2.
  Qed.

  Ltac eqb_norm :=
    repeat match goal with
           | |- context [N.eqb ?a ?b] => let v := eval vm_compute in (N.eqb a b) in change (N.eqb a b) with v
           end.

  Lemma connect_outline : cpre PC.
  Proof.
    unfold PC, connect_p. change Consts.LISTENER_ORDER with [0%Z; 1%Z; 2%Z].
    cbn [run_listeners_p listener_connected_p Z.eqb]. unfold gk_connect_p, w_connect_p, w_cache_p.
    cbn [pbind acq rel act rd wr cpre]. eqb_norm. cbv iota.
    split; [intros t bb t' E; unfold find_outdated in E; destruct (outdated_users _ _ _); inversion E; reflexivity|].
    intros outd. cbn [cpre].
    assert (Htail : cpre (Act unit (fun t => Ok tt (set_gk_height t h))
                            (fun _ => Acq L_cache (Act unit (update_cache (cache_block hash txs)) (fun _ => Rel L_cache REST))))).
    { cbn [cpre]. eqb_norm. cbv iota. split; [intros t bb t' E; inversion E; reflexivity|]. intros _. cbn [csec].
      intros t Hw. unfold update_cache. destruct (ti_update (w_cache t) (cache_block hash txs)) as [c|] eqn:Eu; [|exact I].
      split; [unfold has_loc; cbn [w_cache set_w_cache]; apply Hcache; rewrite <- Hw; exact Eu|].
      split; [cbn [crel]; split; [reflexivity|apply REST_same_cache]|].
      intros Hr Hm. apply (solo_rel L_cache). apply REST_solo; assumption. }
    destruct outd as [|o outd]; cbn [pbind cpre]; eqb_norm; cbv iota.
    - exact Htail.
    - split; [intros t bb t' E; inversion E; reflexivity|]. intros _. eqb_norm. cbv iota.
      split; [intros t bb t' E; inversion E; reflexivity|]. intros _. exact Htail.
  Qed.

  (* the request's outline *)
  Ltac astep :=
    match goal with
    | |- forall (t : tower) bb (t' : tower), _ = Ok bb t' -> _ =>
        let E := fresh "E" in intros ? ? ? E;
        first [ inversion E; subst; clear E | idtac ]
    | |- apre (match authenticate ?t ?s with _ => _ end) => unfold authenticate; destruct (amem (gk_users t) u)
    | |- apre (match ?x with _ => _ end) => destruct x
    | |- apre (if ?x then _ else _) => destruct x
    | |- apre ?p =>
        match p with
        | context [authenticate ?t (Some u)] => unfold authenticate; destruct (amem (gk_users t) u)
        | context [if amem (gk_users ?t) u then Some u else None] => destruct (amem (gk_users t) u)
        | context [match ?x with _ => _ end] => destruct x
        | context [if ?c then _ else _] => destruct c
        end
    end.
  Ltac awalk :=
    repeat (cbn [apre pbind acq rel act rd wr panic reach_p authenticate_p expired_p has_tracker_p charge_p add_finish fst snd];
            eqb_norm; cbv iota; try astep).

  (* once the status of the penalty is known (accepted or rejected), the rest of
     store_triggered_appointment resolves the appointment *)
  Definition tail_after (d p : N) (s : cstatus) : prog bool :=
    s' <- ((if status_accepted s then acq L_db ;;; wr (fun t => r_add_tracker t uuid d p s) ;;; rel L_db else Ret tt) ;;;
           rel L_txindex ;;; rel L_carrier ;;; Ret s) ;;
    ((if status_rejected s' then delete_apps_p [uuid] false else Ret tt) ;;; Ret true).

  Lemma after_status d p s :
    status_accepted s = true \/ status_rejected s = true -> estab memo_ok ge (tail_after d p s).
  Proof.
    intros Hs. unfold tail_after. destruct (status_accepted s) eqn:Ea.
    - cbn [pbind acq rel wr estab]. intros t _. left. split; [left; apply good_after_add_tracker; exact Ea|].
      destruct (status_rejected s); cbn; repeat split; auto.
      intros t1 bb t' E Hg. unfold gk_delete_appointments in E. inversion E; subst.
      destruct Hg as [Hg|He]; [left; apply good_delete; exact Hg|right; exact He].
    - destruct Hs as [Hs|Hs]; [discriminate|]. cbn [pbind acq rel]. rewrite Hs. unfold delete_apps_p. cbn [pbind acq rel act estab].
      intros t _. unfold gk_delete_appointments. left. split; [|cbn; auto].
      left. apply good_deleted. unfold mem_uuid. cbn [existsb]. rewrite uuid_eqb_refl. reflexivity.
  Qed.

  Lemma status_cases s : status_accepted s = true \/ status_rejected s = true \/ s = IrrevocablyResolved.
  Proof. destruct s; cbn; auto. Qed.

  Lemma triggered_resolves a d :
    app_uuid a = uuid -> a_blob a = b -> estab memo_ok ge (store_triggered_p sc a d).
  Proof.
    intros Hu Hb. unfold store_triggered_p. rewrite Hu, Hb.
    destruct (decrypt b d) as [p|] eqn:Ed.
    - unfold store_appointment_p, handle_breach_p, reach_p, send_p.
      cbn [pbind acq rel act rd wr estab]. intros t _. unfold store_act.
      destruct (w_store_ok t a) eqn:Eok.
      2:{ (* UnknownUser: nothing stored, and there was no row *)
          rewrite (store_appointment_unknown t a Eok). left. split; [|cbn; auto].
          left. left. unfold w_store_ok in Eok. rewrite Hu in Eok.
          destruct (find_app (db_apps t) uuid); [discriminate|reflexivity]. }
      destruct (w_store_appointment t a) as [[] t1|]; [right|exact I].
      cbn [pbind estab]. intros t2 _. unfold index_lookup.
      destruct (ti_get (r_index t2) p) as [bh|].
      + destruct (ti_get_height (r_index t2) bh) as [hh|]; [right|exact I].
        apply (after_status d p (ConfirmedIn (Z.to_N hh))). left. reflexivity.
      + right. cbn [pbind estab]. intros t3 _. unfold ask_mempool. destruct (in_mempool sc t3 p) as [inm t4]. destruct inm.
        * right. apply (after_status d p (InMempoolSince (car_height t4))). left. reflexivity.
        * right. cbn [pbind estab]. intros t5 Hm5. unfold send_act. destruct (send_transaction sc t5 p) as [s t6] eqn:Es.
          destruct (status_cases s) as [Hs|[Hs|Hs]].
          -- right. apply (after_status d p s). left. exact Hs.
          -- right. apply (after_status d p s). right. exact Hs.
          -- left. split.
             ++ right. exists p. split; [eapply decrypt_pay; eauto|]. apply (send_irrev t5 p Hm5). rewrite Es. exact Hs.
             ++ subst s. cbn. auto.
    - cbn [pbind acq rel rd estab]. intros t _.
      destruct (find_app (db_apps t) uuid) eqn:Ef.
      + right. unfold delete_apps_p. cbn [pbind acq rel act estab]. intros t1 _. unfold gk_delete_appointments.
        left. split; [|cbn; auto]. left. apply good_deleted. unfold mem_uuid. cbn [existsb]. rewrite uuid_eqb_refl. reflexivity.
      + left. split; [left; left; exact Ef|cbn; auto].
  Qed.

  Lemma stored_row a (o : bool -> out) :
    app_uuid a = uuid -> a_blob a = b ->
    estab (fun _ => True) rowA (ok <- store_appointment_p a ;; Rel L_cache (Ret (o ok))) /\
    amiss (ok <- store_appointment_p a ;; Rel L_cache (Ret (o ok))).
  Proof.
    intros Hu Hb. unfold store_appointment_p. cbn [pbind acq rel act estab amiss]. eqb_norm. cbv iota. split.
    - intros t _. unfold store_act. destruct (w_store_ok t a) eqn:Eok.
      + destruct (w_store_appointment t a) as [[] t1|] eqn:Es; [|exact I].
        left. split; [|cbn; auto]. right. exists a. split; [|exact Hb].
        rewrite (store_appointment_spec t a t1 Eok Es). cbn [db_apps set_db_apps]. rewrite find_app_store, Hu, uuid_eqb_refl. reflexivity.
      + rewrite (store_appointment_unknown t a Eok). left. split; [|cbn; auto].
        left. unfold w_store_ok in Eok. rewrite Hu in Eok. destruct (find_app (db_apps t) uuid); [discriminate|reflexivity].
    - split; [reflexivity|]. intros ok. eexists. reflexivity.
  Qed.

  Lemma add_outline : apre PA.
  Proof.
    unfold PA, add_p, add_appointment_p, add_pre_p. awalk; try exact I.
    (* the cache section *)
    all: unfold cache_section_p; cbn [pbind acq rel rd alook a_loc]; intros tx;
      exists (ti_get (w_cache tx) loc); (split; [reflexivity|]); split.
    all: try (intros Hh; unfold has_loc in Hh; destruct (ti_get (w_cache tx) loc) as [d|]; [|contradiction];
              apply estab_bind; [|intros; exact I]; apply estab_bind; [|intros; exact I];
              apply estab_bind; [|intros; exact I]; apply triggered_resolves; reflexivity).
    all: intros Hn; unfold has_loc in Hn; destruct (ti_get (w_cache tx) loc) as [d|]; [exfalso; apply Hn; discriminate|];
         cbn [pbind];
         match goal with |- context [AddOk ?st ?sg ?av ?e] =>
           apply (stored_row _ (fun ok : bool => OAddRes (if ok then AddOk st sg av e else AddAuthOrSlots))); reflexivity end.
  Qed.

  Lemma J_init : J (init_config t0 [PA; PC]).
  Proof.
    exists PA, [], [], PC, [], []. split; [reflexivity|]. split; [apply excl_init|]. split; [apply memo_ok_init|].
    split; [apply PA_guar|]. split; [apply PC_guar|]. left. split; [apply connect_outline|]. split; [reflexivity|].
    left. apply add_outline.
  Qed.

  (* THE theorem: for every schedule of  add_appointment || block connected  in which both return *)
  Theorem accepted_then_watched_or_gone sched tf r :
    run_sched t0 [PA; PC] sched = (tf, [Some (TOut (OAddRes r)); Some (TOut OBlockRes)]) ->
    match r with AddOk _ _ _ _ => ge tf | _ => True end.
  Proof.
    unfold run_sched. intros H. inversion H as [[Ht Hres]]. clear H.
    destruct (J_run (init_config t0 [PA; PC]) sched (or_introl J_init)) as [HJ|[i [th [x [Hn [He Hab]]]]]].
    - exact (J_final _ r OBlockRes HJ Hres).
    - exfalso.
      assert (Hx : nth_error (map thread_result (cf_threads (run_config (init_config t0 [PA; PC]) sched))) i = Some (Some x)).
      { rewrite nth_error_map, Hn. cbn [option_map]. unfold thread_result. rewrite He. reflexivity. }
      rewrite Hres in Hx. destruct i as [|[|[|i]]]; cbn [nth_error] in Hx; inversion Hx; subst x; exact Hab.
  Qed.
End Breach.

(* ------------------------------------------------------------------------------------------ *)
(* the hypothesis of accepted_then_watched_or_gone on the locator cache, discharged from the C19 refinement:
   a cache of capacity n >= 1 that represents a window of blocks (TxIndexProofs.RepW: the invariant C19 proves of every
   index built and updated under the chain discipline) and is updated with a block whose hash is fresh and whose
   keys are distinct and not in the window (valid_op: the chain discipline; in particular the evicted block shares
   no key with it) finds every locator of that block *)
Lemma lastn_snoc {A} n (l : list A) (x : A) : (0 < n)%nat -> lastn n (l ++ [x]) = lastn (n - 1) l ++ [x].
Proof.
  intros Hn. unfold lastn. rewrite app_length. cbn [length].
  replace (length l + 1 - n)%nat with (length l - (n - 1))%nat by lia.
  rewrite skipn_app. replace (length l - (n - 1) - length l)%nat with 0%nat by lia. reflexivity.
Qed.

Lemma aget_diag txs loc : In loc txs -> aget (map (fun x : N => (x, x)) txs) loc = Some loc.
Proof.
  induction txs as [|x txs IH]; [intros []|]. cbn [map aget]. intros [->|Hin]; [rewrite N.eqb_refl; reflexivity|].
  destruct (N.eqb loc x) eqn:E; [apply N.eqb_eq in E; subst; reflexivity|apply IH; exact Hin].
Qed.

Lemma cache_finds_connected_block n (c : txindex N) (w : window N) hash txs loc c' :
  RepW n c w -> (0 < n)%nat -> valid_op w (TConnect (cache_block hash txs)) -> In loc txs ->
  ti_update c (cache_block hash txs) = Some c' -> ti_get c' loc <> None.
Proof.
  intros HR Hn Hv Hin Hu.
  destruct (step_refines n c w (TConnect (cache_block hash txs)) HR Hv) as [t' [Hs HR']].
  cbn [ti_step] in Hs. rewrite Hu in Hs. inversion Hs; subst t'.
  rewrite (get_refines n c' _ loc HR'). unfold w_get. cbn [w_step w_blocks].
  rewrite (lastn_snoc n _ _ Hn), rev_app_distr. cbn [rev List.app w_find cache_block ib_data].
  rewrite (aget_diag txs loc Hin). discriminate.
Qed.

(* the theorem with hypotheses on the reachable state and the chain only *)
Theorem accepted_then_watched_or_gone_refined le sc t0 u loc b txs hash h delay sig n w sched tf r :
  In loc txs ->
  RepW n (w_cache t0) w -> (0 < n)%nat -> valid_op w (TConnect (cache_block hash txs)) ->
  run_sched t0 [PA sc u loc b delay sig; PC le sc txs hash h] sched = (tf, [Some (TOut (OAddRes r)); Some (TOut OBlockRes)]) ->
  match r with AddOk _ _ _ _ => ge sc t0 u loc b tf | _ => True end.
Proof.
  intros Hin HR Hn Hv. apply (accepted_then_watched_or_gone le sc t0 u loc b txs Hin hash h).
  intros c Hu. exact (cache_finds_connected_block n (w_cache t0) w hash txs loc c HR Hn Hv Hin Hu).
Qed.
