//! Free-running observer for hook H3: records, per thread, which locks are held when another one is
//! requested (the lock-order edges) and condition-variable waits.
use std::collections::{BTreeSet, HashMap};
use std::sync::{Arc, Mutex};
use std::thread::ThreadId;

use teos::verif_sync::Observer;

pub const LOCK_NAMES: [&str; 7] = ["cache", "carrier", "tx_index", "reorged", "users", "db", "reach"];

/// Maps the type name of the protected value to the lock's role in the tower.
pub fn lock_id(type_name: &str) -> u8 {
    if type_name.contains("TxIndex") && type_name.contains("Locator") {
        0
    } else if type_name.contains("Carrier") {
        1
    } else if type_name.contains("TxIndex") {
        2
    } else if type_name.contains("HashSet") {
        3
    } else if type_name.contains("UserInfo") {
        4
    } else if type_name.contains("DBM") {
        5
    } else if type_name == "bool" {
        6
    } else {
        99
    }
}

#[derive(Default)]
pub struct RecState {
    pub held: HashMap<ThreadId, Vec<u8>>,
    /// (held, requested) pairs seen since the last `take_edges`
    pub edges: BTreeSet<(u8, u8)>,
    /// threads currently waiting on the reachability condition variable
    pub waiting: std::collections::HashSet<ThreadId>,
    pub waits: u64,
    pub acquisitions: u64,
    /// lock a thread has asked for and not obtained yet
    pub requesting: HashMap<ThreadId, u8>,
    /// counts every event (progress indicator)
    pub events: u64,
    /// when Some: the sequence of waits / wakes / notifies with the thread and the locks it keeps (C12)
    pub trace: Option<Vec<(ThreadId, SyncEv)>>,
}

#[derive(Clone, Debug, PartialEq, Eq)]
pub enum SyncEv {
    /// the thread starts waiting on the condition variable; the locks it still holds
    Wait(Vec<u8>),
    Wake,
    Notify,
}

#[derive(Default)]
pub struct Recorder(pub Mutex<RecState>);

impl Recorder {
    pub fn install() -> Arc<Recorder> {
        let r = Arc::new(Recorder::default());
        teos::verif_sync::set_observer(Some(r.clone()));
        r
    }
    pub fn take_edges(&self) -> Vec<(u8, u8)> {
        let mut st = self.0.lock().unwrap_or_else(|e| e.into_inner());
        let e: Vec<(u8, u8)> = st.edges.iter().copied().collect();
        st.edges.clear();
        e
    }
    pub fn events(&self) -> u64 {
        self.0.lock().unwrap_or_else(|e| e.into_inner()).events
    }
    pub fn is_waiting(&self, t: ThreadId) -> bool {
        self.0.lock().unwrap_or_else(|e| e.into_inner()).waiting.contains(&t)
    }
    pub fn requested_by(&self, t: ThreadId) -> Option<u8> {
        self.0.lock().unwrap_or_else(|e| e.into_inner()).requesting.get(&t).copied()
    }
    pub fn held_by(&self, t: ThreadId) -> Vec<u8> {
        self.0.lock().unwrap_or_else(|e| e.into_inner()).held.get(&t).cloned().unwrap_or_default()
    }
    /// starts (or restarts) recording the sequence of condition-variable events
    pub fn start_trace(&self) {
        self.0.lock().unwrap_or_else(|e| e.into_inner()).trace = Some(Vec::new());
    }
    pub fn trace(&self) -> Vec<(ThreadId, SyncEv)> {
        self.0.lock().unwrap_or_else(|e| e.into_inner()).trace.clone().unwrap_or_default()
    }
    /// a thread other than `me` that holds `lock`
    pub fn holder_of(&self, lock: u8, me: ThreadId) -> Option<ThreadId> {
        let st = self.0.lock().unwrap_or_else(|e| e.into_inner());
        st.held.iter().find(|(t, h)| **t != me && h.contains(&lock)).map(|(t, _)| *t)
    }
    pub fn anyone_waiting(&self) -> bool {
        !self.0.lock().unwrap_or_else(|e| e.into_inner()).waiting.is_empty()
    }
    /// after a panic unwound through guards everything is released; forget stale state
    pub fn reset_thread(&self) {
        let mut st = self.0.lock().unwrap_or_else(|e| e.into_inner());
        st.held.remove(&std::thread::current().id());
    }
}

impl Observer for Recorder {
    fn before_acquire(&self, lock: &'static str) {
        let id = lock_id(lock);
        let mut st = self.0.lock().unwrap_or_else(|e| e.into_inner());
        let tid = std::thread::current().id();
        let held: Vec<u8> = st.held.get(&tid).cloned().unwrap_or_default();
        for h in held {
            st.edges.insert((h, id));
        }
        st.acquisitions += 1;
        st.events += 1;
        st.requesting.insert(tid, id);
    }
    fn acquired(&self, lock: &'static str) {
        let id = lock_id(lock);
        let mut st = self.0.lock().unwrap_or_else(|e| e.into_inner());
        st.events += 1;
        st.requesting.remove(&std::thread::current().id());
        st.held.entry(std::thread::current().id()).or_default().push(id);
    }
    fn released(&self, lock: &'static str) {
        let id = lock_id(lock);
        let mut st = self.0.lock().unwrap_or_else(|e| e.into_inner());
        if let Some(v) = st.held.get_mut(&std::thread::current().id()) {
            if let Some(pos) = v.iter().rposition(|x| *x == id) {
                v.remove(pos);
            }
        }
    }
    fn cv_wait(&self, _lock: &'static str) -> bool {
        let mut st = self.0.lock().unwrap_or_else(|e| e.into_inner());
        let tid = std::thread::current().id();
        st.waiting.insert(tid);
        st.waits += 1;
        st.events += 1;
        let held = st.held.get(&tid).cloned().unwrap_or_default();
        if let Some(t) = st.trace.as_mut() {
            t.push((tid, SyncEv::Wait(held)));
        }
        false
    }
    fn cv_wake(&self, _lock: &'static str) {
        let mut st = self.0.lock().unwrap_or_else(|e| e.into_inner());
        st.waiting.remove(&std::thread::current().id());
        st.events += 1;
        if let Some(t) = st.trace.as_mut() {
            t.push((std::thread::current().id(), SyncEv::Wake));
        }
    }
    fn cv_notify(&self) {
        let mut st = self.0.lock().unwrap_or_else(|e| e.into_inner());
        if let Some(t) = st.trace.as_mut() {
            t.push((std::thread::current().id(), SyncEv::Notify));
        }
    }
}
