//! The real tower (Gatekeeper, Watcher, Responder, Carrier, InternalAPI on a sqlite file) driven by
//! abstract operations over small integer ids; see DESIGN.md appendix A and coq/theories/Tower.v.
use std::collections::HashMap;
use std::path::PathBuf;
use std::sync::Arc;
use teos::verif_sync::{Condvar, Mutex};

use bitcoin::block::Block;
use bitcoin::consensus;
use bitcoin::hashes::Hash;
use bitcoin::secp256k1::{PublicKey, Secp256k1, SecretKey};
use bitcoin::{BlockHash, Transaction, Txid};
use lightning::chain::Listen;
use lightning_block_sync::poll::{Validate, ValidatedBlock};
use lightning_block_sync::BlockData;
use rusqlite::{Connection, OpenFlags};
use tonic::{Code, Request};

use teos::api::internal::InternalAPI;
use teos::carrier::Carrier;
use teos::dbm::DBM;
use teos::gatekeeper::Gatekeeper;
use teos::protos as msgs;
use teos::protos::private_tower_services_server::PrivateTowerServices;
use teos::protos::public_tower_services_server::PublicTowerServices;
use teos::responder::Responder;
use teos::watcher::Watcher;
use teos_common::appointment::Locator;
use teos_common::cryptography;
use teos_common::protos as common_msgs;
use teos_common::receipts::{AppointmentReceipt, RegistrationReceipt};
use teos_common::{TowerId, UserId};

use crate::simchain::{make_block, tx_of_id};
use crate::simnode::{GetRaw, RpcKind, Send, SimNode};
use crate::Line;

#[derive(Clone, Copy, Debug)]
pub struct Cfg {
    pub slots: u32,
    pub duration: u32,
    pub delta: u32,
}

/// abstract blob: key (dispute id that decrypts it), payload (penalty id or -1 = garbage), length
#[derive(Clone, Copy, Debug, PartialEq, Eq, Hash)]
pub struct ABlob {
    pub key: u64,
    pub pay: i64,
    pub len: u64,
}

#[derive(Clone, Debug)]
pub enum Op {
    Register(u64),
    /// signer (-1 = does not recover to any known key), class of the signature, locator, blob bytes handle, delay
    Add { signer: i64, class: u8, loc: u64, blob: usize, delay: u32 },
    Get { signer: i64, class: u8, loc: u64 },
    GetSub { signer: i64, class: u8 },
    Connect { hash: u64, txs: Vec<u64> },
    Disconnect,
}

pub type Script = Vec<(u64, u8, i32)>; // tx, getraw (0 mempool,1 confirmed,2 notfound,3 other), send (0 ok | code)

pub const INIT_HEIGHT: u32 = 120;
pub const INDEX_SIZE: usize = 100;

pub struct World {
    pub cfg: Cfg,
    pub dir: PathBuf,
    pub node: SimNode,
    pub gatekeeper: Arc<Gatekeeper>,
    pub watcher: Arc<Watcher>,
    pub responder: Arc<Responder>,
    pub api: Arc<InternalAPI>,
    pub reachable: Arc<(Mutex<bool>, Condvar)>,
    pub dbm: Arc<Mutex<DBM>>,
    pub rt: tokio::runtime::Runtime,
    pub reader: Connection,
    pub tower_sk: SecretKey,
    pub tower_id: TowerId,
    pub listener_order: Vec<u8>,
    // id maps
    keys: HashMap<u64, (SecretKey, PublicKey)>,
    uid_of_pk: HashMap<Vec<u8>, u64>,
    pads: HashMap<u64, usize>,
    pub id_of_txid: HashMap<Txid, u64>,
    id_of_locator: HashMap<Vec<u8>, u64>,
    /// blob bytes created so far with their abstract description
    pub blobs: Vec<(Vec<u8>, ABlob)>,
    blob_index: HashMap<Vec<u8>, usize>,
    sigs: HashMap<String, u64>,
    /// active chain: (abstract hash id, block), index = height
    pub chain: Vec<(u64, Block)>,
    pub known_users: Vec<u64>,
    pub panicked: bool,
    /// per user: message and signature of its latest properly signed request (for replays)
    last_good: HashMap<u64, (Vec<u8>, String)>,
    /// an operation did not return within the step time-out (a handler stuck on a lock or a wait): the
    /// worker thread is abandoned, nothing more can be asked of this tower
    pub hung: bool,
    /// run the calls on a watched worker thread (set by the harnesses that want hang detection; the crash and
    /// outage harnesses run calls on their own threads)
    pub watch_hangs: bool,
    worker: Option<Worker>,
}

/// One long-lived thread per world runs the calls, so that a call that never returns (a deadlock, a lock
/// taken twice by the same thread, an endless wait) is noticed by the caller instead of hanging the harness.
struct Worker {
    tx: std::sync::mpsc::Sender<Call>,
    rx: std::sync::mpsc::Receiver<std::thread::Result<Reply>>,
}

fn step_timeout() -> std::time::Duration {
    std::time::Duration::from_millis(crate::env_u64("VERIF_STEP_TIMEOUT_MS", 30_000))
}

/// whether teosd's main() persists the bootstrap tip when no last known block is stored (read from
/// main.rs by the translator and handed over by the check)
pub fn bootstrap_persists_tip() -> bool {
    std::env::var("VERIF_BOOTSTRAP_PERSISTS_TIP").map(|v| v == "1" || v == "true").unwrap_or(true)
}

pub fn key_of_uid(uid: u64) -> (SecretKey, PublicKey) {
    // odd ids hold the NEGATED key of the even id below: same x coordinate, other parity - two distinct users
    // (anything that identifies a user by less than the full 33-byte key confuses them)
    if uid % 2 == 1 {
        let sk = key_of_uid(uid - 1).0.negate();
        return (sk, PublicKey::from_secret_key(&Secp256k1::new(), &sk));
    }
    let mut b = [0x11u8; 32];
    b[..8].copy_from_slice(&(uid + 1).to_be_bytes());
    b[31] = 7;
    let sk = SecretKey::from_slice(&b).unwrap();
    (sk, PublicKey::from_secret_key(&Secp256k1::new(), &sk))
}

fn hex_status(code: Code) -> &'static str {
    match code {
        Code::Unauthenticated => "unauth",
        Code::AlreadyExists => "exists",
        Code::NotFound => "notfound",
        Code::Unavailable => "unavailable",
        Code::InvalidArgument => "invalid",
        Code::ResourceExhausted => "exhausted",
        _ => "other",
    }
}

/// the initial chain is the same for every history: build it once
pub fn initial_chain() -> Vec<(u64, Block)> {
    let mut chain: Vec<(u64, Block)> = Vec::new();
    let mut prev = BlockHash::all_zeros();
    for h in 0..=INIT_HEIGHT {
        let b = make_block(prev, 1_600_000_000 + h, h, vec![]);
        prev = b.header.block_hash();
        chain.push((1000 + h as u64, b));
    }
    chain
}

impl World {
    pub fn new(cfg: Cfg, dir: PathBuf, init_chain: &[(u64, Block)], listener_order: Vec<u8>) -> World {
        let _ = std::fs::remove_dir_all(&dir);
        std::fs::create_dir_all(&dir).unwrap();
        let node = SimNode::new();
        let db_path = dir.join("teos_db.sql3");
        let dbm = Arc::new(Mutex::new(DBM::new(db_path.clone()).unwrap()));
        // (a key whose hex form is all decimal digits would be mangled by the INT affinity of keys.key)
        let mut skb = [0xabu8; 32];
        skb[0] = 0x1c;
        let tower_sk = SecretKey::from_slice(&skb).unwrap();
        let tower_pk = PublicKey::from_secret_key(&Secp256k1::new(), &tower_sk);
        let chain: Vec<(u64, Block)> = init_chain.to_vec();
        let height = (chain.len() - 1) as u32;
        // as teosd does on a fresh data directory: persist the tower key
        if dbm.lock().unwrap().load_tower_key().is_none() {
            dbm.lock().unwrap().store_tower_key(&tower_sk).unwrap();
        }
        // ... and (if main.rs does: VERIF_BOOTSTRAP_PERSISTS_TIP, from the translator) the bootstrap tip
        if bootstrap_persists_tip() && dbm.lock().unwrap().load_last_known_block().is_none() {
            dbm.lock().unwrap().store_last_known_block(&chain.last().unwrap().1.header.block_hash()).unwrap();
        }
        let (gatekeeper, watcher, responder, api, reachable) =
            Self::build(cfg, &dbm, &node, &chain, height, tower_sk, tower_pk);
        let rt = tokio::runtime::Builder::new_current_thread().enable_all().build().unwrap();
        let reader = Connection::open_with_flags(&db_path, OpenFlags::SQLITE_OPEN_READ_ONLY).unwrap();
        let mut w = World {
            cfg,
            dir,
            node,
            gatekeeper,
            watcher,
            responder,
            api,
            reachable,
            dbm,
            rt,
            reader,
            tower_sk,
            tower_id: TowerId(tower_pk),
            listener_order,
            keys: HashMap::new(),
            uid_of_pk: HashMap::new(),
            pads: HashMap::new(),
            id_of_txid: HashMap::new(),
            id_of_locator: HashMap::new(),
            blobs: Vec::new(),
            blob_index: HashMap::new(),
            sigs: HashMap::new(),
            chain,
            known_users: Vec::new(),
            panicked: false,
            last_good: HashMap::new(),
            hung: false,
            watch_hangs: false,
            worker: None,
        };
        // the fillers of the initial chain are not part of any universe
        w.id_of_txid.clear();
        w
    }

    #[allow(clippy::type_complexity)]
    pub fn build(
        cfg: Cfg,
        dbm: &Arc<Mutex<DBM>>,
        node: &SimNode,
        chain: &[(u64, Block)],
        height: u32,
        tower_sk: SecretKey,
        tower_pk: PublicKey,
    ) -> (Arc<Gatekeeper>, Arc<Watcher>, Arc<Responder>, Arc<InternalAPI>, Arc<(Mutex<bool>, Condvar)>) {
        let reachable = Arc::new((Mutex::new(true), Condvar::new()));
        let gatekeeper = Arc::new(Gatekeeper::new(height, cfg.slots, cfg.duration, cfg.delta, dbm.clone()));
        // last INDEX_SIZE blocks, newest first, as main.rs's get_last_n_blocks delivers them
        let last_n: Vec<ValidatedBlock> = chain
            .iter()
            .rev()
            .take(INDEX_SIZE)
            .map(|(_, b)| BlockData::FullBlock(b.clone()).validate(b.header.block_hash()).unwrap())
            .collect();
        let carrier = Carrier::new(Arc::new(node.client()), reachable.clone(), height);
        let responder = Arc::new(Responder::new(&last_n, height, carrier, gatekeeper.clone(), dbm.clone()));
        let watcher = Arc::new(Watcher::new(
            gatekeeper.clone(),
            responder.clone(),
            &last_n[0..6],
            height,
            tower_sk,
            TowerId(tower_pk),
            dbm.clone(),
        ));
        let (trigger, _signal) = triggered::trigger();
        let api = Arc::new(InternalAPI::new(
            watcher.clone(),
            vec![msgs::NetworkAddress::from_ipv4("127.0.0.1".into(), 9814)],
            reachable.clone(),
            trigger,
        ));
        (gatekeeper, watcher, responder, api, reachable)
    }

    pub fn height(&self) -> u32 {
        (self.chain.len() - 1) as u32
    }

    /// Reports every statement the tower's own connection executes to `evlog` (rusqlite trace hook).
    /// To be called again after `restart` (a new connection).
    pub fn install_sql_trace(&self) {
        use teos_common::dbm::DatabaseConnection;
        let mut g = self.dbm.lock().unwrap_or_else(|e| e.into_inner());
        g.get_mut_connection().trace(Some(crate::evlog::sql_trace));
    }

    /// Crash + restart: every in-memory object is dropped and rebuilt from the database file the way
    /// teosd's main() does (tower key from the keys table, components on the last blocks below `tip`).
    /// `last_blocks` = the blocks of the node's chain ending at the bootstrap tip (oldest first),
    /// `height` = the tip's height. Returns false if the bootstrap panicked or the tower id changed.
    pub fn restart(&mut self, last_blocks: &[(u64, Block)], height: u32) -> bool {
        let db_path = self.dir.join("teos_db.sql3");
        let r = std::panic::catch_unwind(std::panic::AssertUnwindSafe(|| {
            let dbm = Arc::new(Mutex::new(DBM::new(db_path.clone()).unwrap()));
            let (sk, pk) = {
                let locked = dbm.lock().unwrap();
                match locked.load_tower_key() {
                    Some(sk) => (sk, PublicKey::from_secret_key(&Secp256k1::new(), &sk)),
                    None => {
                        locked.store_tower_key(&self.tower_sk).unwrap();
                        (self.tower_sk, PublicKey::from_secret_key(&Secp256k1::new(), &self.tower_sk))
                    }
                }
            };
            if bootstrap_persists_tip() && dbm.lock().unwrap().load_last_known_block().is_none() {
                dbm.lock().unwrap().store_last_known_block(&last_blocks.last().unwrap().1.header.block_hash()).unwrap();
            }
            let built = Self::build(self.cfg, &dbm, &self.node, last_blocks, height, sk, pk);
            (dbm, built, pk)
        }));
        match r {
            Ok((dbm, (gatekeeper, watcher, responder, api, reachable), pk)) => {
                let same_id = TowerId(pk) == self.tower_id;
                self.dbm = dbm;
                self.gatekeeper = gatekeeper;
                self.watcher = watcher;
                self.responder = responder;
                self.api = api;
                self.reachable = reachable;
                self.reader = Connection::open_with_flags(&db_path, OpenFlags::SQLITE_OPEN_READ_ONLY).unwrap();
                self.panicked = false;
                same_id
            }
            Err(_) => false,
        }
    }

    pub fn user(&mut self, uid: u64) -> (SecretKey, PublicKey) {
        if let Some(k) = self.keys.get(&uid) {
            return *k;
        }
        let k = key_of_uid(uid);
        self.keys.insert(uid, k);
        self.uid_of_pk.insert(k.1.serialize().to_vec(), uid);
        if !self.known_users.contains(&uid) {
            self.known_users.push(uid);
            self.known_users.sort();
        }
        k
    }

    /// the real transaction of abstract id `id` (its padding is fixed at first use)
    pub fn tx(&mut self, id: u64) -> Transaction {
        let pad = *self.pads.entry(id).or_insert(0);
        let tx = tx_of_id(id, pad);
        let txid = tx.compute_txid();
        self.id_of_txid.insert(txid, id);
        self.id_of_locator.insert(Locator::new(txid).to_vec(), id);
        self.node.learn(&tx);
        tx
    }

    pub fn set_pad(&mut self, id: u64, pad: usize) {
        self.pads.entry(id).or_insert(pad);
    }

    pub fn locator(&mut self, id: u64) -> Locator {
        Locator::new(self.tx(id).compute_txid())
    }

    /// Creates (or finds) the blob bytes for: payload `pay` (penalty id, or -1 garbage) encrypted
    /// under dispute `key`, of a length as close as possible to `want_len`. Returns its handle.
    pub fn make_blob(&mut self, key: u64, pay: i64, want_len: u64, salt: u64) -> usize {
        let bytes = if pay >= 0 {
            // serialized length = base + (pad > 0 ? 8 + cs(pad) + pad : 0); blob = + 16
            let base = consensus::serialize(&tx_of_id(pay as u64, 0)).len() as u64 + 16;
            let pad = if self.pads.contains_key(&(pay as u64)) {
                self.pads[&(pay as u64)]
            } else if want_len <= base + 9 {
                0
            } else {
                let extra = want_len - base - 8;
                // extra = cs(pad) + pad
                let pad = if extra <= 253 { extra - 1 } else if extra <= 3 + 65535 { extra - 3 } else { extra - 5 };
                pad as usize
            };
            self.set_pad(pay as u64, pad);
            let penalty = self.tx(pay as u64);
            let dispute_txid = self.tx(key).compute_txid();
            cryptography::encrypt(&penalty, &dispute_txid).unwrap()
        } else if salt % 5 == 4 && want_len >= 16 + 61 + 1 {
            // a blob that AUTHENTICATES under its dispute id but whose plaintext is a well-formed transaction followed
            // by trailing bytes: not the serialisation of a transaction, so it must fail to decrypt like any garbage
            use chacha20poly1305::aead::{Aead, NewAead};
            use chacha20poly1305::{ChaCha20Poly1305, Key, Nonce};
            let mut plain = consensus::serialize(&tx_of_id(900_000 + (salt % 1000), 0));
            let mut r = crate::rng::Rng::new(0x7A11 ^ (key << 20) ^ (want_len << 4) ^ salt);
            let extra = (want_len as usize).saturating_sub(16 + plain.len()).max(1);
            plain.extend(r.bytes(extra));
            let dispute_txid = self.tx(key).compute_txid();
            let k = bitcoin::hashes::sha256::Hash::hash(dispute_txid.as_byte_array());
            let cipher = ChaCha20Poly1305::new(Key::from_slice(k.as_byte_array()));
            cipher.encrypt(&Nonce::default(), plain.as_ref()).unwrap()
        } else {
            // garbage: deterministic bytes that do not authenticate under any key
            let mut r = crate::rng::Rng::new(0xB10B ^ (key << 20) ^ (want_len << 4) ^ salt);
            r.bytes(want_len as usize)
        };
        if let Some(i) = self.blob_index.get(&bytes) {
            return *i;
        }
        let ab = ABlob { key, pay, len: bytes.len() as u64 };
        self.blobs.push((bytes.clone(), ab));
        self.blob_index.insert(bytes, self.blobs.len() - 1);
        self.blobs.len() - 1
    }

    fn sig_id(&mut self, s: &str) -> u64 {
        let n = self.sigs.len() as u64 + 1;
        *self.sigs.entry(s.to_string()).or_insert(n)
    }

    /// a signature of the given class for `msg`; class 0 = proper signature by `uid`
    fn make_sig(&mut self, uid: u64, class: u8, msg: &[u8], other_msg: &[u8]) -> String {
        let (sk, _) = self.user(uid);
        let good = cryptography::sign(msg, &sk);
        if class == 0 {
            self.last_good.insert(uid, (msg.to_vec(), good.clone()));
        }
        match class {
            0 => good,
            // a REPLAY: the proper signature this user produced for its latest well-signed request, presented with
            // a different request (a signature binds its own message only)
            7 => match self.last_good.get(&uid) {
                Some((m, s)) if m.as_slice() != msg => s.clone(),
                _ => cryptography::sign(other_msg, &sk),
            },
            1 => "d7xq9yfh3wzce5k8".repeat(6),                 // zbase32 alphabet, not a signature
            2 => good[..good.len() / 2].to_string(),             // truncated
            3 => cryptography::sign(other_msg, &sk),             // valid for another message
            4 => {
                // one character changed (still zbase32): recovers to an unrelated key or fails
                let mut b = good.into_bytes();
                let i = b.len() / 2;
                b[i] = if b[i] == b'y' { b'b' } else { b'y' };
                String::from_utf8(b).unwrap()
            }
            5 => String::new(),
            _ => format!("{}!!==", &good[..good.len() - 5]),     // non-zbase32 characters
        }
    }

    fn script_map(&mut self, script: &Script) -> HashMap<Txid, (GetRaw, Send)> {
        let mut m = HashMap::new();
        for (tx, g, s) in script {
            let txid = self.tx(*tx).compute_txid();
            let g = match g { 0 => GetRaw::InMempool, 1 => GetRaw::Confirmed, 2 => GetRaw::NotFound, _ => GetRaw::Other };
            let s = if *s == 0 { Send::Ok } else { Send::Code(*s) };
            m.insert(txid, (g, s));
        }
        m
    }

    /// Executes one operation on the real tower; appends the canonical result tokens to `line`.
    /// Returns false when the real code panicked (the history ends there).
    pub fn exec(&mut self, op: &Op, script: &Script, line: &mut Line) -> bool {
        let sm = self.script_map(script);
        self.node.begin_step(sm);
        let r = std::panic::catch_unwind(std::panic::AssertUnwindSafe(|| self.exec_inner(op)));
        match r {
            Ok(tokens) => {
                for t in tokens {
                    line.tok(t);
                }
                true
            }
            Err(_) => {
                self.panicked = true;
                let loc = crate::LAST_PANIC.lock().unwrap().clone().unwrap_or_else(|| "?".into());
                line.tok("X").tok(loc);
                false
            }
        }
    }

    fn exec_inner(&mut self, op: &Op) -> Vec<String> {
        let (call, meta) = self.prepare(op);
        if !self.watch_hangs {
            let reply = self.runner().run(call);
            return self.render(&meta, reply);
        }
        if self.worker.is_none() {
            let (tx, crx) = std::sync::mpsc::channel::<Call>();
            let (rtx, rx) = std::sync::mpsc::channel::<std::thread::Result<Reply>>();
            let runner = self.runner();
            std::thread::spawn(move || {
                while let Ok(call) = crx.recv() {
                    let r = std::panic::catch_unwind(std::panic::AssertUnwindSafe(|| runner.run(call)));
                    if rtx.send(r).is_err() {
                        break;
                    }
                }
            });
            self.worker = Some(Worker { tx, rx });
        }
        let w = self.worker.as_ref().unwrap();
        w.tx.send(call).expect("worker thread gone");
        match w.rx.recv_timeout(step_timeout()) {
            Ok(Ok(reply)) => self.render(&meta, reply),
            Ok(Err(p)) => std::panic::resume_unwind(p),
            Err(_) => {
                self.hung = true;
                *crate::LAST_PANIC.lock().unwrap() = Some("hang:operation-did-not-return".into());
                std::panic::resume_unwind(Box::new("hang"))
            }
        }
    }

    /// Lowers SQLite's bound-variable limit on the tower's own connection, so that the chunking of the IN (...)
    /// lists (locator intersection per block, batch deletes of appointments and users) takes its multi-chunk
    /// paths with a handful of rows; the behaviour must not depend on it.
    pub fn set_sql_variable_limit(&self, n: i32) {
        use teos_common::dbm::DatabaseConnection;
        self.dbm
            .lock()
            .unwrap()
            .get_connection()
            .set_limit(rusqlite::limits::Limit::SQLITE_LIMIT_VARIABLE_NUMBER, n);
    }

    /// What is needed to run calls on the real components from any thread.
    pub fn runner(&self) -> Runner {
        Runner {
            api: self.api.clone(),
            gatekeeper: self.gatekeeper.clone(),
            watcher: self.watcher.clone(),
            responder: self.responder.clone(),
            order: self.listener_order.clone(),
        }
    }

    /// Builds the concrete request / block for an abstract operation (no effect on the tower).
    pub fn prepare(&mut self, op: &Op) -> (Call, Meta) {
        match op {
            Op::Register(uid) => {
                let (_, pk) = self.user(*uid);
                let req = common_msgs::RegisterRequest { user_id: pk.serialize().to_vec() };
                (Call::Register(req), Meta::Register(pk))
            }
            Op::Add { signer, class, loc, blob, delay } => {
                let uid = *signer;
                let locator = self.locator(*loc);
                let bytes = self.blobs[*blob].0.clone();
                // the message this request type defines, built independently of Appointment::to_vec
                let mut msg = locator.to_vec();
                msg.extend_from_slice(&bytes);
                msg.extend_from_slice(&delay.to_be_bytes());
                let other = format!("get appointment {}", hex::encode(locator.to_vec()));
                let signing_uid = if uid >= 0 { uid as u64 } else { 0 };
                let sig = self.make_sig(signing_uid, *class, &msg, other.as_bytes());
                let sid = self.sig_id(&sig);
                let req = common_msgs::AddAppointmentRequest {
                    appointment: Some(common_msgs::Appointment {
                        locator: locator.to_vec(),
                        encrypted_blob: bytes,
                        to_self_delay: *delay,
                    }),
                    signature: sig.clone(),
                };
                (Call::Add(req), Meta::Add { locator: locator.to_vec(), sig, sid })
            }
            Op::Get { signer, class, loc } => {
                let locator = self.locator(*loc);
                let msg = format!("get appointment {}", hex::encode(locator.to_vec()));
                let signing_uid = if *signer >= 0 { *signer as u64 } else { 0 };
                let sig = self.make_sig(signing_uid, *class, msg.as_bytes(), b"get subscription info");
                let req = common_msgs::GetAppointmentRequest { locator: locator.to_vec(), signature: sig };
                (Call::Get(req), Meta::Get)
            }
            Op::GetSub { signer, class } => {
                let signing_uid = if *signer >= 0 { *signer as u64 } else { 0 };
                let sig = self.make_sig(signing_uid, *class, b"get subscription info", b"get appointment 00");
                let req = common_msgs::GetSubscriptionInfoRequest { signature: sig };
                (Call::GetSub(req), Meta::GetSub)
            }
            Op::Connect { hash, txs } => {
                let real: Vec<Transaction> = txs.iter().map(|t| self.tx(*t)).collect();
                let prev = self.chain.last().unwrap().1.header.block_hash();
                let height = self.height() + 1;
                let block = make_block(prev, 1_700_000_000 + height, *hash as u32, real);
                self.chain.push((*hash, block.clone()));
                (Call::Connect(block, height), Meta::Block)
            }
            Op::Disconnect => {
                if self.chain.len() > 1 {
                    let height = self.height();
                    let (_, block) = self.chain.pop().unwrap();
                    (Call::Disconnect(block, height), Meta::Block)
                } else {
                    (Call::Nop, Meta::Block)
                }
            }
        }
    }

    /// Canonical tokens of a reply.
    pub fn render(&mut self, meta: &Meta, reply: Reply) -> Vec<String> {
        let mut out: Vec<String> = Vec::new();
        match (meta, reply) {
            (Meta::Register(pk), Reply::Register(r)) => match r {
                Ok(r) => {
                    let receipt = RegistrationReceipt::with_signature(
                        UserId(*pk),
                        r.available_slots,
                        r.subscription_start,
                        r.subscription_expiry,
                        r.subscription_signature.clone(),
                    );
                    let ok = receipt.verify(&self.tower_id) && r.user_id == pk.serialize().to_vec();
                    out.push("RO".into());
                    out.push(r.available_slots.to_string());
                    out.push(r.subscription_start.to_string());
                    out.push(r.subscription_expiry.to_string());
                    out.push((ok as u8).to_string());
                }
                Err(st) => {
                    out.push(if st.code() == Code::ResourceExhausted { "RM".into() } else { format!("R?{}", hex_status(st.code())) });
                }
            },
            (Meta::Add { locator, sig, sid }, Reply::Add(r)) => match r {
                Ok(r) => {
                    // the client-side verifier: the receipt binds the user's own signature and the start block
                    let receipt = AppointmentReceipt::with_signature(sig.clone(), r.start_block, r.signature.clone());
                    let ok = receipt.verify(&self.tower_id) && &r.locator == locator;
                    out.push("AO".into());
                    out.push(r.start_block.to_string());
                    out.push(if ok { sid.to_string() } else { "-1".into() });
                    out.push(r.available_slots.to_string());
                    out.push(r.subscription_expiry.to_string());
                }
                Err(st) => out.extend(add_err_tokens(&st)),
            },
            (Meta::Get, Reply::Get(r)) => match r {
                Ok(r) => match r.appointment_data.and_then(|d| d.appointment_data) {
                    Some(common_msgs::appointment_data::AppointmentData::Appointment(a)) => {
                        out.push("GA".into());
                        out.push(self.id_of_locator.get(&a.locator).map(|x| *x as i64).unwrap_or(-2).to_string());
                        out.extend(self.blob_tokens(&a.encrypted_blob));
                        out.push(a.to_self_delay.to_string());
                        out.push(r.status.to_string());
                    }
                    Some(common_msgs::appointment_data::AppointmentData::Tracker(t)) => {
                        out.push("GT".into());
                        out.push(self.txid_bytes_id(&t.dispute_txid).to_string());
                        out.push(self.txid_bytes_id(&t.penalty_txid).to_string());
                        // the raw penalty must be the penalty whose id is reported
                        let raw_ok = consensus::deserialize::<Transaction>(&t.penalty_rawtx)
                            .map(|tx| tx.compute_txid().to_byte_array().to_vec() == t.penalty_txid)
                            .unwrap_or(false);
                        out.push((raw_ok as u8).to_string());
                        out.push(r.status.to_string());
                    }
                    None => out.push("G?empty".into()),
                },
                Err(st) => out.extend(get_err_tokens(&st, "G")),
            },
            (Meta::GetSub, Reply::GetSub(r)) => match r {
                Ok(r) => {
                    out.push("SO".into());
                    out.push(r.available_slots.to_string());
                    out.push(r.subscription_expiry.to_string());
                    let mut locs: Vec<i64> = r
                        .locators
                        .iter()
                        .map(|l| self.id_of_locator.get(l).map(|x| *x as i64).unwrap_or(-2))
                        .collect();
                    locs.sort();
                    out.push(locs.len().to_string());
                    out.extend(locs.iter().map(|l| l.to_string()));
                }
                Err(st) => out.extend(get_err_tokens(&st, "S")),
            },
            (Meta::Block, _) => out.push("B".into()),
            _ => out.push("??".into()),
        }
        out
    }

    fn txid_bytes_id(&self, b: &[u8]) -> i64 {
        Txid::from_slice(b).ok().and_then(|t| self.id_of_txid.get(&t)).map(|x| *x as i64).unwrap_or(-2)
    }

    fn blob_tokens(&self, bytes: &[u8]) -> Vec<String> {
        match self.blob_index.get(bytes) {
            Some(i) => {
                let ab = self.blobs[*i].1;
                vec![ab.key.to_string(), ab.pay.to_string(), ab.len.to_string()]
            }
            None => vec!["-2".into(), "-2".into(), bytes.len().to_string()],
        }
    }

    /// RPC log of the step just executed: sorted (kind, tx id)
    pub fn rpc_tokens(&mut self, line: &mut Line) {
        let log = self.node.take_log();
        let mut v: Vec<(u8, i64)> = log
            .iter()
            .map(|(k, t)| ((*k == RpcKind::Send) as u8, self.id_of_txid.get(t).map(|x| *x as i64).unwrap_or(-2)))
            .collect();
        v.sort();
        line.tok(v.len());
        for (k, t) in v {
            line.tok(k).tok(t);
        }
    }

    /// the three tables (read through a separate read-only connection) and the gatekeeper's memory
    pub fn state_tokens(&mut self, line: &mut Line) {
        // users
        let mut users: Vec<(i64, u32, u32, u32)> = Vec::new();
        {
            let mut stmt = self.reader.prepare("SELECT user_id, available_slots, subscription_start, subscription_expiry FROM users").unwrap();
            let mut rows = stmt.query([]).unwrap();
            while let Ok(Some(row)) = rows.next() {
                let id: Vec<u8> = row.get(0).unwrap();
                users.push((self.uid_of_pk.get(&id).map(|x| *x as i64).unwrap_or(-2), row.get(1).unwrap(), row.get(2).unwrap(), row.get(3).unwrap()));
            }
        }
        users.sort();
        line.tok(users.len());
        for u in &users {
            line.tok(u.0).tok(u.1).tok(u.2).tok(u.3);
        }
        // appointments
        let mut uuid_map: HashMap<Vec<u8>, (i64, i64)> = HashMap::new();
        let mut apps: Vec<Vec<String>> = Vec::new();
        {
            let mut stmt = self.reader.prepare("SELECT UUID, locator, encrypted_blob, to_self_delay, user_signature, start_block, user_id FROM appointments").unwrap();
            let mut rows = stmt.query([]).unwrap();
            while let Ok(Some(row)) = rows.next() {
                let uuid: Vec<u8> = row.get(0).unwrap();
                let loc: Vec<u8> = row.get(1).unwrap();
                let blob: Vec<u8> = row.get(2).unwrap();
                let delay: u32 = row.get(3).unwrap();
                let sig: String = row.get(4).unwrap();
                let start: u32 = row.get(5).unwrap();
                let uid: Vec<u8> = row.get(6).unwrap();
                let l = self.id_of_locator.get(&loc).map(|x| *x as i64).unwrap_or(-2);
                let u = self.uid_of_pk.get(&uid).map(|x| *x as i64).unwrap_or(-2);
                uuid_map.insert(uuid, (l, u));
                let mut t = vec![format!("{l:020}"), format!("{u:020}")];
                t.extend(self.blob_tokens(&blob));
                t.push(delay.to_string());
                t.push(self.sigs.get(&sig).map(|x| *x as i64).unwrap_or(-2).to_string());
                t.push(start.to_string());
                apps.push(t);
            }
        }
        apps.sort();
        line.tok(apps.len());
        for a in &apps {
            line.tok(a[0].trim_start_matches('0').parse::<i64>().unwrap_or(0));
            line.tok(a[1].trim_start_matches('0').parse::<i64>().unwrap_or(0));
            for x in &a[2..] {
                line.tok(x);
            }
        }
        // trackers
        let mut trks: Vec<(i64, i64, i64, i64, u32, u8)> = Vec::new();
        {
            let mut stmt = self.reader.prepare("SELECT UUID, dispute_tx, penalty_tx, height, confirmed FROM trackers").unwrap();
            let mut rows = stmt.query([]).unwrap();
            while let Ok(Some(row)) = rows.next() {
                let uuid: Vec<u8> = row.get(0).unwrap();
                let d: Vec<u8> = row.get(1).unwrap();
                let p: Vec<u8> = row.get(2).unwrap();
                let h: u32 = row.get(3).unwrap();
                let c: bool = row.get(4).unwrap();
                let (l, u) = uuid_map.get(&uuid).copied().unwrap_or((-3, -3));
                let did = consensus::deserialize::<Transaction>(&d).ok().and_then(|t| self.id_of_txid.get(&t.compute_txid()).copied()).map(|x| x as i64).unwrap_or(-2);
                let pid = consensus::deserialize::<Transaction>(&p).ok().and_then(|t| self.id_of_txid.get(&t.compute_txid()).copied()).map(|x| x as i64).unwrap_or(-2);
                trks.push((l, u, did, pid, h, c as u8));
            }
        }
        trks.sort();
        line.tok(trks.len());
        for t in &trks {
            line.tok(t.0).tok(t.1).tok(t.2).tok(t.3).tok(t.4).tok(t.5);
        }
        // gatekeeper memory through the private API
        let ids = self.known_users.clone();
        let mut mem: Vec<(u64, u32, u32)> = Vec::new();
        for uid in ids {
            let (_, pk) = self.user(uid);
            let req = msgs::GetUserRequest { user_id: pk.serialize().to_vec() };
            let api = self.api.clone();
            let rt = &self.rt;
            let r = std::panic::catch_unwind(std::panic::AssertUnwindSafe(|| rt.block_on(api.get_user(Request::new(req)))));
            if let Ok(Ok(resp)) = r {
                let r = resp.into_inner();
                mem.push((uid, r.available_slots, r.subscription_expiry));
            }
        }
        line.tok(mem.len());
        for m in &mem {
            line.tok(m.0).tok(m.1).tok(m.2);
        }
    }

    /// does the tower still answer? (after a panic: poisoned mutexes make every request fail)
    pub fn alive(&mut self) -> bool {
        let api = self.api.clone();
        let r = std::panic::catch_unwind(std::panic::AssertUnwindSafe(|| {
            let a = self.rt.block_on(api.get_tower_info(Request::new(()))).is_ok();
            let (_, pk) = key_of_uid(9999);
            let b = self
                .rt
                .block_on(api.register(Request::new(common_msgs::RegisterRequest { user_id: pk.serialize().to_vec() })))
                .is_ok();
            a && b
        }));
        matches!(r, Ok(true))
    }
}

fn add_err_tokens(st: &tonic::Status) -> Vec<String> {
    match st.code() {
        Code::Unauthenticated => {
            if let Some(x) = st.message().strip_prefix("Your subscription expired at ") {
                vec!["AE".into(), x.to_string()]
            } else {
                vec!["AA".into()]
            }
        }
        Code::AlreadyExists => vec!["AT".into()],
        c => vec![format!("A?{}", hex_status(c))],
    }
}

fn get_err_tokens(st: &tonic::Status, p: &str) -> Vec<String> {
    match st.code() {
        Code::Unauthenticated => {
            if let Some(x) = st.message().strip_prefix("Your subscription expired at ") {
                vec![format!("{p}E"), x.to_string()]
            } else {
                vec![format!("{p}U")]
            }
        }
        Code::NotFound => vec![format!("{p}N")],
        c => vec![format!("{p}?{}", hex_status(c))],
    }
}

/// A concrete call on the real tower.
pub enum Call {
    Register(common_msgs::RegisterRequest),
    Add(common_msgs::AddAppointmentRequest),
    Get(common_msgs::GetAppointmentRequest),
    GetSub(common_msgs::GetSubscriptionInfoRequest),
    Connect(Block, u32),
    Disconnect(Block, u32),
    Nop,
}

pub enum Reply {
    Register(Result<common_msgs::RegisterResponse, tonic::Status>),
    Add(Result<common_msgs::AddAppointmentResponse, tonic::Status>),
    Get(Result<common_msgs::GetAppointmentResponse, tonic::Status>),
    GetSub(Result<common_msgs::GetSubscriptionInfoResponse, tonic::Status>),
    Block,
}

/// What `render` needs besides the reply.
pub enum Meta {
    Register(PublicKey),
    Add { locator: Vec<u8>, sig: String, sid: u64 },
    Get,
    GetSub,
    Block,
}

#[derive(Clone)]
pub struct Runner {
    pub api: Arc<InternalAPI>,
    pub gatekeeper: Arc<Gatekeeper>,
    pub watcher: Arc<Watcher>,
    pub responder: Arc<Responder>,
    pub order: Vec<u8>,
}

thread_local! {
    static RT: tokio::runtime::Runtime = tokio::runtime::Builder::new_current_thread().enable_all().build().unwrap();
}

impl Runner {
    /// Runs the call on the calling thread (may block inside the tower: locks, reachability wait).
    pub fn run(&self, call: Call) -> Reply {
        match call {
            Call::Register(req) => Reply::Register(RT.with(|rt| rt.block_on(self.api.register(Request::new(req)))).map(|r| r.into_inner())),
            Call::Add(req) => Reply::Add(RT.with(|rt| rt.block_on(self.api.add_appointment(Request::new(req)))).map(|r| r.into_inner())),
            Call::Get(req) => Reply::Get(RT.with(|rt| rt.block_on(self.api.get_appointment(Request::new(req)))).map(|r| r.into_inner())),
            Call::GetSub(req) => Reply::GetSub(RT.with(|rt| rt.block_on(self.api.get_subscription_info(Request::new(req)))).map(|r| r.into_inner())),
            Call::Connect(block, height) => {
                let txdata: Vec<(usize, &Transaction)> = block.txdata.iter().enumerate().collect();
                for w in &self.order {
                    match w {
                        0 => self.gatekeeper.filtered_block_connected(&block.header, &txdata, height),
                        1 => self.watcher.filtered_block_connected(&block.header, &txdata, height),
                        _ => self.responder.filtered_block_connected(&block.header, &txdata, height),
                    }
                }
                Reply::Block
            }
            Call::Disconnect(block, height) => {
                for w in &self.order {
                    match w {
                        0 => self.gatekeeper.block_disconnected(&block.header, height),
                        1 => self.watcher.block_disconnected(&block.header, height),
                        _ => self.responder.block_disconnected(&block.header, height),
                    }
                }
                Reply::Block
            }
            Call::Nop => Reply::Block,
        }
    }
}
