//! Shared utilities of the verification harnesses (deterministic PRNG, token output, simulated chain).
pub mod rng;
pub mod simchain;

use std::fmt::Write as _;

/// A line of whitespace separated tokens.
#[derive(Default)]
pub struct Line(pub String);

impl Line {
    pub fn new() -> Self {
        Line(String::new())
    }
    pub fn tok<T: std::fmt::Display>(&mut self, t: T) -> &mut Self {
        if !self.0.is_empty() {
            self.0.push(' ');
        }
        write!(self.0, "{t}").unwrap();
        self
    }
    pub fn opt_i64(&mut self, v: Option<i64>) -> &mut Self {
        self.tok(v.unwrap_or(-1))
    }
}

pub fn env_u64(name: &str, default: u64) -> u64 {
    std::env::var(name)
        .ok()
        .and_then(|v| v.parse().ok())
        .unwrap_or(default)
}
