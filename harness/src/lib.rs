//! Shared utilities of the verification harnesses (deterministic PRNG, token output, simulated chain).
pub mod evlog;
pub mod rng;
pub mod simchain;
pub mod locks;
pub mod pollworld;
pub mod simnode;
pub mod world;

use std::fmt::Write as _;

/// A line of whitespace separated tokens.
#[derive(Default)]
pub struct Line(pub String);

impl Line {
    pub fn new() -> Self {
        Line(String::new())
    }
    pub fn tok<T: std::fmt::Display>(&mut self, t: T) -> &mut Self {
        if !self.0.is_empty() {
            self.0.push(' ');
        }
        write!(self.0, "{t}").unwrap();
        self
    }
    pub fn opt_i64(&mut self, v: Option<i64>) -> &mut Self {
        self.tok(v.unwrap_or(-1))
    }
}

pub fn env_u64(name: &str, default: u64) -> u64 {
    std::env::var(name)
        .ok()
        .and_then(|v| v.parse().ok())
        .unwrap_or(default)
}

/// location (file:line) of the last panic, set by the hook `install_panic_hook` installs
pub static LAST_PANIC: std::sync::Mutex<Option<String>> = std::sync::Mutex::new(None);

pub fn install_panic_hook() {
    std::panic::set_hook(Box::new(|info| {
        let loc = info
            .location()
            .map(|l| {
                let f = l.file();
                let f = f.rsplit("/repo/").next().unwrap_or(f);
                format!("{}:{}", f, l.line())
            })
            .unwrap_or_else(|| "?".into());
        if std::env::var("VERIF_SHOW_PANICS").is_ok() {
            eprintln!("panic at {loc}: {info}");
        }
        if let Ok(mut g) = LAST_PANIC.lock() {
            *g = Some(loc);
        }
    }));
}

/// A logger that discards everything but makes `log::info!` evaluate its arguments, as the
/// logger teosd installs does (module level Info).
struct NullLogger;
impl log::Log for NullLogger {
    fn enabled(&self, m: &log::Metadata) -> bool {
        m.level() <= log::Level::Info
    }
    fn log(&self, r: &log::Record) {
        // format the arguments (as a real logger would) and drop the text
        let _ = format!("{}", r.args());
    }
    fn flush(&self) {}
}
static NULL_LOGGER: NullLogger = NullLogger;
pub fn install_null_logger() {
    let _ = log::set_logger(&NULL_LOGGER);
    log::set_max_level(log::LevelFilter::Info);
}
