//! In-process simulated bitcoind: a `jsonrpc` Transport answering `sendrawtransaction` and
//! `getrawtransaction` from a per-step script (txid -> answers) and logging every call.
use std::collections::HashMap;
use std::fmt;
use std::sync::{Arc, Mutex};

use bitcoin::consensus;
use bitcoin::{Transaction, Txid};
use bitcoincore_rpc::jsonrpc;
use bitcoincore_rpc::jsonrpc::client::Transport;
use bitcoincore_rpc::jsonrpc::error::RpcError;
use bitcoincore_rpc::jsonrpc::{Error, Request, Response};
use serde_json::value::RawValue;

#[derive(Clone, Copy, Debug, PartialEq, Eq)]
pub enum GetRaw {
    InMempool,
    Confirmed,
    NotFound,
    Other,
}

#[derive(Clone, Copy, Debug, PartialEq, Eq)]
pub enum Send {
    Ok,
    Code(i32),
}

#[derive(Clone, Copy, Debug, PartialEq, Eq, PartialOrd, Ord)]
pub enum RpcKind {
    GetRaw = 0,
    Send = 1,
}

#[derive(Default)]
pub struct NodeState {
    /// answers for the current step; default (NotFound, Ok)
    pub script: HashMap<Txid, (GetRaw, Send)>,
    /// every call of the current step
    pub log: Vec<(RpcKind, Txid)>,
    /// raw transactions the node has been told about (for getrawtransaction replies)
    pub known: HashMap<Txid, Transaction>,
    /// number of upcoming calls that fail with a transport error (outage), None = no outage
    pub fail_calls: Option<u64>,
    /// while true every call fails with a transport error
    pub down: bool,
    /// total number of calls ever made (used to place outages)
    pub calls: u64,
    /// when set, the call with this index (and the following ones while `down`) fails
    pub outage_at: Option<u64>,
    /// shared with the simulated block source: the node as a whole is unreachable
    pub link: Option<std::sync::Arc<std::sync::atomic::AtomicBool>>,
    /// every request put on the wire, in order, with the thread that made it and whether it was answered
    /// (false = transport error); kept for the whole life of the node (C12)
    pub wire: Vec<(std::thread::ThreadId, RpcKind, Option<Txid>, bool)>,
}

#[derive(Clone, Default)]
pub struct SimNode(pub Arc<Mutex<NodeState>>);

#[derive(Debug)]
struct Outage;
impl fmt::Display for Outage {
    fn fmt(&self, f: &mut fmt::Formatter) -> fmt::Result {
        write!(f, "connection refused (simulated)")
    }
}
impl std::error::Error for Outage {}

fn ok(id: serde_json::Value, v: serde_json::Value) -> Response {
    Response {
        result: Some(RawValue::from_string(v.to_string()).unwrap()),
        error: None,
        id,
        jsonrpc: Some("2.0".into()),
    }
}

fn err(id: serde_json::Value, code: i32) -> Response {
    Response {
        result: None,
        error: Some(RpcError { code, message: format!("simulated error {code}"), data: None }),
        id,
        jsonrpc: Some("2.0".into()),
    }
}

impl SimNode {
    pub fn new() -> Self {
        SimNode(Arc::new(Mutex::new(NodeState::default())))
    }

    pub fn client(&self) -> bitcoincore_rpc::Client {
        bitcoincore_rpc::Client::from_jsonrpc(jsonrpc::client::Client::with_transport(self.clone()))
    }

    pub fn begin_step(&self, script: HashMap<Txid, (GetRaw, Send)>) {
        let mut st = self.0.lock().unwrap();
        st.script = script;
        st.log.clear();
    }

    pub fn take_log(&self) -> Vec<(RpcKind, Txid)> {
        std::mem::take(&mut self.0.lock().unwrap().log)
    }

    pub fn learn(&self, tx: &Transaction) {
        self.0.lock().unwrap().known.insert(tx.compute_txid(), tx.clone());
    }
}

/// kind and transaction of a request, read off the request itself (also when it will not be answered)
fn wire_key(req: &Request) -> Option<(RpcKind, Option<Txid>)> {
    let params: Vec<serde_json::Value> = match req.params {
        Some(p) => serde_json::from_str(p.get()).unwrap_or_default(),
        None => vec![],
    };
    let first = params.first().and_then(|v| v.as_str()).unwrap_or("");
    match req.method {
        "sendrawtransaction" => {
            let bytes = hex::decode(first).unwrap_or_default();
            let txid = consensus::deserialize::<Transaction>(&bytes).ok().map(|tx| tx.compute_txid());
            Some((RpcKind::Send, txid))
        }
        "getrawtransaction" => Some((RpcKind::GetRaw, first.parse().ok())),
        _ => None,
    }
}

impl Transport for SimNode {
    fn send_request(&self, req: Request) -> Result<Response, Error> {
        let mut st = self.0.lock().unwrap();
        let idx = st.calls;
        st.calls += 1;
        if st.outage_at == Some(idx) {
            st.down = true;
            st.outage_at = None;
            if let Some(l) = &st.link {
                l.store(true, std::sync::atomic::Ordering::SeqCst);
            }
        }
        if let Some(l) = &st.link {
            st.down = l.load(std::sync::atomic::Ordering::SeqCst);
        }
        if let Some((kind, txid)) = wire_key(&req) {
            let answered = !st.down;
            st.wire.push((std::thread::current().id(), kind, txid, answered));
        }
        if st.down {
            return Err(Error::Transport(Box::new(Outage)));
        }
        // a kill just before the node receives the request / just after it has handled it
        drop(st);
        teos_common::verif::crash_point("rpc:pre");
        let r = self.handle(req);
        teos_common::verif::crash_point("rpc:post");
        r
    }

    fn send_batch(&self, _reqs: &[Request]) -> Result<Vec<Response>, Error> {
        Err(Error::EmptyBatch)
    }

    fn fmt_target(&self, f: &mut fmt::Formatter) -> fmt::Result {
        write!(f, "simnode")
    }
}

impl SimNode {
    fn handle(&self, req: Request) -> Result<Response, Error> {
        let mut st = self.0.lock().unwrap();
        let params: Vec<serde_json::Value> = match req.params {
            Some(p) => serde_json::from_str(p.get()).unwrap_or_default(),
            None => vec![],
        };
        match req.method {
            "sendrawtransaction" => {
                let hex = params.first().and_then(|v| v.as_str()).unwrap_or("");
                let bytes = hex::decode(hex).unwrap_or_default();
                let tx: Transaction = match consensus::deserialize(&bytes) {
                    Ok(tx) => tx,
                    Err(_) => return Ok(err(req.id, -22)),
                };
                let txid = tx.compute_txid();
                st.log.push((RpcKind::Send, txid));
                crate::evlog::push("RS");
                st.known.insert(txid, tx);
                match st.script.get(&txid).map(|x| x.1).unwrap_or(Send::Ok) {
                    Send::Ok => Ok(ok(req.id, serde_json::Value::String(txid.to_string()))),
                    Send::Code(c) => Ok(err(req.id, c)),
                }
            }
            "getrawtransaction" => {
                let txid: Txid = match params.first().and_then(|v| v.as_str()).and_then(|s| s.parse().ok()) {
                    Some(t) => t,
                    None => return Ok(err(req.id, -8)),
                };
                st.log.push((RpcKind::GetRaw, txid));
                crate::evlog::push("RG");
                let ans = st.script.get(&txid).map(|x| x.0).unwrap_or(GetRaw::NotFound);
                match ans {
                    GetRaw::NotFound => Ok(err(req.id, -5)),
                    GetRaw::Other => Ok(err(req.id, -20)),
                    GetRaw::InMempool | GetRaw::Confirmed => {
                        let hex = st
                            .known
                            .get(&txid)
                            .map(|tx| hex::encode(consensus::serialize(tx)))
                            .unwrap_or_default();
                        let mut v = serde_json::json!({"hex": hex, "txid": txid.to_string(), "hash": txid.to_string(),
                            "size": 0, "vsize": 0, "version": 2, "locktime": 0, "vin": [], "vout": []});
                        if ans == GetRaw::Confirmed {
                            v["blockhash"] = serde_json::Value::String(
                                "00000000000000000000000000000000000000000000000000000000000000aa".into(),
                            );
                            v["confirmations"] = serde_json::json!(3);
                        }
                        Ok(ok(req.id, v))
                    }
                }
            }
            "getblockchaininfo" | "getblockcount" => Ok(err(req.id, -1)),
            _ => Ok(err(req.id, -32601)),
        }
    }

}
