//! ChainMonitor-level world: the real `ChainMonitor` + LDK `SpvClient` polling a simulated block
//! source (a tree of blocks with failure injection), on top of the real tower of `world.rs`.
//! Used for outages (C12), crash + restart (C03) and concurrency experiments (C10).
use std::collections::HashMap;
use std::sync::mpsc;
use std::sync::{Arc, Mutex as StdMutex};

use bitcoin::block::Block;
use bitcoin::hashes::Hash;
use bitcoin::pow::Work;
use bitcoin::{BlockHash, Network};
use lightning_block_sync::poll::{ChainPoller, Validate, ValidatedBlockHeader};
use lightning_block_sync::{
    AsyncBlockSourceResult, BlockData, BlockHeaderData, BlockSource, BlockSourceError, SpvClient, UnboundedCache,
};

use teos::chain_monitor::ChainMonitor;
use teos::gatekeeper::Gatekeeper;
use teos::responder::Responder;
use teos::watcher::Watcher;

use crate::simchain::make_block;
use crate::world::World;

#[derive(Default)]
pub struct ChainState {
    pub blocks: HashMap<BlockHash, (Block, u32)>,
    pub best: Option<BlockHash>,
    /// every call fails with a transient error (the node is unreachable)
    pub down: bool,
    /// the n-th `get_block` call from now fails with a transient error (0 = the next one)
    pub fail_block_in: Option<u64>,
    pub persistent: bool,
    /// the n-th `get_block` call from now takes `stall_ms` before it answers (0 = the next one)
    pub stall_block_in: Option<u64>,
    pub stall_ms: u64,
    /// shared with the RPC transport: the node as a whole is unreachable
    pub link: Option<Arc<std::sync::atomic::AtomicBool>>,
    /// calls made (kind, height)
    pub log: Vec<(&'static str, u32)>,
}

#[derive(Clone, Default)]
pub struct SimSource(pub Arc<StdMutex<ChainState>>);

fn work_at(height: u32) -> Work {
    let mut b = [0u8; 32];
    b[28..].copy_from_slice(&(height + 1).to_be_bytes());
    Work::from_be_bytes(b)
}

impl SimSource {
    pub fn add_block(&self, block: Block, height: u32) {
        let mut st = self.0.lock().unwrap();
        st.blocks.insert(block.header.block_hash(), (block, height));
    }
    pub fn set_best(&self, h: BlockHash) {
        self.0.lock().unwrap().best = Some(h);
    }
    pub fn header_of(&self, h: &BlockHash) -> Option<BlockHeaderData> {
        let st = self.0.lock().unwrap();
        st.blocks.get(h).map(|(b, height)| BlockHeaderData { header: b.header, height: *height, chainwork: work_at(*height) })
    }
}

impl BlockSource for SimSource {
    fn get_header<'a>(&'a self, header_hash: &'a BlockHash, _hint: Option<u32>) -> AsyncBlockSourceResult<'a, BlockHeaderData> {
        Box::pin(async move {
            let mut st = self.0.lock().unwrap();
            if st.down || st.link.as_ref().map(|l| l.load(std::sync::atomic::Ordering::SeqCst)).unwrap_or(false) {
                return Err(BlockSourceError::transient("connection refused (simulated)"));
            }
            match st.blocks.get(header_hash).map(|(b, h)| (b.header, *h)) {
                Some((header, height)) => {
                    st.log.push(("header", height));
                    Ok(BlockHeaderData { header, height, chainwork: work_at(height) })
                }
                None => Err(BlockSourceError::transient("header not found")),
            }
        })
    }

    fn get_block<'a>(&'a self, header_hash: &'a BlockHash) -> AsyncBlockSourceResult<'a, BlockData> {
        Box::pin(async move {
            // a download that stalls (the node is slow, not gone): decided under the lock, slept without it
            let stall = {
                let mut st = self.0.lock().unwrap();
                match st.stall_block_in {
                    Some(0) => {
                        st.stall_block_in = None;
                        Some(st.stall_ms)
                    }
                    Some(n) => {
                        st.stall_block_in = Some(n - 1);
                        None
                    }
                    None => None,
                }
            };
            if let Some(ms) = stall {
                tokio::time::sleep(std::time::Duration::from_millis(ms)).await;
            }
            let mut st = self.0.lock().unwrap();
            if st.down || st.link.as_ref().map(|l| l.load(std::sync::atomic::Ordering::SeqCst)).unwrap_or(false) {
                return Err(BlockSourceError::transient("connection refused (simulated)"));
            }
            if let Some(n) = st.fail_block_in {
                if n == 0 {
                    st.fail_block_in = None;
                    return Err(if st.persistent {
                        BlockSourceError::persistent("block not available (simulated)")
                    } else {
                        BlockSourceError::transient("block download failed (simulated)")
                    });
                }
                st.fail_block_in = Some(n - 1);
            }
            match st.blocks.get(header_hash).cloned() {
                Some((b, h)) => {
                    st.log.push(("block", h));
                    Ok(BlockData::FullBlock(b))
                }
                None => Err(BlockSourceError::transient("block not found")),
            }
        })
    }

    fn get_best_block(&self) -> AsyncBlockSourceResult<(BlockHash, Option<u32>)> {
        Box::pin(async move {
            let st = self.0.lock().unwrap();
            if st.down || st.link.as_ref().map(|l| l.load(std::sync::atomic::Ordering::SeqCst)).unwrap_or(false) {
                return Err(BlockSourceError::transient("connection refused (simulated)"));
            }
            match st.best {
                Some(h) => Ok((h, st.blocks.get(&h).map(|x| x.1))),
                None => Err(BlockSourceError::transient("empty chain")),
            }
        })
    }
}

/// First listener of the chain monitor: reports the blocks handed to the tower (connect / disconnect)
/// to `evlog`; the three real listeners follow in main.rs's order.
pub struct BlockLog;
impl lightning::chain::Listen for BlockLog {
    fn filtered_block_connected(&self, header: &bitcoin::block::Header, _txdata: &lightning::chain::transaction::TransactionData, height: u32) {
        crate::evlog::push(&format!("BC:{}:{}", header.block_hash(), height));
    }
    fn block_disconnected(&self, header: &bitcoin::block::Header, height: u32) {
        crate::evlog::push(&format!("BD:{}:{}", header.block_hash(), height));
    }
}

type Listener = Arc<(Arc<BlockLog>, Arc<(Arc<Gatekeeper>, Arc<(Arc<Watcher>, Arc<Responder>)>)>)>;
type Monitor = ChainMonitor<'static, ChainPoller<Box<SimSource>, SimSource>, UnboundedCache, Listener>;

enum Cmd {
    Poll,
    Stop,
}

/// The chain monitor lives in its own thread (as it lives in the main task of teosd) and polls on demand.
pub struct MonitorThread {
    tx: mpsc::Sender<Cmd>,
    done: mpsc::Receiver<bool>,
    pub handle: Option<std::thread::JoinHandle<()>>,
    pub polling: bool,
}

impl MonitorThread {
    pub fn spawn(source: SimSource, tip: ValidatedBlockHeader, w: &World) -> MonitorThread {
        let listener: Listener =
            Arc::new((Arc::new(BlockLog), Arc::new((w.gatekeeper.clone(), Arc::new((w.watcher.clone(), w.responder.clone()))))));
        let dbm = w.dbm.clone();
        let reachable = w.reachable.clone();
        let (tx, rx) = mpsc::channel::<Cmd>();
        let (dtx, drx) = mpsc::channel::<bool>();
        let handle = std::thread::Builder::new()
            .name("chain-monitor".into())
            .spawn(move || {
                let rt = tokio::runtime::Builder::new_current_thread().enable_all().build().unwrap();
                let cache: &'static mut UnboundedCache = Box::leak(Box::new(UnboundedCache::new()));
                let poller = ChainPoller::new(Box::new(source), Network::Regtest);
                let spv = SpvClient::new(tip, poller, cache, listener);
                let (_trigger, signal) = triggered::trigger();
                let mut cm: Monitor = rt.block_on(ChainMonitor::new(spv, tip, dbm, 60, signal, reachable));
                while let Ok(cmd) = rx.recv() {
                    match cmd {
                        Cmd::Poll => {
                            let r = std::panic::catch_unwind(std::panic::AssertUnwindSafe(|| rt.block_on(cm.poll_best_tip())));
                            let _ = dtx.send(r.is_ok());
                        }
                        Cmd::Stop => break,
                    }
                }
            })
            .unwrap();
        MonitorThread { tx, done: drx, handle: Some(handle), polling: false }
    }

    /// The chain monitor's own loop (`monitor_chain`, polling every `delta_sec`) until the returned trigger fires.
    pub fn spawn_loop(source: SimSource, tip: ValidatedBlockHeader, w: &World, delta_sec: u16) -> (std::thread::JoinHandle<bool>, triggered::Trigger) {
        let listener: Listener =
            Arc::new((Arc::new(BlockLog), Arc::new((w.gatekeeper.clone(), Arc::new((w.watcher.clone(), w.responder.clone()))))));
        let dbm = w.dbm.clone();
        let reachable = w.reachable.clone();
        let (trigger, signal) = triggered::trigger();
        let handle = std::thread::Builder::new()
            .name("chain-monitor-loop".into())
            .spawn(move || {
                let rt = tokio::runtime::Builder::new_current_thread().enable_all().build().unwrap();
                let cache: &'static mut UnboundedCache = Box::leak(Box::new(UnboundedCache::new()));
                let poller = ChainPoller::new(Box::new(source), Network::Regtest);
                let spv = SpvClient::new(tip, poller, cache, listener);
                let mut cm: Monitor = rt.block_on(ChainMonitor::new(spv, tip, dbm, delta_sec, signal, reachable));
                std::panic::catch_unwind(std::panic::AssertUnwindSafe(|| rt.block_on(cm.monitor_chain()))).is_ok()
            })
            .unwrap();
        (handle, trigger)
    }

    pub fn start_poll(&mut self) {
        self.polling = true;
        let _ = self.tx.send(Cmd::Poll);
    }

    /// Some(ok) when the poll has returned (ok = it did not panic)
    pub fn try_finish(&mut self, wait: std::time::Duration) -> Option<bool> {
        match self.done.recv_timeout(wait) {
            Ok(ok) => {
                self.polling = false;
                Some(ok)
            }
            Err(_) => None,
        }
    }

    pub fn stop(&mut self) {
        let _ = self.tx.send(Cmd::Stop);
    }
}

/// The node's view of the chain: a tree of blocks; `active` is the best chain by height.
pub struct SimChain {
    pub source: SimSource,
    /// active chain: (abstract hash id, block hash), index = height
    pub active: Vec<(u64, BlockHash)>,
    pub next_hash: u64,
    /// every block ever mined (or given initially): abstract hash id and abstract transaction ids
    pub ids: HashMap<BlockHash, (u64, Vec<u64>)>,
}

impl SimChain {
    pub fn from_init(init: &[(u64, Block)]) -> SimChain {
        let source = SimSource::default();
        let mut active = Vec::new();
        let mut ids = HashMap::new();
        for (h, (id, b)) in init.iter().enumerate() {
            source.add_block(b.clone(), h as u32);
            active.push((*id, b.header.block_hash()));
            ids.insert(b.header.block_hash(), (*id, vec![]));
        }
        source.set_best(active.last().unwrap().1);
        SimChain { source, active, next_hash: 3000, ids }
    }

    pub fn height(&self) -> u32 {
        (self.active.len() - 1) as u32
    }

    pub fn tip_header(&self) -> ValidatedBlockHeader {
        let h = self.active.last().unwrap().1;
        self.source.header_of(&h).unwrap().validate(h).unwrap()
    }

    pub fn header_at(&self, hash: BlockHash) -> Option<ValidatedBlockHeader> {
        self.source.header_of(&hash).and_then(|d| d.validate(hash).ok())
    }

    /// Mines one block with the given transactions on top of the active chain.
    pub fn mine(&mut self, w: &mut World, txs: &[u64]) -> u64 {
        let real: Vec<bitcoin::Transaction> = txs.iter().map(|t| w.tx(*t)).collect();
        let prev = self.active.last().unwrap().1;
        let height = self.height() + 1;
        self.next_hash += 1;
        let id = self.next_hash;
        let block = make_block(prev, 1_800_000_000 + height, id as u32, real);
        let hash = block.header.block_hash();
        self.source.add_block(block, height);
        self.ids.insert(hash, (id, txs.to_vec()));
        self.active.push((id, hash));
        self.source.set_best(hash);
        id
    }

    /// Replaces the last `depth` blocks by `depth + extra` new ones holding `txs` per block.
    pub fn reorg(&mut self, w: &mut World, depth: usize, blocks: &[Vec<u64>]) {
        let depth = depth.min(self.active.len() - 1);
        self.active.truncate(self.active.len() - depth);
        for txs in blocks {
            self.mine(w, txs);
        }
    }

    /// blocks of the active chain, newest first, as (abstract id, block) for `World::build`
    pub fn last_blocks(&self, tip: BlockHash, n: usize) -> Vec<(u64, Block)> {
        let st = self.source.0.lock().unwrap();
        let mut out = Vec::new();
        let mut cur = tip;
        for _ in 0..n {
            match st.blocks.get(&cur) {
                Some((b, _)) => {
                    out.push((0u64, b.clone()));
                    cur = b.header.prev_blockhash;
                    if cur == BlockHash::all_zeros() {
                        break;
                    }
                }
                None => break,
            }
        }
        out.reverse();
        out
    }
}
