//! C19: the real `TxIndex` (both instantiations used by the tower) on exhaustive small-scope and
//! random operation sequences. Output line format (all tokens integers):
//!   TI <variant> <n> <height> <ninit> {hash nk {k}*}* <nops> {1 hash nk {k}* | 0 hash}*
//!      <nqk> {k}* <nqh> {h}* OBS {per state (after init and after each op): get(k).. height(h)..}
//! init blocks are listed oldest first. -1 = None. Values: variant 0 (Txid -> BlockHash) the
//! abstract hash of the block, variant 1 (Locator -> Transaction) the abstract key itself.
use std::collections::HashMap;
use std::io::Write;

use bitcoin::block::{Header, Version};
use bitcoin::hashes::Hash;
use bitcoin::{BlockHash, Transaction, Txid};
use lightning_block_sync::poll::Validate;
use lightning_block_sync::BlockData;

use teos::tx_index::TxIndex;
use teos_common::appointment::Locator;

use verif_harness::rng::Rng;
use verif_harness::simchain::{make_block, tx_of_id};
use verif_harness::{env_u64, Line};

#[derive(Clone, Debug)]
pub enum Op {
    Connect(u64, Vec<u64>),
    Disconnect(u64),
}

pub struct Case {
    pub variant: u8,
    pub n: usize,
    pub height: u32,
    pub init: Vec<(u64, Vec<u64>)>, // oldest first
    pub ops: Vec<Op>,
    pub qkeys: Vec<u64>,
    pub qhashes: Vec<u64>,
}

struct World {
    hash_of: HashMap<u64, BlockHash>,
    id_of_hash: HashMap<BlockHash, u64>,
    id_of_txid: HashMap<Txid, u64>,
    last: BlockHash,
    time: u32,
}

impl World {
    fn new() -> Self {
        World {
            hash_of: HashMap::new(),
            id_of_hash: HashMap::new(),
            id_of_txid: HashMap::new(),
            last: BlockHash::all_zeros(),
            time: 1,
        }
    }
    fn tx(&mut self, k: u64) -> Transaction {
        let tx = tx_of_id(k, 0);
        self.id_of_txid.insert(tx.compute_txid(), k);
        tx
    }
    fn register(&mut self, hid: u64, h: BlockHash) {
        self.hash_of.insert(hid, h);
        self.id_of_hash.insert(h, hid);
        self.last = h;
    }
    /// a header for abstract hash `hid` (same id => same header => same real hash)
    fn header(&mut self, hid: u64) -> Header {
        let header = Header {
            version: Version::from_consensus(1),
            prev_blockhash: BlockHash::all_zeros(),
            merkle_root: bitcoin::TxMerkleNode::all_zeros(),
            time: 7,
            bits: bitcoin::CompactTarget::from_consensus(0x207fffff),
            nonce: hid as u32,
        };
        self.register(hid, header.block_hash());
        header
    }
    fn real_hash(&mut self, hid: u64) -> BlockHash {
        match self.hash_of.get(&hid) {
            Some(h) => *h,
            None => self.header(hid).block_hash(),
        }
    }
}

trait Inst {
    type K: teos::tx_index::Key + Copy;
    type V: teos::tx_index::Value + Clone;
    fn key(w: &mut World, k: u64) -> Self::K;
    fn val(w: &mut World, k: u64, block: BlockHash) -> Self::V;
    fn abs(w: &World, v: &Self::V) -> i64;
}

struct ByTxid;
impl Inst for ByTxid {
    type K = Txid;
    type V = BlockHash;
    fn key(w: &mut World, k: u64) -> Txid {
        w.tx(k).compute_txid()
    }
    fn val(_w: &mut World, _k: u64, block: BlockHash) -> BlockHash {
        block
    }
    fn abs(w: &World, v: &BlockHash) -> i64 {
        w.id_of_hash.get(v).map(|x| *x as i64).unwrap_or(-2)
    }
}

struct ByLocator;
impl Inst for ByLocator {
    type K = Locator;
    type V = Transaction;
    fn key(w: &mut World, k: u64) -> Locator {
        Locator::new(w.tx(k).compute_txid())
    }
    fn val(w: &mut World, k: u64, _block: BlockHash) -> Transaction {
        w.tx(k)
    }
    fn abs(w: &World, v: &Transaction) -> i64 {
        w.id_of_txid.get(&v.compute_txid()).map(|x| *x as i64).unwrap_or(-2)
    }
}

fn observe<I: Inst>(w: &mut World, idx: &TxIndex<I::K, I::V>, c: &Case, line: &mut Line) {
    for k in &c.qkeys {
        let key = I::key(w, *k);
        let r = idx.get(&key).map(|v| I::abs(w, v));
        line.opt_i64(r);
    }
    for h in &c.qhashes {
        let real = w.real_hash(*h);
        line.opt_i64(idx.get_height(&real).map(|x| x as i64));
    }
}

fn run_case<I: Inst>(c: &Case) -> String {
    let mut w = World::new();
    let mut line = Line::new();
    line.tok("TI").tok(c.variant).tok(c.n).tok(c.height).tok(c.init.len());
    // bootstrap through the real constructor: chained, validated blocks, newest first
    let mut validated = Vec::new();
    for (hid, keys) in &c.init {
        line.tok(hid).tok(keys.len());
        for k in keys {
            line.tok(k);
        }
        let txs: Vec<Transaction> = keys.iter().map(|k| w.tx(*k)).collect();
        w.time += 1;
        let block = make_block(w.last, w.time, *hid as u32, txs);
        let hash = block.header.block_hash();
        w.register(*hid, hash);
        validated.push(BlockData::FullBlock(block).validate(hash).unwrap());
    }
    validated.reverse();
    let mut idx: TxIndex<I::K, I::V> = TxIndex::new(&validated, c.height);

    line.tok(c.ops.len());
    for op in &c.ops {
        match op {
            Op::Connect(h, ks) => {
                line.tok(1).tok(h).tok(ks.len());
                for k in ks {
                    line.tok(k);
                }
            }
            Op::Disconnect(h) => {
                line.tok(0).tok(h);
            }
        }
    }
    line.tok(c.qkeys.len());
    for k in &c.qkeys {
        line.tok(k);
    }
    line.tok(c.qhashes.len());
    for h in &c.qhashes {
        line.tok(h);
    }
    line.tok("OBS");
    observe::<I>(&mut w, &idx, c, &mut line);
    for op in &c.ops {
        let r = std::panic::catch_unwind(std::panic::AssertUnwindSafe(|| match op {
            Op::Connect(hid, keys) => {
                let header = w.header(*hid);
                let bh = header.block_hash();
                let mut data = HashMap::new();
                for k in keys {
                    let key = I::key(&mut w, *k);
                    let val = I::val(&mut w, *k, bh);
                    data.insert(key, val);
                }
                idx.update(header, &data);
            }
            Op::Disconnect(hid) => {
                let real = w.real_hash(*hid);
                idx.remove_disconnected_block(&real);
            }
        }));
        if r.is_err() {
            // the real code aborted inside this operation (an unwrap on a broken index)
            line.tok("P");
            break;
        }
        observe::<I>(&mut w, &idx, c, &mut line);
    }
    line.0
}

fn run_any(c: &Case) -> Result<String, String> {
    let r = std::panic::catch_unwind(|| match c.variant {
        0 => run_case::<ByTxid>(c),
        _ => run_case::<ByLocator>(c),
    });
    r.map_err(|_| "panic".to_string())
}

/// all sequences of exactly `len` operations over a universe of `u` keys
fn exhaustive(out: &mut dyn Write, variant: u8, n: usize, u: u64, len: usize, count: &mut u64) {
    // initial window: n blocks; block i holds key i when i < u (so evictions drop live keys)
    let init: Vec<(u64, Vec<u64>)> = (0..n as u64)
        .map(|i| (100 + i, if i < u && i % 2 == 0 { vec![i] } else { vec![] }))
        .collect();
    let subsets: Vec<Vec<u64>> = (0..(1u64 << u))
        .map(|m| (0..u).filter(|b| m & (1 << b) != 0).collect())
        .collect();
    struct St {
        live: Vec<(u64, Vec<u64>)>,
        gone: Option<(u64, Vec<u64>)>,
        next: u64,
    }
    fn rec(
        out: &mut dyn Write,
        variant: u8,
        n: usize,
        u: u64,
        len: usize,
        init: &Vec<(u64, Vec<u64>)>,
        subsets: &Vec<Vec<u64>>,
        st: &mut St,
        ops: &mut Vec<Op>,
        count: &mut u64,
    ) {
        if ops.len() == len {
            let mut qh: Vec<u64> = init.iter().map(|x| x.0).collect();
            qh.extend(200..st.next);
            qh.push(999);
            let c = Case {
                variant,
                n,
                height: 50,
                init: init.clone(),
                ops: ops.clone(),
                qkeys: (0..u).collect(),
                qhashes: qh,
            };
            match run_any(&c) {
                Ok(l) => writeln!(out, "{l}").unwrap(),
                Err(e) => writeln!(out, "TIPANIC {e} {:?}", c.ops).unwrap(),
            }
            *count += 1;
            return;
        }
        // connect a fresh block with every subset of the keys that are not live (hypothesis (b)
        // holds), plus one connection re-using a live key (outside (b): correspondence only)
        let live_keys: Vec<u64> = st.live.iter().flat_map(|(_, ks)| ks.clone()).collect();
        let mut choices: Vec<Vec<u64>> = subsets
            .iter()
            .filter(|s| s.iter().all(|k| !live_keys.contains(k)))
            .cloned()
            .collect();
        if let Some(k) = live_keys.first() {
            choices.push(vec![*k]);
        }
        for s in &choices {
            let h = st.next;
            let saved_live = st.live.clone();
            st.next += 1;
            st.live.push((h, s.clone()));
            if st.live.len() > n {
                st.live.remove(0);
            }
            ops.push(Op::Connect(h, s.clone()));
            rec(out, variant, n, u, len, init, subsets, st, ops, count);
            ops.pop();
            st.live = saved_live;
            st.next -= 1;
        }
        // disconnect the back of the queue
        if let Some(back) = st.live.last().cloned() {
            let saved_live = st.live.clone();
            let saved_gone = st.gone.clone();
            st.live.pop();
            st.gone = Some(back.clone());
            ops.push(Op::Disconnect(back.0));
            rec(out, variant, n, u, len, init, subsets, st, ops, count);
            ops.pop();
            st.live = saved_live;
            st.gone = saved_gone;
        }
        // re-connect the block disconnected last (the chain switches back)
        if let Some(g) = st.gone.clone() {
            let live_keys: Vec<u64> = st.live.iter().flat_map(|(_, ks)| ks.clone()).collect();
            if !st.live.iter().any(|b| b.0 == g.0) && g.1.iter().all(|k| !live_keys.contains(k)) {
                let saved_live = st.live.clone();
                st.live.push(g.clone());
                if st.live.len() > n {
                    st.live.remove(0);
                }
                ops.push(Op::Connect(g.0, g.1.clone()));
                rec(out, variant, n, u, len, init, subsets, st, ops, count);
                ops.pop();
                st.live = saved_live;
            }
        }
        // outside hypothesis (a): disconnect a block that is not the back (correspondence only)
        if st.live.len() >= 2 && ops.len() + 1 == len {
            let front = st.live[0].0;
            ops.push(Op::Disconnect(front));
            let saved_live = st.live.clone();
            rec(out, variant, n, u, len, init, subsets, st, ops, count);
            st.live = saved_live;
            ops.pop();
        }
    }
    let mut st = St {
        live: init.clone(),
        gone: None,
        next: 200,
    };
    let mut ops = Vec::new();
    rec(out, variant, n, u, len, &init, &subsets, &mut st, &mut ops, count);
}

fn random_case(rng: &mut Rng, variant: u8, n: usize, len: usize) -> Case {
    let mut next_key = 0u64;
    let mut next_hash = 1000u64;
    let mut live: Vec<(u64, Vec<u64>)> = Vec::new();
    let mut spare_keys: Vec<u64> = Vec::new(); // keys of evicted / disconnected blocks: may re-appear
    let mut gone: Vec<(u64, Vec<u64>)> = Vec::new();
    let mut all_hashes = Vec::new();
    let mut fresh_block = |rng: &mut Rng, spare: &mut Vec<u64>, live: &Vec<(u64, Vec<u64>)>| {
        let nk = rng.below(5);
        let mut ks = Vec::new();
        for _ in 0..nk {
            if !spare.is_empty() && rng.chance(1, 3) {
                let i = rng.below(spare.len() as u64) as usize;
                let k = spare.swap_remove(i);
                if !ks.contains(&k) {
                    ks.push(k);
                }
            } else if rng.chance(1, 40) && !live.is_empty() {
                // outside hypothesis (b): a key that is live in another block
                let b = &live[rng.below(live.len() as u64) as usize];
                if let Some(k) = b.1.first() {
                    if !ks.contains(k) {
                        ks.push(*k);
                    }
                }
            } else {
                ks.push(next_key);
                next_key += 1;
            }
        }
        let h = next_hash;
        next_hash += 1;
        (h, ks)
    };
    let mut init = Vec::new();
    for _ in 0..n {
        let b = fresh_block(rng, &mut spare_keys, &live);
        all_hashes.push(b.0);
        live.push(b.clone());
        init.push(b);
    }
    let mut ops = Vec::new();
    while ops.len() < len {
        let r = rng.below(100);
        if r < 70 || live.is_empty() {
            let b = if !gone.is_empty() && rng.chance(1, 6) {
                gone.pop().unwrap()
            } else {
                fresh_block(rng, &mut spare_keys, &live)
            };
            all_hashes.push(b.0);
            ops.push(Op::Connect(b.0, b.1.clone()));
            live.push(b);
            if live.len() > n {
                let old = live.remove(0);
                spare_keys.extend(old.1);
            }
        } else if r < 97 {
            // a reorg: depth d disconnections, then usually at least d connections follow
            let maxd = if rng.chance(1, 5) { n as u64 } else { 3.min(n as u64) };
            let d = 1 + rng.below(maxd) as usize;
            for _ in 0..d {
                if let Some(b) = live.pop() {
                    ops.push(Op::Disconnect(b.0));
                    spare_keys.extend(b.1.clone());
                    gone.push(b);
                }
            }
        } else {
            // outside hypothesis (a): unknown hash or not the back
            let h = if live.len() > 1 && rng.chance(1, 2) { live[0].0 } else { 5 };
            ops.push(Op::Disconnect(h));
        }
    }
    all_hashes.sort();
    all_hashes.dedup();
    let qh: Vec<u64> = if all_hashes.len() > 40 {
        let mut v: Vec<u64> = all_hashes.iter().rev().take(30).copied().collect();
        for _ in 0..10 {
            v.push(*rng.pick(&all_hashes));
        }
        v
    } else {
        all_hashes.clone()
    };
    let mut qk: Vec<u64> = (0..next_key).collect();
    if qk.len() > 60 {
        let mut v: Vec<u64> = qk.iter().rev().take(40).copied().collect();
        for _ in 0..20 {
            v.push(*rng.pick(&qk));
        }
        qk = v;
    }
    Case {
        variant,
        n,
        height: 100 + rng.below(1000) as u32,
        init,
        ops,
        qkeys: qk,
        qhashes: qh,
    }
}

/// Parses the case part (everything before OBS) of a TI line.
fn parse_case(line: &str) -> Option<Case> {
    let mut it = line.split_whitespace();
    if it.next()? != "TI" {
        return None;
    }
    let mut num = || -> Option<u64> { it.next()?.parse().ok() };
    let variant = num()? as u8;
    let n = num()? as usize;
    let height = num()? as u32;
    let ninit = num()?;
    let mut init = Vec::new();
    for _ in 0..ninit {
        let h = num()?;
        let nk = num()?;
        let ks = (0..nk).map(|_| num()).collect::<Option<Vec<u64>>>()?;
        init.push((h, ks));
    }
    let nops = num()?;
    let mut ops = Vec::new();
    for _ in 0..nops {
        if num()? == 1 {
            let h = num()?;
            let nk = num()?;
            let ks = (0..nk).map(|_| num()).collect::<Option<Vec<u64>>>()?;
            ops.push(Op::Connect(h, ks));
        } else {
            ops.push(Op::Disconnect(num()?));
        }
    }
    let nqk = num()?;
    let qkeys = (0..nqk).map(|_| num()).collect::<Option<Vec<u64>>>()?;
    let nqh = num()?;
    let qhashes = (0..nqh).map(|_| num()).collect::<Option<Vec<u64>>>()?;
    Some(Case { variant, n, height, init, ops, qkeys, qhashes })
}

/// Re-runs the cases of a file (one TI line each, observations ignored) on the real code.
pub fn replay(out: &mut dyn Write, args: &[String]) {
    std::panic::set_hook(Box::new(|_| {}));
    let text = std::fs::read_to_string(&args[0]).expect("cannot read case file");
    for l in text.lines() {
        if let Some(c) = parse_case(l) {
            match run_any(&c) {
                Ok(l) => writeln!(out, "{l}").unwrap(),
                Err(e) => writeln!(out, "TIPANIC {e} {:?}", c.ops).unwrap(),
            }
        }
    }
}

pub fn run(out: &mut dyn Write, _args: &[String]) {
    std::panic::set_hook(Box::new(|_| {}));
    let seed = env_u64("VERIF_SEED", 0);
    let thorough = std::env::var("VERIF_TIER").map(|t| t == "thorough").unwrap_or(false);
    let mut rng = Rng::new(seed ^ 0xC19);
    let mut count = 0u64;
    // exhaustive small scopes
    let scopes: &[(usize, u64, usize)] = if thorough {
        // (lengths 7 / 9 produce a case file of tens of gigabytes: one more step than the quick tier is what fits)
        &[(1, 4, 6), (2, 4, 6), (3, 4, 6), (2, 3, 7), (3, 3, 7)]
    } else {
        &[(1, 4, 4), (2, 4, 4), (3, 4, 4), (2, 3, 5), (3, 3, 5)]
    };
    for (n, u, len) in scopes {
        for variant in 0..2u8 {
            if variant == 1 && *len > 5 && !thorough {
                continue;
            }
            exhaustive(out, variant, *n, *u, *len, &mut count);
        }
    }
    writeln!(out, "TIEXH {count}").unwrap();
    // random sequences at the production sizes
    let (n6, n100) = if thorough { (400, 60) } else { (60, 8) };
    for i in 0..n6 {
        let len = 40 + rng.below(360) as usize;
        let c = random_case(&mut rng, (i % 2) as u8, 6, len);
        match run_any(&c) {
            Ok(l) => writeln!(out, "{l}").unwrap(),
            Err(e) => writeln!(out, "TIPANIC {e} {:?}", c.ops).unwrap(),
        }
    }
    for i in 0..n100 {
        let len = 150 + rng.below(250) as usize;
        let c = random_case(&mut rng, (i % 2) as u8, 100, len);
        match run_any(&c) {
            Ok(l) => writeln!(out, "{l}").unwrap(),
            Err(e) => writeln!(out, "TIPANIC {e} {:?}", c.ops).unwrap(),
        }
    }
}
