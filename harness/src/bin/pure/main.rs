//! Pure differential runners: the real functions of /repo on generated inputs, one canonical
//! line per case (tokens; see DESIGN.md appendix A).
use std::io::Write;

mod txindex;

fn main() {
    let args: Vec<String> = std::env::args().collect();
    if args.len() < 3 {
        eprintln!("usage: pure <txindex> <out-file> [args]");
        std::process::exit(2);
    }
    let out = std::fs::File::create(&args[2]).expect("cannot create output file");
    let mut out = std::io::BufWriter::new(out);
    match args[1].as_str() {
        "txindex" => txindex::run(&mut out, &args[3..]),
        "txindex-replay" => txindex::replay(&mut out, &args[3..]),
        other => {
            eprintln!("unknown runner {other}");
            std::process::exit(2);
        }
    }
    out.flush().unwrap();
}
