//! C12: a bitcoind outage placed at every node RPC of a set of base scenarios, on the request path
//! and on the block-processing path, lasting k further polls; plus block-download failures in the
//! middle of multi-block polls. Real ChainMonitor + SpvClient + tower; threads as in teosd (the chain
//! monitor in its own thread, each API request in a worker thread). Hook H3 tells which thread
//! waits for reachability, so "blocked with no possible waker" is decided from the wait state.
//! One line per scenario:  OT <template> <fault_rpc> <k> <extra> | <tokens>
use std::io::Write;
use std::path::PathBuf;
use std::sync::atomic::{AtomicBool, Ordering};
use std::sync::mpsc;
use std::sync::Arc;
use std::thread::ThreadId;
use std::time::{Duration, Instant};

use verif_harness::locks::{Recorder, SyncEv};
use verif_harness::pollworld::{MonitorThread, SimChain};
use verif_harness::world::{initial_chain, Cfg, Meta, Op, Reply, World, INIT_HEIGHT};

const INIT_TIP: usize = INIT_HEIGHT as usize;
use verif_harness::{env_u64, Line};

#[derive(Clone, Debug)]
enum Step {
    Api(Op),
    Mine(Vec<u64>),
    Reorg(usize, Vec<Vec<u64>>),
    Poll,
    /// arm: the node becomes unreachable at the n-th RPC issued from now on
    ArmOutage(u64),
    NodeUp,
    /// the j-th block download of the following polls fails
    FailBlock(u64),
    /// a request that must be refused with 'service unavailable' while the tower knows the node is down
    Probe,
}

struct InFlight {
    tid: ThreadId,
    rx: mpsc::Receiver<Reply>,
    meta: Meta,
    label: String,
}

struct Run {
    w: World,
    chain: SimChain,
    mon: MonitorThread,
    mon_tid: Option<ThreadId>,
    rec: Arc<Recorder>,
    link: Arc<AtomicBool>,
    inflight: Vec<InFlight>,
    /// tokens of the scenario's observable outcome
    out: Vec<String>,
    probes_during_outage: u32,
    probes_refused: u32,
    monitor_stuck: bool,
    api_stuck: bool,
    forced: bool,
    hit: bool,
    waiter: &'static str,
    /// API worker threads in the order they were started
    api_tids: Vec<ThreadId>,
    /// the scenario as the model driver replays it (one item per step)
    mdl: Vec<String>,
    /// length of the node's wire log when the outage was armed
    wire_mark: i64,
    /// number of blocks handed to the listeners when the fault was armed
    deliv_mark: i64,
    /// per-thread traces (node's wire log, condition-variable events) taken before any forced release
    snapshot: Option<(String, String)>,
}

fn work_dir(tag: &str) -> PathBuf {
    let base = if std::path::Path::new("/dev/shm").is_dir() { PathBuf::from("/dev/shm") } else { std::env::temp_dir() };
    base.join(format!("verif-outage-{}-{}", std::process::id(), tag))
}

impl Run {
    fn new(dir: PathBuf, rec: Arc<Recorder>, init: &[(u64, bitcoin::Block)]) -> Run {
        let cfg = Cfg { slots: 50, duration: 400, delta: 10 };
        let w = World::new(cfg, dir, init, vec![0, 1, 2]);
        let chain = SimChain::from_init(init);
        let link = Arc::new(AtomicBool::new(false));
        w.node.0.lock().unwrap().link = Some(link.clone());
        chain.source.0.lock().unwrap().link = Some(link.clone());
        let mon = MonitorThread::spawn(chain.source.clone(), chain.tip_header(), &w);
        let mon_tid = mon.handle.as_ref().map(|h| h.thread().id());
        rec.start_trace();
        verif_harness::evlog::clear();
        verif_harness::evlog::enable(true);
        Run {
            w,
            chain,
            mon,
            mon_tid,
            rec,
            link,
            inflight: Vec::new(),
            out: Vec::new(),
            probes_during_outage: 0,
            probes_refused: 0,
            monitor_stuck: false,
            api_stuck: false,
            forced: false,
            hit: false,
            waiter: "none",
            api_tids: Vec::new(),
            mdl: Vec::new(),
            wire_mark: -1,
            deliv_mark: -1,
            snapshot: None,
        }
    }

    fn role(&self, t: ThreadId) -> String {
        if Some(t) == self.mon_tid {
            return "m".into();
        }
        match self.api_tids.iter().position(|x| *x == t) {
            Some(k) => format!("a{k}"),
            None => "x".into(),
        }
    }

    /// the node's wire log and the condition-variable events, per thread, in order
    fn traces(&self) -> (String, String) {
        let wire: Vec<String> = {
            let st = self.w.node.0.lock().unwrap();
            st.wire
                .iter()
                .map(|(t, k, txid, answered)| {
                    let id = txid.and_then(|x| self.w.id_of_txid.get(&x).map(|v| *v as i64)).unwrap_or(-2);
                    format!("{}:{}:{}:{}", self.role(*t), *k as u8, id, if *answered { "K" } else { "E" })
                })
                .collect()
        };
        let sync: Vec<String> = self
            .rec
            .trace()
            .iter()
            .map(|(t, e)| match e {
                SyncEv::Wait(held) => {
                    let mut h = held.clone();
                    h.sort();
                    format!("{}:W:{}", self.role(*t), h.iter().map(|x| x.to_string()).collect::<Vec<_>>().join("+"))
                }
                SyncEv::Wake => format!("{}:K:", self.role(*t)),
                SyncEv::Notify => format!("{}:N:", self.role(*t)),
            })
            .collect();
        (wire.join("/"), sync.join("/"))
    }

    fn mdl_of(&self, s: &Step) -> String {
        match s {
            Step::Api(Op::Register(u)) => format!("R:{u}"),
            Step::Api(Op::Add { signer, loc, blob, delay, .. }) => {
                let ab = self.w.blobs[*blob].1;
                format!("A:{signer}:{loc}:{}:{}:{}:{delay}", ab.key, ab.pay, ab.len)
            }
            Step::Api(Op::Get { signer, loc, .. }) => format!("G:{signer}:{loc}"),
            Step::Api(Op::GetSub { signer, .. }) => format!("S:{signer}"),
            Step::Api(_) => "Z".into(),
            Step::Mine(txs) => format!("M:{}", txs.iter().map(|t| t.to_string()).collect::<Vec<_>>().join(":")),
            Step::Reorg(..) => "X".into(),
            Step::Poll => "P".into(),
            Step::ArmOutage(n) => format!("O:{n}"),
            Step::NodeUp => "U".into(),
            Step::FailBlock(j) => format!("F:{j}"),
            Step::Probe => "S:-1".into(),
        }
    }

    /// Is thread `t` blocked for good?  Decided from the wait-for graph, not from a time-out: it waits on the
    /// condition variable while the flag is false (only a successful poll of the chain monitor raises it, and the
    /// caller asks only when no poll is on its way to do so), or it asks for a lock whose holder is blocked for good.
    fn certainly_blocked(&self, t: ThreadId, depth: u32) -> bool {
        if self.rec.is_waiting(t) {
            return self.tower_knows_down();
        }
        match self.rec.requested_by(t) {
            Some(l) if depth < 4 => match self.rec.holder_of(l, t) {
                Some(h) => self.certainly_blocked(h, depth + 1),
                None => false,
            },
            _ => false,
        }
    }

    /// Waits until the thread `tid` has delivered on `rx` or is blocked for good (10 s is only the fallback).
    fn settle<T>(&self, tid: Option<ThreadId>, rx: &mpsc::Receiver<T>) -> Option<T> {
        let t0 = Instant::now();
        loop {
            if let Ok(v) = rx.recv_timeout(Duration::from_millis(2)) {
                return Some(v);
            }
            let blocked = tid.map(|t| self.certainly_blocked(t, 0)).unwrap_or(false);
            if blocked {
                // the reply may have been sent just before the thread was seen blocked in a LATER wait: look once more
                return rx.try_recv().ok();
            }
            if t0.elapsed() > Duration::from_secs(10) {
                return None;
            }
        }
    }

    fn collect_finished(&mut self) {
        let mut i = 0;
        while i < self.inflight.len() {
            if let Ok(reply) = self.inflight[i].rx.try_recv() {
                let f = self.inflight.remove(i);
                let toks = self.w.render(&f.meta, reply);
                self.out.push(format!("late:{}:{}", f.label, toks.join(",")));
            } else {
                i += 1;
            }
        }
        if self.mon.polling {
            if let Some(ok) = self.mon.try_finish(Duration::from_millis(0)) {
                self.out.push(format!("poll-late:{}", ok as u8));
            }
        }
    }

    /// The tower has noticed the outage: its own flag says so, or (independently of what the tower does with it) the node is
    /// still down and has refused one of the tower's RPCs since the outage was armed - the Carrier got a transport error, which
    /// is the moment from which the API must refuse new work.
    fn tower_knows_down(&self) -> bool {
        if !*self.w.reachable.0.lock().unwrap() {
            return true;
        }
        if !self.link.load(Ordering::SeqCst) || self.wire_mark < 0 {
            return false;
        }
        let st = self.w.node.0.lock().unwrap();
        st.wire.iter().skip(self.wire_mark as usize).any(|e| !e.3)
    }

    fn step(&mut self, s: &Step, idx: usize) {
        let item = self.mdl_of(s);
        self.mdl.push(item);
        match s {
            Step::Api(op) => {
                let (call, meta) = self.w.prepare(op);
                let runner = self.w.runner();
                let (tx, rx) = mpsc::channel();
                let h = std::thread::spawn(move || {
                    let r = runner.run(call);
                    let _ = tx.send(r);
                });
                let tid = h.thread().id();
                self.api_tids.push(tid);
                match self.settle(Some(tid), &rx) {
                    Some(reply) => {
                        let toks = self.w.render(&meta, reply);
                        self.out.push(format!("api{idx}:{}", toks.join(",")));
                    }
                    None => {
                        let why = if self.rec.is_waiting(tid) {
                            format!("waits-reachable,holds={:?}", self.rec.held_by(tid))
                        } else {
                            format!("blocked-on-lock={:?}", self.rec.requested_by(tid))
                        };
                        if self.rec.is_waiting(tid) && self.waiter == "none" {
                            self.waiter = "api";
                        }
                        self.out.push(format!("api{idx}:BLOCKED:{why}"));
                        self.inflight.push(InFlight { tid, rx, meta, label: format!("api{idx}") });
                    }
                }
            }
            Step::Mine(txs) => {
                self.chain.mine(&mut self.w, txs);
            }
            Step::Reorg(depth, blocks) => {
                self.chain.reorg(&mut self.w, *depth, blocks);
            }
            Step::Poll => {
                if self.mon.polling {
                    self.out.push(format!("poll{idx}:monitor-still-blocked"));
                    return;
                }
                self.mon.start_poll();
                let t0 = Instant::now();
                loop {
                    if let Some(ok) = self.mon.try_finish(Duration::from_millis(2)) {
                        self.out.push(format!("poll{idx}:{}", if ok { "returned" } else { "PANIC" }));
                        break;
                    }
                    let blocked = self.mon_tid.map(|t| self.certainly_blocked(t, 0)).unwrap_or(false);
                    if blocked || t0.elapsed() > Duration::from_secs(10) {
                        if let Some(ok) = self.mon.try_finish(Duration::from_millis(0)) {
                            self.out.push(format!("poll{idx}:{}", if ok { "returned" } else { "PANIC" }));
                            break;
                        }
                        let t = self.mon_tid.unwrap();
                        let why = if self.rec.is_waiting(t) {
                            format!("waits-reachable,holds={:?}", self.rec.held_by(t))
                        } else {
                            format!("blocked-on-lock={:?}", self.rec.requested_by(t))
                        };
                        if self.rec.is_waiting(t) && self.waiter == "none" {
                            self.waiter = "mon";
                        }
                        self.out.push(format!("poll{idx}:BLOCKED:{why}"));
                        break;
                    }
                }
            }
            Step::ArmOutage(n) => {
                let mut st = self.w.node.0.lock().unwrap();
                st.outage_at = Some(st.calls + n);
                self.wire_mark = st.wire.len() as i64;
                self.deliv_mark = delivered_heights().len() as i64;
            }
            Step::NodeUp => {
                self.link.store(false, Ordering::SeqCst);
                self.w.node.0.lock().unwrap().down = false;
            }
            Step::FailBlock(j) => {
                self.chain.source.0.lock().unwrap().fail_block_in = Some(*j);
                self.deliv_mark = delivered_heights().len() as i64;
            }
            Step::Probe => {
                let knows = self.tower_knows_down();
                let (call, meta) = self.w.prepare(&Op::GetSub { signer: -1, class: 1 });
                let runner = self.w.runner();
                let (tx, rx) = mpsc::channel();
                let h = std::thread::spawn(move || {
                    let _ = tx.send(runner.run(call));
                });
                let tid = h.thread().id();
                self.api_tids.push(tid);
                match self.settle(Some(tid), &rx) {
                    Some(reply) => {
                        let toks = self.w.render(&meta, reply);
                        let refused = toks.first().map(|t| t == "S?unavailable").unwrap_or(false);
                        if knows {
                            self.probes_during_outage += 1;
                            if refused {
                                self.probes_refused += 1;
                            }
                        }
                        self.out.push(format!("probe{idx}:known-down={}:{}", knows as u8, toks.join(",")));
                    }
                    None => {
                        self.out.push(format!("probe{idx}:BLOCKED"));
                        self.inflight.push(InFlight { tid, rx, meta, label: format!("probe{idx}") });
                    }
                }
            }
        }
        if self.link.load(Ordering::SeqCst) {
            self.hit = true;
        }
        self.collect_finished();
    }

    /// End of scenario: is anything still blocked although the node is reachable again and polls succeed?
    fn finish(self) -> Vec<String> {
        self.finish_with(true)
    }

    fn finish_with(mut self, polls: bool) -> Vec<String> {
        // give the tower what it needs to recover by itself: node up, two successful polls
        self.link.store(false, Ordering::SeqCst);
        self.mdl.push("U".into());
        for i in 0..2 {
            if polls && !self.mon.polling {
                self.step(&Step::Poll, 900 + i);
            }
        }
        // a woken thread may still be on its way: wait for every request in flight until it has answered or is
        // blocked for good, and for a poll in flight likewise
        let t0 = Instant::now();
        while t0.elapsed() < Duration::from_secs(10) {
            self.collect_finished();
            let mon_busy = self.mon.polling && !self.mon_tid.map(|t| self.certainly_blocked(t, 0)).unwrap_or(false);
            let api_busy = self.inflight.iter().any(|f| !self.certainly_blocked(f.tid, 0));
            if !mon_busy && !api_busy {
                break;
            }
            std::thread::sleep(Duration::from_millis(2));
        }
        self.collect_finished();
        self.monitor_stuck = self.mon.polling;
        self.api_stuck = !self.inflight.is_empty();
        self.snapshot = Some(self.traces());
        if self.monitor_stuck || self.api_stuck {
            // nothing in the tower can wake these threads; release them so the process can go on
            self.forced = true;
            {
                let (l, cv) = &*self.w.reachable;
                *l.lock().unwrap() = true;
                cv.notify_all();
            }
            let t0 = Instant::now();
            while (self.mon.polling || !self.inflight.is_empty()) && t0.elapsed() < Duration::from_secs(5) {
                std::thread::sleep(Duration::from_millis(5));
                self.collect_finished();
            }
            // a final poll so that the state can be compared with the fault-free run
            if !self.mon.polling {
                self.step(&Step::Poll, 990);
            }
        }
        let mut line = Line::new();
        self.w.state_tokens(&mut line);
        let lkb_height = {
            let h = self.w.dbm.lock().unwrap().load_last_known_block();
            h.and_then(|h| self.chain.source.header_of(&h)).map(|d| d.height as i64).unwrap_or(-1)
        };
        let sends: Vec<String> = Vec::new();
        let mut out = self.out.clone();
        out.push(format!("hit={}", self.hit as u8));
        out.push(format!("waiter={}", self.waiter));
        out.push(format!("monitor_stuck={}", self.monitor_stuck as u8));
        out.push(format!("api_stuck={}", self.api_stuck as u8));
        out.push(format!("forced={}", self.forced as u8));
        out.push(format!("probes={}/{}", self.probes_refused, self.probes_during_outage));
        out.push(format!("lkb={lkb_height}"));
        out.push(format!("tip={}", self.chain.height()));
        let (wire, sync) = self.snapshot.clone().unwrap_or_default();
        out.push(format!("wmark={}", self.wire_mark));
        out.push(format!("wire={wire}"));
        out.push(format!("sync={sync}"));
        out.push(format!("mdl={}", if polls { self.mdl.join("/") } else { String::new() }));
        out.push(format!("dmark={}", self.deliv_mark));
        out.push(format!("deliv={}", delivered_heights().join(",")));
        out.push(format!("state=[{}]", line.0));
        let _ = sends;
        self.mon.stop();
        out
    }
}

/// base scenarios; `fault` = Some((n, k, extra)): outage at the n-th RPC after the marked point,
/// lasting k failing polls; extra = a block is mined during the outage
fn template(t: u32, fault: Option<(u64, u32, bool)>, armed: bool) -> Vec<Step> {
    let add = |u: i64, loc: u64, blob: usize| Step::Api(Op::Add { signer: u, class: 0, loc, blob, delay: 10 });
    let mut s: Vec<Step> = vec![Step::Api(Op::Register(0)), Step::Api(Op::Register(1))];
    let arm = |s: &mut Vec<Step>| {
        if let (Some((n, _, _)), true) = (fault, armed) {
            s.push(Step::ArmOutage(n));
        }
    };
    let outage_tail = |s: &mut Vec<Step>| {
        if let Some((_, k, extra)) = fault {
            s.push(Step::Probe);
            if extra {
                s.push(Step::Mine(vec![600]));
            }
            for _ in 0..k {
                s.push(Step::Poll);
                s.push(Step::Probe);
            }
            s.push(Step::NodeUp);
            s.push(Step::Poll);
            s.push(Step::Probe);
            s.push(Step::Poll);
        }
    };
    match t {
        // block path: two users' appointments breached by one block
        0 => {
            s.push(add(0, 1, 0));
            s.push(add(1, 1, 1));
            s.push(add(0, 2, 2));
            s.push(Step::Mine(vec![1, 2]));
            arm(&mut s);
            s.push(Step::Poll);
            outage_tail(&mut s);
        }
        // request path: late appointment, dispute already in the cache
        1 => {
            s.push(Step::Mine(vec![1]));
            s.push(Step::Poll);
            arm(&mut s);
            s.push(add(0, 1, 0));
            outage_tail(&mut s);
            s.push(Step::Api(Op::Get { signer: 0, class: 0, loc: 1 }));
        }
        // reorg path: a confirmed tracker is re-announced after its block is disconnected
        2 => {
            s.push(add(0, 1, 0));
            s.push(Step::Mine(vec![1]));
            s.push(Step::Poll);
            s.push(Step::Mine(vec![101]));
            s.push(Step::Poll);
            s.push(Step::Reorg(1, vec![vec![], vec![]]));
            arm(&mut s);
            s.push(Step::Poll);
            outage_tail(&mut s);
        }
        // rebroadcast path: a penalty unconfirmed for 6 blocks is re-sent while processing a block
        3 => {
            s.push(add(0, 1, 0));
            s.push(Step::Mine(vec![1]));
            s.push(Step::Poll);
            // the tracker is stamped with the height before the breach block: stale 6 blocks after that
            for _ in 0..4 {
                s.push(Step::Mine(vec![]));
                s.push(Step::Poll);
            }
            s.push(Step::Mine(vec![]));
            arm(&mut s);
            s.push(Step::Poll);
            outage_tail(&mut s);
        }
        // multi-block poll with a failed block download in the middle
        _ => {
            s.push(add(0, 1, 0));
            s.push(add(1, 2, 1));
            s.push(Step::Mine(vec![]));
            s.push(Step::Mine(vec![1]));
            s.push(Step::Mine(vec![]));
            s.push(Step::Mine(vec![2]));
            if let (Some((n, _, _)), true) = (fault, armed) {
                s.push(Step::FailBlock(n));
            }
            s.push(Step::Poll);
            s.push(Step::Poll);
            s.push(Step::Poll);
        }
    }
    s
}

fn run_scenario(t: u32, fault: Option<(u64, u32, bool)>, armed: bool, rec: &Arc<Recorder>, init: &[(u64, bitcoin::Block)], tag: &str) -> Vec<String> {
    let mut r = Run::new(work_dir(tag), rec.clone(), init);
    // blobs used by the templates: penalty 101 for dispute 1 (users 0 and 1 share it), 102 for dispute 2
    r.w.make_blob(1, 101, 0, 0);
    r.w.make_blob(1, 101, 0, 0);
    r.w.make_blob(2, 102, 0, 0);
    // handles: 0 -> (1,101), 1 -> same bytes (dedup gives 0), 2 -> (2,102): normalise
    let steps = template(t, fault, armed);
    let steps: Vec<Step> = steps
        .into_iter()
        .map(|s| match s {
            Step::Api(Op::Add { signer, class, loc, blob, delay }) => {
                let b = if loc == 1 { 0 } else { 1 };
                let _ = blob;
                Step::Api(Op::Add { signer, class, loc, blob: b, delay })
            }
            x => x,
        })
        .collect();
    for (i, s) in steps.iter().enumerate() {
        r.step(s, i);
    }
    let dir = r.w.dir.clone();
    let out = r.finish();
    let _ = std::fs::remove_dir_all(dir);
    out
}

/// heights of the blocks handed to the listeners so far (BC events of the first listener), in order
fn delivered_heights() -> Vec<String> {
    verif_harness::evlog::snapshot()
        .iter()
        .filter_map(|(_, e)| e.strip_prefix("BC:").and_then(|r| r.rsplit(':').next().map(|h| h.to_string())))
        .collect()
}

/// `monitor_chain` ITSELF (polling every second) over a 4-block backlog whose `stall`-th download takes longer
/// than the polling interval: a poll must not be abandoned half-way (the SPV client would lose the tip it had
/// reached and hand the same blocks to the listeners again).
fn run_stall_scenario(stall: Option<u64>, rec: &Arc<Recorder>, init: &[(u64, bitcoin::Block)], tag: &str) -> Vec<String> {
    let mut r = Run::new(work_dir(tag), rec.clone(), init);
    r.w.make_blob(1, 101, 0, 0);
    r.w.make_blob(2, 102, 0, 0);
    let add = |u: i64, loc: u64, blob: usize| Step::Api(Op::Add { signer: u, class: 0, loc, blob, delay: 10 });
    let steps = vec![
        Step::Api(Op::Register(0)),
        Step::Api(Op::Register(1)),
        add(0, 1, 0),
        add(1, 2, 1),
        Step::Mine(vec![]),
        Step::Mine(vec![1]),
        Step::Mine(vec![]),
        Step::Mine(vec![2]),
    ];
    for (i, s) in steps.iter().enumerate() {
        r.step(s, i);
    }
    if let Some(j) = stall {
        let mut st = r.chain.source.0.lock().unwrap();
        st.stall_block_in = Some(j);
        st.stall_ms = 1700;
    }
    // the on-demand monitor thread of `Run` stays idle; the loop gets a monitor of its own on the same tower
    let (handle, trigger) = MonitorThread::spawn_loop(r.chain.source.clone(), r.chain.header_at(r.chain.active[INIT_TIP].1).unwrap(), &r.w, 1);
    let t0 = Instant::now();
    let want = 4usize;
    // until every block has been handed over and the loop has had one more round, at most 9 s
    let mut done_at: Option<Instant> = None;
    loop {
        std::thread::sleep(Duration::from_millis(20));
        if done_at.is_none() && delivered_heights().len() >= want {
            done_at = Some(Instant::now());
        }
        let settled = done_at.map(|d| d.elapsed() > Duration::from_millis(if stall.is_some() { 2300 } else { 300 })).unwrap_or(false);
        if settled || t0.elapsed() > Duration::from_secs(9) {
            break;
        }
    }
    trigger.trigger();
    let t1 = Instant::now();
    while !handle.is_finished() && t1.elapsed() < Duration::from_secs(4) {
        std::thread::sleep(Duration::from_millis(10));
    }
    r.out.push(format!("loop={}", if handle.is_finished() { "returned" } else { "STUCK" }));
    let dir = r.w.dir.clone();
    let out = r.finish_with(false);
    let _ = std::fs::remove_dir_all(dir);
    out
}

fn main() {
    let args: Vec<String> = std::env::args().collect();
    if args.len() < 2 {
        eprintln!("usage: outage <out-file>");
        std::process::exit(2);
    }
    verif_harness::install_panic_hook();
    verif_harness::install_null_logger();
    let rec = Recorder::install();
    let init = initial_chain();
    let thorough = std::env::var("VERIF_TIER").map(|t| t == "thorough").unwrap_or(false);
    let _seed = env_u64("VERIF_SEED", 0);
    let mut out = std::io::BufWriter::new(std::fs::File::create(&args[1]).unwrap());
    let ks: &[u32] = if thorough { &[0, 1, 2, 3] } else { &[0, 2] };
    for t in 0..5u32 {
        if t == 4 {
            let twin = run_scenario(t, Some((0, 0, false)), false, &rec, &init, "twin");
            writeln!(out, "OT {t} -1 0 0 | {}", twin.join(" ")).unwrap();
            for j in 0..4u64 {
                let o = run_scenario(t, Some((j, 0, false)), true, &rec, &init, "f");
                writeln!(out, "OT {t} {j} 0 0 | {}", o.join(" ")).unwrap();
            }
            continue;
        }
        for k in ks {
            for extra in [false, true] {
                // the fault-free twin: the same steps, the node never goes down
                let twin = run_scenario(t, Some((0, *k, extra)), false, &rec, &init, "twin");
                writeln!(out, "OT {t} -1 {k} {} | {}", extra as u8, twin.join(" ")).unwrap();
                for n in 0..6u64 {
                    let o = run_scenario(t, Some((n, *k, extra)), true, &rec, &init, "f");
                    writeln!(out, "OT {t} {n} {k} {} | {}", extra as u8, o.join(" ")).unwrap();
                }
            }
        }
    }
    // monitor_chain itself, with a download that stalls longer than the polling interval (twin: no stall)
    let twin = run_stall_scenario(None, &rec, &init, "twin");
    writeln!(out, "OT 5 -1 0 0 | {}", twin.join(" ")).unwrap();
    let stalls: &[u64] = if thorough { &[0, 1, 2, 3] } else { &[2] };
    for j in stalls {
        let o = run_stall_scenario(Some(*j), &rec, &init, "f");
        writeln!(out, "OT 5 {j} 0 0 | {}", o.join(" ")).unwrap();
    }
    out.flush().unwrap();
    std::process::exit(0);
}
