//! C05 / C14 / C13 — process-level runner: spawns the REAL plugin binary (`watchtower-client`), speaks the
//! CLN plugin JSON-RPC protocol on its stdin/stdout (getmanifest, init, then RPC methods and the
//! `commitment_revocation` hook), and hosts scripted FAKE TOWERS (raw-TCP HTTP servers that sign with
//! teos_common, so good replies verify).  One line per scenario (`CP ...`), read by
//! coq/extraction/drv_client_proc.ml.
//!
//! usage: client_proc run <plugin-binary> <out-file> <scratch-dir>      (VERIF_SEED, VERIF_TIER, CP_ONLY=<family>)
//!        client_proc replay <plugin-binary> <case-file> <out-file> <scratch-dir>
//!
//! line:  CP <id> <family> <ntowers> <max_retry_s> <auto_retry_s> <max_interval_s> <nsteps> <step>* END
//! step:  S <kind> <a> <b> RES <code> <ms> OBS <observation>
//!   kind 1 REG t cls (register classes 0 good 1 badsig 2 same-expiry 3 garbage 4 api-error 5 no-more-slots 6 more-slots-same-expiry 7 receipt-of-another-user 20 down) | 2 MODE t cls (cls >= 100: register class cls-100) | 3 UP t 0/1 | 4 REV l 0 | 5 SETTLE 0 0 | 6 SLEEP ms 0 | 7 RETRY t 0
//!        | 8 ABANDON t 0 | 9 KILL 0 0 / KILL t ms (ms > 0: at the first database sample that shows a pair of tower t with BOTH a receipt
//!          and a pending row - the interrupted pending -> accepted move -, after ms at the latest) | 10 START 0 0 | 11 REVNOWAIT l 0
//!        | 12 WAKE 0 0 | 13 WAITSTATUS t status | 14 WAITREQ t l (until tower t has seen an add_appointment of locator l)
//!   RES code: 0 ok / accepted, 1 error reply, 2 no answer within the timeout, 3 not applicable; ms = duration of the step
//! observation (ints):
//!   alive now_ms
//!   LT ok n { t status slots start expiry np p* ni i* }
//!   TI nt { t present status nrec {l sigcls}* np p* ni i* proof [l rec] }
//!   RAW 7 x { n rows }    (towers t addr slots | appointments l 1 delay | pending l t | invalid l t |
//!                          registration_receipts t slots start expiry sigcls | appointment_receipts l t sb 1 sigcls |
//!                          misbehaving_proofs t l rec)
//!   LOG n { t ep l cls ms v1 v2 v3 }   requests the towers saw since the previous observation, in order
//!        ep 0 register 1 add_appointment 2 other; cls = the reply class the tower gave;
//!        v1 v2 v3 = (available_slots, subscription_start, subscription_expiry) of a register reply that carries a
//!        receipt, (available_slots, 0, 0) of an add_appointment reply that carries one, 0 0 0 otherwise
use std::collections::{HashMap, HashSet};
use std::sync::atomic::{AtomicBool, AtomicU64, Ordering};
use std::io::Write;
use std::path::{Path, PathBuf};
use std::process::Stdio;
use std::sync::{Arc, Mutex};
use std::time::{Duration, Instant};

use bitcoin::consensus::encode::serialize_hex;
use bitcoin::secp256k1::{PublicKey, Secp256k1, SecretKey};
use rusqlite::{Connection, OpenFlags};
use serde_json::{json, Value};
use tokio::io::{AsyncReadExt, AsyncWriteExt};
use tokio::net::TcpListener;
use tokio::process::{Child, ChildStdin, Command};
use tokio::sync::oneshot;

use teos_common::cryptography;
use teos_common::protos as msgs;
use teos_common::receipts::{AppointmentReceipt, RegistrationReceipt};
use teos_common::UserId;
use verif_harness::rng::Rng;
use verif_harness::{env_u64, Line};

// ------------------------------------------------------------------ keys / ids
fn key_of(id: u64) -> (SecretKey, PublicKey) {
    static KEYS: std::sync::OnceLock<Vec<(SecretKey, PublicKey)>> = std::sync::OnceLock::new();
    let keys = KEYS.get_or_init(|| {
        let secp = Secp256k1::new();
        (0..16u64)
            .map(|i| {
                let mut b = [0x11u8; 32];
                b[31] = i as u8 + 1;
                let sk = SecretKey::from_slice(&b).unwrap();
                (sk, PublicKey::from_secret_key(&secp, &sk))
            })
            .collect()
    });
    let idx = if id >= 100 { 8 + (id - 100) } else { id };
    keys[idx as usize]
}
fn tower_hex(t: u64) -> String {
    UserId(key_of(t).1).to_string()
}
fn tower_of_bytes(b: &[u8]) -> i64 {
    for t in 0..8u64 {
        if key_of(t).1.serialize().as_slice() == b {
            return t as i64;
        }
        if key_of(100 + t).1.serialize().as_slice() == b {
            return 100 + t as i64;
        }
    }
    -2
}
fn tower_of_hex(s: &str) -> i64 {
    hex::decode(s).map(|b| tower_of_bytes(&b)).unwrap_or(-2)
}
fn txid_hex(l: u64) -> String {
    hex::encode([(l + 1) as u8; 32])
}
fn loc_of_bytes(b: &[u8]) -> i64 {
    if b.len() == 16 && b.iter().all(|x| *x == b[0]) {
        b[0] as i64 - 1
    } else {
        -2
    }
}
fn loc_of_hex(s: &str) -> i64 {
    hex::decode(s).map(|b| loc_of_bytes(&b)).unwrap_or(-2)
}
fn penalty_tx_hex(l: u64) -> String {
    use bitcoin::{absolute::LockTime, transaction::Version, Amount, OutPoint, ScriptBuf, Sequence, Transaction, TxIn, TxOut, Witness};
    let tx = Transaction {
        version: Version::TWO,
        lock_time: LockTime::ZERO,
        input: vec![TxIn { previous_output: OutPoint::null(), script_sig: ScriptBuf::new(), sequence: Sequence::MAX, witness: Witness::new() }],
        output: vec![TxOut { value: Amount::from_sat(1000 + l), script_pubkey: ScriptBuf::new() }],
    };
    serialize_hex(&tx)
}

// ------------------------------------------------------------------ the fake tower
// reply classes of add_appointment
const A_ACCEPT: u64 = 0; // good signature
const A_WRONGKEY: u64 = 1; // signed with another key
const A_BADSIG: u64 = 2; // signature string that does not decode
const A_SUBERR: u64 = 3; // API error 7 (subscription)
const A_APIERR: u64 = 4; // another API error (rejection)
const A_GARBAGE: u64 = 5; // not JSON
const A_WRONGSHAPE: u64 = 6; // JSON of another shape
const A_EMPTY: u64 = 7; // empty body
const A_HUGE: u64 = 8; // 1 MB of text
const A_RESET: u64 = 9; // connection closed without an answer
const A_WRONGTYPES: u64 = 10; // the right keys with wrong types
const A_HOLD: u64 = 11; // accept, but hold the reply until the class of the tower is changed (MODE t <other>), 30 s at most
const A_SLOW: u64 = 13; // accept, 1.5 s after the request arrived (logged as an acceptance, at the time the request arrived)
const A_UTF8: u64 = 12; // not JSON: an HTML error page longer than 256 bytes made of multi-byte characters (see utf8_page)
// reply classes of register
const R_GOOD: u64 = 0;
const R_BADSIG: u64 = 1;
const R_NOTEXT: u64 = 2; // a valid receipt that does not extend the subscription
const R_GARBAGE: u64 = 3;
const R_APIERR: u64 = 4;
const R_NOTEXT_SLOTS: u64 = 5; // a valid receipt with a later expiry but no more slots than the client knows
const R_NOTEXT_EXPIRY: u64 = 6; // a valid receipt with more slots but the expiry the client already knows
const R_FOREIGN: u64 = 7; // a receipt the tower signed correctly, strictly extending, but for ANOTHER user (user_id of the reply = another key)
const R_UTF8: u64 = 8; // not JSON: the multi-byte HTML error page (see utf8_page)
const C_DOWN: u64 = 20; // not listening (connection refused) — never logged by the tower, used in scripts only

struct LogEntry {
    t: u64,
    ep: u64,
    l: i64,
    cls: u64,
    ms: u64,
    v: (u32, u32, u32),
}

struct TowerState {
    add: u64,
    reg: u64,
    gen: u32,
    log: Vec<LogEntry>,
    last_ms: u64,
    utf8_n: u64,            // how many multi-byte error pages the tower has sent (selects the variant of the next one)
    seen: Vec<(u64, i64)>,  // every (endpoint, locator) the tower has ever been asked (never drained)
}

/// An HTML error page in a language that needs multi-byte characters, longer than 256 bytes.  After `variant % 3` ASCII bytes
/// every character takes three bytes, so for EVERY byte offset (250..260 in particular) two of the three variants have that
/// offset inside a character: whoever cuts the body at a fixed byte offset hits the middle of a character.
fn utf8_page(variant: u64) -> String {
    let mut s = "<".repeat((variant % 3) as usize);
    while s.len() < 420 {
        s.push_str("サーバーエラー。しばらくしてからもう一度お試しください。");
    }
    s
}

struct FakeTower {
    id: u64,
    port: u16,
    st: Arc<Mutex<TowerState>>,
    task: Option<tokio::task::JoinHandle<()>>,
    t0: Instant,
}

fn sub_values(gen: u32) -> (u32, u32, u32) {
    // (available_slots, subscription_start, subscription_expiry) of the gen-th accepted registration
    (100 + 10 * gen, 10, 1000 + 100 * gen)
}

impl FakeTower {
    async fn new(id: u64, t0: Instant) -> FakeTower {
        let l = TcpListener::bind("127.0.0.1:0").await.unwrap();
        let port = l.local_addr().unwrap().port();
        drop(l);
        let st = Arc::new(Mutex::new(TowerState { add: A_ACCEPT, reg: R_GOOD, gen: 0, log: Vec::new(), last_ms: 0, utf8_n: 0, seen: Vec::new() }));
        let mut t = FakeTower { id, port, st, task: None, t0 };
        t.up().await;
        t
    }
    async fn up(&mut self) {
        if self.task.is_some() {
            return;
        }
        let mut listener = None;
        for _ in 0..50 {
            match TcpListener::bind(("127.0.0.1", self.port)).await {
                Ok(l) => {
                    listener = Some(l);
                    break;
                }
                Err(_) => tokio::time::sleep(Duration::from_millis(20)).await,
            }
        }
        let listener = listener.expect("cannot re-bind the tower port");
        let st = self.st.clone();
        let id = self.id;
        let t0 = self.t0;
        self.task = Some(tokio::spawn(async move {
            loop {
                if let Ok((stream, _)) = listener.accept().await {
                    let st = st.clone();
                    tokio::spawn(async move {
                        let _ = handle_conn(stream, st, id, t0).await;
                    });
                }
            }
        }));
    }
    async fn down(&mut self) {
        if let Some(t) = self.task.take() {
            t.abort();
            let _ = t.await;
        }
    }
}

async fn handle_conn(mut s: tokio::net::TcpStream, st: Arc<Mutex<TowerState>>, id: u64, t0: Instant) -> std::io::Result<()> {
    let mut buf = Vec::new();
    let mut tmp = [0u8; 8192];
    let (head_end, clen) = loop {
        let n = s.read(&mut tmp).await?;
        if n == 0 {
            return Ok(());
        }
        buf.extend_from_slice(&tmp[..n]);
        if let Some(p) = buf.windows(4).position(|w| w == b"\r\n\r\n") {
            let head = String::from_utf8_lossy(&buf[..p]).to_string();
            let clen = head
                .lines()
                .find_map(|l| {
                    let l = l.to_ascii_lowercase();
                    l.strip_prefix("content-length:").map(|v| v.trim().parse::<usize>().unwrap_or(0))
                })
                .unwrap_or(0);
            break (p + 4, clen);
        }
    };
    while buf.len() < head_end + clen {
        let n = s.read(&mut tmp).await?;
        if n == 0 {
            break;
        }
        buf.extend_from_slice(&tmp[..n]);
    }
    let head = String::from_utf8_lossy(&buf[..head_end]).to_string();
    let path = head.split_whitespace().nth(1).unwrap_or("").to_string();
    let body = &buf[head_end..];
    let ms = t0.elapsed().as_millis() as u64;
    let (tower_sk, _) = key_of(id);
    let (other_sk, _) = key_of(100 + id);
    let mut reply: Option<String> = None; // None = close without answering
    let mut held = false;
    let mut slow = false;
    {
        let mut g = st.lock().unwrap();
        g.last_ms = ms;
        if path == "/register" {
            let cls = g.reg;
            let user_id = serde_json::from_slice::<msgs::RegisterRequest>(body).ok().and_then(|r| UserId::from_slice(&r.user_id).ok());
            let mut vals = (0, 0, 0);
            reply = Some(match (cls, user_id) {
                (R_GOOD, Some(u)) | (R_BADSIG, Some(u)) | (R_NOTEXT, Some(u)) | (R_NOTEXT_SLOTS, Some(u)) | (R_NOTEXT_EXPIRY, Some(u)) | (R_FOREIGN, Some(u)) => {
                    if cls == R_GOOD {
                        g.gen += 1;
                    }
                    let (mut slots, start, mut expiry) = sub_values(g.gen);
                    if cls == R_NOTEXT_SLOTS {
                        expiry += 50;
                    }
                    if cls == R_NOTEXT_EXPIRY {
                        slots += 5;
                    }
                    // the receipt is for the user of the request, except R_FOREIGN: another user's (valid, extending) subscription
                    let u = if cls == R_FOREIGN {
                        slots += 7;
                        expiry += 70;
                        UserId(key_of(100 + id).1)
                    } else {
                        u
                    };
                    vals = (slots, start, expiry);
                    let mut r = RegistrationReceipt::new(u, slots, start, expiry);
                    r.sign(if cls == R_BADSIG { &other_sk } else { &tower_sk });
                    serde_json::to_string(&msgs::RegisterResponse {
                        user_id: u.to_vec(),
                        available_slots: slots,
                        subscription_start: start,
                        subscription_expiry: expiry,
                        subscription_signature: r.signature().unwrap(),
                    })
                    .unwrap()
                }
                (R_APIERR, _) => json!({"error": "no slots", "error_code": 65}).to_string(),
                (R_UTF8, _) => {
                    g.utf8_n += 1;
                    utf8_page(g.utf8_n - 1)
                }
                _ => "<html>this is not json</html>".to_string(),
            });
            g.seen.push((0, -1));
            g.log.push(LogEntry { t: id, ep: 0, l: -1, cls, ms, v: vals });
        } else if path == "/add_appointment" {
            let cls = g.add;
            let req = serde_json::from_slice::<msgs::AddAppointmentRequest>(body).ok();
            let loc = req.as_ref().and_then(|r| r.appointment.as_ref()).map(|a| loc_of_bytes(&a.locator)).unwrap_or(-2);
            let (slots, _start, expiry) = sub_values(g.gen);
            let has_receipt = matches!(cls, A_ACCEPT | A_WRONGKEY | A_BADSIG | A_HOLD | A_SLOW);
            // (a held reply is an acceptance: it is logged as such, at the time the request arrived)
            held = cls == A_HOLD;
            slow = cls == A_SLOW;
            g.seen.push((1, loc));
            g.log.push(LogEntry { t: id, ep: 1, l: loc, cls: if held || slow { A_ACCEPT } else { cls }, ms, v: (if has_receipt { slots } else { 0 }, 0, 0) });
            reply = match cls {
                A_ACCEPT | A_WRONGKEY | A_BADSIG | A_HOLD | A_SLOW => {
                    let req = req.unwrap();
                    let mut r = AppointmentReceipt::new(req.signature.clone(), 50);
                    r.sign(if cls == A_WRONGKEY { &other_sk } else { &tower_sk });
                    let sig = if cls == A_BADSIG { "this-is-not-a-signature".to_string() } else { r.signature().unwrap() };
                    Some(
                        serde_json::to_string(&msgs::AddAppointmentResponse {
                            locator: req.appointment.unwrap().locator,
                            start_block: 50,
                            signature: sig,
                            available_slots: slots,
                            subscription_expiry: expiry,
                        })
                        .unwrap(),
                    )
                }
                A_SUBERR => Some(json!({"error": "subscription", "error_code": 7}).to_string()),
                A_APIERR => Some(json!({"error": "rejected", "error_code": 35}).to_string()),
                A_GARBAGE => Some("<html>this is not json</html>".to_string()),
                A_WRONGSHAPE => Some(json!({"foo": [1, 2, 3]}).to_string()),
                A_WRONGTYPES => Some(
                    json!({"locator": 7, "start_block": "x", "signature": [], "available_slots": -1, "subscription_expiry": null}).to_string(),
                ),
                A_EMPTY => Some(String::new()),
                A_HUGE => Some("a".repeat(1 << 20)),
                A_UTF8 => {
                    g.utf8_n += 1;
                    Some(utf8_page(g.utf8_n - 1))
                }
                _ => None,
            };
        } else {
            g.log.push(LogEntry { t: id, ep: 2, l: -1, cls: 0, ms, v: (0, 0, 0) });
            reply = Some("{}".to_string());
        }
    }
    if slow {
        tokio::time::sleep(Duration::from_millis(1500)).await;
        st.lock().unwrap().last_ms = t0.elapsed().as_millis() as u64;
    }
    if held {
        let since = Instant::now();
        while st.lock().unwrap().add == A_HOLD && since.elapsed() < Duration::from_secs(30) {
            tokio::time::sleep(Duration::from_millis(5)).await;
        }
        st.lock().unwrap().last_ms = t0.elapsed().as_millis() as u64;
    }
    if let Some(b) = reply {
        let resp = format!("HTTP/1.1 200 OK\r\nContent-Type: application/json\r\nContent-Length: {}\r\nConnection: close\r\n\r\n", b.len());
        s.write_all(resp.as_bytes()).await?;
        s.write_all(b.as_bytes()).await?;
        s.flush().await?;
    }
    let _ = s.shutdown().await;
    Ok(())
}

// ------------------------------------------------------------------ the plugin process
struct Plugin {
    child: Child,
    stdin: ChildStdin,
    pending: Arc<Mutex<HashMap<u64, oneshot::Sender<Value>>>>,
    next_id: u64,
}

enum Answer {
    Ok(Value),
    Err(Value),
    Timeout,
}

impl Plugin {
    async fn start(bin: &Path, dir: &Path, opts: (u64, u64, u64)) -> Option<Plugin> {
        std::fs::create_dir_all(dir).unwrap();
        let errf = std::fs::OpenOptions::new().create(true).append(true).open(dir.join("plugin-stderr.txt")).unwrap();
        let mut child = Command::new(bin)
            .env("TOWERS_DATA_DIR", dir)
            .env("RUST_BACKTRACE", "0")
            .stdin(Stdio::piped())
            .stdout(Stdio::piped())
            .stderr(Stdio::from(errf))
            .kill_on_drop(true)
            .spawn()
            .ok()?;
        let stdin = child.stdin.take().unwrap();
        let mut stdout = child.stdout.take().unwrap();
        let pending: Arc<Mutex<HashMap<u64, oneshot::Sender<Value>>>> = Arc::new(Mutex::new(HashMap::new()));
        let p2 = pending.clone();
        tokio::spawn(async move {
            let mut buf: Vec<u8> = Vec::new();
            let mut tmp = [0u8; 16384];
            loop {
                match stdout.read(&mut tmp).await {
                    Ok(0) | Err(_) => break,
                    Ok(n) => buf.extend_from_slice(&tmp[..n]),
                }
                while let Some(p) = buf.windows(2).position(|w| w == b"\n\n") {
                    let msg: Vec<u8> = buf.drain(..p + 2).collect();
                    if let Ok(v) = serde_json::from_slice::<Value>(&msg[..p]) {
                        if let Some(id) = v.get("id").and_then(|i| i.as_u64()) {
                            if let Some(tx) = p2.lock().unwrap().remove(&id) {
                                let _ = tx.send(v);
                            }
                        }
                    }
                }
            }
        });
        let mut p = Plugin { child, stdin, pending, next_id: 1 };
        match p.call("getmanifest", json!({"allow-deprecated-apis": false}), 10_000).await {
            Answer::Ok(_) => {}
            _ => return None,
        }
        let init = json!({
            "options": {"watchtower-port": 9814, "watchtower-max-retry-time": opts.0, "watchtower-auto-retry-delay": opts.1,
                        "dev-watchtower-max-retry-interval": opts.2},
            "configuration": {"lightning-dir": dir.to_string_lossy(), "rpc-file": "lightning-rpc", "startup": true,
                              "network": "regtest", "feature_set": {"init": "", "node": "", "channel": "", "invoice": ""}}
        });
        match p.call("init", init, 10_000).await {
            Answer::Ok(_) => Some(p),
            _ => None,
        }
    }

    async fn send(&mut self, method: &str, params: Value) -> Option<oneshot::Receiver<Value>> {
        let id = self.next_id;
        self.next_id += 1;
        let (tx, rx) = oneshot::channel();
        self.pending.lock().unwrap().insert(id, tx);
        let msg = json!({"jsonrpc": "2.0", "id": id, "method": method, "params": params}).to_string() + "\n\n";
        if self.stdin.write_all(msg.as_bytes()).await.is_err() || self.stdin.flush().await.is_err() {
            return None;
        }
        Some(rx)
    }

    async fn call(&mut self, method: &str, params: Value, timeout_ms: u64) -> Answer {
        match self.send(method, params).await {
            None => Answer::Timeout,
            Some(rx) => match tokio::time::timeout(Duration::from_millis(timeout_ms), rx).await {
                Ok(Ok(v)) => {
                    if let Some(r) = v.get("result") {
                        Answer::Ok(r.clone())
                    } else {
                        Answer::Err(v.get("error").cloned().unwrap_or(Value::Null))
                    }
                }
                _ => Answer::Timeout,
            },
        }
    }

    async fn kill(mut self) {
        let _ = self.child.start_kill(); // SIGKILL
        let _ = self.child.wait().await;
    }
}

// ------------------------------------------------------------------ scenarios
#[derive(Clone, Debug)]
struct Scenario {
    family: u64,
    nt: u64,
    opts: (u64, u64, u64), // max retry time, auto retry delay, max retry interval (seconds)
    steps: Vec<(u64, u64, u64)>,
}

const K_REG: u64 = 1;
const K_MODE: u64 = 2;
const K_UP: u64 = 3;
const K_REV: u64 = 4;
const K_SETTLE: u64 = 5;
const K_SLEEP: u64 = 6;
const K_RETRY: u64 = 7;
const K_ABANDON: u64 = 8;
const K_KILL: u64 = 9;
const K_START: u64 = 10;
const K_REVNOWAIT: u64 = 11;
const K_WAKE: u64 = 12;
const K_WAITSTATUS: u64 = 13; // wait (15 s at most) until listtowers shows tower a with status b
const K_WAITREQ: u64 = 14; // wait (15 s at most) until tower a has seen an add_appointment of locator b (answered or held)

extern "C" {
    fn kill(pid: i32, sig: i32) -> i32;
}

fn status_code(s: &str) -> i64 {
    match s {
        "reachable" => 0,
        "temporary_unreachable" => 1,
        "unreachable" => 2,
        "subscription_error" => 3,
        "misbehaving" => 4,
        _ => -2,
    }
}

// ------------------------------------------------------------------ the database sampler
/// A background thread per scenario that reads the plugin's sqlite file (read-only, one tiny read transaction per sample)
/// and watches every (tower, locator) pair: a pair that HAD a record (receipt, pending or invalid row) in an earlier sample and
/// has none in a later one although the tower's row is still there has VANISHED (C05: "at all times ... durably recorded").
#[derive(Default)]
struct SampShared {
    samples: u64,
    moves: u64,      // pairs seen pending first and with a receipt later (a pending -> accepted move went by)
    both: u64,       // ... of which the intermediate two-record state was caught by a sample
    events: Vec<(i64, i64, u64, String)>, // (tower, locator, ms, sampled state)
    suspended: HashSet<i64>, // towers being abandoned right now
    reset: HashSet<i64>,     // towers whose history must be forgotten (abandoned)
}
struct Sampler {
    stop: Arc<AtomicBool>,
    period_us: Arc<AtomicU64>,
    shared: Arc<Mutex<SampShared>>,
    handle: Option<std::thread::JoinHandle<()>>,
    // ARMED (pid != 0): the sampler reads back to back, every sample inside an explicit read transaction, and the moment a sample
    // shows a pair of `arm_tower` with BOTH a receipt and a pending row it SIGKILLs the plugin while it still holds the read
    // transaction (SQLite cannot commit the delete of the pending row as long as a reader is there): the process dies in the
    // intermediate durable state of the pending -> accepted move.
    arm_pid: Arc<AtomicU64>,
    arm_tower: Arc<AtomicU64>,
    arm_hit: Arc<AtomicBool>,
}
impl Sampler {
    fn start(db: PathBuf, t0: Instant, period_us: u64) -> Sampler {
        let stop = Arc::new(AtomicBool::new(false));
        let period = Arc::new(AtomicU64::new(period_us));
        let shared = Arc::new(Mutex::new(SampShared::default()));
        let (stop2, period2, shared2) = (stop.clone(), period.clone(), shared.clone());
        let arm_pid = Arc::new(AtomicU64::new(0));
        let arm_tower = Arc::new(AtomicU64::new(0));
        let arm_hit = Arc::new(AtomicBool::new(false));
        let (arm_pid2, arm_tower2, arm_hit2) = (arm_pid.clone(), arm_tower.clone(), arm_hit.clone());
        let handle = std::thread::spawn(move || {
            let mut conn: Option<Connection> = None;
            let mut was_armed = false;
            // per pair: bit 1 receipt, 2 pending, 4 invalid (last sample); history flags
            let mut seen: HashMap<(i64, i64), u8> = HashMap::new();
            let mut was_pending: HashSet<(i64, i64)> = HashSet::new();
            let mut moved: HashSet<(i64, i64)> = HashSet::new();
            let mut both: HashSet<(i64, i64)> = HashSet::new();
            let mut reported: HashSet<(i64, i64)> = HashSet::new();
            while !stop2.load(Ordering::Relaxed) {
                let us = period2.load(Ordering::Relaxed);
                if conn.is_none() {
                    if db.exists() {
                        if let Ok(c) = Connection::open_with_flags(&db, OpenFlags::SQLITE_OPEN_READ_ONLY | OpenFlags::SQLITE_OPEN_NO_MUTEX) {
                            let _ = c.busy_timeout(Duration::from_millis(300));
                            conn = Some(c);
                        }
                    }
                    if conn.is_none() {
                        std::thread::sleep(Duration::from_millis(5));
                        continue;
                    }
                }
                let pid = arm_pid2.load(Ordering::Relaxed);
                let armed = pid != 0;
                if armed != was_armed {
                    // armed: never wait for a lock (a busy database is simply not a sample), so that the next sample comes right
                    // after the writer's commit
                    let _ = conn.as_ref().unwrap().busy_timeout(Duration::from_millis(if armed { 0 } else { 300 }));
                    was_armed = armed;
                }
                // ONE statement = one read transaction = one consistent snapshot
                let mut towers: HashSet<i64> = HashSet::new();
                let mut recs: HashMap<(i64, i64), u8> = HashMap::new();
                let ok = (|| -> rusqlite::Result<()> {
                    let c = conn.as_ref().unwrap();
                    if armed {
                        c.execute_batch("BEGIN")?;
                    }
                    let mut stmt = c.prepare_cached(
                        "SELECT 0, tower_id, NULL FROM towers UNION ALL SELECT 1, tower_id, locator FROM appointment_receipts \
                         UNION ALL SELECT 2, tower_id, locator FROM pending_appointments UNION ALL SELECT 4, tower_id, locator FROM invalid_appointments",
                    )?;
                    let mut rows = stmt.query([])?;
                    while let Some(row) = rows.next()? {
                        let kind: i64 = row.get(0)?;
                        let t = tower_of_bytes(&row.get::<_, Vec<u8>>(1)?);
                        if kind == 0 {
                            towers.insert(t);
                        } else {
                            let l = loc_of_bytes(&row.get::<_, Vec<u8>>(2)?);
                            *recs.entry((t, l)).or_insert(0) |= kind as u8;
                        }
                    }
                    Ok(())
                })();
                if armed {
                    if ok.is_ok() {
                        let tw = arm_tower2.load(Ordering::Relaxed) as i64;
                        if recs.iter().any(|(p, m)| p.0 == tw && m & 3 == 3) {
                            unsafe {
                                kill(pid as i32, 9);
                            }
                            arm_hit2.store(true, Ordering::SeqCst);
                            arm_pid2.store(0, Ordering::SeqCst);
                            // (the read transaction is kept until the process is certainly gone)
                            std::thread::sleep(Duration::from_millis(40));
                        }
                    }
                    let _ = conn.as_ref().unwrap().execute_batch("ROLLBACK");
                    if ok.is_ok() && arm_pid2.load(Ordering::Relaxed) != 0 {
                        // still armed and not the state waited for: the next snapshot at once (the bookkeeping below would leave
                        // the database unwatched for longer than the plugin needs between its two writes)
                        continue;
                    }
                }
                if ok.is_err() {
                    // busy (for longer than the timeout), or the schema is not there yet: not a sample
                    if armed {
                        std::thread::yield_now();
                    } else {
                        std::thread::sleep(Duration::from_micros(us.max(200)));
                    }
                    continue;
                }
                let ms = t0.elapsed().as_millis() as u64;
                let mut g = shared2.lock().unwrap();
                g.samples += 1;
                if !g.reset.is_empty() {
                    let rs: Vec<i64> = g.reset.drain().collect();
                    for set in [&mut was_pending, &mut moved, &mut both, &mut reported] {
                        set.retain(|p| !rs.contains(&p.0));
                    }
                    seen.retain(|p, _| !rs.contains(&p.0));
                }
                for (p, _) in seen.iter() {
                    if !recs.contains_key(p) && towers.contains(&p.0) && !g.suspended.contains(&p.0) && !reported.contains(p) {
                        reported.insert(*p);
                        let state = format!(
                            "tower_row=1,records_of_pair=0,records_of_tower={}",
                            recs.keys().filter(|q| q.0 == p.0).count()
                        );
                        g.events.push((p.0, p.1, ms, state));
                    }
                }
                seen.retain(|p, _| towers.contains(&p.0) && !g.suspended.contains(&p.0));
                for (p, mask) in recs.iter() {
                    if g.suspended.contains(&p.0) {
                        continue;
                    }
                    if mask & 2 != 0 {
                        was_pending.insert(*p);
                    }
                    if mask & 1 != 0 && was_pending.contains(p) && moved.insert(*p) {
                        g.moves += 1;
                    }
                    if mask & 3 == 3 && both.insert(*p) {
                        g.both += 1;
                    }
                    seen.insert(*p, *mask);
                }
                drop(g);
                if us > 0 && !armed {
                    std::thread::sleep(Duration::from_micros(us));
                }
            }
        });
        Sampler { stop, period_us: period, shared, handle: Some(handle), arm_pid, arm_tower, arm_hit }
    }
    fn finish(&mut self) {
        self.stop.store(true, Ordering::Relaxed);
        if let Some(h) = self.handle.take() {
            let _ = h.join();
        }
    }
}

struct Runner {
    sampler: Sampler,
    bin: PathBuf,
    dir: PathBuf,
    sc: Scenario,
    towers: Vec<FakeTower>,
    plugin: Option<Plugin>,
    t0: Instant,
    user_id: Option<UserId>,
}

impl Runner {
    fn db_path(&self) -> PathBuf {
        self.dir.join("watchtowers_db.sql3")
    }

    fn last_request_ms(&self) -> u64 {
        self.towers.iter().map(|t| t.st.lock().unwrap().last_ms).max().unwrap_or(0)
    }

    async fn statuses(&mut self) -> Option<Vec<i64>> {
        let p = self.plugin.as_mut()?;
        match p.call("listtowers", json!([]), 3000).await {
            Answer::Ok(v) => Some(v.as_object()?.values().map(|s| status_code(s["status"].as_str().unwrap_or(""))).collect()),
            _ => None,
        }
    }

    /// wait (at least one manager polling period) until no tower is `temporary_unreachable` and the towers have
    /// seen no request for `quiet` ms; 0 = settled, 2 = still busy at the cap
    async fn settle(&mut self, cap_ms: u64) -> u64 {
        let start = Instant::now();
        let quiet = 1000 * self.sc.opts.2 + 1600;
        loop {
            let now = self.t0.elapsed().as_millis() as u64;
            let idle = now.saturating_sub(self.last_request_ms()) >= quiet;
            let st = self.statuses().await;
            let busy = match &st {
                Some(v) => v.iter().any(|s| *s == 1),
                None => false,
            };
            // the retry manager polls its queue once per second: give it one period before looking
            let waited = start.elapsed().as_millis() as u64 >= 1300;
            if waited && ((idle && !busy) || (st.is_none() && idle)) {
                return 0;
            }
            if start.elapsed().as_millis() as u64 > cap_ms {
                return 2;
            }
            tokio::time::sleep(Duration::from_millis(150)).await;
        }
    }

    async fn step(&mut self, k: u64, a: u64, b: u64) -> u64 {
        match k {
            K_REG => {
                let t = a as usize;
                if b == C_DOWN {
                    self.towers[t].down().await;
                } else {
                    self.towers[t].st.lock().unwrap().reg = b;
                }
                let port = self.towers[t].port;
                let r = match self.plugin.as_mut() {
                    None => 3,
                    Some(p) => match p.call("registertower", json!([tower_hex(a), "127.0.0.1", port]), 8000).await {
                        Answer::Ok(_) => 0,
                        Answer::Err(_) => 1,
                        Answer::Timeout => 2,
                    },
                };
                if b == C_DOWN {
                    self.towers[t].up().await;
                }
                r
            }
            K_MODE => {
                // b < 100: reply class of add_appointment; b >= 100: reply class (b - 100) of register
                let mut g = self.towers[a as usize].st.lock().unwrap();
                if b >= 100 {
                    g.reg = b - 100;
                } else {
                    g.add = b;
                }
                0
            }
            K_UP => {
                if b == 1 {
                    self.towers[a as usize].up().await;
                } else {
                    self.towers[a as usize].down().await;
                }
                0
            }
            K_REV | K_REVNOWAIT => {
                let params = json!({"channel_id": "00".repeat(32), "commitnum": a, "commitment_txid": txid_hex(a), "penalty_tx": penalty_tx_hex(a)});
                match self.plugin.as_mut() {
                    None => 3,
                    Some(p) => {
                        if k == K_REVNOWAIT {
                            // the hook is sent; whatever the plugin does with it races with the next step
                            let _ = p.send("commitment_revocation", params).await;
                            tokio::time::sleep(Duration::from_millis(b)).await;
                            3
                        } else {
                            match p.call("commitment_revocation", params, 10_000).await {
                                Answer::Ok(_) => 0,
                                Answer::Err(_) => 1,
                                Answer::Timeout => 2,
                            }
                        }
                    }
                }
            }
            K_SETTLE => {
                let cap = 1000 * (2 * self.sc.opts.0 + self.sc.opts.2) + 3000;
                self.settle(cap).await
            }
            K_WAKE => {
                // let idle retriers wake up by themselves (auto retry delay + the manager's polling), then settle
                tokio::time::sleep(Duration::from_millis(1000 * self.sc.opts.1 + 2300)).await;
                let cap = 1000 * (2 * self.sc.opts.0 + self.sc.opts.2) + 3000;
                self.settle(cap).await
            }
            K_SLEEP => {
                tokio::time::sleep(Duration::from_millis(a)).await;
                0
            }
            K_RETRY | K_ABANDON => {
                let m = if k == K_RETRY { "retrytower" } else { "abandontower" };
                if k == K_ABANDON {
                    // the records of an abandoned tower go away legitimately
                    let mut g = self.sampler.shared.lock().unwrap();
                    g.suspended.insert(a as i64);
                    g.reset.insert(a as i64);
                }
                let r = match self.plugin.as_mut() {
                    None => 3,
                    Some(p) => match p.call(m, json!([tower_hex(a)]), 5000).await {
                        Answer::Ok(_) => 0,
                        Answer::Err(_) => 1,
                        Answer::Timeout => 2,
                    },
                };
                if k == K_ABANDON {
                    tokio::time::sleep(Duration::from_millis(20)).await;
                    let mut g = self.sampler.shared.lock().unwrap();
                    g.reset.insert(a as i64);
                    g.suspended.remove(&(a as i64));
                }
                r
            }
            K_WAITSTATUS => {
                let since = Instant::now();
                loop {
                    let cur = match self.plugin.as_mut() {
                        None => None,
                        Some(p) => match p.call("listtowers", json!([]), 3000).await {
                            Answer::Ok(v) => v.as_object().and_then(|m| m.get(&tower_hex(a)).map(|s| status_code(s["status"].as_str().unwrap_or("")))),
                            _ => None,
                        },
                    };
                    if cur == Some(b as i64) {
                        break 0;
                    }
                    if since.elapsed() > Duration::from_secs(15) {
                        break 2;
                    }
                    tokio::time::sleep(Duration::from_millis(100)).await;
                }
            }
            K_KILL => {
                if let Some(p) = self.plugin.take() {
                    if b > 0 {
                        // kill at the interrupted move of tower a (the sampler does it), after b ms at the latest
                        if let Some(pid) = p.child.id() {
                            self.sampler.arm_hit.store(false, Ordering::SeqCst);
                            self.sampler.arm_tower.store(a, Ordering::SeqCst);
                            self.sampler.arm_pid.store(pid as u64, Ordering::SeqCst);
                            let since = Instant::now();
                            while !self.sampler.arm_hit.load(Ordering::SeqCst) && since.elapsed() < Duration::from_millis(b) {
                                tokio::time::sleep(Duration::from_millis(2)).await;
                            }
                            self.sampler.arm_pid.store(0, Ordering::SeqCst);
                        }
                    }
                    p.kill().await;
                    // what is durable after a crash is what the next process to open the file finds once SQLite has rolled a
                    // transaction that was being committed back: let it do so now, so that the observation of this step is that state
                    if let Ok(c) = Connection::open_with_flags(self.db_path(), OpenFlags::SQLITE_OPEN_READ_WRITE) {
                        let _ = c.busy_timeout(Duration::from_millis(2000));
                        let _ = c.query_row("SELECT count(*) FROM towers", [], |r| r.get::<_, i64>(0));
                    }
                }
                0
            }
            K_WAITREQ => {
                let since = Instant::now();
                loop {
                    if self.towers[a as usize].st.lock().unwrap().seen.contains(&(1, b as i64)) {
                        break 0;
                    }
                    if since.elapsed() > Duration::from_secs(15) {
                        break 2;
                    }
                    tokio::time::sleep(Duration::from_millis(20)).await;
                }
            }
            K_START => {
                if self.plugin.is_none() {
                    self.plugin = Plugin::start(&self.bin, &self.dir, self.sc.opts).await;
                }
                if self.plugin.is_some() {
                    0
                } else {
                    2
                }
            }
            _ => 3,
        }
    }

    fn sig_class(&self, t: i64, user_sig: &str, start_block: u32, tower_sig: &str) -> i64 {
        let r = AppointmentReceipt::with_signature(user_sig.to_owned(), start_block, tower_sig.to_owned());
        match cryptography::recover_pk(&r.to_vec(), tower_sig) {
            Err(_) => 3,
            Ok(pk) => {
                if t >= 0 && t < 8 && pk == key_of(t as u64).1 {
                    1
                } else if t >= 0 && t < 8 && pk == key_of(100 + t as u64).1 {
                    2
                } else {
                    4
                }
            }
        }
    }

    async fn observe(&mut self, l: &mut Line) {
        let now = self.t0.elapsed().as_millis() as u64;
        // listtowers
        let lt = match self.plugin.as_mut() {
            None => None,
            Some(p) => match p.call("listtowers", json!([]), 4000).await {
                Answer::Ok(v) => Some(v),
                _ => None,
            },
        };
        l.tok(if lt.is_some() { 1 } else { 0 }).tok(now);
        l.tok("LT");
        match &lt {
            None => {
                l.tok(0).tok(0);
            }
            Some(v) => {
                let mut rows: Vec<Vec<i64>> = Vec::new();
                for (k, s) in v.as_object().cloned().unwrap_or_default() {
                    let mut r = vec![
                        tower_of_hex(&k),
                        status_code(s["status"].as_str().unwrap_or("")),
                        s["available_slots"].as_i64().unwrap_or(-2),
                        s["subscription_start"].as_i64().unwrap_or(-2),
                        s["subscription_expiry"].as_i64().unwrap_or(-2),
                    ];
                    for f in ["pending_appointments", "invalid_appointments"] {
                        let mut ls: Vec<i64> = s[f].as_array().cloned().unwrap_or_default().iter().map(|x| loc_of_hex(x.as_str().unwrap_or(""))).collect();
                        ls.sort();
                        r.push(ls.len() as i64);
                        r.extend(ls);
                    }
                    rows.push(r);
                }
                rows.sort();
                l.tok(1).tok(rows.len());
                for r in rows {
                    for x in r {
                        l.tok(x);
                    }
                }
            }
        }
        // gettowerinfo per tower
        l.tok("TI").tok(self.sc.nt);
        for t in 0..self.sc.nt {
            l.tok(t);
            let ans = match self.plugin.as_mut() {
                None => None,
                Some(p) => match p.call("gettowerinfo", json!([tower_hex(t)]), 4000).await {
                    Answer::Ok(v) => Some(Some(v)),
                    Answer::Err(_) => Some(None),
                    Answer::Timeout => None,
                },
            };
            match ans {
                None => {
                    l.tok(2);
                }
                Some(None) => {
                    l.tok(0);
                }
                Some(Some(v)) => {
                    l.tok(1).tok(status_code(v["status"].as_str().unwrap_or("")));
                    let mut recs: Vec<(i64, i64)> = v["appointments"]
                        .as_object()
                        .cloned()
                        .unwrap_or_default()
                        .iter()
                        .map(|(k, s)| (loc_of_hex(k), if s.as_str().map_or(false, |x| !x.is_empty()) { 1 } else { 0 }))
                        .collect();
                    recs.sort();
                    l.tok(recs.len());
                    for (a, b) in recs {
                        l.tok(a).tok(b);
                    }
                    for f in ["pending_appointments", "invalid_appointments"] {
                        let mut ls: Vec<i64> = v[f].as_object().cloned().unwrap_or_default().keys().map(|k| loc_of_hex(k)).collect();
                        ls.sort();
                        l.tok(ls.len());
                        for x in ls {
                            l.tok(x);
                        }
                    }
                    match v.get("misbehaving_proof") {
                        Some(p) if !p.is_null() => {
                            l.tok(1).tok(loc_of_hex(p["locator"].as_str().unwrap_or(""))).tok(tower_of_hex(p["recovered_id"].as_str().unwrap_or("")));
                        }
                        _ => {
                            l.tok(0);
                        }
                    }
                }
            }
        }
        self.raw(l);
        // the towers' request log since the previous observation
        let mut entries: Vec<LogEntry> = Vec::new();
        for t in &self.towers {
            entries.append(&mut t.st.lock().unwrap().log);
        }
        entries.sort_by_key(|e| e.ms);
        l.tok("LOG").tok(entries.len());
        for e in entries {
            l.tok(e.t).tok(e.ep).tok(e.l).tok(e.cls).tok(e.ms).tok(e.v.0).tok(e.v.1).tok(e.v.2);
        }
        // what the database sampler saw since the previous observation
        let (samples, moves, both, events) = {
            let mut g = self.sampler.shared.lock().unwrap();
            let r = (g.samples, g.moves, g.both, std::mem::take(&mut g.events));
            g.samples = 0;
            g.moves = 0;
            g.both = 0;
            r
        };
        l.tok("VAN").tok(samples).tok(moves).tok(both).tok(events.len());
        for (t, loc, ms, state) in events {
            l.tok(t).tok(loc).tok(ms).tok(state);
        }
    }

    fn raw(&self, l: &mut Line) {
        l.tok("RAW");
        let conn = match Connection::open_with_flags(self.db_path(), OpenFlags::SQLITE_OPEN_READ_ONLY) {
            Ok(c) => c,
            Err(_) => {
                for _ in 0..7 {
                    l.tok(0);
                }
                return;
            }
        };
        let _ = conn.busy_timeout(Duration::from_millis(2000));
        // one read transaction: the seven tables are one consistent snapshot
        let _ = conn.execute_batch("BEGIN");
        let tables = ["towers", "appointments", "pending_appointments", "invalid_appointments", "registration_receipts", "appointment_receipts", "misbehaving_proofs"];
        for name in tables {
            let mut out: Vec<Vec<i64>> = Vec::new();
            if let Ok(mut stmt) = conn.prepare(&format!("SELECT * FROM {name}")) {
                let cols: Vec<String> = stmt.column_names().iter().map(|s| s.to_string()).collect();
                let mut rows = stmt.query([]).unwrap();
                while let Ok(Some(row)) = rows.next() {
                    use rusqlite::types::ValueRef;
                    let get = |c: &str| -> Option<ValueRef> { cols.iter().position(|x| x == c).and_then(|i| row.get_ref(i).ok()) };
                    let blob = |c: &str| -> Vec<u8> {
                        match get(c) {
                            Some(ValueRef::Blob(b)) => b.to_vec(),
                            _ => vec![],
                        }
                    };
                    let int = |c: &str| -> i64 {
                        match get(c) {
                            Some(ValueRef::Integer(i)) => i,
                            _ => -3,
                        }
                    };
                    let text = |c: &str| -> String {
                        match get(c) {
                            Some(ValueRef::Text(s)) => String::from_utf8_lossy(s).to_string(),
                            _ => String::new(),
                        }
                    };
                    let r = match name {
                        "towers" => {
                            let t = tower_of_bytes(&blob("tower_id"));
                            let addr = text("net_addr");
                            let a = self.towers.iter().position(|x| addr == format!("http://127.0.0.1:{}", x.port)).map(|x| x as i64).unwrap_or(-2);
                            vec![t, a, int("available_slots")]
                        }
                        "appointments" => vec![loc_of_bytes(&blob("locator")), if blob("encrypted_blob").is_empty() { 0 } else { 1 }, int("to_self_delay")],
                        "pending_appointments" | "invalid_appointments" => vec![loc_of_bytes(&blob("locator")), tower_of_bytes(&blob("tower_id"))],
                        "registration_receipts" => {
                            let t = tower_of_bytes(&blob("tower_id"));
                            let (s, a, e) = (int("available_slots"), int("subscription_start"), int("subscription_expiry"));
                            let ok = match (self.user_id, t) {
                                (Some(u), t) if (0..8).contains(&t) => {
                                    RegistrationReceipt::with_signature(u, s as u32, a as u32, e as u32, text("signature")).verify(&UserId(key_of(t as u64).1))
                                }
                                _ => false,
                            };
                            vec![t, s, a, e, if ok { 1 } else { 2 }]
                        }
                        "appointment_receipts" => {
                            let t = tower_of_bytes(&blob("tower_id"));
                            let sb = int("start_block");
                            vec![loc_of_bytes(&blob("locator")), t, sb, 1, self.sig_class(t, &text("user_signature"), sb as u32, &text("tower_signature"))]
                        }
                        _ => vec![tower_of_bytes(&blob("tower_id")), loc_of_bytes(&blob("locator")), tower_of_bytes(&blob("recovered_id"))],
                    };
                    out.push(r);
                }
            }
            out.sort();
            l.tok(out.len());
            for r in out {
                for x in r {
                    l.tok(x);
                }
            }
        }
    }
}

async fn run_scenario(id: usize, bin: PathBuf, scratch: PathBuf, sc: Scenario) -> String {
    let dir = scratch.join(format!("s{id}"));
    let _ = std::fs::remove_dir_all(&dir);
    std::fs::create_dir_all(&dir).unwrap();
    let t0 = Instant::now();
    let mut towers = Vec::new();
    for t in 0..sc.nt {
        towers.push(FakeTower::new(t, t0).await);
    }
    // bulk-delivery families: sample as fast as possible; elsewhere a cheap 10 ms period
    let period_us = if matches!(sc.family, 26 | 28) { 2000 } else { 25_000 };
    let sampler = Sampler::start(dir.join("watchtowers_db.sql3"), t0, period_us);
    let mut r = Runner { sampler, bin, dir, sc: sc.clone(), towers, plugin: None, t0, user_id: None };
    let mut l = Line::new();
    l.tok("CP").tok(id).tok(sc.family).tok(sc.nt).tok(sc.opts.0).tok(sc.opts.1).tok(sc.opts.2).tok(sc.steps.len() + 1);
    let mut steps = vec![(K_START, 0, 0)];
    steps.extend(sc.steps.iter().cloned());
    for (k, a, b) in steps {
        let st = Instant::now();
        let res = r.step(k, a, b).await;
        if r.user_id.is_none() {
            // the client key, to classify stored registration receipts
            if let Ok(conn) = Connection::open_with_flags(r.db_path(), OpenFlags::SQLITE_OPEN_READ_ONLY) {
                if let Ok(sk) = conn.query_row("SELECT key FROM keys ORDER BY id DESC LIMIT 1", [], |row| row.get::<_, String>(0)) {
                    if let Ok(sk) = sk.parse::<SecretKey>() {
                        r.user_id = Some(UserId(PublicKey::from_secret_key(&Secp256k1::new(), &sk)));
                    }
                }
            }
        }
        l.tok("S").tok(k).tok(a).tok(b).tok("RES").tok(res).tok(st.elapsed().as_millis() as u64).tok("OBS");
        r.observe(&mut l).await;
    }
    l.tok("END");
    r.sampler.finish();
    if let Some(p) = r.plugin.take() {
        p.kill().await;
    }
    for t in r.towers.iter_mut() {
        t.down().await;
    }
    l.0
}

// ------------------------------------------------------------------ generators
fn fam(family: u64, nt: u64, opts: (u64, u64, u64), steps: Vec<(u64, u64, u64)>) -> Scenario {
    Scenario { family, nt, opts, steps }
}

/// the scripted families: each one is a small history around one mechanism of the properties
fn families() -> Vec<Scenario> {
    let o = (2, 30, 1); // retry for 2 s, auto-retry far away, intervals <= 1 s
    let oa = (2, 2, 1); // auto-retry after 2 s
    let mut v = Vec::new();
    // 1: plain acceptance by two towers, duplicate notification
    v.push(fam(1, 2, o, vec![(K_REG, 0, R_GOOD), (K_REG, 1, R_GOOD), (K_REV, 0, 0), (K_REV, 1, 0), (K_REV, 0, 0), (K_SETTLE, 0, 0)]));
    // 2: every reply class on the notification path (tower 0 scripted, tower 1 accepts)
    for cls in [A_WRONGKEY, A_BADSIG, A_SUBERR, A_APIERR, A_GARBAGE, A_WRONGSHAPE, A_EMPTY, A_HUGE, A_RESET, A_WRONGTYPES, A_UTF8] {
        v.push(fam(2, 2, o, vec![(K_REG, 0, R_GOOD), (K_REG, 1, R_GOOD), (K_MODE, 0, cls), (K_REV, 0, 0), (K_SETTLE, 0, 0), (K_REV, 1, 0), (K_SETTLE, 0, 0)]));
    }
    // 3: outage, the retrier gives up, manual retry gate, recovery by manual retry
    v.push(fam(3, 2, o, vec![(K_REG, 0, R_GOOD), (K_REG, 1, R_GOOD), (K_UP, 0, 0), (K_REV, 0, 0), (K_RETRY, 0, 0), (K_REV, 1, 0), (K_SETTLE, 0, 0),
                             (K_RETRY, 1, 0), (K_REV, 2, 0), (K_UP, 0, 1), (K_RETRY, 0, 0), (K_SETTLE, 0, 0), (K_RETRY, 0, 0), (K_SETTLE, 0, 0)]));
    // 4: outage and recovery while the retrier is running (no user action)
    v.push(fam(4, 1, (6, 30, 1), vec![(K_REG, 0, R_GOOD), (K_UP, 0, 0), (K_REV, 0, 0), (K_REV, 1, 0), (K_SLEEP, 1500, 0), (K_REV, 2, 0), (K_UP, 0, 1), (K_SETTLE, 0, 0)]));
    // 5: outage, give up, automatic retry after the delay once the tower is back
    v.push(fam(5, 1, oa, vec![(K_REG, 0, R_GOOD), (K_UP, 0, 0), (K_REV, 0, 0), (K_SETTLE, 0, 0), (K_REV, 1, 0), (K_UP, 0, 1), (K_WAKE, 0, 0)]));
    // 6: a tower that stays down: backs off, ends unreachable, data retained, wakes and gives up again
    v.push(fam(6, 1, oa, vec![(K_REG, 0, R_GOOD), (K_UP, 0, 0), (K_REV, 0, 0), (K_SETTLE, 0, 0), (K_WAKE, 0, 0)]));
    // 7: subscription error, renewal by the retrier, delivery
    v.push(fam(7, 1, o, vec![(K_REG, 0, R_GOOD), (K_MODE, 0, A_SUBERR), (K_REV, 0, 0), (K_MODE, 0, A_ACCEPT), (K_SETTLE, 0, 0), (K_REV, 1, 0), (K_SETTLE, 0, 0)]));
    // 8: subscription error and the renewal is refused in every way
    for cls in [R_BADSIG, R_NOTEXT, R_NOTEXT_SLOTS, R_NOTEXT_EXPIRY, R_GARBAGE, R_APIERR, R_FOREIGN] {
        v.push(fam(8, 1, o, vec![(K_REG, 0, R_GOOD), (K_MODE, 0, A_SUBERR), (K_REV, 0, 0), (K_SETTLE, 0, 0), (K_MODE, 0, cls + 100), (K_RETRY, 0, 0),
                                 (K_SETTLE, 0, 0), (K_RETRY, 0, 0), (K_SETTLE, 0, 0)]));
    }
    // 9: registration gate: every reply class for a first registration and for a renewal
    v.push(fam(9, 1, o, vec![(K_REG, 0, R_NOTEXT_EXPIRY), (K_REG, 0, R_NOTEXT_EXPIRY), (K_REV, 0, 0), (K_REG, 0, R_GOOD), (K_REG, 0, R_NOTEXT_EXPIRY), (K_REV, 1, 0), (K_SETTLE, 0, 0)]));
    v.push(fam(9, 1, o, vec![(K_REG, 0, R_NOTEXT_SLOTS), (K_REG, 0, R_NOTEXT_SLOTS), (K_REV, 0, 0), (K_REG, 0, R_NOTEXT), (K_REG, 0, R_GOOD), (K_REG, 0, R_NOTEXT_SLOTS), (K_SETTLE, 0, 0)]));
    for cls in [R_BADSIG, R_GARBAGE, R_APIERR, C_DOWN, R_FOREIGN, R_UTF8] {
        v.push(fam(9, 1, o, vec![(K_REG, 0, cls), (K_REV, 0, 0), (K_REG, 0, R_GOOD), (K_REG, 0, cls), (K_REG, 0, R_NOTEXT), (K_REV, 1, 0), (K_REG, 0, R_GOOD), (K_SETTLE, 0, 0)]));
    }
    // 10: every reply class on the retry path (pending first, then the tower comes back answering with the class)
    for cls in [A_WRONGKEY, A_BADSIG, A_APIERR, A_GARBAGE, A_WRONGSHAPE, A_EMPTY, A_HUGE, A_RESET, A_WRONGTYPES, A_UTF8] {
        v.push(fam(10, 2, o, vec![(K_REG, 0, R_GOOD), (K_REG, 1, R_GOOD), (K_UP, 0, 0), (K_REV, 0, 0), (K_REV, 1, 0), (K_MODE, 0, cls), (K_UP, 0, 1),
                                  (K_SETTLE, 0, 0), (K_MODE, 0, A_ACCEPT), (K_RETRY, 0, 0), (K_SETTLE, 0, 0), (K_REV, 2, 0), (K_SETTLE, 0, 0)]));
    }
    // 11: kill at quiescent and at arbitrary moments, restart, the retrier finishes
    v.push(fam(11, 2, o, vec![(K_REG, 0, R_GOOD), (K_REG, 1, R_GOOD), (K_UP, 0, 0), (K_REV, 0, 0), (K_REV, 1, 0), (K_KILL, 0, 0), (K_UP, 0, 1), (K_START, 0, 0), (K_SETTLE, 0, 0), (K_REV, 2, 0), (K_SETTLE, 0, 0)]));
    for ms in [0, 30, 120, 400] {
        v.push(fam(11, 2, o, vec![(K_REG, 0, R_GOOD), (K_REG, 1, R_GOOD), (K_UP, 0, 0), (K_REV, 0, 0), (K_UP, 0, 1), (K_REVNOWAIT, 1, ms), (K_KILL, 0, 0),
                                  (K_START, 0, 0), (K_SETTLE, 0, 0), (K_REV, 1, 0), (K_REV, 2, 0), (K_SETTLE, 0, 0)]));
    }
    // 12: abandon: while pending / being retried; re-registration
    v.push(fam(12, 2, o, vec![(K_REG, 0, R_GOOD), (K_REG, 1, R_GOOD), (K_UP, 0, 0), (K_REV, 0, 0), (K_ABANDON, 0, 0), (K_REV, 1, 0), (K_SETTLE, 0, 0), (K_UP, 0, 1),
                              (K_REG, 0, R_GOOD), (K_REV, 2, 0), (K_SETTLE, 0, 0), (K_ABANDON, 1, 0), (K_ABANDON, 1, 0), (K_SETTLE, 0, 0)]));
    // 13: revocations while the retrier is idle (unreachable): stored, not sent; delivered after the manual retry
    v.push(fam(13, 1, o, vec![(K_REG, 0, R_GOOD), (K_UP, 0, 0), (K_REV, 0, 0), (K_SETTLE, 0, 0), (K_REV, 1, 0), (K_REV, 1, 0), (K_UP, 0, 1), (K_REV, 2, 0), (K_RETRY, 0, 0), (K_SETTLE, 0, 0)]));
    // 14: a tower proven misbehaving gets nothing more (notification path and retry path); registering with it again while it is down
    v.push(fam(14, 2, o, vec![(K_REG, 0, R_GOOD), (K_REG, 1, R_GOOD), (K_MODE, 0, A_WRONGKEY), (K_REV, 0, 0), (K_SETTLE, 0, 0), (K_MODE, 0, A_ACCEPT), (K_REV, 1, 0),
                              (K_RETRY, 0, 0), (K_SETTLE, 0, 0), (K_KILL, 0, 0), (K_START, 0, 0), (K_REV, 2, 0), (K_SETTLE, 0, 0)]));
    v.push(fam(14, 1, o, vec![(K_REG, 0, R_GOOD), (K_UP, 0, 0), (K_REV, 0, 0), (K_REV, 1, 0), (K_MODE, 0, A_WRONGKEY), (K_UP, 0, 1), (K_SETTLE, 0, 0), (K_MODE, 0, A_ACCEPT),
                              (K_REV, 2, 0), (K_RETRY, 0, 0), (K_SETTLE, 0, 0)]));
    v.push(fam(14, 1, o, vec![(K_REG, 0, R_GOOD), (K_MODE, 0, A_WRONGKEY), (K_REV, 0, 0), (K_SETTLE, 0, 0), (K_UP, 0, 0), (K_REG, 0, R_GOOD), (K_UP, 0, 1), (K_MODE, 0, A_ACCEPT),
                              (K_REV, 1, 0), (K_SETTLE, 0, 0)]));
    v.push(fam(14, 1, o, vec![(K_REG, 0, R_GOOD), (K_MODE, 0, A_WRONGKEY), (K_REV, 0, 0), (K_SETTLE, 0, 0), (K_UP, 0, 0), (K_REG, 0, R_GOOD), (K_UP, 0, 1), (K_MODE, 0, A_ACCEPT),
                              (K_REV, 1, 0), (K_SETTLE, 0, 0), (K_MODE, 0, A_WRONGKEY), (K_REV, 2, 0), (K_SETTLE, 0, 0)]));
    // 15: abandon while the retrier is alive, then register with the same tower again
    v.push(fam(15, 1, (6, 30, 1), vec![(K_REG, 0, R_GOOD), (K_UP, 0, 0), (K_REV, 0, 0), (K_SLEEP, 1500, 0), (K_ABANDON, 0, 0), (K_UP, 0, 1), (K_REG, 0, R_GOOD), (K_SETTLE, 0, 0), (K_REV, 1, 0), (K_SETTLE, 0, 0)]));
    v.push(fam(15, 2, (6, 30, 1), vec![(K_REG, 0, R_GOOD), (K_REG, 1, R_GOOD), (K_UP, 0, 0), (K_UP, 1, 0), (K_REV, 0, 0), (K_SLEEP, 1500, 0), (K_ABANDON, 0, 0), (K_UP, 0, 1), (K_REG, 0, R_GOOD),
                                       (K_SETTLE, 0, 0), (K_REV, 1, 0), (K_SETTLE, 0, 0)]));
    // 16: registering again with a known tower that does not answer
    v.push(fam(16, 1, o, vec![(K_REG, 0, R_GOOD), (K_UP, 0, 0), (K_REG, 0, R_GOOD), (K_UP, 0, 1), (K_SETTLE, 0, 0), (K_RETRY, 0, 0), (K_REV, 0, 0), (K_SETTLE, 0, 0)]));
    // 17: revocations in every retrier state: running, idle, failed (renewal refused), stopped again
    v.push(fam(17, 1, o, vec![(K_REG, 0, R_GOOD), (K_MODE, 0, A_SUBERR), (K_MODE, 0, 100 + R_BADSIG), (K_REV, 0, 0), (K_SLEEP, 1200, 0), (K_REV, 1, 0), (K_SETTLE, 0, 0), (K_REV, 2, 0),
                              (K_MODE, 0, A_ACCEPT), (K_MODE, 0, 100 + R_GOOD), (K_SETTLE, 0, 0), (K_RETRY, 0, 0), (K_SETTLE, 0, 0), (K_REV, 3, 0), (K_SETTLE, 0, 0)]));
    v.push(fam(17, 1, (3, 30, 1), vec![(K_REG, 0, R_GOOD), (K_MODE, 0, A_GARBAGE), (K_REV, 0, 0), (K_SLEEP, 1300, 0), (K_REV, 1, 0), (K_REV, 0, 0), (K_SETTLE, 0, 0), (K_REV, 2, 0), (K_RETRY, 0, 0),
                                       (K_SLEEP, 600, 0), (K_REV, 3, 0), (K_MODE, 0, A_ACCEPT), (K_SETTLE, 0, 0), (K_RETRY, 0, 0), (K_SETTLE, 0, 0)]));
    // 18: a tower that answers every retry with garbage / resets / rejections while several appointments are pending: rate of requests
    for cls in [A_GARBAGE, A_RESET, A_BADSIG, A_APIERR, A_SUBERR] {
        v.push(fam(18, 1, (4, 30, 1), vec![(K_REG, 0, R_GOOD), (K_UP, 0, 0), (K_REV, 0, 0), (K_REV, 1, 0), (K_REV, 2, 0), (K_REV, 3, 0), (K_MODE, 0, cls), (K_UP, 0, 1), (K_SETTLE, 0, 0),
                                           (K_MODE, 0, A_ACCEPT), (K_RETRY, 0, 0), (K_SETTLE, 0, 0)]));
    }
    // 19: kill while the retrier is delivering a batch
    for ms in [700, 1100, 1500] {
        v.push(fam(19, 2, o, vec![(K_REG, 0, R_GOOD), (K_REG, 1, R_GOOD), (K_UP, 0, 0), (K_REV, 0, 0), (K_REV, 1, 0), (K_REV, 2, 0), (K_REV, 3, 0), (K_SETTLE, 0, 0), (K_UP, 0, 1), (K_RETRY, 0, 0),
                                  (K_SLEEP, ms, 0), (K_KILL, 0, 0), (K_START, 0, 0), (K_SETTLE, 0, 0)]));
    }
    // 20: automatic recovery after the auto-retry delay, with a revocation arriving while idle
    v.push(fam(20, 1, (2, 3, 1), vec![(K_REG, 0, R_GOOD), (K_MODE, 0, A_RESET), (K_REV, 0, 0), (K_SETTLE, 0, 0), (K_REV, 1, 0), (K_MODE, 0, A_ACCEPT), (K_WAKE, 0, 0), (K_REV, 2, 0), (K_SETTLE, 0, 0)]));
    // 21: abandon around the moment an idle retrier wakes up by itself (auto-retry 3 s; the manager starts it one polling period later)
    for ms in [4300, 4700, 5000, 5300, 5700] {
        v.push(fam(21, 1, (2, 3, 1), vec![(K_REG, 0, R_GOOD), (K_UP, 0, 0), (K_REV, 0, 0), (K_SETTLE, 0, 0), (K_SLEEP, ms, 0), (K_ABANDON, 0, 0), (K_SLEEP, 1500, 0), (K_SETTLE, 0, 0)]));
    }
    // 22: a receipt for another user on the retrier's re-registration, with the tower healthy otherwise: nothing of it may be stored,
    //     the failure is permanent; a later renewal with a receipt of our own is accepted and everything is delivered
    v.push(fam(22, 1, o, vec![(K_REG, 0, R_GOOD), (K_MODE, 0, A_SUBERR), (K_MODE, 0, 100 + R_FOREIGN), (K_REV, 0, 0), (K_SETTLE, 0, 0), (K_MODE, 0, A_ACCEPT), (K_REV, 1, 0), (K_SETTLE, 0, 0),
                              (K_MODE, 0, 100 + R_GOOD), (K_RETRY, 0, 0), (K_SETTLE, 0, 0)]));
    // 23: flagged on the RETRY path (the pending row stays), then a restart (kill / kill right after the flag): nothing may reach the
    //     tower any more and it must still be shown misbehaving
    v.push(fam(23, 1, o, vec![(K_REG, 0, R_GOOD), (K_UP, 0, 0), (K_REV, 0, 0), (K_MODE, 0, A_WRONGKEY), (K_UP, 0, 1), (K_SETTLE, 0, 0), (K_KILL, 0, 0), (K_MODE, 0, A_ACCEPT), (K_START, 0, 0),
                              (K_SETTLE, 0, 0), (K_REV, 1, 0), (K_SLEEP, 2500, 0), (K_SETTLE, 0, 0)]));
    v.push(fam(23, 2, o, vec![(K_REG, 0, R_GOOD), (K_REG, 1, R_GOOD), (K_UP, 0, 0), (K_REV, 0, 0), (K_REV, 1, 0), (K_MODE, 0, A_WRONGKEY), (K_UP, 0, 1), (K_SETTLE, 0, 0), (K_MODE, 0, A_ACCEPT),
                              (K_KILL, 0, 0), (K_START, 0, 0), (K_SLEEP, 2500, 0), (K_SETTLE, 0, 0), (K_KILL, 0, 0), (K_START, 0, 0), (K_REV, 2, 0), (K_SETTLE, 0, 0)]));
    // 24: the renewal of the subscription is refused for good (not extending / badly signed): the retrier fails and is dropped; later
    //     the tower is healthy again and the user retries: accepted, and everything pending is delivered
    for cls in [R_NOTEXT, R_BADSIG] {
        v.push(fam(24, 1, (2, 2, 1), vec![(K_REG, 0, R_GOOD), (K_MODE, 0, A_SUBERR), (K_MODE, 0, 100 + cls), (K_REV, 0, 0), (K_SETTLE, 0, 0), (K_SLEEP, 1500, 0), (K_MODE, 0, A_ACCEPT),
                                          (K_MODE, 0, 100 + R_GOOD), (K_RETRY, 0, 0), (K_SLEEP, 11500, 0), (K_SETTLE, 0, 0)]));
    }
    //     ... or a NEW revocation arrives instead: it must end delivered (the older pending one is left behind by the plugin: known finding)
    v.push(fam(24, 1, (2, 2, 1), vec![(K_REG, 0, R_GOOD), (K_MODE, 0, A_SUBERR), (K_MODE, 0, 100 + R_NOTEXT), (K_REV, 0, 0), (K_SETTLE, 0, 0), (K_SLEEP, 1500, 0), (K_MODE, 0, A_ACCEPT),
                                      (K_MODE, 0, 100 + R_GOOD), (K_REV, 1, 0), (K_SLEEP, 11500, 0), (K_SETTLE, 0, 0)]));
    // 25: subscription error while the renewal endpoint fails transiently for longer than the retry time: the retrier gives up, the tower
    //     is shown unreachable (idle retrier), retrytower is accepted; after recovery a manual retry delivers
    for cls in [R_GARBAGE, R_APIERR, R_UTF8] {
        v.push(fam(25, 1, o, vec![(K_REG, 0, R_GOOD), (K_SETTLE, 0, 0), (K_MODE, 0, A_SUBERR), (K_MODE, 0, 100 + cls), (K_REV, 0, 0), (K_SLEEP, 9000, 0), (K_SETTLE, 0, 0), (K_RETRY, 0, 0),
                                  (K_SETTLE, 0, 0), (K_MODE, 0, A_ACCEPT), (K_MODE, 0, 100 + R_GOOD), (K_RETRY, 0, 0), (K_SETTLE, 0, 0)]));
    }
    // 29: registertower (good, extending receipt) with a KNOWN tower that has undelivered data keeps its status:
    //     (a) subscription error after a renewal refused for good (no retrier): still subscription error, retrytower accepted, then delivery
    v.push(fam(29, 1, o, vec![(K_REG, 0, R_GOOD), (K_MODE, 0, A_SUBERR), (K_MODE, 0, 100 + R_NOTEXT), (K_REV, 0, 0), (K_SETTLE, 0, 0), (K_MODE, 0, A_ACCEPT), (K_REG, 0, R_GOOD),
                              (K_SETTLE, 0, 0), (K_RETRY, 0, 0), (K_SETTLE, 0, 0)]));
    //     (b) unreachable with an idle retrier: still unreachable, retrytower accepted, then delivery
    v.push(fam(29, 1, o, vec![(K_REG, 0, R_GOOD), (K_UP, 0, 0), (K_REV, 0, 0), (K_SETTLE, 0, 0), (K_UP, 0, 1), (K_REG, 0, R_GOOD), (K_SETTLE, 0, 0), (K_RETRY, 0, 0), (K_SETTLE, 0, 0)]));
    //     (c) flagged on the retry path (data still pending): still misbehaving, nothing is sent
    v.push(fam(29, 1, o, vec![(K_REG, 0, R_GOOD), (K_UP, 0, 0), (K_REV, 0, 0), (K_MODE, 0, A_WRONGKEY), (K_UP, 0, 1), (K_SETTLE, 0, 0), (K_MODE, 0, A_ACCEPT), (K_REG, 0, R_GOOD),
                              (K_SETTLE, 0, 0), (K_REV, 1, 0), (K_SETTLE, 0, 0)]));
    // 26: BULK delivery: many appointments pending for a tower that is down; it comes back and ONE retry run delivers them one
    //     after the other, each a pending -> accepted move (two durable writes) the database sampler watches at full rate
    //     (the retrier is idle while the appointments pile up, so that nothing else is going on)
    for n in [12u64; 14] {
        let mut steps = vec![(K_REG, 0, R_GOOD), (K_UP, 0, 0), (K_REV, 0, 0), (K_SETTLE, 0, 0)];
        for l in 1..n {
            steps.push((K_REV, l, 0));
        }
        steps.extend([(K_UP, 0, 1), (K_RETRY, 0, 0), (K_SLEEP, 4000, 0), (K_SETTLE, 0, 0)]);
        v.push(fam(26, 1, o, steps));
    }
    // 27: a revocation whose handler waits for a SLOW tower X while the retrier of tower Y (down) exhausts its back-off: the handler took
    //     its status snapshot when Y was temporary unreachable and reaches Y when its retrier is idle. Every pair must still get a record.
    //     Nothing is left to the clock: Y's retrier runs for 6 s (the notification is sent at its very beginning), the scenario waits
    //     until X HOLDS the request (in either visiting order X is asked: before Y, or right after it) and until listtowers shows Y
    //     unreachable (its retrier idle), and only then lets X answer.  The order in which the handler visits the towers is the
    //     HashMap's (random per process): both role assignments, many times.
    for i in 0..16u64 {
        let (x, y) = if i % 2 == 0 { (0, 1) } else { (1, 0) };
        v.push(fam(27, 2, (6, 30, 1), vec![(K_REG, 0, R_GOOD), (K_REG, 1, R_GOOD), (K_UP, y, 0), (K_REV, 0, 0), (K_MODE, x, A_HOLD), (K_REVNOWAIT, 1, 0),
                                           (K_WAITREQ, x, 1), (K_WAITSTATUS, y, 2), (K_MODE, x, A_ACCEPT), (K_SETTLE, 0, 0)]));
    }
    // 30: a wrong-key acknowledgement for an appointment whose receipt IS ALREADY STORED: the plugin is killed in the middle of a
    //     pending -> accepted move (receipt written, pending row not yet deleted: the sampler pulls the trigger), the tower answers with
    //     another key's signature from then on, the restarted plugin sends the appointment again: the tower must be flagged and the stored
    //     proof must be the offending receipt (the one stored before is replaced).  Last: the same with a tower that stays honest (the
    //     first receipt is kept, the pending row goes).
    for cls in [A_WRONGKEY, A_WRONGKEY, A_WRONGKEY, A_ACCEPT] {
        v.push(fam(30, 1, o, vec![(K_REG, 0, R_GOOD), (K_UP, 0, 0), (K_REV, 0, 0), (K_SETTLE, 0, 0), (K_UP, 0, 1), (K_RETRY, 0, 0), (K_KILL, 0, 6000), (K_MODE, 0, cls),
                                  (K_START, 0, 0), (K_SETTLE, 0, 0), (K_REV, 1, 0), (K_SETTLE, 0, 0)]));
    }
    // 31: records SHARED between towers (one appointment body, one link per tower: accepted / pending / invalid in every combination),
    //     then one of the towers is abandoned: exactly its links go, the other tower keeps a record of every appointment - in the
    //     answers, in the file, and after a restart
    for (a, b) in [(A_APIERR, A_APIERR), (A_RESET, A_APIERR), (A_APIERR, A_RESET), (A_ACCEPT, A_APIERR), (A_APIERR, A_ACCEPT), (A_RESET, A_RESET), (A_RESET, A_ACCEPT)] {
        for who in [0u64, 1] {
            v.push(fam(31, 2, (2, 30, 1), vec![(K_REG, 0, R_GOOD), (K_REG, 1, R_GOOD), (K_MODE, 0, a), (K_MODE, 1, b), (K_REV, 0, 0), (K_REV, 1, 0), (K_SETTLE, 0, 0),
                                               (K_ABANDON, who, 0), (K_SETTLE, 0, 0), (K_KILL, 0, 0), (K_START, 0, 0), (K_SETTLE, 0, 0)]));
        }
    }
    // 32: the handler's status snapshot goes stale the other way round: Y is unreachable (idle retrier) when the handler starts, X HOLDS
    //     the request, Y comes back and its pending data is delivered (manual retry; tower shown reachable, retrier gone), and only then
    //     X answers and the handler reaches Y.  The new appointment must still get to Y within the delays (fix 36c4b8c: it used to be
    //     stored as pending for a reachable tower with nobody to deliver it).  Visiting order = the HashMap's: both roles, several times.
    for i in 0..8u64 {
        let (x, y) = if i % 2 == 0 { (0, 1) } else { (1, 0) };
        v.push(fam(32, 2, (2, 3, 1), vec![(K_REG, 0, R_GOOD), (K_REG, 1, R_GOOD), (K_UP, y, 0), (K_REV, 0, 0), (K_WAITSTATUS, y, 2), (K_MODE, x, A_HOLD), (K_REVNOWAIT, 1, 0),
                                          (K_WAITREQ, x, 1), (K_UP, y, 1), (K_RETRY, y, 0), (K_WAITSTATUS, y, 0), (K_MODE, x, A_ACCEPT), (K_SETTLE, 0, 0),
                                          (K_SLEEP, 9000, 0), (K_SETTLE, 0, 0)]));
    }
    // 33: a SLOW tower (every acceptance takes 1.5 s) comes back while its retrier is running with two appointments pending (the second one notified while it was already running), and a third
    //     revocation arrives while the retrier is in the middle of delivering (after it has looked for leftovers): the third one must be
    //     delivered too - handed to the running retrier, or picked up by a new one - and the tower shown reachable with nothing pending
    for _ in 0..3 {
        v.push(fam(33, 1, (6, 3, 1), vec![(K_REG, 0, R_GOOD), (K_UP, 0, 0), (K_REV, 0, 0), (K_SLEEP, 1800, 0), (K_REV, 1, 0), (K_MODE, 0, A_SLOW), (K_UP, 0, 1), (K_WAITREQ, 0, 1),
                                          (K_REV, 2, 0), (K_SETTLE, 0, 0), (K_MODE, 0, A_ACCEPT), (K_SLEEP, 18000, 0), (K_SETTLE, 0, 0)]));
    }
    // 28: the plugin is KILLED at some point of a bulk delivery and started again: what had a record before has one after
    for ms in [1250u64, 1400, 1550, 1700, 1850, 2000, 2150, 2300] {
        let mut steps = vec![(K_REG, 0, R_GOOD), (K_UP, 0, 0), (K_REV, 0, 0), (K_SETTLE, 0, 0)];
        for l in 1..10 {
            steps.push((K_REV, l, 0));
        }
        steps.extend([(K_UP, 0, 1), (K_RETRY, 0, 0), (K_SLEEP, ms, 0), (K_KILL, 0, 0), (K_START, 0, 0), (K_SLEEP, 4000, 0), (K_SETTLE, 0, 0)]);
        v.push(fam(28, 1, o, steps));
    }
    v
}

fn random_scenario(rng: &mut Rng) -> Scenario {
    let nt = 1 + rng.below(2);
    let opts = *rng.pick(&[(2u64, 30u64, 1u64), (2, 2, 1), (3, 3, 1)]);
    let mut steps = Vec::new();
    for t in 0..nt {
        steps.push((K_REG, t, R_GOOD));
    }
    let n = 5 + rng.below(6);
    let mut next_l = 0;
    let mut dead = false;
    for _ in 0..n {
        let t = rng.below(nt);
        let c = rng.below(100);
        if dead {
            steps.push((K_START, 0, 0));
            dead = false;
            continue;
        }
        match c {
            0..=29 => {
                let l = if next_l > 0 && rng.chance(1, 5) { rng.below(next_l) } else { next_l };
                if l == next_l {
                    next_l += 1;
                }
                steps.push((K_REV, l, 0));
            }
            30..=44 => steps.push((K_MODE, t, *rng.pick(&[A_ACCEPT, A_ACCEPT, A_SUBERR, A_APIERR, A_GARBAGE, A_WRONGKEY, A_BADSIG, A_WRONGSHAPE, A_RESET, A_UTF8]))),
            45..=56 => steps.push((K_UP, t, rng.below(2))),
            57..=71 => steps.push((K_SETTLE, 0, 0)),
            72..=77 => steps.push((K_RETRY, t, 0)),
            78..=81 => steps.push((K_ABANDON, t, 0)),
            82..=87 => steps.push((K_REG, t, *rng.pick(&[R_GOOD, R_GOOD, R_BADSIG, R_NOTEXT, R_NOTEXT_SLOTS, R_NOTEXT_EXPIRY, R_GARBAGE, R_APIERR, R_FOREIGN, R_UTF8]))),
            88..=92 => {
                if rng.chance(1, 2) {
                    // a notification whose handling races with the kill
                    steps.push((K_REVNOWAIT, next_l, 20 * rng.below(12)));
                }
                steps.push((K_KILL, 0, 0));
                dead = true;
            }
            93..=95 => steps.push((K_WAKE, 0, 0)),
            _ => steps.push((K_SLEEP, 300 + rng.below(1500), 0)),
        }
    }
    if dead {
        steps.push((K_START, 0, 0));
    }
    // end in a state where everything can be delivered, and let it settle
    for t in 0..nt {
        steps.push((K_MODE, t, A_ACCEPT));
        steps.push((K_UP, t, 1));
    }
    steps.push((K_SETTLE, 0, 0));
    fam(99, nt, opts, steps)
}

/// a rough estimate (ms) of how long a scenario takes on the wall clock: used only to start the long ones first
fn est_cost(sc: &Scenario) -> u64 {
    let settle = 1000 * (sc.opts.0 + sc.opts.1).max(2);
    sc.steps
        .iter()
        .map(|&(k, a, b)| match k {
            K_SLEEP => a,
            K_REVNOWAIT => b,
            K_SETTLE | K_WAKE => settle,
            K_KILL | K_START => 1500 + if k == K_KILL { b / 3 } else { 0 },
            K_WAITSTATUS => 4000,
            K_WAITREQ => 500,
            _ => 100,
        })
        .sum()
}

async fn run_all(bin: PathBuf, scratch: PathBuf, scs: Vec<Scenario>, out: &mut dyn Write) {
    let par = env_u64("CP_PAR", 16) as usize;
    let sem = Arc::new(tokio::sync::Semaphore::new(par));
    let bulk_sem = Arc::new(tokio::sync::Semaphore::new(env_u64("CP_BULK_PAR", 4) as usize));
    // longest first (the output keeps the order of the scenario list)
    let n = scs.len();
    let mut order: Vec<(usize, Scenario)> = scs.into_iter().enumerate().collect();
    order.sort_by_key(|(i, sc)| (std::cmp::Reverse(est_cost(sc)), *i));
    let mut handles: Vec<Option<tokio::task::JoinHandle<String>>> = (0..n).map(|_| None).collect();
    for (i, sc) in order {
        let permit = sem.clone().acquire_owned().await.unwrap();
        let bin = bin.clone();
        let scratch = scratch.clone();
        let bulk = bulk_sem.clone();
        handles[i] = Some(tokio::spawn(async move {
            // the bulk-delivery scenarios commit (fsync) at a high rate: only a few of them at a time, or the disk makes every
            // other scenario miss its deadlines
            let bulk_permit = if matches!(sc.family, 26 | 28) { Some(bulk.acquire_owned().await.unwrap()) } else { None };
            let s = run_scenario(i, bin, scratch, sc).await;
            drop(bulk_permit);
            drop(permit);
            s
        }));
    }
    for h in handles.into_iter().flatten() {
        match h.await {
            Ok(s) => writeln!(out, "{s}").unwrap(),
            Err(e) => writeln!(out, "CPPANIC {e}").unwrap(),
        }
    }
}

fn main() {
    let args: Vec<String> = std::env::args().collect();
    if args.len() < 5 {
        eprintln!("usage: client_proc run <plugin> <out> <scratch> | replay <plugin> <cases> <out> <scratch>");
        std::process::exit(2);
    }
    let seed = env_u64("VERIF_SEED", 0);
    let thorough = std::env::var("VERIF_TIER").map(|t| t == "thorough").unwrap_or(false);
    let rt = tokio::runtime::Builder::new_multi_thread().worker_threads(8).enable_all().build().unwrap();
    match args[1].as_str() {
        "run" => {
            let bin = PathBuf::from(&args[2]);
            let mut out = std::io::BufWriter::new(std::fs::File::create(&args[3]).unwrap());
            let scratch = PathBuf::from(&args[4]);
            let mut scs = families();
            if let Ok(only) = std::env::var("CP_ONLY") {
                let only: u64 = only.parse().unwrap_or(0);
                scs.retain(|s| s.family == only);
            } else {
                let mut rng = Rng::new(seed ^ 0xC05);
                let nrand = env_u64("CP_NRAND", if thorough { 1200 } else { 40 });
                for _ in 0..nrand {
                    scs.push(random_scenario(&mut rng));
                }
            }
            rt.block_on(run_all(bin, scratch, scs, &mut out));
            out.flush().unwrap();
        }
        "replay" => {
            let bin = PathBuf::from(&args[2]);
            let text = std::fs::read_to_string(&args[3]).unwrap();
            let mut out = std::io::BufWriter::new(std::fs::File::create(&args[4]).unwrap());
            let scratch = PathBuf::from(&args[5]);
            let mut scs = Vec::new();
            for line in text.lines() {
                // CPCASE family nt o0 o1 o2 n (k a b)*
                let toks: Vec<u64> = line.split_whitespace().skip(1).filter_map(|t| t.parse().ok()).collect();
                if !line.starts_with("CPCASE") || toks.len() < 6 {
                    continue;
                }
                let n = toks[5] as usize;
                let steps = (0..n).map(|i| (toks[6 + 3 * i], toks[7 + 3 * i], toks[8 + 3 * i])).collect();
                scs.push(fam(toks[0], toks[1], (toks[2], toks[3], toks[4]), steps));
            }
            rt.block_on(run_all(bin, scratch, scs, &mut out));
            out.flush().unwrap();
        }
        other => {
            eprintln!("unknown mode {other}");
            std::process::exit(2);
        }
    }
}
