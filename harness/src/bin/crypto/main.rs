//! C17: the real `teos_common::cryptography::{encrypt, decrypt, sign, verify, recover_pk}`,
//! `Locator::new` and `bitcoin::consensus::{serialize, deserialize}` on generated transactions,
//! ids, keys and their mutations.  One line per case, tokens separated by blanks, byte strings as
//! lower-case hex (`-` = empty):
//!
//!  CTX id version lock nin {txid vout script seq nwit {elem}*}* nout {value script}* key
//!      OBS ser deser ct dec locator nflip nflip_rej ntrunc ntrunc_rej nother nother_rej
//!        deser = ok | diff | err:<class>          (deserialize(serialize(tx)) against tx)
//!        dec   = ok | diff:<ser> | aead | encode:<class> | panic   (decrypt(encrypt(tx,key),key))
//!        the six counters: every single-bit flip / every truncation of the blob / the blob under
//!        every other id of the generated set, and how many of them the real decrypt rejected
//!  CMUT kind id param key blob OBS (ok:<ser>:<canon> | aead | encode:<class> | panic)
//!        one explicit (already mutated) blob; canon = 1 iff encrypt(result, key) == blob
//!        kinds: flip trunc extend otherkey (tamperings) ptrail pnonmin pnowit pvalid (valid AEAD
//!        blobs built with the reference sealer over a non-canonical / another plaintext)
//!  CDES kind bytes OBS (ok:<reser> | err:<class> | panic)      consensus::deserialize alone
//!  CSIG msg sk pk digest rid compact otherpk OBS sig rec verify verify_other
//!        digest/rid/compact: computed by the harness with secp256k1 directly from the documented
//!        format; sig = text returned by sign (hex of its ASCII); rec = recovered key | err
//!  CSIGMUT kind param pk msg sig origmsg origsig OBS rec verify
//!        kinds: charflip trunc nonzb byteflip msgflip msgext msgcut case malleate otherpk
//!  CPANIC ...   a harness-level failure (never expected)
mod refaead;

use std::io::Write;
use std::panic::{catch_unwind, AssertUnwindSafe};

use bitcoin::absolute::LockTime;
use bitcoin::consensus::encode;
use bitcoin::consensus::{deserialize, serialize};
use bitcoin::hashes::{sha256, sha256d, Hash};
use bitcoin::secp256k1::{Message, PublicKey, Secp256k1, SecretKey};
use bitcoin::transaction::Version;
use bitcoin::{Amount, OutPoint, ScriptBuf, Sequence, Transaction, TxIn, TxOut, Txid, Witness};

use teos_common::appointment::Locator;
use teos_common::cryptography::{decrypt, encrypt, recover_pk, sign, verify, DecryptingError};

use verif_harness::env_u64;
use verif_harness::rng::Rng;

// ---------------------------------------------------------------- tokens
/// `lo + below(span)` random bytes
fn rbytes(rng: &mut Rng, lo: usize, span: u64) -> Vec<u8> {
    let n = lo + rng.below(span) as usize;
    rng.bytes(n)
}

fn hx(b: &[u8]) -> String {
    if b.is_empty() {
        "-".to_string()
    } else {
        hex::encode(b)
    }
}

fn unhx(s: &str) -> Vec<u8> {
    if s == "-" {
        vec![]
    } else {
        hex::decode(s).expect("bad hex token")
    }
}

fn err_class(e: &encode::Error) -> String {
    match e {
        encode::Error::Io(_) => "io".into(),
        encode::Error::NonMinimalVarInt => "nonminimal".into(),
        encode::Error::UnsupportedSegwitFlag(x) => format!("flag:{x}"),
        encode::Error::OversizedVectorAllocation { .. } => "oversized".into(),
        encode::Error::ParseFailed(m) => {
            if m.contains("witness flag") {
                "nowit".into()
            } else if m.contains("not consumed") {
                "trailing".into()
            } else {
                "parsefailed".into()
            }
        }
        _ => "other".into(),
    }
}

fn tx_tokens(t: &Transaction) -> String {
    let mut s = format!("{} {} {}", t.version.0, t.lock_time.to_consensus_u32(), t.input.len());
    for i in &t.input {
        s += &format!(
            " {} {} {} {} {}",
            hx(i.previous_output.txid.as_byte_array()),
            i.previous_output.vout,
            hx(i.script_sig.as_bytes()),
            i.sequence.0,
            i.witness.len()
        );
        for e in i.witness.iter() {
            s += " ";
            s += &hx(e);
        }
    }
    s += &format!(" {}", t.output.len());
    for o in &t.output {
        s += &format!(" {} {}", o.value.to_sat(), hx(o.script_pubkey.as_bytes()));
    }
    s
}

fn parse_tx<'a>(it: &mut impl Iterator<Item = &'a str>) -> Option<Transaction> {
    let version: i32 = it.next()?.parse().ok()?;
    let lock: u32 = it.next()?.parse().ok()?;
    let nin: usize = it.next()?.parse().ok()?;
    let mut input = vec![];
    for _ in 0..nin {
        let txid: [u8; 32] = unhx(it.next()?).try_into().ok()?;
        let vout: u32 = it.next()?.parse().ok()?;
        let script = unhx(it.next()?);
        let seq: u32 = it.next()?.parse().ok()?;
        let nwit: usize = it.next()?.parse().ok()?;
        let mut w = Witness::new();
        for _ in 0..nwit {
            w.push(unhx(it.next()?));
        }
        input.push(TxIn {
            previous_output: OutPoint::new(Txid::from_byte_array(txid), vout),
            script_sig: ScriptBuf::from_bytes(script),
            sequence: Sequence(seq),
            witness: w,
        });
    }
    let nout: usize = it.next()?.parse().ok()?;
    let mut output = vec![];
    for _ in 0..nout {
        let value: u64 = it.next()?.parse().ok()?;
        let script = unhx(it.next()?);
        output.push(TxOut { value: Amount::from_sat(value), script_pubkey: ScriptBuf::from_bytes(script) });
    }
    Some(Transaction { version: Version(version), lock_time: LockTime::from_consensus(lock), input, output })
}

// ---------------------------------------------------------------- the real code, panics caught
fn real_deserialize(b: &[u8]) -> Result<Result<Transaction, encode::Error>, ()> {
    catch_unwind(AssertUnwindSafe(|| deserialize::<Transaction>(b))).map_err(|_| ())
}

/// class token of decrypt(blob, key) and the transaction when it succeeded
fn real_decrypt(blob: &[u8], key: &[u8; 32]) -> (String, Option<Transaction>) {
    let txid = Txid::from_byte_array(*key);
    match catch_unwind(AssertUnwindSafe(|| decrypt(blob, &txid))) {
        Err(_) => ("panic".into(), None),
        Ok(Ok(t)) => ("ok".into(), Some(t)),
        Ok(Err(DecryptingError::AED(_))) => ("aead".into(), None),
        Ok(Err(DecryptingError::Encode(e))) => (format!("encode:{}", err_class(&e)), None),
    }
}

fn real_encrypt(t: &Transaction, key: &[u8; 32]) -> Option<Vec<u8>> {
    let txid = Txid::from_byte_array(*key);
    match catch_unwind(AssertUnwindSafe(|| encrypt(t, &txid))) {
        Ok(Ok(b)) => Some(b),
        _ => None,
    }
}

fn rejected(blob: &[u8], key: &[u8; 32]) -> bool {
    real_decrypt(blob, key).0 != "ok"
}

fn cmut_line(kind: &str, id: u64, param: u64, key: &[u8; 32], blob: &[u8]) -> String {
    let (class, t) = real_decrypt(blob, key);
    let obs = match t {
        Some(t) => {
            let canon = real_encrypt(&t, key).map(|b| b == blob).unwrap_or(false);
            format!("ok:{}:{}", hx(&serialize(&t)), canon as u8)
        }
        None => class,
    };
    format!("CMUT {kind} {id} {param} {} {} OBS {obs}", hx(key), hx(blob))
}

fn cdes_line(kind: &str, bytes: &[u8]) -> String {
    let obs = match real_deserialize(bytes) {
        Err(()) => "panic".to_string(),
        Ok(Ok(t)) => format!("ok:{}", hx(&serialize(&t))),
        Ok(Err(e)) => format!("err:{}", err_class(&e)),
    };
    format!("CDES {kind} {} OBS {obs}", hx(bytes))
}

/// the CTX line of one (transaction, id) pair, followed by one explicit CMUT line for the first
/// accepted mutation of each sweep (so that a failure has a self-contained replay)
fn ctx_lines(id: u64, t: &Transaction, key: &[u8; 32], others: &[[u8; 32]], rng: &mut Rng, full: bool) -> Vec<String> {
    let mut extra = vec![];
    let ser = serialize(t);
    let deser = match real_deserialize(&ser) {
        Err(()) => "panic".to_string(),
        Ok(Ok(t2)) => (if &t2 == t { "ok" } else { "diff" }).to_string(),
        Ok(Err(e)) => format!("err:{}", err_class(&e)),
    };
    let loc = catch_unwind(AssertUnwindSafe(|| Locator::new(Txid::from_byte_array(*key)).to_vec()))
        .map(|l| hx(&l))
        .unwrap_or_else(|_| "panic".into());
    let mut line = format!("CTX {id} {} {} OBS {} {deser}", tx_tokens(t), hx(key), hx(&ser));
    match real_encrypt(t, key) {
        None => line += &format!(" err - {loc} 0 0 0 0 0 0"),
        Some(blob) => {
            let (class, t2) = real_decrypt(&blob, key);
            let dec = match t2 {
                Some(t2) if &t2 == t => "ok".to_string(),
                Some(t2) => format!("diff:{}", hx(&serialize(&t2))),
                None => class,
            };
            // every single-bit flip (sampled above 700 bytes unless `full`), every truncation,
            // every other id of the generated set
            let nbits = blob.len() * 8;
            let mut bits: Vec<usize> = if full || blob.len() <= 700 {
                (0..nbits).collect()
            } else {
                let mut v: Vec<usize> = (0..128).collect();
                v.extend(nbits - 17 * 8..nbits);
                v.extend((0..3000).map(|_| rng.below(nbits as u64) as usize));
                v
            };
            bits.sort_unstable();
            bits.dedup();
            let (mut nflip, mut nflip_rej) = (0u64, 0u64);
            let mut m = blob.clone();
            for b in bits {
                m[b / 8] ^= 1 << (b % 8);
                nflip += 1;
                if rejected(&m, key) {
                    nflip_rej += 1;
                } else if nflip - nflip_rej == 1 {
                    extra.push(cmut_line("flip", id, b as u64, key, &m));
                }
                m[b / 8] ^= 1 << (b % 8);
            }
            let (mut ntrunc, mut ntrunc_rej) = (0u64, 0u64);
            for n in 0..blob.len() {
                ntrunc += 1;
                if rejected(&blob[..n], key) {
                    ntrunc_rej += 1;
                } else if ntrunc - ntrunc_rej == 1 {
                    extra.push(cmut_line("trunc", id, n as u64, key, &blob[..n]));
                }
            }
            let (mut nother, mut nother_rej) = (0u64, 0u64);
            for (j, k2) in others.iter().enumerate() {
                if k2 == key {
                    continue;
                }
                nother += 1;
                if rejected(&blob, k2) {
                    nother_rej += 1;
                } else if nother - nother_rej == 1 {
                    extra.push(cmut_line("otherkey", id, j as u64, k2, &blob));
                }
            }
            line += &format!(
                " {} {dec} {loc} {nflip} {nflip_rej} {ntrunc} {ntrunc_rej} {nother} {nother_rej}",
                hx(&blob)
            );
        }
    }
    let mut out = vec![line];
    out.extend(extra);
    out
}

/// sampled explicit mutations of one blob: these are the ones the model is run on as well
fn sampled_mutations(id: u64, t: &Transaction, key: &[u8; 32], others: &[[u8; 32]], rng: &mut Rng, out: &mut Vec<String>) {
    let ser = serialize(t);
    let blob = match real_encrypt(t, key) {
        Some(b) => b,
        None => return,
    };
    let n = blob.len();
    // bit flips: one in the body (if any), one in the tag, one anywhere
    let mut flips = vec![rng.below((n * 8) as u64) as usize, (n - 16) * 8 + rng.below(128) as usize];
    if n > 16 {
        flips.push(rng.below(((n - 16) * 8) as u64) as usize);
    }
    for b in flips {
        let mut m = blob.clone();
        m[b / 8] ^= 1 << (b % 8);
        out.push(cmut_line("flip", id, b as u64, key, &m));
    }
    // truncations: by one byte, below the tag size, somewhere in between
    let mut cuts = vec![n - 1, rng.below(16) as usize];
    if n > 17 {
        cuts.push(16 + rng.below((n - 17) as u64) as usize);
    }
    for c in cuts {
        out.push(cmut_line("trunc", id, c as u64, key, &blob[..c]));
    }
    let mut m = blob.clone();
    m.extend(rbytes(rng, 1, 3));
    out.push(cmut_line("extend", id, (m.len() - n) as u64, key, &m));
    // another id of the set (two of them)
    for _ in 0..2 {
        let j = rng.below(others.len() as u64) as usize;
        if &others[j] != key {
            out.push(cmut_line("otherkey", id, j as u64, &others[j], &blob));
        }
    }
    // valid AEAD blobs over other plaintexts (reference sealer, key = SHA256(id), zero nonce)
    let k: [u8; 32] = sha256::Hash::hash(key).to_byte_array();
    let seal = |pt: &[u8]| refaead::seal(&k, &[0u8; 12], pt);
    out.push(cmut_line("pvalid", id, 0, key, &seal(&ser)));
    let mut pt = ser.clone();
    pt.extend(rbytes(rng, 1, 3));
    out.push(cmut_line("ptrail", id, (pt.len() - ser.len()) as u64, key, &seal(&pt)));
    if let Some(pt) = nonminimal_count(t, &ser, 0xfd) {
        out.push(cmut_line("pnonmin", id, 0xfd, key, &seal(&pt)));
    }
    if let Some(pt) = segwit_form_without_witness(t, &ser) {
        out.push(cmut_line("pnowit", id, 0, key, &seal(&pt)));
    }
}

fn has_witness(t: &Transaction) -> bool {
    t.input.iter().any(|i| !i.witness.is_empty())
}

/// the serialisation with the input count re-encoded non-minimally (0xfd, 0xfe or 0xff form)
fn nonminimal_count(t: &Transaction, ser: &[u8], form: u8) -> Option<Vec<u8>> {
    if t.input.len() >= 0xfd {
        return None;
    }
    let off = if has_witness(t) || t.input.is_empty() { 6 } else { 4 };
    let mut v = ser[..off].to_vec();
    v.push(form);
    let n = t.input.len() as u64;
    match form {
        0xfd => v.extend(&(n as u16).to_le_bytes()),
        0xfe => v.extend(&(n as u32).to_le_bytes()),
        _ => v.extend(&n.to_le_bytes()),
    }
    v.extend(&ser[off + 1..]);
    Some(v)
}

/// a transaction with inputs and no witness data, written in the BIP-144 form by hand
fn segwit_form_without_witness(t: &Transaction, ser: &[u8]) -> Option<Vec<u8>> {
    if t.input.is_empty() || has_witness(t) {
        return None;
    }
    let n = ser.len();
    let mut v = ser[..4].to_vec();
    v.extend([0u8, 1u8]);
    v.extend(&ser[4..n - 4]);
    v.extend(std::iter::repeat(0u8).take(t.input.len()));
    v.extend(&ser[n - 4..]);
    Some(v)
}

fn codec_cases(t: &Transaction, rng: &mut Rng, out: &mut Vec<String>) {
    let ser = serialize(t);
    for extra in [1usize, 1 + rng.below(40) as usize] {
        let mut v = ser.clone();
        v.extend(rng.bytes(extra));
        out.push(cdes_line("trailing", &v));
    }
    let mut v = ser.clone();
    v.push(0);
    out.push(cdes_line("trailing", &v));
    for form in [0xfdu8, 0xfe, 0xff] {
        if let Some(v) = nonminimal_count(t, &ser, form) {
            out.push(cdes_line("nonmin", &v));
        }
    }
    if let Some(v) = segwit_form_without_witness(t, &ser) {
        out.push(cdes_line("nowit", &v));
    }
    if has_witness(t) || t.input.is_empty() {
        for flag in [0u8, 2, rng.next() as u8] {
            let mut v = ser.clone();
            v[5] = flag;
            out.push(cdes_line("flag", &v));
        }
        // marker replaced: the transaction is then read in the legacy form
        let mut v = ser.clone();
        v[4] = 1 + rng.below(3) as u8;
        out.push(cdes_line("marker", &v));
    }
    for _ in 0..3 {
        let c = rng.below(ser.len() as u64) as usize;
        out.push(cdes_line("cut", &ser[..c]));
    }
    for _ in 0..6 {
        let mut v = ser.clone();
        let b = rng.below((v.len() * 8) as u64) as usize;
        v[b / 8] ^= 1 << (b % 8);
        out.push(cdes_line("bitflip", &v));
    }
}

fn fixed_codec_cases(rng: &mut Rng, out: &mut Vec<String>) {
    // witness limits: element count and cumulative size around MAX_VEC_SIZE = 4_000_000
    let head = |count: &[u8]| {
        let mut v = vec![2u8, 0, 0, 0, 0, 1, 1];
        v.extend([0x11u8; 32]);
        v.extend([0, 0, 0, 0, 0]); // vout, empty script
        v.extend([0xffu8; 4]); // sequence
        v.push(0); // no outputs
        v.extend(count);
        v
    };
    let vi = |n: u64| {
        let mut v = vec![0xfeu8];
        v.extend(&(n as u32).to_le_bytes());
        v
    };
    for count in [4_000_000u64, 4_000_001, 0xffff_ffff] {
        out.push(cdes_line("witlimit", &head(&vi(count))));
    }
    for size in [3_999_994u64, 3_999_995, 3_999_996, 4_000_001] {
        let mut v = head(&[1]);
        v.extend(vi(size));
        v.extend([0u8; 40]);
        out.push(cdes_line("witlimit", &v));
    }
    let mut v = head(&[0xff]);
    v.extend(&u64::MAX.to_le_bytes());
    out.push(cdes_line("witlimit", &v));
    let mut v = head(&[1, 0xff]);
    v.extend(&u64::MAX.to_le_bytes());
    out.push(cdes_line("witlimit", &v));
    // huge declared lengths on a short input
    for tail in [vec![0xffu8; 9], vec![0xfe, 0xff, 0xff, 0xff, 0xff], vec![0xfd, 0xff, 0xff]] {
        let mut v = vec![1u8, 0, 0, 0];
        v.extend(&tail);
        v.extend([0u8; 50]);
        out.push(cdes_line("hugelen", &v));
        // as a script length
        let mut v = vec![1u8, 0, 0, 0, 1];
        v.extend([0x22u8; 36]);
        v.extend(&tail);
        v.extend([0u8; 50]);
        out.push(cdes_line("hugelen", &v));
    }
    // compact-size boundaries as the script length of the single output
    for len in [0usize, 1, 252, 253, 254, 255, 256, 65535, 65536, 65537] {
        let t = Transaction {
            version: Version(1),
            lock_time: LockTime::from_consensus(0),
            input: vec![],
            output: vec![TxOut { value: Amount::from_sat(1), script_pubkey: ScriptBuf::from_bytes(vec![0x51; len]) }],
        };
        out.push(cdes_line("valid", &serialize(&t)));
    }
    out.push(cdes_line("random", &[]));
    for _ in 0..60 {
        let n = rng.below(120) as usize;
        out.push(cdes_line("random", &rng.bytes(n)));
    }
    // zero-input ambiguity: legacy-looking bytes with 0 inputs and k outputs
    for k in 0u8..4 {
        let mut v = vec![2u8, 0, 0, 0, 0, k];
        for _ in 0..k {
            v.extend([5u8, 0, 0, 0, 0, 0, 0, 0, 1, 0x51]);
        }
        v.extend([0u8; 4]);
        out.push(cdes_line("zeroin", &v));
    }
}

// ---------------------------------------------------------------- generators
fn gen_len(rng: &mut Rng) -> usize {
    match rng.below(12) {
        0 | 1 => 0,
        2 => 1,
        3 => 22 + rng.below(14) as usize,
        4 => 252,
        5 => 253,
        6 => 254 + rng.below(3) as usize,
        7 => 70 + rng.below(5) as usize,
        8 => rng.below(600) as usize,
        _ => rng.below(110) as usize,
    }
}

fn gen_tx(rng: &mut Rng) -> Transaction {
    let nin = rng.below(5) as usize;
    let nout = rng.below(5) as usize;
    let segwit = rng.chance(1, 2);
    let version = *rng.pick(&[1i32, 2, 2, 2, 0, -1, i32::MAX, i32::MIN, 3]);
    let version = if rng.chance(1, 6) { rng.next() as i32 } else { version };
    let lock = *rng.pick(&[0u32, 0, 1, 499_999_999, 500_000_000, u32::MAX, 0x8000_0000]);
    let lock = if rng.chance(1, 4) { rng.next() as u32 } else { lock };
    let mut input = vec![];
    for _ in 0..nin {
        let mut w = Witness::new();
        if segwit && rng.chance(3, 4) {
            for _ in 0..rng.below(5) {
                let l = *rng.pick(&[0usize, 1, 32, 33, 71, 72, 73, 252, 253, 300]);
                w.push(rng.bytes(l));
            }
        }
        let seq = *rng.pick(&[0u32, 0xffff_ffff, 0xffff_fffe, 0x8000_0000, 1]);
        let seq = if rng.chance(1, 4) { rng.next() as u32 } else { seq };
        let vout = *rng.pick(&[0u32, 1, u32::MAX, 0x100]);
        let vout = if rng.chance(1, 4) { rng.next() as u32 } else { vout };
        let txid: [u8; 32] = if rng.chance(1, 10) { [0u8; 32] } else { rng.bytes(32).try_into().unwrap() };
        let sl = gen_len(rng);
        input.push(TxIn {
            previous_output: OutPoint::new(Txid::from_byte_array(txid), vout),
            script_sig: ScriptBuf::from_bytes(rng.bytes(sl)),
            sequence: Sequence(seq),
            witness: w,
        });
    }
    let mut output = vec![];
    for _ in 0..nout {
        let value = *rng.pick(&[0u64, 1, 546, 2_100_000_000_000_000, u64::MAX, 1 << 63, 0xffff_ffff, 0x1_0000_0000]);
        let value = if rng.chance(1, 4) { rng.next() } else { value };
        let sl = gen_len(rng);
        output.push(TxOut { value: Amount::from_sat(value), script_pubkey: ScriptBuf::from_bytes(rng.bytes(sl)) });
    }
    Transaction { version: Version(version), lock_time: LockTime::from_consensus(lock), input, output }
}

/// grow / shrink one script so that the serialisation has exactly `target` bytes (None when the
/// target cannot be hit because of a compact-size step)
fn sized_tx(rng: &mut Rng, target: usize) -> Option<Transaction> {
    let mut t = gen_tx(rng);
    // keep the rest small so that the padded script decides
    for o in t.output.iter_mut() {
        if o.script_pubkey.len() > 40 {
            o.script_pubkey = ScriptBuf::from_bytes(rng.bytes(25));
        }
    }
    t.output.push(TxOut { value: Amount::from_sat(rng.next()), script_pubkey: ScriptBuf::new() });
    let base = serialize(&t).len();
    if base > target {
        return None;
    }
    let last = t.output.len() - 1;
    for guess in [target - base, (target - base).saturating_sub(2), (target - base).saturating_sub(4)] {
        t.output[last].script_pubkey = ScriptBuf::from_bytes(rng.bytes(guess));
        if serialize(&t).len() == target {
            return Some(t);
        }
    }
    None
}

fn gen_keys(rng: &mut Rng, n: usize) -> Vec<[u8; 32]> {
    let mut keys: Vec<[u8; 32]> = vec![];
    keys.push([0u8; 32]);
    keys.push([0xffu8; 32]);
    while keys.len() < n {
        let base: [u8; 32] = rng.bytes(32).try_into().unwrap();
        keys.push(base);
        match rng.below(8) {
            0 => {
                // same locator (first 16 bytes), different id
                let mut k = base;
                let i = 16 + rng.below(16) as usize;
                k[i] ^= 1 << rng.below(8);
                keys.push(k);
            }
            1 => {
                // one bit apart in the locator half
                let mut k = base;
                let i = rng.below(16) as usize;
                k[i] ^= 1 << rng.below(8);
                keys.push(k);
            }
            2 => {
                // the byte-reversed id (display order)
                let mut k = base;
                k.reverse();
                keys.push(k);
            }
            _ => {}
        }
    }
    keys.truncate(n.max(2));
    keys
}

// ---------------------------------------------------------------- signatures
struct Signer {
    sk: SecretKey,
    pk: PublicKey,
    near: PublicKey, // another key whose serialisation shares the first two bytes with pk
}

fn gen_sk(rng: &mut Rng) -> SecretKey {
    loop {
        if let Ok(sk) = SecretKey::from_slice(&rng.bytes(32)) {
            return sk;
        }
    }
}

fn gen_signer(rng: &mut Rng, sk: SecretKey) -> Signer {
    let secp = Secp256k1::new();
    let pk = PublicKey::from_secret_key(&secp, &sk);
    let mut near = PublicKey::from_secret_key(&secp, &gen_sk(rng));
    for _ in 0..4000 {
        let cand = PublicKey::from_secret_key(&secp, &gen_sk(rng));
        if cand != pk && cand.serialize()[..2] == pk.serialize()[..2] {
            near = cand;
            break;
        }
    }
    // every other signer is paired with its own NEGATED key instead (same x coordinate, other parity byte):
    // a different public key for which the signature must not verify either
    if rng.chance(1, 2) {
        near = pk.negate(&secp);
    }
    Signer { sk, pk, near }
}

fn rec_token(msg: &[u8], sig: &str) -> String {
    match catch_unwind(AssertUnwindSafe(|| recover_pk(msg, sig))) {
        Err(_) => "panic".into(),
        Ok(Ok(pk)) => hx(&pk.serialize()),
        Ok(Err(_)) => "err".into(),
    }
}

fn verify_token(msg: &[u8], sig: &str, pk: &PublicKey) -> String {
    match catch_unwind(AssertUnwindSafe(|| verify(msg, sig, pk))) {
        Err(_) => "panic".into(),
        Ok(b) => (b as u8).to_string(),
    }
}

/// (digest, rid, compact64) of the signature the documented format prescribes, computed with
/// secp256k1 directly (RFC 6979 deterministic nonces)
fn reference_signature(msg: &[u8], sk: &SecretKey) -> ([u8; 32], i32, [u8; 64]) {
    let mut m = b"Lightning Signed Message:".to_vec();
    m.extend_from_slice(msg);
    let digest = sha256d::Hash::hash(&m).to_byte_array();
    let secp = Secp256k1::signing_only();
    let sig = secp.sign_ecdsa_recoverable(&Message::from_digest(digest), sk);
    let (rid, compact) = sig.serialize_compact();
    (digest, rid.to_i32(), compact)
}

fn csig_line(msg: &[u8], s: &Signer) -> (String, Option<String>) {
    let (digest, rid, compact) = reference_signature(msg, &s.sk);
    let case = format!(
        "CSIG {} {} {} {} {rid} {} {}",
        hx(msg),
        hx(&s.sk.secret_bytes()),
        hx(&s.pk.serialize()),
        hx(&digest),
        hx(&compact),
        hx(&s.near.serialize())
    );
    match catch_unwind(AssertUnwindSafe(|| sign(msg, &s.sk))) {
        Err(_) => (format!("{case} OBS panic err 0 0"), None),
        Ok(sig) => (
            format!(
                "{case} OBS {} {} {} {}",
                hx(sig.as_bytes()),
                rec_token(msg, &sig),
                verify_token(msg, &sig, &s.pk),
                verify_token(msg, &sig, &s.near)
            ),
            Some(sig),
        ),
    }
}

fn csigmut_line(kind: &str, param: u64, pk: &PublicKey, msg: &[u8], sig: &str, omsg: &[u8], osig: &str) -> String {
    format!(
        "CSIGMUT {kind} {param} {} {} {} {} {} OBS {} {}",
        hx(&pk.serialize()),
        hx(msg),
        hx(sig.as_bytes()),
        hx(omsg),
        hx(osig.as_bytes()),
        rec_token(msg, sig),
        verify_token(msg, sig, pk)
    )
}

fn sig_mutations(msg: &[u8], s: &Signer, sig: &str, rng: &mut Rng, exhaustive: bool, out: &mut Vec<String>) {
    let pk = &s.pk;
    let bytes = sig.as_bytes();
    // single-bit flips of the characters of the text (only flips that keep it ASCII: &str)
    let positions: Vec<usize> = if exhaustive {
        (0..bytes.len() * 7).collect()
    } else {
        (0..14).map(|_| rng.below((bytes.len() * 7) as u64) as usize).collect()
    };
    for p in positions {
        let mut b = bytes.to_vec();
        b[p / 7] ^= 1 << (p % 7);
        let m = String::from_utf8(b).unwrap();
        out.push(csigmut_line("charflip", p as u64, pk, msg, &m, msg, sig));
    }
    // truncations of the text
    let cuts: Vec<usize> = if exhaustive {
        (0..bytes.len()).collect()
    } else {
        vec![bytes.len() - 1, bytes.len() - 2, rng.below(bytes.len() as u64) as usize, 0]
    };
    for c in cuts {
        out.push(csigmut_line("trunc", c as u64, pk, msg, &sig[..c], msg, sig));
    }
    // characters outside the alphabet, and an appended character
    for ch in ['l', 'v', '0', '2', ' ', '!', 'L', '_', '\u{e9}'] {
        let p = rng.below(bytes.len() as u64) as usize;
        let m = format!("{}{}{}", &sig[..p], ch, &sig[p + 1..]);
        out.push(csigmut_line("nonzb", p as u64, pk, msg, &m, msg, sig));
    }
    out.push(csigmut_line("nonzb", bytes.len() as u64, pk, msg, &format!("{sig}y"), msg, sig));
    // the same text padded with white space (a different text: it must not recover the signer either)
    for (k, m) in [format!("{sig}\n"), format!(" {sig}"), format!("\t{sig}\r\n"), format!("{sig} ")].iter().enumerate() {
        out.push(csigmut_line("nonzb", (bytes.len() + 1 + k) as u64, pk, msg, m, msg, sig));
    }
    // upper-case spellings of the same text
    out.push(csigmut_line("case", 0, pk, msg, &sig.to_uppercase(), msg, sig));
    // single-bit flips of the 65 signature bytes, re-encoded
    let (_d, rid, compact) = reference_signature(msg, &s.sk);
    let mut rec = vec![31 + rid as u8];
    rec.extend_from_slice(&compact);
    let positions: Vec<usize> = if exhaustive {
        (0..65 * 8).collect()
    } else {
        let mut v: Vec<usize> = (0..8).collect();
        v.extend((0..10).map(|_| 8 + rng.below(64 * 8) as usize));
        v
    };
    for p in positions {
        let mut r = rec.clone();
        r[p / 8] ^= 1 << (p % 8);
        out.push(csigmut_line("byteflip", p as u64, pk, msg, &refaead::zbase32(&r), msg, sig));
    }
    // truncated / extended signature bytes, re-encoded
    out.push(csigmut_line("bytecut", 64, pk, msg, &refaead::zbase32(&rec[..64]), msg, sig));
    let mut r = rec.clone();
    r.push(0);
    out.push(csigmut_line("bytecut", 66, pk, msg, &refaead::zbase32(&r), msg, sig));
    // altered messages under the untouched signature
    if !msg.is_empty() {
        let flips: Vec<usize> = if exhaustive && msg.len() <= 64 {
            (0..msg.len() * 8).collect()
        } else {
            (0..6).map(|_| rng.below((msg.len() * 8) as u64) as usize).collect()
        };
        for p in flips {
            let mut m = msg.to_vec();
            m[p / 8] ^= 1 << (p % 8);
            out.push(csigmut_line("msgflip", p as u64, pk, &m, sig, msg, sig));
        }
        out.push(csigmut_line("msgcut", (msg.len() - 1) as u64, pk, &msg[..msg.len() - 1], sig, msg, sig));
        out.push(csigmut_line("msgcut", 0, pk, &[], sig, msg, sig));
    }
    let mut m = msg.to_vec();
    m.push(rng.next() as u8);
    out.push(csigmut_line("msgext", 1, pk, &m, sig, msg, sig));
    // ECDSA malleability (informational: outside the single-bit / truncation quantifier):
    // (r, n - s) with the other recovery parity is a different 65-byte signature for the same key
    if let Ok(s_scalar) = SecretKey::from_slice(&compact[32..]) {
        let neg = s_scalar.negate().secret_bytes();
        let mut r = vec![31 + (rid as u8 ^ 1)];
        r.extend_from_slice(&compact[..32]);
        r.extend_from_slice(&neg);
        out.push(csigmut_line("malleate", 0, pk, msg, &refaead::zbase32(&r), msg, sig));
    }
}

fn gen_msg(rng: &mut Rng) -> Vec<u8> {
    match rng.below(8) {
        0 => vec![],
        1 => b"test message".to_vec(),
        2 => rng.bytes(1),
        3 => rbytes(rng, 20, 300), // an appointment: locator || blob || delay
        4 => format!("get appointment {}", hex::encode(rng.bytes(16))).into_bytes(),
        5 => b"get subscription info".to_vec(),
        6 => rbytes(rng, 1000, 2000),
        _ => rbytes(rng, 0, 120),
    }
}

// ---------------------------------------------------------------- run / replay
fn run(out: &mut dyn Write) {
    let seed = env_u64("VERIF_SEED", 0);
    let thorough = std::env::var("VERIF_TIER").map(|t| t == "thorough").unwrap_or(false);
    let ntx = env_u64("VERIF_CRYPTO_NTX", if thorough { 4000 } else { 300 }) as usize;
    let nsig = env_u64("VERIF_CRYPTO_NSIG", if thorough { 1200 } else { 100 }) as usize;
    let mut rng = Rng::new(seed ^ 0xC17);

    // serialised sizes around the AEAD block boundaries and around the 2048-byte slot boundaries
    // of the blob (blob = serialisation + 16)
    let mut targets: Vec<usize> = vec![47, 48, 49, 63, 64, 65, 127, 128, 129, 2031, 2032, 2033, 2047, 2048, 2049];
    if thorough {
        targets.extend([255, 256, 257, 1023, 1024, 1025, 4079, 4080, 4081, 4095, 4096, 4097, 6128, 8176]);
    }
    let mut txs: Vec<Transaction> = vec![];
    // the smallest transactions there are
    txs.push(Transaction { version: Version(2), lock_time: LockTime::from_consensus(0), input: vec![], output: vec![] });
    for tg in targets {
        for _ in 0..20 {
            if let Some(t) = sized_tx(&mut rng, tg) {
                txs.push(t);
                break;
            }
        }
    }
    while txs.len() < ntx {
        txs.push(gen_tx(&mut rng));
    }
    let keys = gen_keys(&mut rng, txs.len());

    let mut lines = vec![];
    fixed_codec_cases(&mut rng, &mut lines);
    for l in lines.drain(..) {
        writeln!(out, "{l}").unwrap();
    }
    for (i, t) in txs.iter().enumerate() {
        let key = &keys[i];
        let r = catch_unwind(AssertUnwindSafe(|| {
            let mut rng2 = Rng::new(seed ^ 0xC17 ^ ((i as u64 + 1) << 20));
            let mut ls = ctx_lines(i as u64, t, key, &keys, &mut rng2, thorough);
            sampled_mutations(i as u64, t, key, &keys, &mut rng2, &mut ls);
            codec_cases(t, &mut rng2, &mut ls);
            ls
        }));
        match r {
            Ok(ls) => {
                for l in ls {
                    writeln!(out, "{l}").unwrap();
                }
            }
            Err(_) => writeln!(out, "CPANIC ctx {i} {}", tx_tokens(t)).unwrap(),
        }
    }

    // signatures
    let mut signers = vec![];
    let mut one = [0u8; 32];
    one[31] = 1;
    signers.push(gen_signer(&mut rng, SecretKey::from_slice(&one).unwrap()));
    for _ in 0..(if thorough { 12 } else { 4 }) {
        let sk = gen_sk(&mut rng);
        signers.push(gen_signer(&mut rng, sk));
    }
    for i in 0..nsig {
        let s = &signers[i % signers.len()];
        let msg = if i == 0 { b"test message".to_vec() } else { gen_msg(&mut rng) };
        let r = catch_unwind(AssertUnwindSafe(|| {
            let mut ls = vec![];
            let (line, sig) = csig_line(&msg, s);
            ls.push(line);
            if let Some(sig) = sig {
                // a signature by another signer of the same message must not verify for this one
                let other = &signers[(i + 1) % signers.len()];
                if let Ok(osig) = catch_unwind(AssertUnwindSafe(|| sign(&msg, &other.sk))) {
                    ls.push(csigmut_line("othersigner", 0, &s.pk, &msg, &osig, &msg, &sig));
                }
                let exhaustive = i < (if thorough { 6 } else { 1 });
                sig_mutations(&msg, s, &sig, &mut rng, exhaustive, &mut ls);
            }
            ls
        }));
        match r {
            Ok(ls) => {
                for l in ls {
                    writeln!(out, "{l}").unwrap();
                }
            }
            Err(_) => writeln!(out, "CPANIC sig {i} {}", hx(&msg)).unwrap(),
        }
    }
    // directed: signatures whose LAST BYTE is zero (about one in 256: the text ends in 'y' after one of y/e/o/a) - a decoder that
    // pads a short text with zeros instead of demanding 65 bytes accepts these with their last character cut off
    let mut found = 0;
    for j in 0..6000u64 {
        if found >= 2 {
            break;
        }
        let s = &signers[(j % signers.len() as u64) as usize];
        let msg = format!("zero tail {j}").into_bytes();
        let r = catch_unwind(AssertUnwindSafe(|| {
            let sig = sign(&msg, &s.sk);
            let b = sig.as_bytes();
            if b.len() < 2 || b[b.len() - 1] != b'y' || !matches!(b[b.len() - 2], b'y' | b'e' | b'o' | b'a') {
                return None;
            }
            let mut ls = vec![];
            let (line, sig) = csig_line(&msg, s);
            ls.push(line);
            if let Some(sig) = sig {
                sig_mutations(&msg, s, &sig, &mut rng, true, &mut ls);
            }
            Some(ls)
        }));
        if let Ok(Some(ls)) = r {
            found += 1;
            for l in ls {
                writeln!(out, "{l}").unwrap();
            }
        }
    }
}

/// re-run the cases of a file (the part of each line before OBS) on the real code
fn replay(path: &str, out: &mut dyn Write) {
    let text = std::fs::read_to_string(path).expect("cannot read case file");
    for l in text.lines() {
        let case = l.split(" OBS").next().unwrap_or("");
        let toks: Vec<&str> = case.split_whitespace().collect();
        if toks.is_empty() {
            continue;
        }
        let r = catch_unwind(AssertUnwindSafe(|| -> Option<Vec<String>> {
            match toks[0] {
                "CTX" => {
                    let id: u64 = toks[1].parse().ok()?;
                    let mut it = toks[2..].iter().copied();
                    let t = parse_tx(&mut it)?;
                    let key: [u8; 32] = unhx(it.next()?).try_into().ok()?;
                    let mut rng = Rng::new(id);
                    Some(ctx_lines(id, &t, &key, &[], &mut rng, true))
                }
                "CMUT" => {
                    let key: [u8; 32] = unhx(toks[4]).try_into().ok()?;
                    Some(vec![cmut_line(toks[1], toks[2].parse().ok()?, toks[3].parse().ok()?, &key, &unhx(toks[5]))])
                }
                "CDES" => Some(vec![cdes_line(toks[1], &unhx(toks[2]))]),
                "CSIG" => {
                    let sk = SecretKey::from_slice(&unhx(toks[2])).ok()?;
                    let secp = Secp256k1::new();
                    let s = Signer {
                        sk,
                        pk: PublicKey::from_secret_key(&secp, &sk),
                        near: PublicKey::from_slice(&unhx(toks[7])).ok()?,
                    };
                    Some(vec![csig_line(&unhx(toks[1]), &s).0])
                }
                "CSIGMUT" => {
                    let pk = PublicKey::from_slice(&unhx(toks[3])).ok()?;
                    let sig = String::from_utf8(unhx(toks[5])).ok()?;
                    let osig = String::from_utf8(unhx(toks[7])).ok()?;
                    Some(vec![csigmut_line(toks[1], toks[2].parse().ok()?, &pk, &unhx(toks[4]), &sig, &unhx(toks[6]), &osig)])
                }
                _ => None,
            }
        }));
        match r {
            Ok(Some(ls)) => {
                for l in ls {
                    writeln!(out, "{l}").unwrap();
                }
            }
            _ => writeln!(out, "CPANIC replay {case}").unwrap(),
        }
    }
}

fn main() {
    std::panic::set_hook(Box::new(|_| {}));
    let args: Vec<String> = std::env::args().collect();
    let usage = || {
        eprintln!("usage: crypto run <out-file> | crypto replay <case-file> <out-file>");
        std::process::exit(2);
    };
    if args.len() < 3 {
        usage();
    }
    match args[1].as_str() {
        "run" => {
            let mut out = std::io::BufWriter::new(std::fs::File::create(&args[2]).expect("cannot create output file"));
            run(&mut out);
            out.flush().unwrap();
        }
        "replay" if args.len() >= 4 => {
            let mut out = std::io::BufWriter::new(std::fs::File::create(&args[3]).expect("cannot create output file"));
            replay(&args[2], &mut out);
            out.flush().unwrap();
        }
        _ => usage(),
    }
}
