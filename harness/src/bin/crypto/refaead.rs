//! A hand-written RFC 8439 ChaCha20-Poly1305 sealer (and a zbase32 encoder), used ONLY to build
//! inputs the real code cannot be asked to produce: valid AEAD blobs whose plaintext is not the
//! canonical serialisation of a transaction (trailing bytes, non-minimal sizes, ...), and signature
//! texts whose 65 decoded bytes were mutated.  Its outputs are cross-checked on every run by the
//! Coq model (the driver recomputes every blob) — it is an input generator, not an oracle.

fn rotl(x: u32, n: u32) -> u32 {
    x.rotate_left(n)
}

fn qr(s: &mut [u32; 16], a: usize, b: usize, c: usize, d: usize) {
    s[a] = s[a].wrapping_add(s[b]);
    s[d] = rotl(s[d] ^ s[a], 16);
    s[c] = s[c].wrapping_add(s[d]);
    s[b] = rotl(s[b] ^ s[c], 12);
    s[a] = s[a].wrapping_add(s[b]);
    s[d] = rotl(s[d] ^ s[a], 8);
    s[c] = s[c].wrapping_add(s[d]);
    s[b] = rotl(s[b] ^ s[c], 7);
}

pub fn chacha20_block(key: &[u8; 32], counter: u32, nonce: &[u8; 12]) -> [u8; 64] {
    let mut init = [0u32; 16];
    init[0] = 0x61707865;
    init[1] = 0x3320646e;
    init[2] = 0x79622d32;
    init[3] = 0x6b206574;
    for i in 0..8 {
        init[4 + i] = u32::from_le_bytes(key[4 * i..4 * i + 4].try_into().unwrap());
    }
    init[12] = counter;
    for i in 0..3 {
        init[13 + i] = u32::from_le_bytes(nonce[4 * i..4 * i + 4].try_into().unwrap());
    }
    let mut s = init;
    for _ in 0..10 {
        qr(&mut s, 0, 4, 8, 12);
        qr(&mut s, 1, 5, 9, 13);
        qr(&mut s, 2, 6, 10, 14);
        qr(&mut s, 3, 7, 11, 15);
        qr(&mut s, 0, 5, 10, 15);
        qr(&mut s, 1, 6, 11, 12);
        qr(&mut s, 2, 7, 8, 13);
        qr(&mut s, 3, 4, 9, 14);
    }
    let mut out = [0u8; 64];
    for i in 0..16 {
        out[4 * i..4 * i + 4].copy_from_slice(&s[i].wrapping_add(init[i]).to_le_bytes());
    }
    out
}

/// poly1305-donna, 26-bit limbs
pub fn poly1305(key: &[u8], msg: &[u8]) -> [u8; 16] {
    let t = |b: &[u8], i: usize| u32::from_le_bytes(b[i..i + 4].try_into().unwrap());
    let r0 = (t(key, 0)) & 0x3ffffff;
    let r1 = (t(key, 3) >> 2) & 0x3ffff03;
    let r2 = (t(key, 6) >> 4) & 0x3ffc0ff;
    let r3 = (t(key, 9) >> 6) & 0x3f03fff;
    let r4 = (t(key, 12) >> 8) & 0x00fffff;
    let (s1, s2, s3, s4) = (r1 * 5, r2 * 5, r3 * 5, r4 * 5);
    let (mut h0, mut h1, mut h2, mut h3, mut h4) = (0u32, 0u32, 0u32, 0u32, 0u32);
    for chunk in msg.chunks(16) {
        let mut block = [0u8; 17];
        block[..chunk.len()].copy_from_slice(chunk);
        block[chunk.len()] = 1;
        h0 += t(&block, 0) & 0x3ffffff;
        h1 += (t(&block, 3) >> 2) & 0x3ffffff;
        h2 += (t(&block, 6) >> 4) & 0x3ffffff;
        h3 += (t(&block, 9) >> 6) & 0x3ffffff;
        h4 += (t(&block, 12) >> 8) | ((block[16] as u32) << 24);
        let m = |a: u32, b: u32| a as u64 * b as u64;
        let d0 = m(h0, r0) + m(h1, s4) + m(h2, s3) + m(h3, s2) + m(h4, s1);
        let mut d1 = m(h0, r1) + m(h1, r0) + m(h2, s4) + m(h3, s3) + m(h4, s2);
        let mut d2 = m(h0, r2) + m(h1, r1) + m(h2, r0) + m(h3, s4) + m(h4, s3);
        let mut d3 = m(h0, r3) + m(h1, r2) + m(h2, r1) + m(h3, r0) + m(h4, s4);
        let mut d4 = m(h0, r4) + m(h1, r3) + m(h2, r2) + m(h3, r1) + m(h4, r0);
        let mut c = d0 >> 26;
        h0 = (d0 & 0x3ffffff) as u32;
        d1 += c;
        c = d1 >> 26;
        h1 = (d1 & 0x3ffffff) as u32;
        d2 += c;
        c = d2 >> 26;
        h2 = (d2 & 0x3ffffff) as u32;
        d3 += c;
        c = d3 >> 26;
        h3 = (d3 & 0x3ffffff) as u32;
        d4 += c;
        c = d4 >> 26;
        h4 = (d4 & 0x3ffffff) as u32;
        h0 += (c as u32) * 5;
        let c2 = h0 >> 26;
        h0 &= 0x3ffffff;
        h1 += c2;
    }
    // full carry
    let mut c = h1 >> 26;
    h1 &= 0x3ffffff;
    h2 += c;
    c = h2 >> 26;
    h2 &= 0x3ffffff;
    h3 += c;
    c = h3 >> 26;
    h3 &= 0x3ffffff;
    h4 += c;
    c = h4 >> 26;
    h4 &= 0x3ffffff;
    h0 += c * 5;
    c = h0 >> 26;
    h0 &= 0x3ffffff;
    h1 += c;
    // g = h + 5 - 2^130
    let mut g0 = h0.wrapping_add(5);
    c = g0 >> 26;
    g0 &= 0x3ffffff;
    let mut g1 = h1.wrapping_add(c);
    c = g1 >> 26;
    g1 &= 0x3ffffff;
    let mut g2 = h2.wrapping_add(c);
    c = g2 >> 26;
    g2 &= 0x3ffffff;
    let mut g3 = h3.wrapping_add(c);
    c = g3 >> 26;
    g3 &= 0x3ffffff;
    let mut g4 = h4.wrapping_add(c).wrapping_sub(1 << 26);
    // select h if h < p else g
    let mut mask = (g4 >> 31).wrapping_sub(1); // all ones when g4 did not underflow
    g0 &= mask;
    g1 &= mask;
    g2 &= mask;
    g3 &= mask;
    g4 &= mask;
    mask = !mask;
    h0 = (h0 & mask) | g0;
    h1 = (h1 & mask) | g1;
    h2 = (h2 & mask) | g2;
    h3 = (h3 & mask) | g3;
    h4 = (h4 & mask) | g4;
    // h mod 2^128 as four 32-bit words
    let w0 = h0 | (h1 << 26);
    let w1 = (h1 >> 6) | (h2 << 20);
    let w2 = (h2 >> 12) | (h3 << 14);
    let w3 = (h3 >> 18) | (h4 << 8);
    let mut out = [0u8; 16];
    let mut f = w0 as u64 + t(key, 16) as u64;
    out[0..4].copy_from_slice(&(f as u32).to_le_bytes());
    f = w1 as u64 + t(key, 20) as u64 + (f >> 32);
    out[4..8].copy_from_slice(&(f as u32).to_le_bytes());
    f = w2 as u64 + t(key, 24) as u64 + (f >> 32);
    out[8..12].copy_from_slice(&(f as u32).to_le_bytes());
    f = w3 as u64 + t(key, 28) as u64 + (f >> 32);
    out[12..16].copy_from_slice(&(f as u32).to_le_bytes());
    out
}

/// AEAD_CHACHA20_POLY1305 seal with empty associated data: ciphertext || tag
pub fn seal(key: &[u8; 32], nonce: &[u8; 12], pt: &[u8]) -> Vec<u8> {
    let otk = chacha20_block(key, 0, nonce);
    let mut ct = pt.to_vec();
    for (i, chunk) in ct.chunks_mut(64).enumerate() {
        let ks = chacha20_block(key, 1 + i as u32, nonce);
        for (b, k) in chunk.iter_mut().zip(ks.iter()) {
            *b ^= k;
        }
    }
    let mut mac = ct.clone();
    while mac.len() % 16 != 0 {
        mac.push(0);
    }
    mac.extend_from_slice(&0u64.to_le_bytes());
    mac.extend_from_slice(&(ct.len() as u64).to_le_bytes());
    let tag = poly1305(&otk[..32], &mac);
    ct.extend_from_slice(&tag);
    ct
}

const ZBASE: &[u8] = b"ybndrfg8ejkmcpqxot1uwisza345h769";

/// zbase32 text of a byte string (5 bits per character, most significant first, zero padded)
pub fn zbase32(data: &[u8]) -> String {
    let mut out = String::new();
    let (mut acc, mut bits) = (0u32, 0u32);
    for b in data {
        acc = (acc << 8) | *b as u32;
        bits += 8;
        while bits >= 5 {
            out.push(ZBASE[((acc >> (bits - 5)) & 31) as usize] as char);
            bits -= 5;
        }
        acc &= (1 << bits) - 1;
    }
    if bits > 0 {
        out.push(ZBASE[((acc << (5 - bits)) & 31) as usize] as char);
    }
    out
}
