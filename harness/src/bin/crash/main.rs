//! C03: crash at every durable write (before and after) and at every node RPC of a set of histories,
//! restart on the same database file the way teosd's main() bootstraps, catch up, finish the history;
//! compared with the uninterrupted run. Real ChainMonitor + SpvClient + tower; hook H2 provides the
//! crash points. Lines:
//!   CRREF <hist> <nsteps> <ncrashpoints> | {step tokens ;}* FINAL <tables> SENDS <n> {tx}*
//!   CR <hist> <crash_idx> <label> <step> | restart=<0/1> id=<0/1> lkb=<h> tip=<h> CRASHDB <tables> REC <tables> FINAL <tables> SENDS <n> {tx}*
//!   CRTR <hist> <slots> <duration> <delta> <h0> <nops> ; {OP <step> <first crash point> <n labels> <model op> SC <script> SG <sig id>
//!        TR <n> {micro kind}* DB <0|1> [<tables>] ;}*      the micro steps (durable statements by kind, RPCs, reply) the REAL code
//!        went through in each operation of the uninterrupted run, from the H2 labels + the SQL trace of the tower's connection
use std::io::Write;
use std::path::PathBuf;
use std::time::Duration;

use verif_harness::evlog;
use verif_harness::pollworld::{MonitorThread, SimChain};
use verif_harness::rng::Rng;
use verif_harness::simnode::RpcKind;
use verif_harness::world::{initial_chain, Cfg, Op, World};
use verif_harness::{env_u64, Line};

#[derive(Clone, Debug)]
enum Step {
    Api(Op),
    /// add with a blob described abstractly (key, pay, want_len)
    Add(i64, u64, u64, i64, u64),
    Mine(Vec<u64>),
    Reorg(usize, Vec<Vec<u64>>),
    Poll,
    FailBlock(u64),
    /// node answers for the following steps: (tx, getraw, send)
    Script(Vec<(u64, u8, i32)>),
    /// the chain moves WHILE THE TOWER IS DOWN: when the step before this one is the one that crashes, these
    /// (Mine / Reorg) steps run between the kill and the restart; otherwise they run in place
    WhileDown(Vec<Step>),
}

struct Sys {
    w: World,
    chain: SimChain,
    mon: Option<MonitorThread>,
    script: Vec<(u64, u8, i32)>,
    sends: Vec<i64>,
    /// the node answers consistently with its chain: a transaction confirmed in the active chain is reported
    /// confirmed by getrawtransaction and refused with -27 by sendrawtransaction; and a penalty (ids 100..400)
    /// can only be mined once somebody has given it to the node
    consistent: bool,
    /// blocks are mined exactly as listed (the oracle run over an already resolved chain)
    nofilter: bool,
    /// the chain steps as actually performed (Mine / Reorg with the transactions really mined)
    resolved: Vec<Step>,
}

fn work_dir(tag: &str) -> PathBuf {
    let base = if std::path::Path::new("/dev/shm").is_dir() { PathBuf::from("/dev/shm") } else { std::env::temp_dir() };
    base.join(format!("verif-crash-{}-{}", std::process::id(), tag))
}

impl Sys {
    fn new(cfg: Cfg, dir: PathBuf, init: &[(u64, bitcoin::Block)]) -> Sys {
        let w = World::new(cfg, dir, init, vec![0, 1, 2]);
        let chain = SimChain::from_init(init);
        let mon = Some(MonitorThread::spawn(chain.source.clone(), chain.tip_header(), &w));
        Sys { w, chain, mon, script: vec![], sends: vec![], consistent: false, nofilter: false, resolved: vec![] }
    }

    fn active_txs(&self) -> Vec<u64> {
        self.chain.active.iter().filter_map(|(_, h)| self.chain.ids.get(h)).flat_map(|(_, t)| t.iter().copied()).collect()
    }

    /// the node's answers for the next step
    fn effective_script(&self) -> Vec<(u64, u8, i32)> {
        let mut sc = self.script.clone();
        if self.consistent {
            for t in self.active_txs() {
                sc.retain(|e| e.0 != t);
                sc.push((t, 1, -27));
            }
        }
        sc
    }

    /// the transactions a block listed as `txs` really gets
    fn resolve(&self, txs: &[u64], also: &[u64]) -> Vec<u64> {
        if !self.consistent || self.nofilter {
            return txs.to_vec();
        }
        let active = self.active_txs();
        let mut out: Vec<u64> = vec![];
        for t in txs {
            let penalty = (100..400).contains(t);
            if active.contains(t) || also.contains(t) || out.contains(t) {
                continue;
            }
            if penalty && !self.sends.contains(&(*t as i64)) {
                continue;
            }
            out.push(*t);
        }
        out
    }

    fn drain_sends(&mut self) {
        let log = self.w.node.take_log();
        for (k, t) in log {
            if k == RpcKind::Send {
                self.sends.push(self.w.id_of_txid.get(&t).map(|x| *x as i64).unwrap_or(-2));
            }
        }
    }

    /// returns Err(()) when the step crashed (a crash point fired)
    fn step(&mut self, s: &Step, out: &mut Line) -> Result<(), ()> {
        match s {
            Step::Script(sc) => {
                self.script = sc.clone();
                Ok(())
            }
            Step::FailBlock(j) => {
                self.chain.source.0.lock().unwrap().fail_block_in = Some(*j);
                Ok(())
            }
            Step::Mine(txs) => {
                let t = self.resolve(txs, &[]);
                self.chain.mine(&mut self.w, &t);
                self.resolved.push(Step::Mine(t));
                Ok(())
            }
            Step::Reorg(d, blocks) => {
                // the transactions of the blocks that go away are free again
                let depth = (*d).min(self.chain.active.len() - 1);
                let saved: Vec<(u64, bitcoin::BlockHash)> = self.chain.active.split_off(self.chain.active.len() - depth);
                let mut done: Vec<u64> = vec![];
                let mut rb: Vec<Vec<u64>> = vec![];
                for b in blocks {
                    let t = self.resolve(b, &done);
                    done.extend(t.iter().copied());
                    rb.push(t);
                }
                self.chain.active.extend(saved);
                self.chain.reorg(&mut self.w, *d, &rb);
                self.resolved.push(Step::Reorg(*d, rb));
                Ok(())
            }
            Step::WhileDown(inner) => {
                for st in inner {
                    let _ = self.step(st, out);
                }
                Ok(())
            }
            Step::Add(signer, loc, key, pay, len) => {
                let blob = self.w.make_blob(*key, *pay, *len, 1);
                self.step(&Step::Api(Op::Add { signer: *signer, class: 0, loc: *loc, blob, delay: 20 }), out)
            }
            Step::Api(op) => {
                let sc = self.effective_script();
                let ok = self.w.exec(op, &sc, out);
                // exec replaced the node's log at begin_step: collect this step's sends
                self.drain_sends();
                if ok {
                    Ok(())
                } else {
                    Err(())
                }
            }
            Step::Poll => {
                // the script applies to the RPCs of the poll as well
                let sc = self.effective_script();
                let sm = sc
                    .iter()
                    .map(|(tx, g, s)| {
                        let txid = self.w.tx(*tx).compute_txid();
                        let g = match g {
                            0 => verif_harness::simnode::GetRaw::InMempool,
                            1 => verif_harness::simnode::GetRaw::Confirmed,
                            2 => verif_harness::simnode::GetRaw::NotFound,
                            _ => verif_harness::simnode::GetRaw::Other,
                        };
                        let s = if *s == 0 { verif_harness::simnode::Send::Ok } else { verif_harness::simnode::Send::Code(*s) };
                        (txid, (g, s))
                    })
                    .collect();
                self.w.node.begin_step(sm);
                let mon = self.mon.as_mut().unwrap();
                mon.start_poll();
                let r = mon.try_finish(Duration::from_secs(20));
                self.drain_sends();
                match r {
                    Some(true) => {
                        out.tok("P");
                        Ok(())
                    }
                    _ => {
                        out.tok("X").tok("poll");
                        Err(())
                    }
                }
            }
        }
    }

    /// kill + restart: drop everything in memory, bootstrap from the file, catch up
    fn recover(&mut self, out: &mut Line) {
        if let Some(mut m) = self.mon.take() {
            m.stop();
        }
        teos_common::verif::disarm();
        // main(): last known block from the database, else the node's best tip
        let lkb = {
            // a fresh connection, as a new process would open
            let dbm = teos::dbm::DBM::new(self.w.dir.join("teos_db.sql3")).unwrap();
            dbm.load_last_known_block()
        };
        let tip_hash = lkb.unwrap_or_else(|| self.chain.active.last().unwrap().1);
        let tip = self.chain.header_at(tip_hash).expect("bootstrap tip known to the node");
        let last = self.chain.last_blocks(tip_hash, 100);
        let ok = self.w.restart(&last, tip.height);
        if ok {
            self.w.install_sql_trace();
        }
        out.tok(format!("restart={}", ok as u8)).tok(format!("lkbboot={}", if lkb.is_some() { tip.height as i64 } else { -1 }));
        self.mon = Some(MonitorThread::spawn(self.chain.source.clone(), tip, &self.w));
        // "Get all the components up to date if there's a backlog of blocks"
        let mut l = Line::new();
        let _ = self.step(&Step::Poll, &mut l);
        out.tok(format!("catchup={}", l.0.replace(' ', "_")));
    }

    fn tables(&mut self) -> String {
        let mut l = Line::new();
        self.w.state_tokens(&mut l);
        l.0
    }

    fn lkb_height(&self) -> i64 {
        let h = self.w.dbm.lock().unwrap_or_else(|e| e.into_inner()).load_last_known_block();
        h.and_then(|h| self.chain.source.header_of(&h)).map(|d| d.height as i64).unwrap_or(-1)
    }

    fn shutdown(mut self) {
        if let Some(mut m) = self.mon.take() {
            m.stop();
        }
        let dir = self.w.dir.clone();
        drop(self.w);
        let _ = std::fs::remove_dir_all(dir);
    }
}


const WRITES: [&str; 16] = ["IU", "IA", "IT", "UU", "UA", "UT", "DU", "DA", "DT", "LKB", "KEY", "I?", "U?", "D?", "W?", "ROLLBACK"];

/// one operation as the real code performed it: an optional block event, the micro kinds with the index
/// of the crash point that precedes each, the range of crash points
struct Seg {
    head: Option<String>,
    toks: Vec<(String, u64)>,
    first: u64,
    end: u64,
}

/// Places the events of one step between its crash-point labels [a, b) and canonicalises every
/// (pre, post) pair to a statement kind: INSERT/UPDATE/DELETE x users/appointments/trackers, a transaction
/// with the kinds inside, an RPC (send | getraw). A durable write outside any pair is UNBRACKETED.
fn canon(labels: &[&'static str], events: &[(u64, String)], a: u64, b: u64) -> Vec<Seg> {
    let is_write = |k: &str| WRITES.contains(&k);
    let mut used = vec![false; events.len()];
    let mut segs: Vec<Seg> = Vec::new();
    let mut cur = Seg { head: None, toks: vec![], first: a, end: a };
    let mut i = a;
    let open_blocks = |i: u64, cur: &mut Seg, segs: &mut Vec<Seg>, used: &mut Vec<bool>| {
        for (j, (c, k)) in events.iter().enumerate() {
            if *c == i && !used[j] && (k.starts_with("BC:") || k.starts_with("BD:")) {
                used[j] = true;
                let done = std::mem::replace(cur, Seg { head: Some(k.clone()), toks: vec![], first: i, end: i });
                if done.head.is_some() || !done.toks.is_empty() {
                    segs.push(Seg { end: i, ..done });
                }
            }
        }
    };
    while i < b {
        open_blocks(i, &mut cur, &mut segs, &mut used);
        let lab = labels[i as usize];
        let post = labels.get(i as usize + 1).copied().unwrap_or("-");
        let take = |cnt: u64, pred: &dyn Fn(&str) -> bool, used: &mut Vec<bool>| -> Vec<String> {
            let mut v = vec![];
            for (j, (c, k)) in events.iter().enumerate() {
                if *c == cnt && !used[j] && pred(k) {
                    used[j] = true;
                    v.push(k.clone());
                }
            }
            v
        };
        match lab {
            "store:pre" | "write:pre" => {
                let w = take(i + 1, &is_write, &mut used);
                let mut tok = if w.is_empty() { "NOSQL".to_string() } else { w.join("&") };
                let want_post = if lab == "store:pre" { "store:post" } else { "write:post" };
                if post != want_post {
                    tok.push_str("!nopost");
                }
                let ins = tok.starts_with('I') || tok == "LKB" || tok == "KEY";
                if (lab == "store:pre") != ins {
                    tok = format!("MISBRACKET:{tok}");
                }
                cur.toks.push((tok, i));
                i += 2;
            }
            "rpc:pre" => {
                let w = take(i + 1, &|k| k == "RG" || k == "RS", &mut used);
                let mut tok = if w.is_empty() { "R?".to_string() } else { w.join("&") };
                if post != "rpc:post" {
                    tok.push_str("!nopost");
                }
                cur.toks.push((tok, i));
                i += 2;
            }
            "txn-users:pre-commit" | "txn-appointments:pre-commit" => {
                let w = take(i, &is_write, &mut used);
                let mut tok = format!("T[{}]", w.join("+"));
                if !post.ends_with(":post-commit") {
                    tok.push_str("!nopost");
                }
                cur.toks.push((tok, i));
                i += 2;
            }
            other => {
                cur.toks.push((format!("?{other}"), i));
                i += 1;
            }
        }
    }
    open_blocks(b, &mut cur, &mut segs, &mut used);
    for (j, (_c, k)) in events.iter().enumerate() {
        if !used[j] && is_write(k) {
            cur.toks.push((format!("UNBRACKETED:{k}"), b));
        }
    }
    cur.end = b;
    segs.push(cur);
    segs
}

fn script_tokens(sc: &[(u64, u8, i32)]) -> String {
    let mut l = Line::new();
    l.tok(sc.len());
    for (t, g, s) in sc {
        l.tok(t).tok(g).tok(s);
    }
    l.0
}

fn templates(rng: &mut Rng, thorough: bool) -> Vec<(Cfg, Vec<Step>)> {
    let cfg = Cfg { slots: 20, duration: 300, delta: 5 };
    let reg = |u: u64| Step::Api(Op::Register(u));
    let mut v: Vec<(Cfg, Vec<Step>)> = Vec::new();
    // 0: registrations, adds, update, breach in a block (accepted), read
    v.push((cfg, vec![
        reg(0), reg(1), Step::Add(0, 1, 1, 101, 0), Step::Add(1, 1, 1, 101, 0), Step::Add(0, 2, 2, 102, 4100),
        Step::Add(0, 2, 2, 103, 100), Step::Mine(vec![1]), Step::Poll, Step::Mine(vec![2, 500]), Step::Poll,
        Step::Api(Op::Get { signer: 0, class: 0, loc: 1 }), Step::Mine(vec![101]), Step::Poll, reg(0),
    ]));
    // 1: breach with a rejected penalty and an undecryptable blob in one block, several blocks in one poll
    v.push((cfg, vec![
        reg(0), reg(1), Step::Add(0, 1, 1, 101, 0), Step::Add(1, 2, 2, -1, 300), Step::Add(1, 3, 3, 104, 2049),
        Step::Script(vec![(101, 2, -26)]), Step::Mine(vec![1]), Step::Mine(vec![2]), Step::Mine(vec![3]), Step::Poll,
        Step::Script(vec![]), Step::Mine(vec![]), Step::Poll,
    ]));
    // 2: late appointments (accepted / rejected / invalid) and a reorg that re-announces
    v.push((cfg, vec![
        reg(0), Step::Mine(vec![1, 2, 3]), Step::Poll, Step::Add(0, 1, 1, 101, 0), Step::Script(vec![(102, 2, -25)]),
        Step::Add(0, 2, 2, 102, 0), Step::Script(vec![]), Step::Add(0, 3, 3, -1, 500), Step::Mine(vec![101]), Step::Poll,
        Step::Reorg(1, vec![vec![], vec![101]]), Step::Poll, Step::Mine(vec![]), Step::Poll,
    ]));
    // 3: expiry and purge (short subscription), renewal in the grace period
    v.push((Cfg { slots: 5, duration: 3, delta: 2 }, vec![
        reg(0), reg(1), Step::Add(0, 1, 1, 101, 0), Step::Add(1, 2, 2, 102, 0), Step::Mine(vec![1]), Step::Poll,
        Step::Mine(vec![]), Step::Mine(vec![]), Step::Poll, reg(1), Step::Mine(vec![]), Step::Mine(vec![]), Step::Poll,
        Step::Mine(vec![2]), Step::Poll,
    ]));
    // 3b/3c: boundary configurations: a subscription that is expired (and, with no grace period, already due for the
    // purge) at the very height it was registered at; a restart there must bring the user back so that the next
    // block purges it, and the replies before the purge state the expiry
    for (d, g) in [(0u32, 0u32), (0, 1), (1, 0)] {
        v.push((Cfg { slots: 5, duration: d, delta: g }, vec![
            reg(0), reg(1), Step::Api(Op::GetSub { signer: 0, class: 0 }), Step::Add(0, 1, 1, 101, 0),
            Step::Api(Op::GetSub { signer: 1, class: 0 }), Step::Mine(vec![]), Step::Poll,
            Step::Api(Op::GetSub { signer: 0, class: 0 }), reg(0), Step::Mine(vec![]), Step::Poll,
            Step::Api(Op::GetSub { signer: 0, class: 0 }), Step::Mine(vec![]), Step::Poll, Step::Api(Op::GetSub { signer: 1, class: 0 }),
        ]));
    }
    // 4: completion with refund: a tracker buried 100 blocks deep, delivered in two big polls
    {
        let mut s = vec![reg(0), Step::Add(0, 1, 1, 101, 4000), Step::Mine(vec![1]), Step::Poll, Step::Mine(vec![101]), Step::Poll];
        for _ in 0..60 {
            s.push(Step::Mine(vec![]));
        }
        s.push(Step::Poll);
        for _ in 0..41 {
            s.push(Step::Mine(vec![]));
        }
        s.push(Step::Poll);
        s.push(Step::Api(Op::GetSub { signer: 0, class: 0 }));
        v.push((cfg, s));
    }
    // 5: a poll whose block download fails in the middle, then the rest (F4 when a crash follows)
    v.push((cfg, vec![
        reg(0), Step::Add(0, 1, 1, 101, 0), Step::Add(0, 2, 2, 102, 0), Step::Mine(vec![]), Step::Mine(vec![1]),
        Step::Mine(vec![2]), Step::FailBlock(1), Step::Poll, Step::Poll, Step::Mine(vec![]), Step::Poll,
    ]));
    // 6: a young tower: appointments accepted before the first new block is processed (F18)
    v.push((cfg, vec![reg(0), Step::Add(0, 1, 1, 101, 0), Step::Mine(vec![1]), Step::Mine(vec![]), Step::Poll, Step::Mine(vec![]), Step::Poll]));
    // random histories
    let n = if thorough { 1200 } else { 5 };
    for _ in 0..n {
        let mut s = vec![reg(0), reg(1)];
        let mut next_pen = 110u64;
        let len = 8 + rng.below(10);
        for _ in 0..len {
            match rng.below(10) {
                0..=3 => {
                    next_pen += 1;
                    let loc = 1 + rng.below(4);
                    let garbage = rng.chance(1, 5);
                    s.push(Step::Add(rng.below(2) as i64, loc, loc, if garbage { -1 } else { next_pen as i64 }, *rng.pick(&[0u64, 300, 2049, 4100])));
                }
                4..=6 => {
                    let txs: Vec<u64> = (0..rng.below(3)).map(|_| 1 + rng.below(4)).collect();
                    let mut t2 = txs.clone();
                    t2.dedup();
                    s.push(Step::Mine(t2));
                    if rng.chance(2, 3) {
                        s.push(Step::Poll);
                    }
                }
                7 => s.push(Step::Script(vec![(next_pen, 2, *rng.pick(&[0, -26, -27]))])),
                8 => s.push(reg(rng.below(2))),
                _ => s.push(Step::Poll),
            }
        }
        s.push(Step::Poll);
        // a transaction id must not be mined twice on one chain: keep the first occurrence only
        let mut seen: Vec<u64> = vec![];
        let s: Vec<Step> = s
            .into_iter()
            .map(|st| match st {
                Step::Mine(txs) => {
                    let t: Vec<u64> = txs.into_iter().filter(|t| if seen.contains(t) { false } else { seen.push(*t); true }).collect();
                    Step::Mine(t)
                }
                x => x,
            })
            .collect();
        v.push((cfg, s));
    }
    // last (appended so that the numbering of the histories above does not move): an exhausted balance. Two slots,
    // both used; further appointments are refused before and after every kill + restart (Gatekeeper::new must reload
    // the balance 0 as 0), a same-size update - also as the last request, after a poll in which a kill may fall -
    // rewrites the users row from memory, the read states the balance
    v.push((Cfg { slots: 2, duration: 300, delta: 5 }, vec![
        reg(0), reg(1), Step::Add(0, 1, 1, 101, 0), Step::Add(0, 2, 2, 102, 0), Step::Add(0, 3, 3, 103, 0),
        Step::Mine(vec![]), Step::Poll, Step::Add(0, 1, 1, 101, 0), Step::Api(Op::GetSub { signer: 0, class: 0 }),
        Step::Add(0, 3, 3, 103, 0), Step::Add(1, 3, 3, 103, 2049), Step::Add(1, 4, 4, 104, 0), Step::Mine(vec![]), Step::Poll,
        Step::Add(0, 2, 2, 102, 0), Step::Api(Op::GetSub { signer: 1, class: 0 }),
    ]));
    v
}


/// History ids of the family "the chain moves while the tower is down" start here.
const DOWN_BASE: usize = 5000;

/// Scripted (quick) and random (thorough) histories in which, between the kill and the restart, the node's chain
/// moves: the penalty the tower had sent gets confirmed, other disputes / unrelated blocks are mined, the block
/// being processed is reorged away. The kill is placed at every crash point of the step in front of `WhileDown`
/// (the poll that answered the breach, or the late add_appointment whose trigger was in the cache).
fn down_family(rng: &mut Rng, thorough: bool) -> Vec<(Cfg, Vec<Step>)> {
    let cfg = Cfg { slots: 20, duration: 300, delta: 5 };
    let reg = |u: u64| Step::Api(Op::Register(u));
    let down = |v: Vec<Step>| Step::WhileDown(v);
    let mut v: Vec<(Cfg, Vec<Step>)> = Vec::new();
    // 0: the penalty is confirmed while the tower is down
    v.push((cfg, vec![reg(0), Step::Add(0, 1, 1, 101, 0), Step::Mine(vec![1]), Step::Poll, down(vec![Step::Mine(vec![101])]), Step::Poll,
                      Step::Mine(vec![101]), Step::Poll, Step::Mine(vec![]), Step::Poll]));
    // 1: another dispute together with the penalty, then an unrelated block
    v.push((cfg, vec![reg(0), reg(1), Step::Add(0, 1, 1, 101, 0), Step::Add(1, 2, 2, 102, 300), Step::Mine(vec![1]), Step::Poll,
                      down(vec![Step::Mine(vec![2, 101]), Step::Mine(vec![600])]), Step::Poll, Step::Mine(vec![101, 102]), Step::Poll,
                      Step::Mine(vec![102]), Step::Poll]));
    // 2: the block being processed is reorged away; the new chain has the dispute again, then the penalty
    v.push((cfg, vec![reg(0), Step::Add(0, 1, 1, 101, 0), Step::Mine(vec![1]), Step::Poll, down(vec![Step::Reorg(1, vec![vec![1], vec![101]])]),
                      Step::Poll, Step::Mine(vec![101]), Step::Poll, Step::Mine(vec![]), Step::Poll]));
    // 3: ... reorged away and the dispute only comes back later
    v.push((cfg, vec![reg(0), Step::Add(0, 1, 1, 101, 0), Step::Mine(vec![1]), Step::Poll, down(vec![Step::Reorg(1, vec![vec![], vec![600]])]),
                      Step::Poll, Step::Mine(vec![1]), Step::Poll, Step::Mine(vec![101]), Step::Poll]));
    // 4: a late appointment (trigger in the cache) killed while being handed to the responder; the penalty confirms meanwhile
    v.push((cfg, vec![reg(0), Step::Mine(vec![1]), Step::Poll, Step::Add(0, 1, 1, 101, 0), down(vec![Step::Mine(vec![101])]), Step::Poll,
                      Step::Mine(vec![101]), Step::Poll, Step::Mine(vec![]), Step::Poll]));
    // 5: ... and the block that held its trigger is reorged meanwhile
    v.push((cfg, vec![reg(0), Step::Add(0, 2, 2, 102, 0), Step::Mine(vec![1]), Step::Poll, Step::Add(0, 1, 1, 101, 0),
                      down(vec![Step::Reorg(1, vec![vec![1, 2], vec![101]])]), Step::Poll, Step::Mine(vec![101, 102]), Step::Poll,
                      Step::Mine(vec![]), Step::Poll]));
    // 6: two polls in a row are interrupted: each time the chain grows while the tower is down
    v.push((cfg, vec![reg(0), reg(1), Step::Add(0, 1, 1, 101, 0), Step::Add(1, 1, 1, 103, 2049), Step::Add(1, 2, 2, 102, 0), Step::Mine(vec![1]),
                      Step::Poll, down(vec![Step::Mine(vec![101, 103]), Step::Mine(vec![2])]), Step::Poll, down(vec![Step::Mine(vec![102])]),
                      Step::Mine(vec![101, 102, 103]), Step::Poll, Step::Mine(vec![]), Step::Poll]));
    if thorough {
        for _ in 0..150 {
            let mut s = vec![reg(0), reg(1)];
            let napp = 2 + rng.below(3);
            let mut pens: Vec<u64> = vec![];
            let mut late: Vec<(i64, u64, u64)> = vec![];
            for k in 0..napp {
                let loc = 1 + k;
                let pen = 110 + k;
                pens.push(pen);
                let user = rng.below(2) as i64;
                if rng.chance(1, 4) {
                    late.push((user, loc, pen));
                } else {
                    s.push(Step::Add(user, loc, loc, pen as i64, *rng.pick(&[0u64, 300, 2049])));
                }
            }
            let mut locs: Vec<u64> = (1..=napp).collect();
            while !locs.is_empty() {
                let take = 1 + rng.below(2).min(locs.len() as u64 - 1);
                let blk: Vec<u64> = locs.drain(..take as usize).collect();
                s.push(Step::Mine(blk.clone()));
                s.push(Step::Poll);
                let what = |rng: &mut Rng| -> Vec<Step> {
                    let mut d = vec![];
                    match rng.below(4) {
                        0 => d.push(Step::Mine(pens.clone())),
                        1 => {
                            d.push(Step::Mine(pens.clone()));
                            d.push(Step::Mine(vec![600 + rng.below(50)]));
                        }
                        2 => d.push(Step::Reorg(1, vec![blk.clone(), pens.clone()])),
                        _ => d.push(Step::Reorg(1, vec![vec![], blk.clone()])),
                    }
                    d
                };
                let d = what(rng);
                s.push(down(d));
                s.push(Step::Poll);
                // a late appointment whose trigger is in the cache now
                if let Some(i) = late.iter().position(|(_, l, _)| blk.contains(l)) {
                    let (u, l, p) = late.remove(i);
                    s.push(Step::Add(u, l, l, p as i64, 0));
                    s.push(down(vec![Step::Mine(pens.clone())]));
                    s.push(Step::Poll);
                }
            }
            for (u, l, p) in late.drain(..) {
                s.push(Step::Add(u, l, l, p as i64, 0));
            }
            s.push(Step::Mine(pens.clone()));
            s.push(Step::Poll);
            s.push(Step::Mine((1..=napp).collect()));
            s.push(Step::Poll);
            s.push(Step::Mine(pens.clone()));
            s.push(Step::Poll);
            v.push((cfg, s));
        }
    }
    v
}

/// how a history of the family "the chain moves while the tower is down" is run
#[derive(Clone, Copy, Default)]
struct Opts {
    consistent: bool,
    nofilter: bool,
    /// this run is the oracle of the crash run at this crash point: the uninterrupted run over the chain that run ended with
    oracle_of: Option<u64>,
}

#[derive(Default)]
struct Ret {
    /// (step, first crash point, one past the last) of the uninterrupted run
    ranges: Vec<(usize, u64, u64)>,
    /// the steps as performed, the catch-up poll of the restart included
    resolved: Vec<Step>,
    /// index in `resolved` of the step that crashed
    crashed_at: Option<usize>,
}

#[allow(clippy::too_many_arguments)]
fn run(hist: usize, cfg: Cfg, steps: &[Step], crash_at: Option<u64>, skip: Option<usize>, poll_after: Option<usize>, init: &[(u64, bitcoin::Block)], out: &mut dyn Write, opts: Opts, ret: &mut Ret) -> u64 {
    teos_common::verif::reset();
    let mut sys = Sys::new(cfg, work_dir(&format!("{hist}")), init);
    sys.consistent = opts.consistent;
    sys.nofilter = opts.nofilter;
    // crash points are counted from here (the bootstrap's own writes are not part of the history)
    teos_common::verif::reset();
    evlog::clear();
    evlog::enable(true);
    sys.w.install_sql_trace();
    let reference = crash_at.is_none() && skip.is_none() && poll_after.is_none() && opts.oracle_of.is_none();
    let mut down_done: Option<usize> = None;
    let mut oprecs: Vec<String> = Vec::new();
    let mut last_end = 0u64;
    if let Some(c) = crash_at {
        teos_common::verif::arm(c);
    }
    let mut line = Line::new();
    let mut crashed: Option<(usize, String)> = None;
    let mut rec_line = Line::new();
    let mut costs: Vec<String> = Vec::new();
    let mut partial = false;
    let mut partial_at_crash = false;
    for (i, s) in steps.iter().enumerate() {
        let mut l = Line::new();
        let before = teos_common::verif::count();
        if down_done == Some(i) {
            continue;
        }
        if skip == Some(i) {
            // the request never reaches the tower (its blob is still materialised so that ids stay aligned)
            if let Step::Add(_, _, key, pay, len) = s {
                sys.w.make_blob(*key, *pay, *len, 1);
            }
            if poll_after == Some(i) {
                let mut l2 = Line::new();
                let _ = sys.step(&Step::Poll, &mut l2);
            }
            continue;
        }
        if let Step::Add(signer, loc, key, pay, len) = s {
            let b = sys.w.make_blob(*key, *pay, *len, 1);
            let blen = sys.w.blobs[b].1.len;
            costs.push(format!("{i}:{}:{loc}:{signer}", (blen + 2047) / 2048));
        }
        if let Step::Api(Op::Register(u)) = s {
            costs.push(format!("{i}:0:-1:{u}"));
        }
        if matches!(s, Step::FailBlock(_)) {
            partial = true;
        }
        let ev_before = evlog::snapshot().len();
        let sc_now = sys.effective_script();
        let r = sys.step(s, &mut l);
        if !matches!(s, Step::Mine(_) | Step::Reorg(..) | Step::WhileDown(_)) {
            sys.resolved.push(s.clone());
        }
        ret.ranges.push((i, before, teos_common::verif::count()));
        if reference {
            let tables = sys.tables();
            line.tok(format!("s{i}:{}:{}", l.0.replace(' ', ","), tables.replace(' ', ",")));
            // the micro steps of this step, from the labels and the events
            let after = teos_common::verif::count();
            let labels = teos_common::verif::labels();
            let events: Vec<(u64, String)> = evlog::snapshot().into_iter().skip(ev_before).collect();
            let late = if before != last_end { format!(" LATE:{}", before - last_end) } else { String::new() };
            last_end = after;
            let sc_tok = script_tokens(&sc_now);
            let model_op: Option<String> = match s {
                Step::Api(Op::Register(u)) => Some(format!("R {u}")),
                Step::Api(Op::Get { signer, class, loc }) => Some(format!("G {signer} {class} {loc}")),
                Step::Api(Op::GetSub { signer, class }) => Some(format!("S {signer} {class}")),
                Step::Add(signer, loc, key, pay, len) => {
                    let b = sys.w.make_blob(*key, *pay, *len, 1);
                    let ab = sys.w.blobs[b].1;
                    Some(format!("A {signer} 0 {loc} {} {} {} 20 1", ab.key, ab.pay, ab.len))
                }
                _ => None,
            };
            let sg = {
                let t: Vec<&str> = l.0.split(' ').collect();
                if t.len() == 5 && t[0] == "AO" { t[2].parse::<i64>().unwrap_or(0).max(0) } else { 0 }
            };
            let segs = canon(&labels, &events, before, after);
            let emit = |oprecs: &mut Vec<String>, op: &str, first: u64, n: u64, toks: &[String], db: Option<&str>| {
                let mut o = format!("OP {i} {first} {n} {op} SC {sc_tok} SG {sg} TR {}", toks.len());
                for t in toks {
                    o.push(' ');
                    o.push_str(t);
                }
                match db {
                    Some(d) => o.push_str(&format!(" DB 1 {d}")),
                    None => o.push_str(" DB 0"),
                }
                oprecs.push(o);
            };
            match (model_op, s) {
                (Some(op), _) => {
                    let mut toks: Vec<String> = segs.iter().flat_map(|g| g.toks.iter().map(|t| t.0.clone())).collect();
                    if segs.iter().any(|g| g.head.is_some()) {
                        toks.push("BLOCK-IN-API".into());
                    }
                    if r.is_ok() {
                        toks.push("ACK".into());
                    }
                    if !late.is_empty() {
                        toks.insert(0, late.trim().to_string());
                    }
                    emit(&mut oprecs, &op, before, after - before, &toks, Some(&tables));
                }
                (None, Step::Poll) => {
                    let nseg = segs.len();
                    for (si, g) in segs.iter().enumerate() {
                        let mut toks: Vec<(String, u64)> = g.toks.clone();
                        // the persisted tip: its own pseudo operation
                        let lkb = if toks.last().map(|t| t.0 == "LKB").unwrap_or(false) { toks.pop() } else { None };
                        let op = match &g.head {
                            Some(h) => {
                                let parts: Vec<&str> = h.split(':').collect();
                                let hash: Option<bitcoin::BlockHash> = parts.get(1).and_then(|x| x.parse().ok());
                                match (parts[0], hash.and_then(|h| sys.chain.ids.get(&h).cloned())) {
                                    ("BC", Some((id, txs))) => {
                                        let mut o = format!("C {id} {}", txs.len());
                                        for t in txs {
                                            o.push_str(&format!(" {t}"));
                                        }
                                        Some(o)
                                    }
                                    ("BD", Some(_)) => Some("D".to_string()),
                                    _ => Some("X".to_string()),
                                }
                            }
                            None => if toks.is_empty() { None } else { Some("X".to_string()) },
                        };
                        let last = si + 1 == nseg;
                        if let Some(op) = op {
                            let end = lkb.as_ref().map(|t| t.1).unwrap_or(g.end);
                            let tk: Vec<String> = toks.iter().map(|t| t.0.clone()).collect();
                            emit(&mut oprecs, &op, g.first, end - g.first, &tk, if last && lkb.is_none() { Some(&tables) } else { None });
                        }
                        if let Some((_, pos)) = lkb {
                            emit(&mut oprecs, "P", pos, g.end - pos, &["LKB".to_string()], if last { Some(&tables) } else { None });
                        }
                    }
                    if !late.is_empty() {
                        emit(&mut oprecs, "X", before, 0, &[late.trim().to_string()], None);
                    }
                }
                (None, _) => {
                    if after != before || !late.is_empty() {
                        emit(&mut oprecs, "X", before, after - before, &["LABELS-OUTSIDE-OPERATION".to_string()], None);
                    }
                }
            }
        }
        if poll_after == Some(i) {
            // the oracle for a crash in this step: a restart catches up with the chain at once
            let mut l2 = Line::new();
            let _ = sys.step(&Step::Poll, &mut l2);
        }
        if r.is_err() {
            let labels = teos_common::verif::labels();
            let label = labels.last().copied().unwrap_or("?");
            let _ = before;
            crashed = Some((i, label.to_string()));
            partial_at_crash = partial;
            // the database as the kill left it (read through the separate read-only connection)
            rec_line.tok("CRASHDB").tok(sys.tables());
            ret.crashed_at = Some(sys.resolved.len() - 1);
            // the chain moves while the tower is down
            if let Some(Step::WhileDown(inner)) = steps.get(i + 1) {
                let mut l2 = Line::new();
                for st in inner {
                    let _ = sys.step(st, &mut l2);
                }
                down_done = Some(i + 1);
                rec_line.tok(format!("down={}", inner.len()));
            }
            sys.resolved.push(Step::Poll);
            sys.recover(&mut rec_line);
            rec_line.tok(format!("lkb={}", sys.lkb_height())).tok(format!("tip={}", sys.chain.height()));
            // what the restarted gatekeeper holds IN MEMORY, as the wire shows it (a read: no statement, no RPC): the
            // driver compares it with the users table dumped next (CrashReach.restart_loads_users)
            for u in 0..2i64 {
                let mut l = Line::new();
                let _ = sys.step(&Step::Api(Op::GetSub { signer: u, class: 0 }), &mut l);
                rec_line.tok(format!("mem{}={}", u, l.0.trim().replace(' ', "_")));
            }
            rec_line.tok("REC").tok(sys.tables());
        }
    }
    let n = teos_common::verif::count();
    ret.resolved = sys.resolved.clone();
    let final_tables = sys.tables();
    let mut sends = sys.sends.clone();
    sends.sort();
    let sends_s = sends.iter().map(|x| x.to_string()).collect::<Vec<_>>().join(" ");
    match crash_at {
        None => {
            let kinds: Vec<&str> = steps
                .iter()
                .map(|s| match s {
                    Step::Api(Op::Register(_)) => "r",
                    Step::Api(_) => "g",
                    Step::Add(..) => "a",
                    Step::Poll => "p",
                    _ => "e",
                })
                .collect();
            if reference {
                let mut l = format!("CRTR {hist} {} {} {} {} {} ;", cfg.slots, cfg.duration, cfg.delta, verif_harness::world::INIT_HEIGHT, oprecs.len());
                for o in &oprecs {
                    l.push(' ');
                    l.push_str(o);
                    l.push_str(" ;");
                }
                writeln!(out, "{l}").unwrap();
            }
            if let Some(c) = opts.oracle_of {
                let kind = if skip.is_some() { "CRMINUSX" } else { "CRREFX" };
                writeln!(out, "{kind} {hist} {c} | FINAL {final_tables} SENDS {} {sends_s}", sends.len()).unwrap();
                sys.shutdown();
                return n;
            }
            if let Some(pi) = poll_after {
                let kind = if skip.is_some() { "CRMINUSP" } else { "CRREFP" };
                writeln!(out, "{kind} {hist} {pi} | FINAL {final_tables} SENDS {} {sends_s}", sends.len()).unwrap();
                sys.shutdown();
                return n;
            }
            match skip {
                None => writeln!(
                    out,
                    "CRREF {hist} {} {n} | KINDS {} COSTS {} {} FINAL {final_tables} SENDS {} {sends_s}",
                    steps.len(),
                    kinds.join(","),
                    if costs.is_empty() { "-".to_string() } else { costs.join(",") },
                    line.0,
                    sends.len()
                )
                .unwrap(),
                Some(i) => writeln!(out, "CRMINUS {hist} {i} | FINAL {final_tables} SENDS {} {sends_s}", sends.len()).unwrap(),
            }
        }
        Some(c) => {
            let (step, label) = crashed.clone().unwrap_or((usize::MAX, "not-reached".into()));
            writeln!(
                out,
                "CR {hist} {c} {label} {} | partial={} {} FINAL {final_tables} SENDS {} {sends_s}",
                if step == usize::MAX { -1 } else { step as i64 },
                partial_at_crash as u8,
                rec_line.0,
                sends.len()
            )
            .unwrap();
        }
    }
    sys.shutdown();
    n
}

fn main() {
    let args: Vec<String> = std::env::args().collect();
    if args.len() < 2 {
        eprintln!("usage: crash <out-file> [shard nshards | case <history> <crash point>]");
        std::process::exit(2);
    }
    let shard: u64 = args.get(2).and_then(|s| s.parse().ok()).unwrap_or(0);
    let nshards: u64 = args.get(3).and_then(|s| s.parse().ok()).unwrap_or(1);
    verif_harness::install_panic_hook();
    verif_harness::install_null_logger();
    let init = initial_chain();
    let thorough = std::env::var("VERIF_TIER").map(|t| t == "thorough").unwrap_or(false);
    let seed = env_u64("VERIF_SEED", 0);
    let mut rng = Rng::new(seed ^ 0xC03);
    let mut out = std::io::BufWriter::new(std::fs::File::create(&args[1]).unwrap());
    let ts = templates(&mut rng, thorough);
    // `crash <out> case <hist> <crash point>`: only that history's reference runs and that one crash run
    let only: Option<(usize, u64)> = if args.get(2).map(|s| s == "case").unwrap_or(false) {
        Some((args[3].parse().expect("history"), args[4].parse().expect("crash point")))
    } else {
        None
    };
    for (h, (cfg, steps)) in ts.iter().enumerate() {
        match only {
            Some((oh, _)) => {
                if oh != h {
                    continue;
                }
            }
            None => {
                if h as u64 % nshards != shard {
                    continue;
                }
            }
        }
        let n = run(h, *cfg, steps, None, None, None, &init, &mut out, Opts::default(), &mut Ret::default());
        // the same history without each API request (the oracle for a request lost in a crash); when blocks
        // were mined and not yet polled at that point, also with the poll a restart would make at once
        let mut pending = false;
        for (i, st) in steps.iter().enumerate() {
            match st {
                Step::Mine(_) | Step::Reorg(..) => pending = true,
                Step::Poll => pending = false,
                _ => {}
            }
            if matches!(st, Step::Api(Op::Register(_)) | Step::Add(..)) {
                run(h, *cfg, steps, None, Some(i), None, &init, &mut out, Opts::default(), &mut Ret::default());
                if pending {
                    run(h, *cfg, steps, None, None, Some(i), &init, &mut out, Opts::default(), &mut Ret::default());
                    run(h, *cfg, steps, None, Some(i), Some(i), &init, &mut out, Opts::default(), &mut Ret::default());
                }
            }
        }
        // every crash point of the history; template 4 has thousands of identical ones: sample its middle
        if let Some((_, oc)) = only {
            run(h, *cfg, steps, Some(oc), None, None, &init, &mut out, Opts::default(), &mut Ret::default());
            continue;
        }
        let stride = if n > 400 && !thorough { (n / 200).max(1) } else { 1 };
        let mut c = 0;
        while c < n {
            run(h, *cfg, steps, Some(c), None, None, &init, &mut out, Opts::default(), &mut Ret::default());
            c += stride;
        }
    }
    // the family "the chain moves while the tower is down"
    let fam = down_family(&mut Rng::new(seed ^ 0xD0C03), thorough);
    let copts = Opts { consistent: true, nofilter: false, oracle_of: None };
    for (k, (cfg, steps)) in fam.iter().enumerate() {
        let h = DOWN_BASE + k;
        match only {
            Some((oh, _)) => {
                if oh != h {
                    continue;
                }
            }
            None => {
                if k as u64 % nshards != shard {
                    continue;
                }
            }
        }
        let mut ret = Ret::default();
        run(h, *cfg, steps, None, None, None, &init, &mut out, copts, &mut ret);
        for (i, st) in steps.iter().enumerate() {
            if matches!(st, Step::Api(Op::Register(_)) | Step::Add(..)) {
                run(h, *cfg, steps, None, Some(i), None, &init, &mut out, copts, &mut Ret::default());
            }
        }
        for (i, first, end) in ret.ranges.clone() {
            if !matches!(steps.get(i + 1), Some(Step::WhileDown(_))) {
                continue;
            }
            for c in first..end {
                if let Some((_, oc)) = only {
                    if oc != c {
                        continue;
                    }
                }
                // the crash run, then its oracle: the uninterrupted run over the chain the crash run ended with
                let mut buf: Vec<u8> = Vec::new();
                let mut cr = Ret::default();
                run(h, *cfg, steps, Some(c), None, None, &init, &mut buf, copts, &mut cr);
                let oopts = Opts { consistent: true, nofilter: true, oracle_of: Some(c) };
                run(h, *cfg, &cr.resolved, None, None, None, &init, &mut out, oopts, &mut Ret::default());
                if let Some(ci) = cr.crashed_at {
                    if matches!(cr.resolved.get(ci), Some(Step::Add(..))) {
                        run(h, *cfg, &cr.resolved, None, Some(ci), None, &init, &mut out, oopts, &mut Ret::default());
                    }
                }
                out.write_all(&buf).unwrap();
            }
        }
    }
    out.flush().unwrap();
    std::process::exit(0);
}
