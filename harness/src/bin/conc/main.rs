//! C10: controlled concurrency. Hook H3 in CONTROLLED mode: an observer whose `before_acquire`
//! parks the calling thread until the harness-owned scheduler grants it the lock, so that a schedule
//! (a word over thread indices, one letter per lock acquisition) is replayed exactly on the REAL
//! tower (Gatekeeper / Watcher / Responder / Carrier / InternalAPI of `world.rs`, one OS thread per
//! operation, chain events delivered one after the other on a thread of their own, deterministic
//! simulated bitcoind). For every case (pre-state + two or three operations) ALL schedules up to a
//! preemption bound are enumerated (stateless depth-first search: re-run from the pre-state with a
//! choice prefix, continue non-preemptively) and, from the same pre-state, every sequential order of
//! the same operations. One line per run; the OCaml driver (drv_conc.ml) replays every word on the
//! extracted model's `run_coarse`, compares replies / tables / gatekeeper memory / RPC multiset and the
//! per-thread lock traces, and evaluates the property monitor on the implementation's observations.
//!
//!   conc run <out-file> <shard> <nshards>     (VERIF_TIER, VERIF_SEED; VERIF_CONC_CASES=regex-free substring filter)
//!   conc replay <case-file> <out-file>        (lines: `REPLAY <case-name> <n> <i_1> .. <i_n>`)
//!   conc list                                  (case names of the tier)
//!
//! "blocked forever" is decided from the scheduler's wait-for information (every unfinished thread
//! is parked on a lock another parked thread holds); the 30 s guard in `wait_quiescent` is only a
//! safety net for the harness itself and aborts the process (exit 3), it never yields a verdict.
use std::collections::HashMap;
use std::io::Write;
use std::path::PathBuf;
use std::sync::mpsc;
use std::sync::{Arc, Condvar, Mutex};
use std::thread::ThreadId;
use std::time::{Duration, Instant};

use teos::verif_sync::Observer;
use verif_harness::locks::lock_id;
use verif_harness::world::{initial_chain, Call, Cfg, Meta, Op, Reply, Script, World, INIT_HEIGHT};
use verif_harness::Line;

// ------------------------------------------------------------------------------------------------
// the controlled scheduler

#[derive(Clone, Copy, PartialEq, Eq, Debug)]
enum Status {
    Idle,
    Running,
    Parked(u8),
    Done,
}

#[derive(Default)]
struct CtlState {
    tids: HashMap<ThreadId, usize>,
    status: Vec<Status>,
    owner: [Option<usize>; 8],
    trace: Vec<Vec<u8>>,
    granted: Option<usize>,
    kill: bool,
    unexpected_wait: bool,
}

#[derive(Default)]
struct Ctl {
    st: Mutex<CtlState>,
    cv: Condvar,
}

struct KillToken;

static LAST_WAS_POISON: std::sync::atomic::AtomicBool = std::sync::atomic::AtomicBool::new(false);

/// the library's panic hook (records file:line) plus: was the panic the unwrap of a PoisonError?
fn install_hooks() {
    verif_harness::install_panic_hook();
    let prev = std::panic::take_hook();
    std::panic::set_hook(Box::new(move |info| {
        let msg = info.payload().downcast_ref::<String>().cloned().or_else(|| info.payload().downcast_ref::<&str>().map(|s| s.to_string())).unwrap_or_default();
        LAST_WAS_POISON.store(msg.contains("PoisonError"), std::sync::atomic::Ordering::SeqCst);
        prev(info);
    }));
}

impl Ctl {
    fn lock(&self) -> std::sync::MutexGuard<'_, CtlState> {
        self.st.lock().unwrap_or_else(|e| e.into_inner())
    }
    fn reset(&self, n: usize) {
        let mut st = self.lock();
        st.tids.clear();
        st.status = vec![Status::Idle; n];
        st.owner = [None; 8];
        st.trace = vec![Vec::new(); n];
        st.granted = None;
        st.kill = false;
        st.unexpected_wait = false;
    }
    fn me(st: &CtlState) -> Option<usize> {
        st.tids.get(&std::thread::current().id()).copied()
    }
    fn mark_running(&self, i: usize) {
        self.lock().status[i] = Status::Running;
    }
    fn register_current(&self, i: usize) {
        let mut st = self.lock();
        st.tids.insert(std::thread::current().id(), i);
    }
    fn finish_current(&self, i: usize) {
        let mut st = self.lock();
        st.tids.remove(&std::thread::current().id());
        st.status[i] = Status::Done;
        // a thread that ended cannot hold anything (guards are dropped on return and on unwind)
        for o in st.owner.iter_mut() {
            if *o == Some(i) {
                *o = None;
            }
        }
        self.cv.notify_all();
    }
    /// waits until no managed thread is running (each is parked at a lock request, done or not started)
    fn wait_quiescent(&self) {
        let t0 = Instant::now();
        let mut st = self.lock();
        while st.status.iter().any(|s| *s == Status::Running) {
            let (g, _) = self.cv.wait_timeout(st, Duration::from_millis(200)).unwrap_or_else(|e| e.into_inner());
            st = g;
            if t0.elapsed() > Duration::from_secs(30) {
                eprintln!("conc: a granted thread neither parked nor ended within 30 s (harness fault): {:?}", st.status);
                std::process::exit(3);
            }
        }
    }
    fn all_done(&self) -> bool {
        self.lock().status.iter().all(|s| *s == Status::Done)
    }
    /// parked threads whose requested lock nobody holds
    fn enabled(&self) -> Vec<usize> {
        let st = self.lock();
        st.status
            .iter()
            .enumerate()
            .filter_map(|(i, s)| match s {
                Status::Parked(l) if st.owner[*l as usize].is_none() => Some(i),
                _ => None,
            })
            .collect()
    }
    fn wait_for(&self) -> Vec<String> {
        let st = self.lock();
        st.status
            .iter()
            .enumerate()
            .filter_map(|(i, s)| match s {
                Status::Parked(l) => Some(format!("{i}>{l}@{}", st.owner[*l as usize].map(|o| o as i64).unwrap_or(-1))),
                _ => None,
            })
            .collect()
    }
    fn grant(&self, i: usize) {
        let mut st = self.lock();
        st.status[i] = Status::Running;
        st.granted = Some(i);
        self.cv.notify_all();
    }
    /// deadlock: make every parked thread unwind (its guards are dropped) so that the run can be wound up
    fn kill_parked(&self) {
        let mut st = self.lock();
        st.kill = true;
        for s in st.status.iter_mut() {
            if let Status::Parked(_) = s {
                *s = Status::Running;
            }
        }
        self.cv.notify_all();
    }
    fn traces(&self) -> Vec<Vec<u8>> {
        self.lock().trace.clone()
    }
}

impl Observer for Ctl {
    fn before_acquire(&self, lock: &'static str) {
        let id = lock_id(lock);
        let mut st = self.lock();
        let i = match Ctl::me(&st) {
            Some(i) => i,
            None => return, // the harness's own thread: not scheduled
        };
        if st.kill {
            drop(st);
            std::panic::resume_unwind(Box::new(KillToken));
        }
        st.status[i] = Status::Parked(id);
        self.cv.notify_all();
        loop {
            if st.kill {
                drop(st);
                std::panic::resume_unwind(Box::new(KillToken));
            }
            if st.granted == Some(i) {
                st.granted = None;
                st.status[i] = Status::Running;
                st.trace[i].push(id);
                return;
            }
            st = self.cv.wait(st).unwrap_or_else(|e| e.into_inner());
        }
    }
    fn acquired(&self, lock: &'static str) {
        let id = lock_id(lock) as usize;
        let mut st = self.lock();
        if let Some(i) = Ctl::me(&st) {
            if id < 8 {
                st.owner[id] = Some(i);
            }
        }
    }
    fn released(&self, lock: &'static str) {
        let id = lock_id(lock) as usize;
        let mut st = self.lock();
        if let Some(i) = Ctl::me(&st) {
            if id < 8 && st.owner[id] == Some(i) {
                st.owner[id] = None;
            }
        }
    }
    fn cv_wait(&self, _lock: &'static str) -> bool {
        let mut st = self.lock();
        if Ctl::me(&st).is_some() {
            st.unexpected_wait = true;
        }
        false
    }
    fn cv_wake(&self, _lock: &'static str) {}
    fn cv_notify(&self) {}
}

// ------------------------------------------------------------------------------------------------
// cases

#[derive(Clone, Debug)]
enum AOp {
    Reg(u64),
    Add { u: i64, loc: u64, key: u64, pay: i64, len: u64, delay: u32 },
    Get { u: i64, loc: u64 },
    GetSub(i64),
    Connect { hash: u64, txs: Vec<u64> },
    Disconnect,
}

#[derive(Clone, Debug)]
struct Case {
    name: String,
    cfg: Cfg,
    pre: Vec<(AOp, Script)>,
    threads: Vec<Vec<AOp>>,
    script: Script,
    bound: usize,
}

fn materialise(w: &mut World, op: &AOp) -> Op {
    match op {
        AOp::Reg(u) => Op::Register(*u),
        AOp::Add { u, loc, key, pay, len, delay } => {
            let blob = w.make_blob(*key, *pay, *len, *loc * 31 + *len);
            Op::Add { signer: *u, class: 0, loc: *loc, blob, delay: *delay }
        }
        AOp::Get { u, loc } => Op::Get { signer: *u, class: 0, loc: *loc },
        AOp::GetSub(u) => Op::GetSub { signer: *u, class: 0 },
        AOp::Connect { hash, txs } => Op::Connect { hash: *hash, txs: txs.clone() },
        AOp::Disconnect => Op::Disconnect,
    }
}

fn op_tokens(w: &World, op: &Op, sid: i64, line: &mut Line) {
    match op {
        Op::Register(u) => {
            line.tok("R").tok(u);
        }
        Op::Add { signer, loc, blob, delay, .. } => {
            let ab = w.blobs[*blob].1;
            line.tok("A").tok(signer).tok(loc).tok(ab.key).tok(ab.pay).tok(ab.len).tok(delay).tok(sid);
        }
        Op::Get { signer, loc, .. } => {
            line.tok("G").tok(signer).tok(loc);
        }
        Op::GetSub { signer, .. } => {
            line.tok("S").tok(signer);
        }
        Op::Connect { hash, txs } => {
            line.tok("C").tok(hash).tok(txs.len());
            for t in txs {
                line.tok(t);
            }
        }
        Op::Disconnect => {
            line.tok("D");
        }
    }
}

fn script_tokens(script: &Script, line: &mut Line) {
    line.tok(script.len());
    for (t, g, s) in script {
        line.tok(t).tok(g).tok(s);
    }
}

const SLOTS: u32 = 10;

fn std_cfg() -> Cfg {
    Cfg { slots: SLOTS, duration: 400, delta: 10 }
}

fn add(u: i64, loc: u64, pay: i64, len: u64) -> AOp {
    AOp::Add { u, loc, key: loc, pay, len, delay: 20 }
}

/// the table of cases: every pair (thorough: and triple) of the property's quantifier over small
/// reachable pre-states
fn cases(thorough: bool) -> Vec<Case> {
    let mut v: Vec<Case> = Vec::new();
    let pb = if thorough { 4 } else { 3 };
    let none: Script = vec![];
    let reg12 = vec![(AOp::Reg(1), none.clone()), (AOp::Reg(2), none.clone())];
    let mut with = |name: &str, cfg: Cfg, pre: Vec<(AOp, Script)>, threads: Vec<Vec<AOp>>, script: Script, bound: usize| {
        v.push(Case { name: name.to_string(), cfg, pre, threads, script, bound });
    };
    let a17 = add(1, 7, 107, 0);
    let a17big = add(1, 7, 117, 2100); // another version of the same appointment: 2 slots
    let a18 = add(1, 8, 108, 0);
    let a27 = add(2, 7, 107, 0);
    let a17garbage = add(1, 7, -1, 90);
    let c7 = AOp::Connect { hash: 2001, txs: vec![7] };
    let c_empty = AOp::Connect { hash: 2002, txs: vec![] };
    let c8 = AOp::Connect { hash: 2003, txs: vec![8] };
    let g17 = AOp::Get { u: 1, loc: 7 };

    // ---- registrations
    with("reg-new||reg-new-same", std_cfg(), reg12.clone(), vec![vec![AOp::Reg(3)], vec![AOp::Reg(3)]], none.clone(), pb);
    with("reg-new||reg-new-other", std_cfg(), reg12.clone(), vec![vec![AOp::Reg(3)], vec![AOp::Reg(4)]], none.clone(), pb);
    with("reg-old||reg-old-same", std_cfg(), reg12.clone(), vec![vec![AOp::Reg(1)], vec![AOp::Reg(1)]], none.clone(), pb);
    with("reg-old||add-new-same-user", std_cfg(), reg12.clone(), vec![vec![AOp::Reg(1)], vec![a17.clone()]], none.clone(), pb);
    with("reg-new||add-new-other-user", std_cfg(), reg12.clone(), vec![vec![AOp::Reg(3)], vec![a17.clone()]], none.clone(), pb);
    with("reg-old||get", std_cfg(), vec![reg12.clone(), vec![(a17.clone(), none.clone())]].concat(), vec![vec![AOp::Reg(1)], vec![g17.clone()]], none.clone(), pb);
    // ---- submissions
    with("add-new||add-new-identical", std_cfg(), reg12.clone(), vec![vec![a17.clone()], vec![a17.clone()]], none.clone(), pb);
    with("add-new||add-new-same-locator-other-user", std_cfg(), reg12.clone(), vec![vec![a17.clone()], vec![a27.clone()]], none.clone(), pb);
    with("add-new||add-new-other-locator", std_cfg(), reg12.clone(), vec![vec![a17.clone()], vec![a18.clone()]], none.clone(), pb);
    with(
        "add-update||add-update-same",
        std_cfg(),
        vec![reg12.clone(), vec![(a17.clone(), none.clone())]].concat(),
        vec![vec![a17big.clone()], vec![a17big.clone()]],
        none.clone(),
        pb,
    );
    with(
        "add-update||add-update-other-version",
        std_cfg(),
        vec![reg12.clone(), vec![(a17.clone(), none.clone())]].concat(),
        vec![vec![a17big.clone()], vec![add(1, 7, 127, 4200)]],
        none.clone(),
        pb,
    );
    // ... a user with exactly ONE slot left and two new appointments: check and charge are one critical section of the users map
    let last_slot_cfg = Cfg { slots: 1, duration: 400, delta: 10 };
    with("add-new||add-new-last-slot", last_slot_cfg, vec![(AOp::Reg(1), none.clone())], vec![vec![a17.clone()], vec![a18.clone()]], none.clone(), pb);
    with(
        "add-update-bigger||add-new-last-slot",
        Cfg { slots: 2, duration: 400, delta: 10 },
        vec![(AOp::Reg(1), none.clone()), (a17.clone(), none.clone())],
        vec![vec![a17big.clone()], vec![a18.clone()]],
        none.clone(),
        pb,
    );
    with("add-new||get", std_cfg(), reg12.clone(), vec![vec![a17.clone()], vec![g17.clone()]], none.clone(), pb);
    with(
        "add-update||get",
        std_cfg(),
        vec![reg12.clone(), vec![(a17.clone(), none.clone())]].concat(),
        vec![vec![a17big.clone()], vec![g17.clone()]],
        none.clone(),
        pb,
    );
    with("get||get", std_cfg(), vec![reg12.clone(), vec![(a17.clone(), none.clone())]].concat(), vec![vec![g17.clone()], vec![g17.clone()]], none.clone(), pb);
    // ---- a submission and the block that carries its dispute
    with("add-new||connect-dispute", std_cfg(), reg12.clone(), vec![vec![a17.clone()], vec![c7.clone()]], none.clone(), pb);
    with("add-new||connect-dispute-mempool", std_cfg(), reg12.clone(), vec![vec![a17.clone()], vec![c7.clone()]], vec![(107, 0, 0)], pb);
    with("add-new||connect-dispute-rejected", std_cfg(), reg12.clone(), vec![vec![a17.clone()], vec![c7.clone()]], vec![(107, 2, -26)], pb);
    with("add-new||connect-dispute-already-in-chain", std_cfg(), reg12.clone(), vec![vec![a17.clone()], vec![c7.clone()]], vec![(107, 2, -27)], pb);
    with("add-garbage||connect-dispute", std_cfg(), reg12.clone(), vec![vec![a17garbage.clone()], vec![c7.clone()]], none.clone(), pb);
    with("add-new||connect-other", std_cfg(), reg12.clone(), vec![vec![a17.clone()], vec![c8.clone()]], none.clone(), pb);
    with(
        "add-update||connect-dispute",
        std_cfg(),
        vec![reg12.clone(), vec![(a17.clone(), none.clone())]].concat(),
        vec![vec![a17big.clone()], vec![c7.clone()]],
        none.clone(),
        pb,
    );
    with(
        "add-update-garbage||connect-dispute",
        std_cfg(),
        vec![reg12.clone(), vec![(a17.clone(), none.clone())]].concat(),
        vec![vec![a17garbage.clone()], vec![c7.clone()]],
        none.clone(),
        pb,
    );
    with(
        "add-update||connect-dispute-rejected",
        std_cfg(),
        vec![reg12.clone(), vec![(a17.clone(), none.clone())]].concat(),
        vec![vec![a17big.clone()], vec![c7.clone()]],
        vec![(117, 2, -26)],
        pb,
    );
    // ---- the dispute is already in the locator cache
    with(
        "add-trigger||connect-empty",
        std_cfg(),
        vec![reg12.clone(), vec![(c7.clone(), none.clone())]].concat(),
        vec![vec![a17.clone()], vec![c_empty.clone()]],
        none.clone(),
        pb,
    );
    with(
        "add-trigger||add-trigger-identical",
        std_cfg(),
        vec![reg12.clone(), vec![(c7.clone(), none.clone())]].concat(),
        vec![vec![a17.clone()], vec![a17.clone()]],
        none.clone(),
        pb,
    );
    with(
        "add-trigger||get",
        std_cfg(),
        vec![reg12.clone(), vec![(c7.clone(), none.clone())]].concat(),
        vec![vec![a17.clone()], vec![g17.clone()]],
        none.clone(),
        pb,
    );
    with(
        "add-trigger-rejected||connect-empty",
        std_cfg(),
        vec![reg12.clone(), vec![(c7.clone(), none.clone())]].concat(),
        vec![vec![a17.clone()], vec![c_empty.clone()]],
        vec![(107, 2, -26)],
        pb,
    );
    // ---- reads against blocks
    with(
        "get||connect-dispute",
        std_cfg(),
        vec![reg12.clone(), vec![(a17.clone(), none.clone())]].concat(),
        vec![vec![g17.clone()], vec![c7.clone()]],
        none.clone(),
        pb,
    );
    with("reg-old||connect-empty", std_cfg(), reg12.clone(), vec![vec![AOp::Reg(1)], vec![c_empty.clone()]], none.clone(), pb);
    with("reg-new||connect-empty", std_cfg(), reg12.clone(), vec![vec![AOp::Reg(3)], vec![c_empty.clone()]], none.clone(), pb);
    // ---- the block that purges the user (duration 2, no grace: registered at 120, expiry 122, purged by block 122)
    let purge_cfg = Cfg { slots: SLOTS, duration: 2, delta: 0 };
    let purge_pre = vec![
        (AOp::Reg(1), none.clone()),
        (a17.clone(), none.clone()),
        (AOp::Connect { hash: 2010, txs: vec![] }, none.clone()),
    ];
    let c_purge = AOp::Connect { hash: 2011, txs: vec![] };
    with("reg-old||connect-purge", purge_cfg, purge_pre.clone(), vec![vec![AOp::Reg(1)], vec![c_purge.clone()]], none.clone(), pb);
    with("add-new||connect-purge", purge_cfg, purge_pre.clone(), vec![vec![a18.clone()], vec![c_purge.clone()]], none.clone(), pb);
    with("add-update||connect-purge", purge_cfg, purge_pre.clone(), vec![vec![a17big.clone()], vec![c_purge.clone()]], none.clone(), pb);
    with("get||connect-purge", purge_cfg, purge_pre.clone(), vec![vec![g17.clone()], vec![c_purge.clone()]], none.clone(), pb);
    // ... and the dispute of the NEW appointment is already in the locator cache: the request that loses its user to the block must not
    //     hand anything to the node (the owner check comes before the Responder)
    let purge_pre_trigger = vec![
        (AOp::Reg(1), none.clone()),
        (a17.clone(), none.clone()),
        (AOp::Connect { hash: 2012, txs: vec![8] }, none.clone()),
    ];
    with("add-trigger||connect-purge", purge_cfg, purge_pre_trigger.clone(), vec![vec![a18.clone()], vec![c_purge.clone()]], none.clone(), pb);
    // ---- the block at whose height the subscription expires (duration 2, grace 10: registered at 120, expiry 122,
    //      tip 121; block 122 makes the subscription expire and purges nobody).  While that block is being processed
    //      the gatekeeper is already at 122 and the watcher still at 121: the expiry test of a request that falls in
    //      between must use the gatekeeper's height (the request is refused as expired), not the watcher's.
    let expiry_cfg = Cfg { slots: SLOTS, duration: 2, delta: 10 };
    let expiry_pre = vec![
        (AOp::Reg(1), none.clone()),
        (a17.clone(), none.clone()),
        (AOp::Connect { hash: 2020, txs: vec![] }, none.clone()),
    ];
    let c_expiry = AOp::Connect { hash: 2021, txs: vec![] };
    with("add-new||connect-expiry", expiry_cfg, expiry_pre.clone(), vec![vec![a18.clone()], vec![c_expiry.clone()]], none.clone(), pb);
    with("add-update||connect-expiry", expiry_cfg, expiry_pre.clone(), vec![vec![a17big.clone()], vec![c_expiry.clone()]], none.clone(), pb);
    with(
        "add-trigger||connect-expiry",
        expiry_cfg,
        vec![(AOp::Reg(1), none.clone()), (a17.clone(), none.clone()), (AOp::Connect { hash: 2025, txs: vec![8] }, none.clone())],
        vec![vec![a18.clone()], vec![c_expiry.clone()]],
        none.clone(),
        pb,
    );
    with("get||connect-expiry", expiry_cfg, expiry_pre.clone(), vec![vec![g17.clone()], vec![c_expiry.clone()]], none.clone(), pb);
    with("getsub||connect-expiry", expiry_cfg, expiry_pre.clone(), vec![vec![AOp::GetSub(1)], vec![c_expiry.clone()]], none.clone(), pb);
    with(
        "add-new||connect-expiry-dispute",
        expiry_cfg,
        expiry_pre.clone(),
        vec![vec![a18.clone()], vec![AOp::Connect { hash: 2022, txs: vec![8] }]],
        none.clone(),
        pb,
    );
    with(
        "add-update||connect-expiry-dispute",
        expiry_cfg,
        expiry_pre.clone(),
        vec![vec![a17big.clone()], vec![AOp::Connect { hash: 2023, txs: vec![7] }]],
        none.clone(),
        pb,
    );
    with(
        "get||connect-expiry-dispute",
        expiry_cfg,
        expiry_pre.clone(),
        vec![vec![g17.clone()], vec![AOp::Connect { hash: 2024, txs: vec![7] }]],
        none.clone(),
        pb,
    );
    // get_subscription_info against requests
    with("getsub||add-new", std_cfg(), reg12.clone(), vec![vec![AOp::GetSub(1)], vec![a17.clone()]], none.clone(), pb);
    with("getsub||reg-old", std_cfg(), reg12.clone(), vec![vec![AOp::GetSub(1)], vec![AOp::Reg(1)]], none.clone(), pb);
    // get_subscription_info away from the boundary
    with("getsub||connect-empty", std_cfg(), vec![reg12.clone(), vec![(a17.clone(), none.clone())]].concat(), vec![vec![AOp::GetSub(1)], vec![c_empty.clone()]], none.clone(), pb);
    with("getsub||connect-purge", purge_cfg, purge_pre.clone(), vec![vec![AOp::GetSub(1)], vec![c_purge.clone()]], none.clone(), pb);
    // ---- the block that completes a tracker (refund) : tracker confirmed at 122, completed by block 222
    let mut complete_pre = vec![
        (AOp::Reg(1), none.clone()),
        (AOp::Reg(2), none.clone()),
        (a17.clone(), none.clone()),
        (AOp::Connect { hash: 3000, txs: vec![7] }, none.clone()),
        (AOp::Connect { hash: 3001, txs: vec![107] }, none.clone()),
    ];
    for k in 0..99u64 {
        complete_pre.push((AOp::Connect { hash: 3002 + k, txs: vec![] }, none.clone()));
    }
    let c_complete = AOp::Connect { hash: 3200, txs: vec![] };
    with("add-new-same-user||connect-complete", std_cfg(), complete_pre.clone(), vec![vec![a18.clone()], vec![c_complete.clone()]], none.clone(), pb);
    with("reg-old||connect-complete", std_cfg(), complete_pre.clone(), vec![vec![AOp::Reg(1)], vec![c_complete.clone()]], none.clone(), pb);
    with("get||connect-complete", std_cfg(), complete_pre.clone(), vec![vec![g17.clone()], vec![c_complete.clone()]], none.clone(), pb);
    with("add-again||connect-complete", std_cfg(), complete_pre.clone(), vec![vec![a17.clone()], vec![c_complete.clone()]], none.clone(), pb);
    // ---- disconnections (a confirmed tracker gets marked as reorged; the dispute leaves the cache)
    let reorg_pre = vec![
        (AOp::Reg(1), none.clone()),
        (AOp::Reg(2), none.clone()),
        (a17.clone(), none.clone()),
        (AOp::Connect { hash: 4000, txs: vec![7, 107] }, vec![(107, 2, 0)]),
    ];
    with("add-new||disconnect", std_cfg(), reorg_pre.clone(), vec![vec![a18.clone()], vec![AOp::Disconnect]], none.clone(), pb);
    with("add-trigger||disconnect", std_cfg(), reorg_pre.clone(), vec![vec![a27.clone()], vec![AOp::Disconnect]], none.clone(), pb);
    with("get||disconnect", std_cfg(), reorg_pre.clone(), vec![vec![g17.clone()], vec![AOp::Disconnect]], none.clone(), pb);
    with("reg-old||disconnect", std_cfg(), reorg_pre.clone(), vec![vec![AOp::Reg(1)], vec![AOp::Disconnect]], none.clone(), pb);
    with(
        "add-trigger||disconnect-connect",
        std_cfg(),
        reorg_pre.clone(),
        vec![vec![a27.clone()], vec![AOp::Disconnect, AOp::Connect { hash: 4001, txs: vec![7] }]],
        none.clone(),
        pb,
    );
    // ---- triples
    let tb = if thorough { 3 } else { 2 };
    with("T:add||add-identical||connect-dispute", std_cfg(), reg12.clone(), vec![vec![a17.clone()], vec![a17.clone()], vec![c7.clone()]], none.clone(), tb);
    with("T:reg||add||connect-dispute", std_cfg(), reg12.clone(), vec![vec![AOp::Reg(1)], vec![a17.clone()], vec![c7.clone()]], none.clone(), tb);
    with("T:add||get||connect-dispute", std_cfg(), reg12.clone(), vec![vec![a17.clone()], vec![g17.clone()], vec![c7.clone()]], none.clone(), tb);
    with("T:reg||add||connect-purge", purge_cfg, purge_pre.clone(), vec![vec![AOp::Reg(1)], vec![a18.clone()], vec![c_purge.clone()]], none.clone(), tb);
    {
        with("T:add||add-other-user||connect-dispute", std_cfg(), reg12.clone(), vec![vec![a17.clone()], vec![a27.clone()], vec![c7.clone()]], none.clone(), tb);
        with("T:reg||reg||add", std_cfg(), reg12.clone(), vec![vec![AOp::Reg(1)], vec![AOp::Reg(1)], vec![a17.clone()]], none.clone(), tb);
        with("T:add||connect-complete||reg", std_cfg(), complete_pre.clone(), vec![vec![a18.clone()], vec![c_complete.clone()], vec![AOp::Reg(1)]], none.clone(), tb);
        with("T:add-trigger||get||disconnect", std_cfg(), reorg_pre.clone(), vec![vec![a27.clone()], vec![g17.clone()], vec![AOp::Disconnect]], none.clone(), tb);
    }
    v
}

// ------------------------------------------------------------------------------------------------
// one run

struct Point {
    enabled: Vec<usize>,
    last: Option<usize>,
}

struct RunOut {
    word: Vec<usize>,
    points: Vec<Point>,
    line: String,
}

struct Prepared {
    w: World,
    calls: Vec<Vec<(Call, Meta)>>,
    header: String,
}

fn work_dir(tag: &str) -> PathBuf {
    let base = if std::path::Path::new("/dev/shm").is_dir() { PathBuf::from("/dev/shm") } else { std::env::temp_dir() };
    base.join(format!("verif-conc-{}-{}", std::process::id(), tag))
}

fn listener_order() -> Vec<u8> {
    std::env::var("VERIF_LISTENER_ORDER")
        .ok()
        .map(|s| s.split(',').filter_map(|x| x.trim().parse().ok()).collect())
        .filter(|v: &Vec<u8>| !v.is_empty())
        .unwrap_or_else(|| vec![0, 1, 2])
}

/// Builds the world, runs the pre-state operations sequentially, prepares the threads' concrete calls.
/// `header` = the case description (tokens) + the pre-state's observation.
fn prepare(case: &Case, init: &[(u64, bitcoin::Block)], dir: &PathBuf) -> Result<Prepared, String> {
    let mut w = World::new(case.cfg, dir.clone(), init, listener_order());
    let mut h = Line::new();
    h.tok(&case.name).tok(case.cfg.slots).tok(case.cfg.duration).tok(case.cfg.delta).tok(INIT_HEIGHT).tok(case.bound);
    h.tok("PRE").tok(case.pre.len());
    for (aop, script) in &case.pre {
        let op = materialise(&mut w, aop);
        let mut l = Line::new();
        let ok = w.exec(&op, script, &mut l);
        // the signature id an Add carried is what the reply reports
        let sid = match (&op, l.0.split_whitespace().collect::<Vec<_>>().as_slice()) {
            (Op::Add { .. }, ["AO", _, sid, ..]) => sid.parse().unwrap_or(0),
            _ => 0,
        };
        op_tokens(&w, &op, sid, &mut h);
        script_tokens(script, &mut h);
        if !ok {
            return Err(format!("pre-state operation panicked: {}", l.0));
        }
    }
    w.node.take_log();
    h.tok("THR").tok(case.threads.len());
    let mut calls: Vec<Vec<(Call, Meta)>> = Vec::new();
    for ops in &case.threads {
        h.tok(ops.len());
        let mut cs = Vec::new();
        for aop in ops {
            let op = materialise(&mut w, aop);
            let (call, meta) = w.prepare(&op);
            let sid = match &meta {
                Meta::Add { sid, .. } => *sid as i64,
                _ => 0,
            };
            op_tokens(&w, &op, sid, &mut h);
            cs.push((call, meta));
        }
        calls.push(cs);
    }
    h.tok("SCR");
    script_tokens(&case.script, &mut h);
    h.tok("ST0");
    w.state_tokens(&mut h);
    // the node's answers during the concurrent phase
    let mut l = Line::new();
    let _ = &mut l;
    Ok(Prepared { w, calls, header: h.0 })
}

fn begin_script(w: &mut World, script: &Script) {
    // World::exec's way of installing a script, without executing anything
    use verif_harness::simnode::{GetRaw, Send};
    let mut m = HashMap::new();
    for (tx, g, s) in script {
        let txid = w.tx(*tx).compute_txid();
        let g = match g {
            0 => GetRaw::InMempool,
            1 => GetRaw::Confirmed,
            2 => GetRaw::NotFound,
            _ => GetRaw::Other,
        };
        let s = if *s == 0 { Send::Ok } else { Send::Code(*s) };
        m.insert(txid, (g, s));
    }
    w.node.begin_step(m);
}

enum ThreadEnd {
    Replies(Vec<Reply>),
    /// location, and whether it was the unwrap of a PoisonError (a consequence of an earlier panic)
    Panic(String, bool),
    Killed,
}

fn run_calls(runner: &verif_harness::world::Runner, calls: Vec<Call>) -> ThreadEnd {
    let r = std::panic::catch_unwind(std::panic::AssertUnwindSafe(|| calls.into_iter().map(|c| runner.run(c)).collect::<Vec<Reply>>()));
    match r {
        Ok(v) => ThreadEnd::Replies(v),
        Err(p) => {
            if p.downcast_ref::<KillToken>().is_some() {
                ThreadEnd::Killed
            } else {
                let loc = verif_harness::LAST_PANIC.lock().map(|mut g| g.take()).unwrap_or(None).unwrap_or_else(|| "?".into());
                ThreadEnd::Panic(loc, LAST_WAS_POISON.swap(false, std::sync::atomic::Ordering::SeqCst))
            }
        }
    }
}

fn finish_line(p: &mut Prepared, kind: &str, word: &[usize], ends: Vec<ThreadEnd>, metas: Vec<Vec<Meta>>, traces: Vec<Vec<u8>>, deadlock: &str, flags: (bool, bool)) -> String {
    let mut line = Line::new();
    line.tok("KR").tok(kind).tok(word.len());
    for i in word {
        line.tok(i);
    }
    line.tok("REP").tok(ends.len());
    for (end, ms) in ends.into_iter().zip(metas.iter()) {
        let toks: Vec<String> = match end {
            ThreadEnd::Replies(rs) => {
                // a chain thread reports one token for all its events; a request its reply
                let mut out = Vec::new();
                for (r, m) in rs.into_iter().zip(ms.iter()) {
                    out = p.w.render(m, r);
                }
                out
            }
            ThreadEnd::Panic(loc, poison) => vec![if poison { "XP".into() } else { "X".into() }, loc],
            ThreadEnd::Killed => vec!["K".into()],
        };
        line.tok(toks.len());
        for t in toks {
            line.tok(t);
        }
    }
    line.tok("TR").tok(traces.len());
    for t in &traces {
        line.tok(t.len());
        for l in t {
            line.tok(l);
        }
    }
    line.tok("RPC");
    p.w.rpc_tokens(&mut line);
    line.tok("ST");
    p.w.state_tokens(&mut line);
    let alive = p.w.alive();
    line.tok("FL").tok(deadlock).tok(alive as u8).tok(flags.0 as u8).tok(flags.1 as u8);
    line.0
}

/// one controlled run: the choices of `prefix`, then non-preemptive continuation
fn run_schedule(case: &Case, prefix: &[usize], ctl: &Arc<Ctl>, init: &[(u64, bitcoin::Block)], dir: &PathBuf) -> Result<(RunOut, String), String> {
    let mut p = prepare(case, init, dir)?;
    begin_script(&mut p.w, &case.script);
    let n = p.calls.len();
    ctl.reset(n);
    let runner = p.w.runner();
    let mut rxs = Vec::new();
    let mut metas: Vec<Vec<Meta>> = Vec::new();
    let calls = std::mem::take(&mut p.calls);
    let mut handles = Vec::new();
    for (i, cs) in calls.into_iter().enumerate() {
        let (cv, ms): (Vec<Call>, Vec<Meta>) = cs.into_iter().unzip();
        metas.push(ms);
        let (tx, rx) = mpsc::channel();
        rxs.push(rx);
        let ctl2 = ctl.clone();
        let runner2 = runner.clone();
        ctl.mark_running(i);
        handles.push(std::thread::spawn(move || {
            ctl2.register_current(i);
            let end = run_calls(&runner2, cv);
            ctl2.finish_current(i);
            let _ = tx.send(end);
        }));
        // what a thread does before its first lock request happens when it is started
        ctl.wait_quiescent();
    }
    let mut word: Vec<usize> = Vec::new();
    let mut points: Vec<Point> = Vec::new();
    let mut last: Option<usize> = None;
    let mut deadlock = String::from("-");
    let mut nondet = false;
    loop {
        ctl.wait_quiescent();
        if ctl.all_done() {
            break;
        }
        let en = ctl.enabled();
        if en.is_empty() {
            // every unfinished thread is parked on a lock that another parked thread holds
            deadlock = ctl.wait_for().join(",");
            ctl.kill_parked();
            ctl.wait_quiescent();
            break;
        }
        let k = points.len();
        let choice = if k < prefix.len() {
            if !en.contains(&prefix[k]) {
                nondet = true;
                en[0]
            } else {
                prefix[k]
            }
        } else {
            match last {
                Some(l) if en.contains(&l) => l,
                _ => en[0],
            }
        };
        points.push(Point { enabled: en, last });
        word.push(choice);
        last = Some(choice);
        ctl.grant(choice);
    }
    let mut ends = Vec::new();
    for rx in rxs {
        ends.push(rx.recv_timeout(Duration::from_secs(30)).unwrap_or(ThreadEnd::Killed));
    }
    for h in handles {
        let _ = h.join();
    }
    let traces = ctl.traces();
    let unexpected_wait = ctl.lock().unexpected_wait;
    let header = p.header.clone();
    let line = finish_line(&mut p, "S", &word, ends, metas, traces, &deadlock, (unexpected_wait, nondet));
    let dir2 = p.w.dir.clone();
    drop(p);
    let _ = std::fs::remove_dir_all(dir2);
    Ok((RunOut { word, points, line }, header))
}

/// the same operations one after the other (thread order `perm`), no scheduler involved
fn run_sequential(case: &Case, perm: &[usize], init: &[(u64, bitcoin::Block)], dir: &PathBuf) -> Result<String, String> {
    let mut p = prepare(case, init, dir)?;
    begin_script(&mut p.w, &case.script);
    let runner = p.w.runner();
    let n = p.calls.len();
    let mut calls: Vec<Option<Vec<(Call, Meta)>>> = std::mem::take(&mut p.calls).into_iter().map(Some).collect();
    let mut ends: Vec<Option<ThreadEnd>> = (0..n).map(|_| None).collect();
    let mut metas: Vec<Vec<Meta>> = (0..n).map(|_| Vec::new()).collect();
    for &i in perm {
        let (cv, ms): (Vec<Call>, Vec<Meta>) = calls[i].take().unwrap().into_iter().unzip();
        metas[i] = ms;
        ends[i] = Some(run_calls(&runner, cv));
    }
    let ends: Vec<ThreadEnd> = ends.into_iter().map(|e| e.unwrap()).collect();
    let line = finish_line(&mut p, "Q", perm, ends, metas, vec![Vec::new(); n], "-", (false, false));
    let dir2 = p.w.dir.clone();
    drop(p);
    let _ = std::fs::remove_dir_all(dir2);
    Ok(line)
}

fn permutations(n: usize) -> Vec<Vec<usize>> {
    if n == 0 {
        return vec![vec![]];
    }
    let mut out = Vec::new();
    for p in permutations(n - 1) {
        for pos in 0..=p.len() {
            let mut q = p.clone();
            q.insert(pos, n - 1);
            out.push(q);
        }
    }
    out.sort();
    out
}

fn preemptions(points: &[Point], word: &[usize]) -> usize {
    points
        .iter()
        .zip(word.iter())
        .filter(|(pt, c)| match pt.last {
            Some(l) => l != **c && pt.enabled.contains(&l),
            None => false,
        })
        .count()
}

/// all schedules of the case up to its preemption bound (or only `only`), preceded by the sequential orders
fn run_case(case: &Case, only: Option<&[usize]>, ctl: &Arc<Ctl>, init: &[(u64, bitcoin::Block)], tag: &str, out: &mut dyn Write) -> Result<usize, String> {
    let dir = work_dir(tag);
    let mut header_written = false;
    let mut lines: Vec<String> = Vec::new();
    for perm in permutations(case.threads.len()) {
        lines.push(run_sequential(case, &perm, init, &dir)?);
    }
    let mut runs = 0usize;
    let mut stack: Vec<Vec<usize>> = vec![only.map(|w| w.to_vec()).unwrap_or_default()];
    while let Some(prefix) = stack.pop() {
        let (r, header) = run_schedule(case, &prefix, ctl, init, &dir)?;
        if !header_written {
            writeln!(out, "KH {header}").map_err(|e| e.to_string())?;
            for l in lines.drain(..) {
                writeln!(out, "{l}").map_err(|e| e.to_string())?;
            }
            header_written = true;
        }
        writeln!(out, "{}", r.line).map_err(|e| e.to_string())?;
        runs += 1;
        if only.is_some() {
            break;
        }
        for idx in prefix.len()..r.points.len() {
            let base = preemptions(&r.points[..idx], &r.word[..idx]);
            let pt = &r.points[idx];
            for &alt in &pt.enabled {
                if alt == r.word[idx] {
                    continue;
                }
                let extra = match pt.last {
                    Some(l) => (l != alt && pt.enabled.contains(&l)) as usize,
                    None => 0,
                };
                if base + extra <= case.bound {
                    let mut np = r.word[..idx].to_vec();
                    np.push(alt);
                    stack.push(np);
                }
            }
        }
    }
    writeln!(out, "KE {} {} {}", case.name, runs, if only.is_some() { "partial" } else { "all" }).map_err(|e| e.to_string())?;
    Ok(runs)
}

fn main() {
    let args: Vec<String> = std::env::args().collect();
    if args.len() < 2 {
        eprintln!("usage: conc run <out> <shard> <nshards> | conc replay <cases> <out> | conc list");
        std::process::exit(2);
    }
    install_hooks();
    verif_harness::install_null_logger();
    let thorough = std::env::var("VERIF_TIER").map(|t| t == "thorough").unwrap_or(false);
    let init = initial_chain();
    let ctl: Arc<Ctl> = Arc::new(Ctl::default());
    teos::verif_sync::set_observer(Some(ctl.clone()));
    match args[1].as_str() {
        "list" => {
            for c in cases(thorough) {
                println!("{} threads={} bound={}", c.name, c.threads.len(), c.bound);
            }
        }
        "run" => {
            let shard: usize = args.get(3).and_then(|s| s.parse().ok()).unwrap_or(0);
            let nshards: usize = args.get(4).and_then(|s| s.parse().ok()).unwrap_or(1);
            let filter = std::env::var("VERIF_CONC_CASES").ok();
            let bound_override: Option<usize> = std::env::var("VERIF_CONC_BOUND").ok().and_then(|s| s.parse().ok());
            let mut out = std::io::BufWriter::new(std::fs::File::create(&args[2]).unwrap());
            let mut all = cases(thorough);
            if let Some(f) = &filter {
                all.retain(|c| f.split(',').any(|x| c.name.contains(x)));
            }
            for (k, c) in all.iter_mut().enumerate() {
                if k % nshards != shard {
                    continue;
                }
                if let Some(b) = bound_override {
                    c.bound = b;
                }
                let t0 = Instant::now();
                match run_case(c, None, &ctl, &init, &format!("{shard}"), &mut out) {
                    Ok(n) => eprintln!("conc: {} : {} schedules in {:.1}s", c.name, n, t0.elapsed().as_secs_f64()),
                    Err(e) => {
                        eprintln!("conc: {}: {}", c.name, e);
                        writeln!(out, "KX {} {}", c.name, e.replace(' ', "_")).unwrap();
                    }
                }
            }
            out.flush().unwrap();
        }
        "replay" => {
            let text = std::fs::read_to_string(&args[2]).unwrap();
            let mut out = std::io::BufWriter::new(std::fs::File::create(&args[3]).unwrap());
            let mut all = cases(false);
            for c in cases(true) {
                if !all.iter().any(|x| x.name == c.name) {
                    all.push(c);
                }
            }
            for l in text.lines() {
                let toks: Vec<&str> = l.split_whitespace().collect();
                if toks.first() != Some(&"REPLAY") || toks.len() < 3 {
                    continue;
                }
                let n: usize = toks[2].parse().unwrap_or(0);
                let word: Vec<usize> = toks[3..3 + n.min(toks.len() - 3)].iter().filter_map(|x| x.parse().ok()).collect();
                match all.iter().find(|c| c.name == toks[1]) {
                    Some(c) => {
                        if let Err(e) = run_case(c, Some(&word), &ctl, &init, "replay", &mut out) {
                            writeln!(out, "KX {} {}", c.name, e.replace(' ', "_")).unwrap();
                        }
                    }
                    None => writeln!(out, "KX {} unknown-case", toks[1]).unwrap(),
                }
            }
            out.flush().unwrap();
        }
        _ => std::process::exit(2),
    }
    teos::verif_sync::set_observer(None);
    std::process::exit(0);
}
